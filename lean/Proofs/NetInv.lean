import Proofs.Send
import Proofs.OwnerCompact
/-!
# The network invariant behind C02 and its preservation by every step except `expire`
-/
namespace Piko.Gossip
open Piko

/-- the network plus the ghost history of every owner -/
structure GNet where
  net : Net := {}
  hist : String → List Entry := fun _ => []

def GNet.world (g : GNet) : World :=
  fun a => (g.net.nodes.find a).map (fun s => (g.hist a, own s))

def GNet.step (g : GNet) (op : Op) : GNet :=
  { net := (g.net.step op).net,
    hist := fun a => match (g.net.step op).net.nodes.find a with
      | some s => histAfter (g.hist a) (own s)
      | none => g.hist a }

/-- what C02 quantifies over: no expiry, no writes to the two reserved keys, and version
counters below 2^64 when a compaction formats one -/
def StepAllowed (g : GNet) : Op → Prop
  | .expire _ _ => False
  | .upsert _ k _ => k ≠ leftKey ∧ k ≠ compactKey
  | .delete _ k => k ≠ leftKey ∧ k ≠ compactKey
  | .compact n _ => ∀ s, g.net.nodes.find n = some s → (own s).version < 2^64
  | _ => True

structure NodeOK (g : GNet) (id : String) (s : CState) : Prop where
  lid : s.localId = id
  nd : s.nodes.NoDupKeys
  recv : RecvInv g.world s
  owner : OwnerInv (g.hist id) (own s)
  ownId : (own s).id = id

structure NetInv (g : GNet) : Prop where
  nd : g.net.nodes.NoDupKeys
  histNone : ∀ a, g.net.nodes.find a = none → g.hist a = []
  node : ∀ id s, g.net.nodes.find id = some s → NodeOK g id s
  addrUniq : ∀ r₁ s₁ r₂ s₂, g.net.nodes.find r₁ = some s₁ → g.net.nodes.find r₂ = some s₂ →
    (own s₁).addr = (own s₂).addr → r₁ = r₂
  digests : ∀ src sa dst req d, Packet.digest src sa dst req d ∈ g.net.pool →
    ∃ ss, g.net.nodes.find src = some ss ∧ (own ss).addr = sa ∧
      ∀ de ∈ d, ∃ n, ss.nodes.find de.id = some n ∧ de.version ≤ n.version
  deltas : ∀ src sa dst d, Packet.delta src sa dst d ∈ g.net.pool →
    ∀ r sr, g.net.nodes.find r = some sr → (own sr).addr = dst → ∀ de ∈ d, DeOK g.world sr de
  /-- a delta is always addressed to an existing node (it answers that node's digest) -/
  deltaDst : ∀ src sa dst d, Packet.delta src sa dst d ∈ g.net.pool →
    ∃ r sr, g.net.nodes.find r = some sr ∧ (own sr).addr = dst

theorem NetInv.worldOK {g : GNet} (h : NetInv g) : WorldOK g.world := by
  constructor
  intro a H O hW
  unfold GNet.world at hW
  cases hf : g.net.nodes.find a with
  | none => simp [hf] at hW
  | some s =>
    simp only [hf, Option.map_some, Option.some.injEq, Prod.mk.injEq] at hW
    obtain ⟨rfl, rfl⟩ := hW
    exact (h.node a s hf).owner

/-! ### the invariants depend on the history only through membership -/

theorem OwnerInv.congr {H H' : List Entry} {O : NodeSt} (e : ∀ x, x ∈ H' ↔ x ∈ H) (h : OwnerInv H O) :
    OwnerInv H' O :=
  ⟨h.wf, fun k x hf => (e x).mpr (h.cur k x hf), fun x hx => h.pos x ((e x).mp hx),
   fun x hx => h.hb x ((e x).mp hx), fun a ha b hb => h.inj a ((e a).mp ha) b ((e b).mp hb),
   fun x hx => h.newest x ((e x).mp hx), fun x hx => h.internalKeys x ((e x).mp hx),
   fun c hc => h.markers c ((e c).mp hc), fun x hx => h.aboveFloor x ((e x).mp hx),
   fun x hx => h.top x ((e x).mp hx)⟩

theorem ViewInv.congr {H H' : List Entry} {O V : NodeSt} (e : ∀ x, x ∈ H' ↔ x ∈ H) (h : ViewInv H O V) :
    ViewInv H' O V :=
  ⟨h.wf, fun k x hf => (e x).mpr (h.genuine k x hf), h.bounded, h.le, h.complete, h.aboveOwnMarker⟩

theorem PktInv.congr {H H' : List Entry} {O : NodeSt} {v0 : Nat} {es : List Entry}
    (e : ∀ x, x ∈ H' ↔ x ∈ H) (h : PktInv H O v0 es) : PktInv H' O v0 es :=
  ⟨h.sorted, fun x hx => (e x).mpr (h.genuine x hx), h.base, h.complete⟩

/-- how a step changes the world: every owner makes an `OwnerStepOK` move (history up to
membership) -/
def WorldStep (W W' : World) : Prop :=
  ∀ a H O, W a = some (H, O) → ∃ H' O', W' a = some (H', O') ∧
    (∀ x, x ∈ H' ↔ x ∈ histAfter H O') ∧ OwnerStepOK H O O'

theorem RecvInv.transfer {W W' : World} {s : CState} (hw : WorldStep W W') (h : RecvInv W s) :
    RecvInv W' s := by
  refine ⟨h.ownPresent, h.ids, ?_, ?_⟩
  · intro a V hf
    obtain ⟨H, O, hW⟩ := h.known a V hf
    obtain ⟨H', O', hW', _⟩ := hw a H O hW
    exact ⟨_, _, hW'⟩
  · intro a V H' O' hf hal hW'
    obtain ⟨H, O, hW⟩ := h.known a V hf
    obtain ⟨H'', O'', hW'', heq, hok⟩ := hw a H O hW
    rw [hW''] at hW'; cases hW'
    exact (hok.view V (h.views a V H O hf hal hW)).congr heq

theorem DeOK.transfer {W W' : World} {s : CState} {de : DeltaEntry} (hw : WorldStep W W')
    (h : DeOK W s de) : DeOK W' s de := by
  intro hl
  obtain ⟨H, O, v0, hW, _, hp, hb⟩ := h hl
  obtain ⟨H', O', hW', heq, hok⟩ := hw de.id H O hW
  exact ⟨H', O', v0, hW', hok.owner.congr heq, (hok.pkt v0 _ hp).congr heq, hb⟩

/-- a delta entry computed for base `v0 = 0`, or for a digest claim the receiver has reached -/
theorem deOK_of_spec {W : World} {sr : CState} (hw : WorldOK W) {x : DeltaEntry} {d : Digest}
    (hclaims : ∀ de ∈ d, ∃ n, sr.nodes.find de.id = some n ∧ de.version ≤ n.version)
    (hx : ∃ H O v0, W x.id = some (H, O) ∧ PktInv H O v0 x.entries ∧
      (v0 = 0 ∨ ∃ de ∈ d, de.id = x.id ∧ de.version = v0)) : DeOK W sr x := by
  intro _
  obtain ⟨H, O, v0, hW, hp, hv⟩ := hx
  refine ⟨H, O, v0, hW, hw.owners _ _ _ hW, hp, ?_⟩
  unfold BaseOK
  rcases hv with rfl | ⟨de, hde, hid, rfl⟩
  · cases sr.nodes.find x.id <;> simp
  · obtain ⟨n, hn, hle⟩ := hclaims de hde
    rw [← hid, hn]; exact hle

theorem deOK_take {W : World} {s : CState} {x y : DeltaEntry} (h : DeOK W s y)
    (hid : x.id = y.id) (m : Nat) (he : x.entries = y.entries.take m) : DeOK W s x := by
  intro hl
  rw [hid] at hl
  obtain ⟨H, O, v0, hW, ho, hp, hb⟩ := h hl
  exact ⟨H, O, v0, hid ▸ hW, ho, he ▸ hp.take m, hid ▸ hb⟩

/-- the ghost history of `g'` is, up to membership, the history of `g` extended with the
current own entries of every node -/
def HistExt (g g' : GNet) : Prop :=
  ∀ a x, x ∈ g'.hist a ↔ x ∈ (match g'.net.nodes.find a with
    | some s => histAfter (g.hist a) (own s)
    | none => g.hist a)

/-- one node `r` moves from `sr` to `sr'` (its own node making an `OwnerStepOK` move), every
other node is unchanged: the world makes a `WorldStep` -/
theorem worldStep_update {g g' : GNet} (h : NetInv g) {r : String} {sr sr' : CState}
    (hfind : g.net.nodes.find r = some sr)
    (hnet : g'.net.nodes = g.net.nodes.insert r sr') (hhist : HistExt g g')
    (hstep : OwnerStepOK (g.hist r) (own sr) (own sr')) : WorldStep g.world g'.world := by
  intro a H O hW
  unfold GNet.world at hW ⊢
  cases hf : g.net.nodes.find a with
  | none => simp [hf] at hW
  | some s =>
    simp only [hf, Option.map_some, Option.some.injEq, Prod.mk.injEq] at hW
    obtain ⟨rfl, rfl⟩ := hW
    by_cases hra : r = a
    · subst hra
      rw [hfind] at hf; cases hf
      have hf' : g'.net.nodes.find r = some sr' := by rw [hnet]; simp
      refine ⟨g'.hist r, own sr', by simp [hf'], ?_, hstep⟩
      intro x; have := hhist r x; rw [hf'] at this; exact this
    · have hf' : g'.net.nodes.find a = some s := by
        rw [hnet, AMap.find_insert_ne _ _ (fun e => hra e.symm)]; exact hf
      refine ⟨g'.hist a, own s, by simp [hf'], ?_, noop_ok (h.node a s hf).owner⟩
      intro x; have := hhist a x; rw [hf'] at this; exact this

theorem NetInv.update {g g' : GNet} (h : NetInv g) {r : String} {sr sr' : CState} {newPkts : List Packet}
    (hfind : g.net.nodes.find r = some sr)
    (hnet : g'.net.nodes = g.net.nodes.insert r sr') (hpool : g'.net.pool = g.net.pool ++ newPkts)
    (hhist : HistExt g g')
    (hstep : OwnerStepOK (g.hist r) (own sr) (own sr'))
    (hlid : sr'.localId = r) (hnd : sr'.nodes.NoDupKeys) (hrecv : RecvInv g'.world sr')
    (hkeep : ∀ a n, sr.nodes.find a = some n → ∃ n', sr'.nodes.find a = some n' ∧ n.version ≤ n'.version)
    (hbase : ∀ a v0, BaseOK sr a v0 → BaseOK sr' a v0)
    (hnewDig : ∀ src sa dst req d, Packet.digest src sa dst req d ∈ newPkts →
      ∃ ss, g'.net.nodes.find src = some ss ∧ (own ss).addr = sa ∧
        ∀ de ∈ d, ∃ n, ss.nodes.find de.id = some n ∧ de.version ≤ n.version)
    (hnewDel : ∀ src sa dst d, Packet.delta src sa dst d ∈ newPkts →
      ∀ r' sr'', g'.net.nodes.find r' = some sr'' → (own sr'').addr = dst → ∀ de ∈ d, DeOK g'.world sr'' de)
    (hnewDst : ∀ src sa dst d, Packet.delta src sa dst d ∈ newPkts →
      ∃ r' sr'', g'.net.nodes.find r' = some sr'' ∧ (own sr'').addr = dst) :
    NetInv g' := by
  have hws := worldStep_update h hfind hnet hhist hstep
  have hfind' : ∀ a, g'.net.nodes.find a = if r = a then some sr' else g.net.nodes.find a := by
    intro a; rw [hnet, AMap.find_insert]
  have haddr : (own sr').addr = (own sr).addr := hstep.same.2
  have hsrlid : sr.localId = r := (h.node r sr hfind).lid
  refine ⟨by rw [hnet]; exact h.nd.insert _ _, ?_, ?_, ?_, ?_, ?_, ?_⟩
  · intro a hf
    rw [hfind' a] at hf
    by_cases hra : r = a
    · simp [hra] at hf
    · simp only [hra, if_false] at hf
      apply List.eq_nil_iff_forall_not_mem.mpr
      intro x hx
      have := (hhist a x).mp hx
      rw [hfind' a] at this
      simp only [hra, if_false, hf] at this
      rw [h.histNone a hf] at this; simp at this
  · intro id s hf
    rw [hfind' id] at hf
    by_cases hra : r = id
    · subst hra
      simp only [if_true, Option.some.injEq] at hf; subst hf
      have hf' : g'.net.nodes.find r = some sr' := by rw [hfind' r]; simp
      refine ⟨hlid, hnd, hrecv, ?_, ?_⟩
      · apply hstep.owner.congr
        intro x; have := hhist r x; rw [hf'] at this; exact this
      · rw [hstep.same.1]; exact (h.node r sr hfind).ownId
    · simp only [hra, if_false] at hf
      have hold := h.node id s hf
      have hf' : g'.net.nodes.find id = some s := by rw [hfind' id]; simp [hra, hf]
      refine ⟨hold.lid, hold.nd, hold.recv.transfer hws, ?_, hold.ownId⟩
      apply (noop_ok hold.owner).owner.congr
      intro x; have := hhist id x; rw [hf'] at this; exact this
  · intro r₁ s₁ r₂ s₂ h1 h2 ha
    rw [hfind' r₁] at h1; rw [hfind' r₂] at h2
    by_cases e1 : r = r₁ <;> by_cases e2 : r = r₂
    · rw [← e1, ← e2]
    · simp only [e1, if_true, Option.some.injEq] at h1; subst h1
      simp only [e2, if_false] at h2
      rw [haddr] at ha
      rw [← e1]; exact h.addrUniq r sr r₂ s₂ hfind h2 ha
    · simp only [e2, if_true, Option.some.injEq] at h2; subst h2
      simp only [e1, if_false] at h1
      rw [haddr] at ha
      rw [← e2]; exact h.addrUniq r₁ s₁ r sr h1 hfind ha
    · simp only [e1, if_false] at h1; simp only [e2, if_false] at h2
      exact h.addrUniq r₁ s₁ r₂ s₂ h1 h2 ha
  · intro src sa dst req d hp
    rw [hpool] at hp
    rcases List.mem_append.mp hp with hp | hp
    · obtain ⟨ss, hss, hsa, hcl⟩ := h.digests src sa dst req d hp
      by_cases hra : r = src
      · subst hra
        rw [hfind] at hss; cases hss
        refine ⟨sr', by rw [hfind' r]; simp, by rw [haddr]; exact hsa, ?_⟩
        intro de hde
        obtain ⟨n, hn, hle⟩ := hcl de hde
        obtain ⟨n', hn', hle'⟩ := hkeep _ _ hn
        exact ⟨n', hn', Nat.le_trans hle hle'⟩
      · exact ⟨ss, by rw [hfind' src]; simp [hra, hss], hsa, hcl⟩
    · exact hnewDig src sa dst req d hp
  · intro src sa dst d hp
    rw [hpool] at hp
    rcases List.mem_append.mp hp with hp | hp
    · intro r' sr'' hf' hdst de hde
      rw [hfind' r'] at hf'
      by_cases hra : r = r'
      · subst hra
        simp only [if_true, Option.some.injEq] at hf'; subst hf'
        have hold := (h.deltas src sa dst d hp r sr hfind (by rw [← haddr]; exact hdst) de hde).transfer hws
        intro hl
        rw [hlid] at hl
        obtain ⟨H, O, v0, h1, h2, h3, h4⟩ := hold (by rw [hsrlid]; exact hl)
        exact ⟨H, O, v0, h1, h2, h3, hbase _ _ h4⟩
      · simp only [hra, if_false] at hf'
        exact (h.deltas src sa dst d hp r' sr'' hf' hdst de hde).transfer hws
    · exact hnewDel src sa dst d hp
  · intro src sa dst d hp
    rw [hpool] at hp
    rcases List.mem_append.mp hp with hp | hp
    · obtain ⟨r0, s0, hf0, ha0⟩ := h.deltaDst src sa dst d hp
      by_cases hra : r = r0
      · subst hra
        rw [hfind] at hf0; cases hf0
        exact ⟨r, sr', by rw [hfind' r]; simp, by rw [haddr]; exact ha0⟩
      · exact ⟨r0, s0, by rw [hfind' r0]; simp [hra, hf0], ha0⟩
    · exact hnewDst src sa dst d hp

end Piko.Gossip
