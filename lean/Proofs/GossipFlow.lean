import Proofs.C11
import Proofs.C17
import Proofs.NetSteps2
import PikoModel.Gossip.Watch
/-!
# Where gossip entries come from ("flow" invariants)

Gossip only copies entries: from an owner's own map into deltas, from deltas into views, from
views into relayed deltas.  So a property `P a e` of entries `e` *about node `a`* that holds of
everything the owners write (and does not depend on the version, which compaction rewrites) holds
of every entry in every view and every pooled delta; likewise a view is flagged `left` only if a
left marker about that node was applied (`L a`).  And every `OnUpsertKey(a, k, v)` notification
stems from such an entry.

This file proves that closure for the functions of `Gossip/State.lean` and for `Net.step`
(`FlowInv`).  It is used three times by the system model (`Proofs/SysInv.lean`): deltas flag
`Internal` exactly on reserved keys (C14's input restriction `deltaOK`), a view says `left` only if
its owner has left, address keys only ever carry the owner's boot addresses.
-/
set_option linter.unusedSimpArgs false
namespace Piko.Gossip.Flow
open Piko Piko.Gossip

variable (P : String → Entry → Prop) (L : String → Prop)

/-- one stored node (own or a view), about node `a` -/
def ViewGood (a : String) (V : NodeSt) : Prop :=
  V.id = a ∧ (∀ p ∈ V.entries, P a p.2) ∧ (V.left = true → L a)

/-- a whole `clusterState` -/
def StGood (s : CState) : Prop := ∀ p ∈ s.nodes, ViewGood P L p.1 p.2

def DeltaGood (d : Delta) : Prop := ∀ de ∈ d, ∀ e ∈ de.entries, P de.id e

/-- an `upsert` notification stems from a good, visible entry with that key and value -/
def UpsertOK : Event → Prop
  | .upsert a k v => ∃ e, P a e ∧ e.key = k ∧ e.value = v ∧ e.deleted = false ∧ e.internal = false
  | _ => True

/-- not a `reachable`/`unreachable`/`expired` notification -/
def NotLive : Event → Prop
  | .reachable _ | .unreachable _ | .expired _ => False
  | _ => True

variable {P L}

theorem StGood.find {s : CState} (h : StGood P L s) {a : String} {V : NodeSt}
    (hf : s.nodes.find a = some V) : ViewGood P L a V := h (a, V) (AMap.mem_of_find hf)

theorem StGood.insert {s : CState} (h : StGood P L s) {a : String} {V : NodeSt}
    (hv : ViewGood P L a V) : StGood P L { s with nodes := s.nodes.insert a V } := by
  intro p hp
  rcases C11.mem_insert hp with rfl | hp
  · exact hv
  · exact h p hp

theorem StGood.mono {P' : String → Entry → Prop} {L' : String → Prop} {s : CState}
    (h : StGood P L s) (hp : ∀ a e, P a e → P' a e) (hl : ∀ a, L a → L' a) : StGood P' L' s :=
  fun p hm => ⟨(h p hm).1, fun q hq => hp _ _ ((h p hm).2.1 q hq), fun hh => hl _ ((h p hm).2.2 hh)⟩

theorem DeltaGood.mono {P' : String → Entry → Prop} {d : Delta}
    (h : DeltaGood P d) (hp : ∀ a e, P a e → P' a e) : DeltaGood P' d :=
  fun de hd e he => hp _ _ (h de hd e he)

theorem viewGood_fresh (id addr : String) : ViewGood P L id { id := id, addr := addr } :=
  ⟨rfl, fun p hp => by simp at hp, fun h => by simp at h⟩

theorem viewGood_flags {a : String} {V V' : NodeSt} (h : ViewGood P L a V) (hid : V'.id = V.id)
    (he : V'.entries = V.entries) (hl : V'.left = V.left) : ViewGood P L V'.id V' := by
  have e : V'.id = a := hid.trans h.1
  rw [e]
  exact ⟨e, fun p hp => h.2.1 p (he ▸ hp), fun hh => h.2.2 (hl ▸ hh)⟩

/-! ## receive side -/

section recv
variable (hm : ∀ a e, P a e → e.internal = true → e.key = leftKey → L a)
include hm

theorem applyEntry_good (now : Nat) {a : String} {st : NodeSt} {e : Entry}
    (h : ViewGood P L a st) (he : P a e) :
    ViewGood P L a (applyEntry now st e).1 ∧
      ∀ x ∈ (applyEntry now st e).2.1, UpsertOK P x ∧ NotLive x ∧ x.node = a := by
  constructor
  · rcases C11.applyEntry_shape now st e with h1 | ⟨_, hmem, hid, _, _, _, hl⟩
    · rw [h1]; exact h
    · refine ⟨hid.trans h.1, ?_, ?_⟩
      · intro p hp
        rcases hmem p hp with rfl | hp
        · exact he
        · exact h.2.1 p hp
      · intro hleft
        by_cases hmk : C11.isLeftMarker e
        · exact hm a e he hmk.1 hmk.2
        · rw [if_neg hmk] at hl; rw [hl.1] at hleft; exact h.2.2 hleft
  · intro x hx
    have hid := h.1
    unfold applyEntry at hx
    by_cases hv : e.version ≤ st.version
    · simp [hv] at hx
    · simp only [hv, if_false] at hx
      cases hi : e.internal with
      | true =>
        simp only [hi, if_true] at hx
        by_cases hl : e.key = leftKey
        · simp only [hl, if_true, List.mem_cons, List.not_mem_nil, or_false] at hx
          subst hx; exact ⟨trivial, trivial, hid⟩
        · simp only [hl, if_false] at hx
          by_cases hc : e.key = compactKey
          · simp only [hc, if_true] at hx
            cases hp : parseUint64 e.value with
            | none => simp [hp] at hx
            | some cv =>
              simp only [hp, List.mem_map] at hx
              obtain ⟨y, _, rfl⟩ := hx
              exact ⟨trivial, trivial, hid⟩
          · simp [hc] at hx
      | false =>
        simp only [hi, Bool.false_eq_true, if_false] at hx
        cases hd : e.deleted with
        | true =>
          simp only [hd, if_true, List.mem_cons, List.not_mem_nil, or_false] at hx
          subst hx; exact ⟨trivial, trivial, hid⟩
        | false =>
          simp only [hd, Bool.false_eq_true, if_false, List.mem_cons, List.not_mem_nil, or_false] at hx
          subst hx
          exact ⟨⟨e, hid ▸ he, rfl, rfl, hd, hi⟩, trivial, hid⟩

theorem applyEntries_good (now : Nat) {a : String} : ∀ (es : List Entry) {st : NodeSt},
    ViewGood P L a st → (∀ e ∈ es, P a e) →
    ViewGood P L a (applyEntries now st es).1 ∧
      ∀ x ∈ (applyEntries now st es).2, UpsertOK P x ∧ NotLive x ∧ x.node = a
  | [], st, h, _ => ⟨h, fun x hx => by simp [applyEntries] at hx⟩
  | e :: es, st, h, he => by
    have h1 := applyEntry_good hm now h (he e (List.mem_cons_self ..))
    rw [C11.applyEntries_cons]
    split
    · exact h1
    · have h2 := applyEntries_good now es h1.1 (fun x hx => he x (List.mem_cons_of_mem _ hx))
      refine ⟨h2.1, fun x hx => ?_⟩
      rcases List.mem_append.mp hx with hx | hx
      · exact h1.2 x hx
      · exact h2.2 x hx

theorem applyDeltaEntry_good (now : Nat) {s : CState} {de : DeltaEntry} (h : StGood P L s)
    (hd : ∀ e ∈ de.entries, P de.id e) :
    StGood P L (applyDeltaEntry now s de).1 ∧
      ∀ x ∈ (applyDeltaEntry now s de).2, UpsertOK P x ∧ NotLive x := by
  rw [C11.applyDeltaEntry_fst, C11.applyDeltaEntry_snd]
  by_cases hl : de.id = s.localId
  · simp only [hl, if_true]
    exact ⟨h, fun x hx => by simp at hx⟩
  · simp only [hl, if_false]
    have hv : ViewGood P L de.id (C11.viewOf s de) := by
      cases hf : s.nodes.find de.id with
      | some n => rw [C11.viewOf_of_find hf]; exact h.find hf
      | none => rw [C11.viewOf_of_none hf]; exact viewGood_fresh _ _
    have h2 := applyEntries_good hm now de.entries hv hd
    refine ⟨h.insert h2.1, fun x hx => ?_⟩
    rcases List.mem_append.mp hx with hx | hx
    · cases hf : s.nodes.find de.id with
      | some n => simp [hf] at hx
      | none =>
        simp only [hf, List.mem_cons, List.not_mem_nil, or_false] at hx
        subst hx; exact ⟨trivial, trivial⟩
    · exact ⟨(h2.2 x hx).1, (h2.2 x hx).2.1⟩

theorem applyDelta_good (now : Nat) {s : CState} {d : Delta} (h : StGood P L s) (hd : DeltaGood P d) :
    StGood P L (applyDelta now s d).1 ∧ ∀ x ∈ (applyDelta now s d).2, UpsertOK P x ∧ NotLive x := by
  unfold applyDelta
  suffices hgen : ∀ (d : Delta) (acc : CState × List Event), StGood P L acc.1 →
      (∀ x ∈ acc.2, UpsertOK P x ∧ NotLive x) → DeltaGood P d →
      StGood P L (d.foldl (fun acc de => let (s', ev) := applyDeltaEntry now acc.1 de; (s', acc.2 ++ ev)) acc).1 ∧
      ∀ x ∈ (d.foldl (fun acc de => let (s', ev) := applyDeltaEntry now acc.1 de; (s', acc.2 ++ ev)) acc).2,
        UpsertOK P x ∧ NotLive x by
    exact hgen d (s, []) h (fun x hx => by simp at hx) hd
  intro d
  induction d with
  | nil => intro acc h1 h2 _; exact ⟨h1, h2⟩
  | cons de d ih =>
    intro acc h1 h2 hd
    rw [List.foldl_cons]
    have hstep := applyDeltaEntry_good hm now (de := de) h1 (hd de (List.mem_cons_self ..))
    apply ih
    · exact hstep.1
    · intro x hx
      rcases List.mem_append.mp hx with hx | hx
      · exact h2 x hx
      · exact hstep.2 x hx
    · exact fun de' hde' => hd de' (List.mem_cons_of_mem _ hde')

end recv

theorem applyDigest_good {s : CState} (d : Digest) (h : StGood P L s) :
    StGood P L (applyDigest s d).1 ∧ ∀ x ∈ (applyDigest s d).2, UpsertOK P x ∧ NotLive x := by
  unfold applyDigest
  suffices hgen : ∀ (d : Digest) (acc : CState × List Event), StGood P L acc.1 →
      (∀ x ∈ acc.2, UpsertOK P x ∧ NotLive x) →
      StGood P L (d.foldl applyDigestEntry acc).1 ∧
      ∀ x ∈ (d.foldl applyDigestEntry acc).2, UpsertOK P x ∧ NotLive x by
    exact hgen d (s, []) h (fun x hx => by simp at hx)
  intro d
  induction d with
  | nil => intro acc h1 h2; exact ⟨h1, h2⟩
  | cons de d ih =>
    intro acc h1 h2
    rw [List.foldl_cons]
    apply ih
    · unfold applyDigestEntry
      split
      · exact h1
      · split
        · exact h1
        · exact h1.insert (viewGood_fresh _ _)
    · unfold applyDigestEntry
      split
      · exact h2
      · split
        · exact h2
        · intro x hx
          rcases List.mem_append.mp hx with hx | hx
          · exact h2 x hx
          · simp only [List.mem_cons, List.not_mem_nil, or_false] at hx
            subst hx; exact ⟨trivial, trivial⟩

/-- `UpdateLiveness` changes `unreachable` and `expiry` only -/
theorem updateLiveness_good {s : CState} (f : String → Bool) (now : Nat) (h : StGood P L s) :
    StGood P L (updateLiveness s f now).1 := by
  unfold updateLiveness
  suffices hgen : ∀ (l : AMap String NodeSt) (acc : CState × List Event),
      (∀ p ∈ l, ViewGood P L p.1 p.2) → StGood P L acc.1 →
      StGood P L (l.foldl (livenessStep s.localId f now) acc).1 by
    exact hgen s.nodes (s, []) h h
  intro l
  induction l with
  | nil => intro acc _ h2; exact h2
  | cons q l ih =>
    intro acc h1 h2
    rw [List.foldl_cons]
    apply ih _ (fun p hp => h1 p (List.mem_cons_of_mem _ hp))
    have hq := h1 q (List.mem_cons_self ..)
    unfold livenessStep setNode
    simp only []
    split
    · exact h2
    · split
      · split
        · exact h2
        · exact h2.insert (viewGood_flags hq rfl rfl rfl)
      · split
        · exact h2.insert (viewGood_flags hq rfl rfl rfl)
        · exact h2

/-! ## send side -/

theorem deltaEntry_good {a : String} {n : NodeSt} (h : ViewGood P L a n) (from_ : Nat) :
    (deltaEntry n from_).id = a ∧ ∀ e ∈ (deltaEntry n from_).entries, P a e := by
  refine ⟨h.1, fun e he => ?_⟩
  simp only [deltaEntry, mem_sortByVersion, List.mem_filter, AMap.vals, List.mem_map] at he
  obtain ⟨⟨p, hp, rfl⟩, _⟩ := he
  exact h.2.1 p hp

theorem delta_good {s : CState} (h : StGood P L s) (d : Digest) (full : Bool) : DeltaGood P (delta s d full) := by
  intro de hde e he
  unfold delta at hde
  rcases List.mem_append.mp hde with hde | hde
  · simp only [List.mem_filterMap] at hde
    obtain ⟨dg, _, hdg⟩ := hde
    cases hf : s.nodes.find dg.id with
    | none => simp [hf] at hdg
    | some n =>
      simp only [hf] at hdg
      split at hdg
      · cases hdg
      · simp only [Option.some.injEq] at hdg
        subst hdg
        have := deltaEntry_good (h.find hf) dg.version
        rw [this.1]; exact this.2 e he
  · split at hde
    · simp only [List.mem_map, List.mem_filter, AMap.vals] at hde
      obtain ⟨n, ⟨⟨p, hp, rfl⟩, _⟩, rfl⟩ := hde
      have := deltaEntry_good (h p hp) 0
      rw [this.1]; exact this.2 e he
    · simp at hde

theorem localDelta_good {s : CState} (h : StGood P L s) : DeltaGood P (localDelta s) := by
  intro de hde e he
  simp only [localDelta, List.mem_cons, List.not_mem_nil, or_false] at hde
  subst hde
  unfold own at he ⊢
  cases hf : s.nodes.find s.localId with
  | none =>
    simp [hf, deltaEntry, sortByVersion, AMap.vals] at he
    rw [show (default : NodeSt).entries = [] from rfl] at he
    simp at he
  | some n =>
    simp only [hf, Option.getD_some] at he ⊢
    have := deltaEntry_good (h.find hf) 0
    rw [this.1]; exact this.2 e he

theorem cutDelta_good : ∀ (n : Nat) (d : Delta), DeltaGood P d → DeltaGood P (cutDelta n d)
  | 0, _, _ => by intro de hde; simp [cutDelta] at hde
  | _ + 1, [], _ => by intro de hde; simp [cutDelta] at hde
  | n + 1, de :: rest, h => by
    intro x hx e he
    unfold cutDelta at hx
    split at hx
    · simp only [List.mem_cons, List.not_mem_nil, or_false] at hx
      subst hx
      exact h de (List.mem_cons_self ..) e (List.mem_of_mem_take he)
    · rcases List.mem_cons.mp hx with rfl | hx
      · exact h _ (List.mem_cons_self ..) e he
      · exact cutDelta_good _ rest (fun y hy => h y (List.mem_cons_of_mem _ hy)) x hx e he

theorem sortDelta_good {d : Delta} (h : DeltaGood P d) : DeltaGood P (sortDelta d) :=
  fun de hde => h de (List.mem_mergeSort.mp hde)

/-! ## the owner's writes -/

theorem StGood.setOwn {s : CState} (h : StGood P L s) {n : NodeSt} (hn : ViewGood P L s.localId n) :
    StGood P L (setOwn s n) := h.insert hn

theorem own_good {s : CState} (h : StGood P L s) (hp : OwnPresent s) : ViewGood P L s.localId (own s) :=
  h.find (C11.find_own hp)

/-- one write of the owner (`UpsertLocal`/`DeleteLocal` when they write): the new entry must be good -/
theorem writeOwn_good {s : CState} (h : StGood P L s) (hp : OwnPresent s) (k : String) (mk : Nat → Entry)
    (hnew : P s.localId (mk ((own s).version + 1))) : StGood P L (writeOwn s k mk) := by
  have ho := own_good h hp
  unfold writeOwn
  apply h.setOwn
  refine ⟨ho.1, ?_, ho.2.2⟩
  intro p hp'
  rcases C11.mem_insert hp' with rfl | hp'
  · exact hnew
  · exact ho.2.1 p hp'

theorem upsertLocal_good {s : CState} (h : StGood P L s) (hp : OwnPresent s) (k v : String)
    (hnew : ∀ ver, P s.localId { key := k, value := v, version := ver }) : StGood P L (upsertLocal s k v) := by
  unfold upsertLocal
  split
  · split
    · exact h
    · exact writeOwn_good h hp _ _ (hnew _)
  · exact writeOwn_good h hp _ _ (hnew _)

theorem deleteLocal_good {s : CState} (h : StGood P L s) (hp : OwnPresent s) (k : String)
    (hnew : ∀ e ver, (own s).entries.find k = some e → P s.localId e →
      P s.localId { key := e.key, value := "", version := ver, internal := e.internal, deleted := true }) :
    StGood P L (deleteLocal s k) := by
  unfold deleteLocal
  split
  · exact h
  · next e hf =>
    split
    · exact h
    · apply writeOwn_good h hp
      exact hnew e _ hf ((own_good h hp).2.1 (k, e) (AMap.mem_of_find hf))

/-- `LeaveLocal`: afterwards the node has left (`L'`), and the marker must be good for `P'` -/
theorem leaveLocal_good {s : CState} (h : StGood P L s) (hp : OwnPresent s)
    (hnew : ∀ ver, P s.localId { key := leftKey, value := "", version := ver, internal := true })
    (hl : L s.localId) : StGood P L (leaveLocal s) := by
  have ho := own_good h hp
  unfold leaveLocal
  simp only []
  split
  · exact h
  · apply h.setOwn
    refine ⟨ho.1, ?_, fun _ => hl⟩
    intro p hp'
    rcases C11.mem_insert hp' with rfl | hp'
    · exact hnew _
    · exact ho.2.1 p hp'

/-- `CompactLocal`: `P` must not depend on the version (survivors are re-versioned) and must hold
of compaction markers -/
theorem compactLocal_good {s s' : CState} (h : StGood P L s) (hp : OwnPresent s) {thr : Nat}
    (hc : compactLocal s thr = some s')
    (hver : ∀ e ver, P s.localId e → P s.localId { e with version := ver })
    (hmk : ∀ v ver, P s.localId { key := compactKey, value := v, version := ver, internal := true }) :
    StGood P L s' := by
  have ho := own_good h hp
  rw [compactLocal_eq] at hc
  split at hc
  · cases hc; exact h
  · split at hc
    · cases hc
    · next lastE _ =>
      cases hc
      apply h.setOwn
      refine ⟨ho.1, ?_, ho.2.2⟩
      intro p hp'
      rcases mem_compacted hp' with rfl | ⟨_, e, he, heq, _, _⟩
      · exact hmk _ _
      · rw [heq]
        apply hver
        obtain ⟨hmem, _⟩ := mem_compactKept.mp he
        simp only [AMap.vals, List.mem_map] at hmem
        obtain ⟨q, hq, rfl⟩ := hmem
        exact ho.2.1 q hq

/-! ## the network -/

variable (P L) in
/-- every stored node of every `clusterState` and every pooled delta is good -/
structure FlowInv (net : Net) : Prop where
  nodes : ∀ p ∈ net.nodes, StGood P L p.2
  pool : ∀ src sa dst d, Packet.delta src sa dst d ∈ net.pool → DeltaGood P d

theorem FlowInv.find {net : Net} (h : FlowInv P L net) {id : String} {s : CState}
    (hf : net.nodes.find id = some s) : StGood P L s := h.nodes (id, s) (AMap.mem_of_find hf)

theorem FlowInv.byAddr {net : Net} (h : FlowInv P L net) {addr id : String} {s : CState}
    (hf : net.nodeByAddr addr = some (id, s)) : StGood P L s := by
  unfold Net.nodeByAddr at hf
  exact h.nodes (id, s) (List.mem_of_find?_eq_some hf)

theorem FlowInv.setNode {net : Net} (h : FlowInv P L net) (id : String) {s : CState} (hs : StGood P L s) :
    FlowInv P L (net.setNode id s) := by
  refine ⟨?_, h.pool⟩
  intro p hp
  rcases C11.mem_insert hp with rfl | hp
  · exact hs
  · exact h.nodes p hp

theorem FlowInv.mono {P' : String → Entry → Prop} {L' : String → Prop} {net : Net}
    (h : FlowInv P L net) (hp : ∀ a e, P a e → P' a e) (hl : ∀ a, L a → L' a) : FlowInv P' L' net :=
  ⟨fun p hm => (h.nodes p hm).mono hp hl, fun src sa dst d hd => (h.pool src sa dst d hd).mono hp⟩

theorem FlowInv.addPool {net : Net} (h : FlowInv P L net) (out : List Packet)
    (ho : ∀ src sa dst d, Packet.delta src sa dst d ∈ out → DeltaGood P d) :
    FlowInv P L { net with pool := net.pool ++ out } := by
  refine ⟨h.nodes, ?_⟩
  intro src sa dst d hd
  rcases List.mem_append.mp hd with hd | hd
  · exact h.pool _ _ _ _ hd
  · exact ho _ _ _ _ hd

/-- the operations that do not write any node's own state -/
def Recv : Op → Prop
  | .sendDigest .. | .deliver .. | .join .. | .leaveStream .. | .liveness .. => True
  | _ => False

/-- **Every receive-side step keeps the flow invariant**, and every `upsert` notification of the
acting node stems from a good entry; no step but `liveness` notifies (un)reachability. -/
theorem FlowInv.step_recv (hm : ∀ a e, P a e → e.internal = true → e.key = leftKey → L a)
    {net : Net} (h : FlowInv P L net) (op : Op) (hop : Recv op) :
    FlowInv P L (net.step op).net ∧ (∀ x ∈ (net.step op).events, UpsertOK P x) ∧
      ((∀ n sus now, op ≠ .liveness n sus now) → ∀ x ∈ (net.step op).events, NotLive x) := by
  cases op with
  | node id addr => exact hop.elim
  | upsert n k v => exact hop.elim
  | delete n k => exact hop.elim
  | leave n => exact hop.elim
  | compact n thr => exact hop.elim
  | expire n t => exact hop.elim
  | sendDigest n dst request perm cut =>
    simp only [Net.step]
    split
    · exact ⟨h, fun x hx => by simp at hx, fun _ x hx => by simp at hx⟩
    · refine ⟨h.addPool _ ?_, fun x hx => by simp at hx, fun _ x hx => by simp at hx⟩
      intro src sa dst d hd; simp at hd
  | deliver i cut perm dcut now =>
    simp only [Net.step]
    split
    · exact ⟨h, fun x hx => by simp at hx, fun _ x hx => by simp at hx⟩
    · next srcAddr dst request d hpk =>
      split
      · exact ⟨h, fun x hx => by simp at hx, fun _ x hx => by simp at hx⟩
      · next id s hb =>
        have hs := h.byAddr hb
        have hdg := applyDigest_good (P := P) (L := L) d hs
        simp only [handleDigest]
        refine ⟨?_, fun x hx => (hdg.2 x hx).1, fun _ x hx => (hdg.2 x hx).2⟩
        have h1 : FlowInv P L (net.setNode id (applyDigest s d).1) := h.setNode id hdg.1
        refine (h1.addPool _ ?_)
        intro src sa dst' d' hd'
        simp only [List.mem_cons] at hd'
        rcases hd' with hd' | hd'
        · cases hd'
          exact cutDelta_good _ _ (delta_good hdg.1 _ _)
        · split at hd'
          · simp at hd'
          · simp at hd'
    · next dst d hpk =>
      split
      · exact ⟨h, fun x hx => by simp at hx, fun _ x hx => by simp at hx⟩
      · next id s hb =>
        have hs := h.byAddr hb
        have hd : DeltaGood P d := h.pool _ _ _ _ (List.mem_of_getElem? hpk)
        have hda := applyDelta_good hm now hs hd
        exact ⟨h.setNode id hda.1, fun x hx => (hda.2 x hx).1, fun _ x hx => (hda.2 x hx).2⟩
  | join n m rd now =>
    simp only [Net.step]
    split
    · next sn sm hn hm' =>
      split
      · exact ⟨h, fun x hx => by simp at hx, fun _ x hx => by simp at hx⟩
      · have hsn := h.find hn
        have hsm := h.find hm'
        have h1 := applyDelta_good hm now hsm (localDelta_good hsn)
        have h2 := applyDigest_good (P := P) (L := L) (sortDigest (digest sn)) h1.1
        have hev : ∀ x ∈ (applyDelta now sm (localDelta sn)).2 ++
            (applyDigest (applyDelta now sm (localDelta sn)).1 (sortDigest (digest sn))).2,
            UpsertOK P x ∧ NotLive x := by
          intro x hx
          rcases List.mem_append.mp hx with hx | hx
          · exact h1.2 x hx
          · exact h2.2 x hx
        have hnet1 := h.setNode m h2.1
        cases rd with
        | false =>
          simp only [Bool.false_eq_true, if_false]
          exact ⟨hnet1, fun x hx => (hev x hx).1, fun _ x hx => (hev x hx).2⟩
        | true =>
          simp only [if_true]
          have h3 := applyDelta_good hm now hsn (sortDelta_good (delta_good h2.1 (sortDigest (digest sn)) true))
          exact ⟨hnet1.setNode n h3.1, fun x hx => (hev x hx).1, fun _ x hx => (hev x hx).2⟩
    · exact ⟨h, fun x hx => by simp at hx, fun _ x hx => by simp at hx⟩
  | leaveStream n m now =>
    simp only [Net.step]
    split
    · next sn sm hn hm' =>
      split
      · exact ⟨h, fun x hx => by simp at hx, fun _ x hx => by simp at hx⟩
      · have h1 := applyDelta_good hm now (h.find hm') (localDelta_good (h.find hn))
        exact ⟨h.setNode m h1.1, fun x hx => (h1.2 x hx).1, fun _ x hx => (h1.2 x hx).2⟩
    · exact ⟨h, fun x hx => by simp at hx, fun _ x hx => by simp at hx⟩
  | liveness n sus now =>
    simp only [Net.step]
    split
    · exact ⟨h, fun x hx => by simp at hx, fun _ x hx => by simp at hx⟩
    · next s hs =>
      refine ⟨h.setNode n (updateLiveness_good _ now (h.find hs)), ?_, fun hne => absurd rfl (hne n sus now)⟩
      intro x hx
      obtain ⟨p, _, hp, _⟩ := updateLiveness_events s _ now x hx
      rcases hp with rfl | rfl <;> trivial

end Piko.Gossip.Flow
