import PikoModel.Data.AMap
/-!
# More association-list lemmas (membership of values, filters) used by the gossip proofs
-/
namespace Piko.AMap
variable {κ ν : Type} [DecidableEq κ]

theorem find_eq_none_of_not_mem_keys {m : AMap κ ν} {k : κ} (h : k ∉ keys m) : find m k = none := by
  induction m with
  | nil => rfl
  | cons p m ih =>
    obtain ⟨k', v⟩ := p
    simp only [keys, List.map_cons, List.mem_cons, not_or] at h
    have : ¬ k' = k := fun e => h.1 e.symm
    simp only [find_cons, this, if_false]
    exact ih h.2

theorem mem_keys_of_find {m : AMap κ ν} {k : κ} {v : ν} (h : find m k = some v) : k ∈ keys m := by
  have := mem_of_find h
  exact List.mem_map.mpr ⟨(k, v), this, rfl⟩

theorem findOfMem {m : AMap κ ν} (hn : NoDupKeys m) {k : κ} {v : ν} (h : (k, v) ∈ m) :
    find m k = some v := by
  induction m with
  | nil => simp at h
  | cons p m ih =>
    obtain ⟨k', v'⟩ := p
    simp only [NoDupKeys, keys, List.map_cons, List.nodup_cons] at hn
    rcases List.mem_cons.mp h with h | h
    · cases h; simp
    · have hk : k ∈ keys m := List.mem_map.mpr ⟨(k, v), h, rfl⟩
      have : ¬ k' = k := fun e => hn.1 (e ▸ hk)
      simp only [find_cons, this, if_false]
      exact ih hn.2 h

theorem mem_vals_iff {m : AMap κ ν} (hn : NoDupKeys m) {v : ν} :
    v ∈ vals m ↔ ∃ k, find m k = some v := by
  constructor
  · intro h
    obtain ⟨p, hp, rfl⟩ := List.mem_map.mp h
    exact ⟨p.1, findOfMem hn hp⟩
  · rintro ⟨k, hk⟩
    exact List.mem_map.mpr ⟨(k, v), mem_of_find hk, rfl⟩

theorem NoDupKeys.filterV {m : AMap κ ν} (h : NoDupKeys m) (p : ν → Bool) : NoDupKeys (filterV m p) := by
  unfold NoDupKeys keys AMap.filterV at *
  exact (List.Sublist.map _ List.filter_sublist).nodup h

theorem find_filterV {m : AMap κ ν} (hn : NoDupKeys m) (p : ν → Bool) (k : κ) :
    find (filterV m p) k = (find m k).filter p := by
  induction m with
  | nil => rfl
  | cons q m ih =>
    obtain ⟨k', v⟩ := q
    simp only [NoDupKeys, keys, List.map_cons, List.nodup_cons] at hn
    by_cases hk : k' = k
    · subst hk
      by_cases hp : p v = true
      · simp [filterV, hp, Option.filter]
      · have hnone : find (filterV m p) k' = none := by
          apply find_eq_none_of_not_mem_keys
          intro hm
          apply hn.1
          simp only [keys, filterV, List.mem_map, List.mem_filter] at hm ⊢
          obtain ⟨x, ⟨hx, _⟩, e⟩ := hm
          exact ⟨x, hx, e⟩
        have : filterV ((k', v) :: m) p = filterV m p := by simp [filterV, hp]
        rw [this, hnone]
        simp [Option.filter, hp]
    · by_cases hp : p v = true
      · have : filterV ((k', v) :: m) p = (k', v) :: filterV m p := by simp [filterV, hp]
        rw [this]; simp only [find_cons, hk, if_false]; exact ih hn.2
      · have : filterV ((k', v) :: m) p = filterV m p := by simp [filterV, hp]
        rw [this]; simp only [find_cons, hk, if_false]; exact ih hn.2

theorem mem_vals_filterV {m : AMap κ ν} (p : ν → Bool) {v : ν} :
    v ∈ vals (filterV m p) ↔ v ∈ vals m ∧ p v = true := by
  simp only [vals, filterV, List.mem_map, List.mem_filter]
  constructor
  · rintro ⟨q, ⟨hq, hp⟩, rfl⟩; exact ⟨⟨q, hq, rfl⟩, hp⟩
  · rintro ⟨⟨q, hq, rfl⟩, hp⟩; exact ⟨q, ⟨hq, hp⟩, rfl⟩

end Piko.AMap
