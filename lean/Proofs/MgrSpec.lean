import Proofs.Mgr
import Mathlib.Data.List.Perm.Basic
/-!
# The registry as an abstract reference, the initial state, interleaving independence
-/
namespace Piko.Upstream
open Piko

/-- reference registry: add appends, remove erases the first occurrence (no-op if absent) -/
def refStep (r : String → List Nat) : Op → String → List Nat
  | .add u => fun e => if u.ep = e then r e ++ [u.id] else r e
  | .rm u => fun e => if u.ep = e then (r e).erase u.id else r e
  | .sel _ _ => r

def refRun (ops : List Op) : String → List Nat := ops.foldl refStep (fun _ => [])

theorem registry_step (m : Mgr) (op : Op) (h : MInv m) :
    (m.step op).registry = refStep m.registry op := by
  funext e
  cases op with
  | add u => exact registry_addConn m u e
  | rm u => exact registry_removeConn m u e
  | sel e' a => exact registry_select m e' a e h

theorem registry_run (ops : List Op) : ∀ (m : Mgr), MInv m →
    (m.run ops).registry = ops.foldl refStep m.registry := by
  induction ops with
  | nil => intro m _; rfl
  | cons op ops ih =>
    intro m h
    show ((m.step op).run ops).registry = _
    rw [ih _ (inv_step m op h), registry_step m op h]
    rfl

theorem ne_epKey_of_head {k e : String} (c : Char) (hk : k.toList.head? = some c) (hc : c ≠ 'e') :
    ¬ k = epKey e := by
  intro h
  have := congrArg String.toList h
  simp [epKey, String.toList_append] at this
  rw [this] at hk
  simp at hk
  exact hc hk.symm

theorem inv_init (id proxy admin : String) : MInv (Mgr.init id proxy admin) := by
  refine ⟨?_, ?_, ?_⟩
  · intro e lb hf; simp [Mgr.init] at hf
  · intro e
    simp [Mgr.init, Mgr.registry, countOpt, Cluster.State.new, Cluster.State.localNode]
  · intro e
    have h1 : ¬ "proxy_addr" = epKey e := ne_epKey_of_head 'p' (by decide) (by decide)
    have h2 : ¬ "admin_addr" = epKey e := ne_epKey_of_head 'a' (by decide) (by decide)
    simp only [advertised, Mgr.init, syncInit, Cluster.State.new, Cluster.State.localNode,
      AMap.find_cons, if_true, Option.getD_some, List.foldl_nil, Mgr.registry, AMap.find_nil,
      Option.map_none, Option.getD_none, List.length_nil, advOpt]
    rw [Gossip.liveValue_upsertLocal, Gossip.liveValue_upsertLocal]
    simp only [h1, h2, if_false]
    simp [Gossip.liveValue, Gossip.init, Gossip.own]

/-- every state reachable from a freshly started node -/
def reach (id proxy admin : String) (ops : List Op) : Mgr := (Mgr.init id proxy admin).run ops

theorem inv_reach (id proxy admin : String) (ops : List Op) : MInv (reach id proxy admin ops) :=
  inv_run ops _ (inv_init id proxy admin)

theorem registry_reach (id proxy admin : String) (ops : List Op) (e : String) :
    (reach id proxy admin ops).registry e = refRun ops e := by
  have := registry_run ops _ (inv_init id proxy admin)
  have h0 : (Mgr.init id proxy admin).registry = fun _ => [] := by
    funext e'; simp [Mgr.init, Mgr.registry]
  rw [h0] at this
  exact congrFun this e

/-! ### interleaving independence -/

def touches (u : Up) (op : Op) : Bool := op = .add u || op = .rm u

/-- the per-upstream counter: how many times `u` is registered after its own script -/
def cntStep (u : Up) (c : Nat) (op : Op) : Nat :=
  if op = .add u then c + 1 else if op = .rm u then c - 1 else c

theorem count_refStep (r : String → List Nat) (op : Op) (u : Up) :
    (refStep r op u.ep).count u.id = cntStep u ((r u.ep).count u.id) op := by
  cases op with
  | add v =>
    unfold refStep cntStep
    by_cases h : v = u
    · subst h; simp
    · have : ¬ Op.add v = Op.add u := by intro hh; injection hh with hh; exact h hh
      simp only [this, if_false]
      have : ¬ Op.add v = Op.rm u := by intro hh; cases hh
      simp only [this, if_false]
      by_cases he : v.ep = u.ep
      · have hid : v.id ≠ u.id := by
          intro hid; apply h; cases v; cases u; simp_all
        simp [he, List.count_append, List.count_singleton, hid]
      · simp [he]
  | rm v =>
    unfold refStep cntStep
    have : ¬ Op.rm v = Op.add u := by intro hh; cases hh
    simp only [this, if_false]
    by_cases h : v = u
    · subst h; simp [List.count_erase_self]
    · have : ¬ Op.rm v = Op.rm u := by intro hh; injection hh with hh; exact h hh
      simp only [this, if_false]
      by_cases he : v.ep = u.ep
      · have hid : u.id ≠ v.id := by
          intro hid; apply h; cases v; cases u; simp_all
        simp [he, List.count_erase_of_ne hid]
      · simp [he]
  | sel e a =>
    unfold refStep cntStep
    have h1 : ¬ Op.sel e a = Op.add u := by intro hh; cases hh
    have h2 : ¬ Op.sel e a = Op.rm u := by intro hh; cases hh
    simp [h1, h2]

theorem cntStep_not_touches (u : Up) (c : Nat) (op : Op) (h : touches u op = false) :
    cntStep u c op = c := by
  unfold touches at h
  simp only [Bool.or_eq_false_iff, decide_eq_false_iff_not] at h
  simp [cntStep, h.1, h.2]

theorem count_foldl_refStep (ops : List Op) (u : Up) : ∀ (r : String → List Nat),
    ((ops.foldl refStep r) u.ep).count u.id =
      (ops.filter (touches u)).foldl (cntStep u) ((r u.ep).count u.id) := by
  induction ops with
  | nil => intro r; rfl
  | cons op ops ih =>
    intro r
    simp only [List.foldl_cons]
    rw [ih (refStep r op), count_refStep]
    by_cases ht : touches u op = true
    · simp [List.filter_cons, ht]
    · have ht' : touches u op = false := by simpa using ht
      simp [List.filter_cons, ht', cntStep_not_touches u _ op ht']

/-- two operation lists that are interleavings of the same per-upstream scripts leave the
same number of registered upstreams for every endpoint -/
theorem refRun_length_interleaving (ops1 ops2 : List Op)
    (h : ∀ u : Up, ops1.filter (touches u) = ops2.filter (touches u)) (e : String) :
    (refRun ops1 e).length = (refRun ops2 e).length := by
  apply List.Perm.length_eq
  rw [List.perm_iff_count]
  intro x
  have h1 := count_foldl_refStep ops1 ⟨x, e⟩ (fun _ => [])
  have h2 := count_foldl_refStep ops2 ⟨x, e⟩ (fun _ => [])
  simp only [] at h1 h2
  unfold refRun
  rw [h1, h2, h ⟨x, e⟩]

end Piko.Upstream
