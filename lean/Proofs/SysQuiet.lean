import Proofs.SysSettle
/-!
# What a settle schedule leaves alone, and who can be flagged unreachable

* `Sys.quiet_keeps`     — over a quiet schedule every node keeps its balancers (registry), the
                          local row of its routing table and its own gossip node.
* `SysInv.noLive_step` / `noLiveEvs_runRev` — in a history without failure-detector rounds no
                          watcher is ever told `reachable`/`unreachable`/`expired`.
* `no_unreachable_of_noLiveEvs` — hence (C14) no view is flagged unreachable.
These discharge the configuration hypotheses (`SysHealthy`) of `C01_settled_system` for concrete runs.
-/
set_option linter.unusedSimpArgs false
namespace Piko
open Piko.Gossip

namespace Sys

/-- one `feed` keeps the balancers and the local row of every node -/
theorem feed_keeps {side : AMap String Side} (n : String) (ev : List Event) {k : String} {sd : Side}
    (hk : side.find k = some sd) (hp : ∀ k' sd', side.find k' = some sd' → SyncerSpec.PendOK sd'.sync) :
    (∃ sd', (feed side n ev).find k = some sd' ∧ sd'.lbs = sd.lbs ∧ sd'.table.localNode = sd.table.localNode) ∧
    (∀ k' sd', (feed side n ev).find k' = some sd' → SyncerSpec.PendOK sd'.sync) := by
  cases hn : side.find n with
  | none => rw [feed_none _ _ _ hn]; exact ⟨⟨sd, hk, rfl, rfl⟩, hp⟩
  | some sdn =>
    constructor
    · rw [find_feed _ _ _ hn]
      by_cases hnk : n = k
      · subst hnk
        rw [hn] at hk; cases hk
        refine ⟨sd.observe ev, by simp, rfl, ?_⟩
        rw [Side.observe_table]
        exact SyncerSpec.run_localNode _ _ (hp _ _ hn)
      · exact ⟨sd, by simp [hnk, hk], rfl, rfl⟩
    · intro k' sd' hf
      rw [find_feed _ _ _ hn] at hf
      by_cases hnk : n = k'
      · simp only [hnk, if_true, Option.some.injEq] at hf
        subst hf
        rw [Side.observe_sync]
        exact (SyncerSpec.run_invariants _ _ (hp _ _ hn)).1
      · simp only [hnk, if_false] at hf
        exact hp _ _ hf

theorem gossip_keeps {s : Sys} (hinv : SysInv s) (g : Gossip.Op) {k : String} {sd : Side}
    (hk : s.side.find k = some sd) :
    ∃ sd', (s.gossip g).side.find k = some sd' ∧ sd'.lbs = sd.lbs ∧ sd'.table.localNode = sd.table.localNode := by
  have hp : ∀ k' sd', s.side.find k' = some sd' → SyncerSpec.PendOK sd'.sync := by
    intro k' sd' hf
    obtain ⟨g', hg'⟩ := hinv.net_of_side hf
    exact (hinv.node k' sd' g' hf hg').pend
  obtain ⟨⟨sd1, h1, hl1, ht1⟩, hp1⟩ := feed_keeps (s.net.step g).who (s.net.step g).events hk hp
  unfold gossip
  simp only []
  split
  · next n m now =>
    obtain ⟨⟨sd2, h2, hl2, ht2⟩, _⟩ := feed_keeps n (replyEvents s.net n m now) h1 hp1
    exact ⟨sd2, h2, hl2.trans hl1, ht2.trans ht1⟩
  · exact ⟨sd1, h1, hl1, ht1⟩

/-- a quiet step leaves every node's own gossip state alone -/
theorem gossip_own (hist : List SysOp) (hall : SysAllowed hist) {g : Gossip.Op} (hq : Gossip.Quiet g)
    {k : String} {gk : CState} (hk : (runRev hist).net.nodes.find k = some gk) :
    ∃ gk', ((runRev hist).gossip g).net.nodes.find k = some gk' ∧ own gk' = own gk := by
  have hnet := netInv_sys hist hall
  have hk' : (Gossip.runRev (netHist hist)).net.nodes.find k = some gk := by rw [← runRev_net]; exact hk
  have ha : StepAllowed (Gossip.runRev (netHist hist)) g := by
    cases g <;> trivial
  obtain ⟨gk', h1, _, h3⟩ := step_keeps hnet g ha hk'
  refine ⟨gk', ?_, h3 (hq.writer_ne k)⟩
  have : ((runRev hist).gossip g).net = ((Gossip.runRev (netHist hist)).step g).net := by
    show ((runRev hist).net.step g).net = ((Gossip.runRev (netHist hist)).net.step g).net
    rw [runRev_net]
  rw [this]; exact h1

/-- **A settle schedule changes no registry, no local routing-table row and no own gossip state.** -/
theorem quiet_keeps : ∀ (sched ops : List SysOp), SysAllowed (sched ++ ops) →
    (∀ op ∈ sched, op.quiet.isSome = true) → ∀ (k : String) (x0 : SysNode), (runRev ops).node k = some x0 →
    ∃ x1, (runRev (sched ++ ops)).node k = some x1 ∧ x1.mgr.lbs = x0.mgr.lbs ∧
      x1.mgr.cluster.localNode = x0.mgr.cluster.localNode ∧ own x1.mgr.gossip = own x0.mgr.gossip
  | [], _, _, _, _, x0, h0 => ⟨x0, h0, rfl, rfl, rfl⟩
  | op :: rest, ops, hall, hq, k, x0, h0 => by
    obtain ⟨x1, h1, hl1, ht1, ho1⟩ := quiet_keeps rest ops hall.1 (fun o ho => hq o (List.mem_cons_of_mem _ ho)) k x0 h0
    have hq1 := hq op (List.mem_cons_self ..)
    cases hg : op.quiet with
    | none => rw [hg] at hq1; cases hq1
    | some g =>
      obtain ⟨sd, gk, hsd, hgk, rfl⟩ := node_eq h1
      have hinv : SysInv (runRev (rest ++ ops)) := sysInv_runRev _ hall.1
      obtain ⟨sd', hsd', hl', ht'⟩ := gossip_keeps hinv g hsd
      obtain ⟨gk', hgk', ho'⟩ := gossip_own (rest ++ ops) hall.1 (quiet_isQuiet hg) hgk
      refine ⟨{ mgr := { lbs := sd'.lbs, cluster := sd'.table, gossip := gk' }, sync := sd'.sync, evs := sd'.evs },
        ?_, hl'.trans hl1, ht'.trans ht1, ho'.trans ho1⟩
      rw [List.cons_append, runRev, step_quiet _ hg]
      simp [node, hsd', hgk']

/-! ## no failure-detector round ⇒ nobody is told about (un)reachability -/

/-- no watcher has ever been told `reachable`/`unreachable`/`expired` -/
def NoLiveEvs (s : Sys) : Prop := ∀ n sd, s.side.find n = some sd → ∀ x ∈ sd.evs, Flow.NotLive x

theorem feed_evs {side : AMap String Side} (n : String) (ev : List Event) {k : String} {sd' : Side}
    (h : (feed side n ev).find k = some sd') :
    ∃ sd, side.find k = some sd ∧ ∀ x ∈ sd'.evs, x ∈ sd.evs ∨ x ∈ ev := by
  cases hn : side.find n with
  | none => rw [feed_none _ _ _ hn] at h; exact ⟨sd', h, fun x hx => Or.inl hx⟩
  | some sdn =>
    rw [find_feed _ _ _ hn] at h
    by_cases hnk : n = k
    · subst hnk
      simp only [if_true, Option.some.injEq] at h
      subst h
      exact ⟨sdn, hn, fun x hx => by simpa using hx⟩
    · simp only [hnk, if_false] at h
      exact ⟨sd', h, fun x hx => Or.inl hx⟩

theorem replyEvents_notLive {P : String → Entry → Prop} {L : String → Prop}
    (hm : ∀ a e, P a e → e.internal = true → e.key = leftKey → L a) {net : Net} (h : Flow.FlowInv P L net)
    (n m : String) (now : Nat) : ∀ x ∈ replyEvents net n m now, Flow.NotLive x := by
  unfold replyEvents
  split
  · next sn sm hn hm' =>
    split
    · intro x hx; simp at hx
    · have h1 := Flow.applyDelta_good hm now (h.find hm') (Flow.localDelta_good (h.find hn))
      have h2 := Flow.applyDigest_good (P := P) (L := L) (sortDigest (digest sn)) h1.1
      have h3 := Flow.applyDelta_good hm now (h.find hn)
        (Flow.sortDelta_good (Flow.delta_good h2.1 (sortDigest (digest sn)) true))
      exact fun x hx => (h3.2 x hx).2
  · intro x hx; simp at hx

end Sys

theorem SysInv.noLive_gossip {s : Sys} (h : SysInv s) (hn : s.NoLiveEvs) (g : Gossip.Op)
    (hev : ∀ x ∈ (s.net.step g).events, Flow.NotLive x) : (s.gossip g).NoLiveEvs := by
  intro k sd' hk x hx
  unfold Sys.gossip at hk
  simp only [] at hk
  have hstep : ∀ sd1, (Sys.feed s.side (s.net.step g).who (s.net.step g).events).find k = some sd1 →
      ∀ y ∈ sd1.evs, Flow.NotLive y := by
    intro sd1 h1 y hy
    obtain ⟨sd0, h0, hm⟩ := Sys.feed_evs _ _ h1
    rcases hm y hy with hy | hy
    · exact hn k sd0 h0 y hy
    · exact hev y hy
  split at hk
  · next n m now =>
    obtain ⟨sd1, h1, hm⟩ := Sys.feed_evs _ _ hk
    rcases hm x hx with hx | hx
    · exact hstep sd1 h1 x hx
    · exact Sys.replyEvents_notLive s.good_marker h.flow n m now x hx
  · exact hstep sd' hk x hx

/-- an allowed step other than a failure-detector round tells no watcher about (un)reachability -/
theorem SysInv.noLive_step {s : Sys} (h : SysInv s) (hn : s.NoLiveEvs) (op : SysOp)
    (ha : SysStepAllowed s op) (hop : ∀ n sus now, op ≠ .liveness n sus now) : (s.step op).NoLiveEvs := by
  have hrecv : ∀ g : Gossip.Op, Flow.Recv g → (∀ n sus now, g ≠ .liveness n sus now) →
      ∀ x ∈ (s.net.step g).events, Flow.NotLive x :=
    fun g hg hne => (Flow.FlowInv.step_recv s.good_marker h.flow g hg).2.2 hne
  cases op with
  | boot id ga pa aa =>
    simp only [Sys.step]
    split
    · intro k sd hk x hx
      simp only [AMap.find_insert] at hk
      by_cases hik : id = k
      · simp only [hik, if_true, Option.some.injEq] at hk; subst hk; simp at hx
      · simp only [hik, if_false] at hk; exact hn k sd hk x hx
    · exact hn
  | addConn n uid ep =>
    simp only [Sys.step]
    split
    · exact hn
    · simp only [Sys.putMgr]
      split
      · exact hn
      · next sd0 hsd0 =>
        intro k sd hk x hx
        simp only [AMap.find_insert] at hk
        by_cases hnk : n = k
        · simp only [hnk, if_true, Option.some.injEq] at hk; subst hk
          exact hn n sd0 hsd0 x hx
        · simp only [hnk, if_false] at hk; exact hn k sd hk x hx
  | removeConn n uid ep =>
    simp only [Sys.step]
    split
    · exact hn
    · split
      · simp only [Sys.putMgr]
        split
        · exact hn
        · next sd0 hsd0 =>
          intro k sd hk x hx
          simp only [AMap.find_insert] at hk
          by_cases hnk : n = k
          · simp only [hnk, if_true, Option.some.injEq] at hk; subst hk
            exact hn n sd0 hsd0 x hx
          · simp only [hnk, if_false] at hk; exact hn k sd hk x hx
      · exact hn
  | leave n =>
    refine h.noLive_gossip hn (.leave n) ?_
    simp only [Net.step, localOp]; split <;> simp
  | compact n thr =>
    refine h.noLive_gossip hn (.compact n thr) ?_
    simp only [Net.step]; split
    · simp
    · split <;> simp
  | sendDigest n dst rq perm cut =>
    exact h.noLive_gossip hn _ (hrecv (.sendDigest n dst rq perm cut) trivial (fun _ _ _ => by simp))
  | deliver i cut perm dcut now =>
    exact h.noLive_gossip hn _ (hrecv (.deliver i cut perm dcut now) trivial (fun _ _ _ => by simp))
  | join n m rd now =>
    exact h.noLive_gossip hn _ (hrecv (.join n m rd now) trivial (fun _ _ _ => by simp))
  | leaveStream n m now =>
    exact h.noLive_gossip hn _ (hrecv (.leaveStream n m now) trivial (fun _ _ _ => by simp))
  | liveness n sus now => exact absurd rfl (hop n sus now)
  | expire n t => exact ha.elim

theorem noLiveEvs_runRev : ∀ ops : List SysOp, SysAllowed ops →
    (∀ op ∈ ops, ∀ n sus now, op ≠ .liveness n sus now) → (Sys.runRev ops).NoLiveEvs
  | [], _, _ => fun n sd h => by simp [Sys.runRev] at h
  | op :: earlier, hall, hop =>
    (sysInv_runRev earlier hall.1).noLive_step
      (noLiveEvs_runRev earlier hall.1 (fun o ho => hop o (List.mem_cons_of_mem _ ho))) op hall.2
      (hop op (List.mem_cons_self ..))

namespace SyncerSpec

/-- nobody in the fold is flagged unreachable -/
def NoU (v : WView) : Prop := ∀ a nv, v.find a = some nv → nv.unreach = false

theorem noU_step {v : WView} (e : Event) (h : NoU v) (he : Flow.NotLive e) : NoU (viewStep v e) := by
  intro a nv hf
  rw [find_viewStep] at hf
  split at hf
  · cases e with
    | join id => simp only [evKind, nviewStep, Option.some.injEq] at hf; subst hf; rfl
    | expired id => exact he.elim
    | reachable id => exact he.elim
    | unreachable id => exact he.elim
    | leave id =>
      cases hv : v.find a with
      | none => simp [evKind, nviewStep, hv] at hf
      | some n0 => simp only [evKind, nviewStep, hv, Option.some.injEq] at hf; subst hf; exact h a n0 hv
    | upsert id k x =>
      cases hv : v.find a with
      | none => simp [evKind, nviewStep, hv] at hf
      | some n0 => simp only [evKind, nviewStep, hv, Option.some.injEq] at hf; subst hf; exact h a n0 hv
    | delete id k =>
      cases hv : v.find a with
      | none => simp [evKind, nviewStep, hv] at hf
      | some n0 => simp only [evKind, nviewStep, hv, Option.some.injEq] at hf; subst hf; exact h a n0 hv
  · exact h a nv hf

theorem noU_fold : ∀ (evs : List Event) {v : WView}, NoU v → (∀ x ∈ evs, Flow.NotLive x) → NoU (foldFrom v evs)
  | [], _, h, _ => h
  | e :: es, _, h, he =>
    noU_fold es (noU_step e h (he e (List.mem_cons_self ..))) (fun x hx => he x (List.mem_cons_of_mem _ hx))

end SyncerSpec

/-- **If no watcher was ever told about (un)reachability, no view is flagged unreachable.** -/
theorem no_unreachable_of_noLiveEvs {s : Sys} (h : SysInv s) (hn : s.NoLiveEvs) {n a : String} {x : SysNode}
    {V : NodeSt} (hx : s.node n = some x) (hV : x.mgr.gossip.nodes.find a = some V) (hne : a ≠ n) :
    V.unreachable = false := by
  obtain ⟨sd, g, hsd, hg, rfl⟩ := Sys.node_eq hx
  obtain ⟨nv, hnv, _, hu, _⟩ := (h.node n sd g hsd hg).fold_view hV hne
  rw [← hu]
  exact SyncerSpec.noU_fold sd.evs (fun a nv hf => by simp at hf) (hn n sd hsd) a nv hnv

end Piko
