import Proofs.SysNode
/-!
# The invariant of the whole system and its preservation by every allowed step

`SysInv s` bundles, for every node, `NodeInv` (C14's fold, the trace hypotheses of C04 that the
gossip layer does guarantee, "syncer = pure syncer run", C05's manager invariant, own-state
well-formedness, the two address entries) with the network-wide flow invariant
(`Proofs/GossipFlow.lean`) instantiated with `Sys.Good`: deltas flag `Internal` exactly on reserved
keys, left markers only about nodes that have left, address keys only with the owner's addresses.
`sysInv_runRev`: it holds of every reachable state (`SysAllowed` history).
-/
set_option linter.unusedSimpArgs false
namespace Piko
open Piko.Gossip

structure SysInv (s : Sys) : Prop where
  nd : s.net.nodes.NoDupKeys
  dom : ∀ n, (s.side.find n).isSome = (s.net.nodes.find n).isSome
  flow : Flow.FlowInv s.Good s.HasLeft s.net
  node : ∀ n sd g, s.side.find n = some sd → s.net.nodes.find n = some g →
    NodeInv s.proxyOf s.adminOf n sd g

namespace Sys

theorem feed_nil (side : AMap String Side) (n : String) : feed side n [] = side := by
  unfold feed; split <;> simp_all

theorem feed_none (side : AMap String Side) (n : String) (ev : List Event) (h : side.find n = none) :
    feed side n ev = side := by
  unfold feed; split <;> simp_all

theorem find_feed (side : AMap String Side) (n : String) (ev : List Event) {sd : Side}
    (h : side.find n = some sd) (k : String) :
    (feed side n ev).find k = if n = k then some (sd.observe ev) else side.find k := by
  cases ev with
  | nil =>
    rw [feed_nil, Side.observe_nil]
    by_cases hk : n = k
    · subst hk; simp [h]
    · simp [hk]
  | cons x xs =>
    simp only [feed, h, AMap.find_insert]

theorem eta (s : Sys) : ({ net := s.net, side := s.side } : Sys) = s := rfl

end Sys

theorem SysInv.side_of_net {s : Sys} (h : SysInv s) {n : String} {g : CState}
    (hg : s.net.nodes.find n = some g) : ∃ sd, s.side.find n = some sd := by
  have := h.dom n
  rw [hg] at this
  cases hs : s.side.find n with
  | none => simp [hs] at this
  | some sd => exact ⟨sd, rfl⟩

theorem SysInv.net_of_side {s : Sys} (h : SysInv s) {n : String} {sd : Side}
    (hs : s.side.find n = some sd) : ∃ g, s.net.nodes.find n = some g := by
  have := h.dom n
  rw [hs] at this
  cases hg : s.net.nodes.find n with
  | none => simp [hg] at this
  | some g => exact ⟨g, rfl⟩

/-- nothing but the pool changed -/
theorem SysInv.congr {s s' : Sys} (h : SysInv s) (hnodes : s'.net.nodes = s.net.nodes) (hside : s'.side = s.side)
    (hpool : ∀ src sa dst d, Packet.delta src sa dst d ∈ s'.net.pool → Flow.DeltaGood s.Good d) :
    SysInv s' := by
  have hL : s'.HasLeft = s.HasLeft := by funext a; simp [Sys.HasLeft, hnodes]
  have hP : s'.proxyOf = s.proxyOf := by funext a; simp [Sys.proxyOf, hside]
  have hA : s'.adminOf = s.adminOf := by funext a; simp [Sys.adminOf, hside]
  have hG : s'.Good = s.Good := by funext a e; simp [Sys.Good, hL, hP, hA]
  refine ⟨hnodes ▸ h.nd, fun n => by rw [hnodes, hside]; exact h.dom n, ?_, ?_⟩
  · rw [hG, hL]
    exact ⟨fun p hp => h.flow.nodes p (hnodes ▸ hp), hpool⟩
  · intro n sd g hs hg
    rw [hP, hA]
    exact h.node n sd g (hside ▸ hs) (hnodes ▸ hg)

/-- **One node receives**: its gossip state moves `g → g'` by receive-side operations notifying
`ev`, which its syncer is given; good packets may be added to the pool. -/
theorem SysInv.observe1 {s s' : Sys} (h : SysInv s) {n : String} {sd : Side} {g g' : CState} {ev : List Event}
    (hn : s.side.find n = some sd) (hg : s.net.nodes.find n = some g)
    (hnodes : s'.net.nodes = s.net.nodes.insert n g')
    (hside : ∀ k, s'.side.find k = if n = k then some (sd.observe ev) else s.side.find k)
    (hgood : C14.Good g (g', ev)) (hown : own g' = own g)
    (hlive : SyncerSpec.Trace SyncerSpec.LiveOKn n (SyncerSpec.foldEvents sd.evs) ev)
    (hup : ∀ x ∈ ev, Flow.UpsertOK s.Good x)
    (hst : Flow.StGood s.Good s.HasLeft g')
    (hpool : ∀ src sa dst d, Packet.delta src sa dst d ∈ s'.net.pool → Flow.DeltaGood s.Good d) :
    SysInv s' ∧ Sys.Le s s' := by
  have hni := h.node n sd g hn hg
  have hfind : ∀ k, s'.net.nodes.find k = if n = k then some g' else s.net.nodes.find k := by
    intro k; rw [hnodes, AMap.find_insert]
  have hloc : (sd.observe ev).table.localNode = sd.table.localNode := by
    rw [Side.observe_table]; exact SyncerSpec.run_localNode sd.sync ev hni.pend
  have hle : Sys.Le s s' := by
    refine ⟨?_, ?_, ?_⟩
    · rintro a ⟨g0, hg0, hl⟩
      by_cases hna : n = a
      · subst hna
        rw [hg] at hg0; cases hg0
        exact ⟨g', by rw [hfind]; simp, by rw [hown]; exact hl⟩
      · exact ⟨g0, by rw [hfind]; simp [hna, hg0], hl⟩
    · intro a x hx
      unfold Sys.proxyOf at hx ⊢
      rw [hside]
      by_cases hna : n = a
      · subst hna
        simp only [hn, Option.map_some, Option.some.injEq] at hx
        simp [hloc, hx]
      · simpa [hna] using hx
    · intro a x hx
      unfold Sys.adminOf at hx ⊢
      rw [hside]
      by_cases hna : n = a
      · subst hna
        simp only [hn, Option.map_some, Option.some.injEq] at hx
        simp [hloc, hx]
      · simpa [hna] using hx
  refine ⟨⟨by rw [hnodes]; exact h.nd.insert _ _, ?_, ?_, ?_⟩, hle⟩
  · intro k
    rw [hside, hfind]
    by_cases hk : n = k
    · simp [hk]
    · simp only [hk, if_false]; exact h.dom k
  · refine ⟨?_, fun src sa dst d hd => (hpool src sa dst d hd).mono hle.good⟩
    intro p hp
    rw [hnodes] at hp
    rcases C11.mem_insert hp with rfl | hp
    · exact hst.mono hle.good hle.left
    · exact (h.flow.nodes p hp).mono hle.good hle.left
  · intro k sdk gk hsk hgk
    rw [hside] at hsk; rw [hfind] at hgk
    by_cases hk : n = k
    · subst hk
      simp only [if_true, Option.some.injEq] at hsk hgk
      subst hsk hgk
      exact (hni.observe hgood hown hlive (Sys.addrConst_of_upsertOK hup)).mono hle.proxy hle.admin
    · simp only [hk, if_false] at hsk hgk
      exact (h.node k sdk gk hsk hgk).mono hle.proxy hle.admin

/-- **One node writes its own gossip state** (and its manager-side stores), nothing is notified. -/
theorem SysInv.write1 {s s' : Sys} (h : SysInv s) {n : String} {sd sd' : Side} {g g' : CState}
    (hn : s.side.find n = some sd) (hg : s.net.nodes.find n = some g)
    (hnodes : s'.net.nodes = s.net.nodes.insert n g') (hpool : s'.net.pool = s.net.pool)
    (hside : ∀ k, s'.side.find k = if n = k then some sd' else s.side.find k)
    (hle : Sys.Le s s')
    (hgood : C14.LocalGood g g') (hevs : sd'.evs = sd.evs) (hpend : sd'.pending = sd.pending)
    (hlid : sd'.table.localId = sd.table.localId)
    (hrows : ∀ a, a ≠ sd.table.localId → sd'.table.nodes.find a = sd.table.nodes.find a)
    (hminv : Upstream.MInv { lbs := sd'.lbs, cluster := sd'.table, gossip := g' })
    (hownwf : OwnWF g')
    (hp : liveValue g' Cluster.proxyAddrKey = some sd'.table.localNode.proxyAddr)
    (ha : liveValue g' Cluster.adminAddrKey = some sd'.table.localNode.adminAddr)
    (hst : Flow.StGood s'.Good s'.HasLeft g') : SysInv s' := by
  have hni := h.node n sd g hn hg
  have hfind : ∀ k, s'.net.nodes.find k = if n = k then some g' else s.net.nodes.find k := by
    intro k; rw [hnodes, AMap.find_insert]
  refine ⟨by rw [hnodes]; exact h.nd.insert _ _, ?_, ?_, ?_⟩
  · intro k
    rw [hside, hfind]
    by_cases hk : n = k
    · simp [hk]
    · simp only [hk, if_false]; exact h.dom k
  · refine ⟨?_, fun src sa dst d hd => (h.flow.pool src sa dst d (hpool ▸ hd)).mono hle.good⟩
    intro p hp
    rw [hnodes] at hp
    rcases C11.mem_insert hp with rfl | hp
    · exact hst
    · exact (h.flow.nodes p hp).mono hle.good hle.left
  · intro k sdk gk hsk hgk
    rw [hside] at hsk; rw [hfind] at hgk
    by_cases hk : n = k
    · subst hk
      simp only [if_true, Option.some.injEq] at hsk hgk
      subst hsk hgk
      exact (hni.localWrite hgood hevs hpend hlid hrows hminv hownwf hp ha).mono hle.proxy hle.admin
    · simp only [hk, if_false] at hsk hgk
      exact (h.node k sdk gk hsk hgk).mono hle.proxy hle.admin

/-! ## receive-side steps -/

theorem Sys.gossip_eq (s : Sys) (op : Gossip.Op) (hnj : ∀ n m now, op ≠ .join n m true now) :
    s.gossip op = { net := (s.net.step op).net,
                    side := Sys.feed s.side (s.net.step op).who (s.net.step op).events } := by
  cases op with
  | join n m rd now =>
    cases rd with
    | false => rfl
    | true => exact absurd rfl (hnj n m now)
  | _ => rfl

/-- a receive-side step that changes no node and notifies nothing (errors, `sendDigest`) -/
theorem SysInv.recv_same {s : Sys} (h : SysInv s) (op : Gossip.Op) (hop : Flow.Recv op)
    (hnj : ∀ n m now, op ≠ .join n m true now)
    (hnodes : (s.net.step op).net.nodes = s.net.nodes) (hev : (s.net.step op).events = []) :
    SysInv (s.gossip op) := by
  rw [Sys.gossip_eq s op hnj, hev, Sys.feed_nil]
  exact h.congr hnodes rfl (Flow.FlowInv.step_recv s.good_marker h.flow op hop).1.pool

/-- a receive-side step in which the acting node moves `g → g'` (C14-good, own node untouched) -/
theorem SysInv.recv_one {s : Sys} (h : SysInv s) (op : Gossip.Op) (hop : Flow.Recv op)
    (hnj : ∀ n m now, op ≠ .join n m true now) {g g' : CState}
    (hg : s.net.nodes.find (s.net.step op).who = some g)
    (hnodes : (s.net.step op).net.nodes = s.net.nodes.insert (s.net.step op).who g')
    (hgood : C14.Good g (g', (s.net.step op).events)) (hown : own g' = own g)
    (hlive : ∀ sd, s.side.find (s.net.step op).who = some sd →
      SyncerSpec.Trace SyncerSpec.LiveOKn (s.net.step op).who (SyncerSpec.foldEvents sd.evs) (s.net.step op).events) :
    SysInv (s.gossip op) ∧ Sys.Le s (s.gossip op) := by
  obtain ⟨sd, hsd⟩ := h.side_of_net hg
  have hfl := Flow.FlowInv.step_recv s.good_marker h.flow op hop
  rw [Sys.gossip_eq s op hnj]
  refine h.observe1 (s' := Sys.mk (s.net.step op).net (Sys.feed s.side (s.net.step op).who (s.net.step op).events))
    hsd hg hnodes (fun k => Sys.find_feed _ _ _ hsd k) hgood hown (hlive sd hsd) hfl.2.1 ?_ hfl.1.pool
  exact hfl.1.find (by rw [hnodes]; exact AMap.find_insert_self _ _ _)

theorem SysInv.live_of_notLive {s : Sys} (op : Gossip.Op) (h : SysInv s) (hop : Flow.Recv op)
    (hne : ∀ n sus now, op ≠ .liveness n sus now) (l : String) (v : SyncerSpec.WView) :
    SyncerSpec.Trace SyncerSpec.LiveOKn l v (s.net.step op).events :=
  SyncerSpec.trace_live_of_notLive l _ v
    ((Flow.FlowInv.step_recv s.good_marker h.flow op hop).2.2 hne)

theorem stWF_ownPresent {g : CState} (h : C14.StWF g) : OwnPresent g := by
  obtain ⟨_, _, l, hl, _⟩ := h
  exact ⟨l, hl⟩

theorem SysInv.step_sendDigest {s : Sys} (h : SysInv s) (n dst : String) (rq : Bool) (perm : List Nat) (cut : Nat) :
    SysInv (s.step (.sendDigest n dst rq perm cut)) := by
  apply h.recv_same (.sendDigest n dst rq perm cut) trivial (fun _ _ _ => by simp)
  · simp only [Net.step]; split <;> rfl
  · simp only [Net.step]; split <;> rfl

theorem SysInv.step_deliver {s : Sys} (h : SysInv s) (i cut : Nat) (perm : List Nat) (dcut now : Nat) :
    SysInv (s.step (.deliver i cut perm dcut now)) := by
  have hnj : ∀ n m now', Gossip.Op.deliver i cut perm dcut now ≠ .join n m true now' := fun _ _ _ => by simp
  have hnl : ∀ n sus now', Gossip.Op.deliver i cut perm dcut now ≠ .liveness n sus now' := fun _ _ _ => by simp
  show SysInv (s.gossip (.deliver i cut perm dcut now))
  cases hpk : s.net.pool[i]? with
  | none =>
    apply h.recv_same (.deliver i cut perm dcut now) trivial hnj <;> simp [Net.step, hpk]
  | some pk =>
    cases pk with
    | digest src sa dst rq d =>
      cases hb : s.net.nodeByAddr dst with
      | none => apply h.recv_same (.deliver i cut perm dcut now) trivial hnj <;> simp [Net.step, hpk, hb]
      | some q =>
        obtain ⟨id, g⟩ := q
        obtain ⟨hf, _⟩ := nodeByAddr_spec h.nd hb
        obtain ⟨sd, hsd⟩ := h.side_of_net hf
        have hni := h.node id sd g hsd hf
        have hwho : (s.net.step (.deliver i cut perm dcut now)).who = id := by simp [Net.step, hpk, hb]
        refine (h.recv_one (.deliver i cut perm dcut now) trivial hnj (g := g) (g' := (applyDigest g d).1) (by rw [hwho]; exact hf) ?_ ?_ ?_ ?_).1
        · simp [Net.step, hpk, hb, Net.setNode, handleDigest]
        · have : (s.net.step (.deliver i cut perm dcut now)).events = (applyDigest g d).2 := by
            simp [Net.step, hpk, hb, handleDigest]
          rw [this]; exact C14.applyDigest_good g d hni.wf
        · exact own_applyDigest d g (stWF_ownPresent hni.wf)
        · intro _ _; exact h.live_of_notLive (.deliver i cut perm dcut now) trivial hnl _ _
    | delta src sa dst d =>
      cases hb : s.net.nodeByAddr dst with
      | none => apply h.recv_same (.deliver i cut perm dcut now) trivial hnj <;> simp [Net.step, hpk, hb]
      | some q =>
        obtain ⟨id, g⟩ := q
        obtain ⟨hf, _⟩ := nodeByAddr_spec h.nd hb
        obtain ⟨sd, hsd⟩ := h.side_of_net hf
        have hni := h.node id sd g hsd hf
        have hwho : (s.net.step (.deliver i cut perm dcut now)).who = id := by simp [Net.step, hpk, hb]
        have hdg : Flow.DeltaGood s.Good d := h.flow.pool _ _ _ _ (List.mem_of_getElem? hpk)
        refine (h.recv_one (.deliver i cut perm dcut now) trivial hnj (g := g) (g' := (applyDelta now g d).1) (by rw [hwho]; exact hf) ?_ ?_ ?_ ?_).1
        · simp [Net.step, hpk, hb, Net.setNode]
        · have : (s.net.step (.deliver i cut perm dcut now)).events = (applyDelta now g d).2 := by
            simp [Net.step, hpk, hb]
          rw [this]; exact C14.applyDelta_good now g d hni.wf hni.keys (Sys.deltaOK_of_good hdg)
        · exact own_applyDelta now d g
        · intro _ _; exact h.live_of_notLive (.deliver i cut perm dcut now) trivial hnl _ _

theorem SysInv.step_leaveStream {s : Sys} (h : SysInv s) (n m : String) (now : Nat) :
    SysInv (s.step (.leaveStream n m now)) := by
  have hnj : ∀ a b now', Gossip.Op.leaveStream n m now ≠ .join a b true now' := fun _ _ _ => by simp
  have hnl : ∀ a sus now', Gossip.Op.leaveStream n m now ≠ .liveness a sus now' := fun _ _ _ => by simp
  show SysInv (s.gossip (.leaveStream n m now))
  cases hn : s.net.nodes.find n with
  | none => apply h.recv_same (.leaveStream n m now) trivial hnj <;> simp [Net.step, hn]
  | some sn =>
    cases hm : s.net.nodes.find m with
    | none => apply h.recv_same (.leaveStream n m now) trivial hnj <;> simp [Net.step, hn, hm]
    | some sm =>
      by_cases hnm : n = m
      · apply h.recv_same (.leaveStream n m now) trivial hnj <;> simp [Net.step, hn, hm, hnm]
      · obtain ⟨sd, hsd⟩ := h.side_of_net hm
        have hni := h.node m sd sm hsd hm
        have hwho : (s.net.step (.leaveStream n m now)).who = m := by simp [Net.step, hn, hm, hnm]
        have hdg : Flow.DeltaGood s.Good (localDelta sn) := Flow.localDelta_good (h.flow.find hn)
        refine (h.recv_one (.leaveStream n m now) trivial hnj (g := sm)
          (g' := (applyDelta now sm (localDelta sn)).1) (by rw [hwho]; exact hm) ?_ ?_ ?_ ?_).1
        · simp [Net.step, hn, hm, hnm, Net.setNode]
        · have : (s.net.step (.leaveStream n m now)).events = (applyDelta now sm (localDelta sn)).2 := by
            simp [Net.step, hn, hm, hnm]
          rw [this]; exact C14.applyDelta_good now sm _ hni.wf hni.keys (Sys.deltaOK_of_good hdg)
        · exact own_applyDelta now _ sm
        · intro _ _; exact h.live_of_notLive (.leaveStream n m now) trivial hnl _ _

theorem SysInv.step_liveness {s : Sys} (h : SysInv s) (n : String) (sus : List String) (now : Nat) :
    SysInv (s.step (.liveness n sus now)) := by
  have hnj : ∀ a b now', Gossip.Op.liveness n sus now ≠ .join a b true now' := fun _ _ _ => by simp
  show SysInv (s.gossip (.liveness n sus now))
  cases hn : s.net.nodes.find n with
  | none => apply h.recv_same (.liveness n sus now) trivial hnj <;> simp [Net.step, hn]
  | some g =>
    obtain ⟨sd, hsd⟩ := h.side_of_net hn
    have hni := h.node n sd g hsd hn
    have hwho : (s.net.step (.liveness n sus now)).who = n := by simp [Net.step, hn]
    have hev : (s.net.step (.liveness n sus now)).events = (updateLiveness g (fun id => sus.contains id) now).2 := by
      simp [Net.step, hn]
    refine (h.recv_one (.liveness n sus now) trivial hnj (g := g)
      (g' := (updateLiveness g (fun id => sus.contains id) now).1) (by rw [hwho]; exact hn) ?_ ?_ ?_ ?_).1
    · simp [Net.step, hn, Net.setNode]
    · rw [hev]; exact C14.updateLiveness_good g _ now hni.wf
    · exact (keeps_updateLiveness g _ now hni.wf.1 (fun a V hf => (hni.wf.2.1 a V hf).1)).2
    · intro sd' hsd'
      rw [hwho] at hsd' ⊢
      rw [hsd] at hsd'; cases hsd'
      rw [hev]
      exact SyncerSpec.trace_live_liveness n g _ now _ _ hni.wf hni.fold
        (SyncerSpec.sameView_fold [] [] sd.evs SyncerSpec.sameView_nil)

theorem SysInv.step_join {s : Sys} (h : SysInv s) (n m : String) (rd : Bool) (now : Nat) :
    SysInv (s.step (.join n m rd now)) := by
  show SysInv (s.gossip (.join n m rd now))
  have hnjf : ∀ a b now', Gossip.Op.join n m false now ≠ .join a b true now' := fun _ _ _ => by simp
  have hnl : ∀ rd' a sus now', Gossip.Op.join n m rd' now ≠ .liveness a sus now' := fun _ _ _ _ => by simp
  -- the cases in which nothing happens
  have hsame : (s.net.nodes.find n = none ∨ s.net.nodes.find m = none ∨ n = m) → SysInv (s.gossip (.join n m rd now)) := by
    intro hc
    have h1 : (s.net.step (.join n m rd now)).net = s.net ∧ (s.net.step (.join n m rd now)).events = [] := by
      rcases hc with hc | hc | hc
      · simp [Net.step, hc]
      · cases hn : s.net.nodes.find n <;> simp [Net.step, hn, hc]
      · cases hn : s.net.nodes.find n <;> cases hm : s.net.nodes.find m <;> simp [Net.step, hn, hm, hc]
    have h2 : Sys.replyEvents s.net n m now = [] := by
      rcases hc with hc | hc | hc
      · simp [Sys.replyEvents, hc]
      · cases hn : s.net.nodes.find n <;> simp [Sys.replyEvents, hn, hc]
      · cases hn : s.net.nodes.find n <;> cases hm : s.net.nodes.find m <;> simp [Sys.replyEvents, hn, hm, hc]
    have : s.gossip (.join n m rd now) = s := by
      cases rd <;> simp [Sys.gossip, h1.1, h1.2, h2, Sys.feed_nil]
    rw [this]; exact h
  cases hn : s.net.nodes.find n with
  | none => exact hsame (Or.inl hn)
  | some sn =>
    cases hm : s.net.nodes.find m with
    | none => exact hsame (Or.inr (Or.inl hm))
    | some sm =>
      by_cases hnm : n = m
      · exact hsame (Or.inr (Or.inr hnm))
      · -- the request half at `m`
        obtain ⟨sdm, hsdm⟩ := h.side_of_net hm
        have him := h.node m sdm sm hsdm hm
        have hdg : Flow.DeltaGood s.Good (localDelta sn) := Flow.localDelta_good (h.flow.find hn)
        have hg1 := C14.applyDelta_good now sm (localDelta sn) him.wf him.keys (Sys.deltaOK_of_good hdg)
        have hg2 := C14.applyDigest_good (applyDelta now sm (localDelta sn)).1 (sortDigest (digest sn)) hg1.wf
        have hwho : (s.net.step (.join n m false now)).who = m := by simp [Net.step, hn, hm, hnm]
        have hstep1 := h.recv_one (.join n m false now) trivial hnjf (g := sm)
          (g' := (applyDigest (applyDelta now sm (localDelta sn)).1 (sortDigest (digest sn))).1)
          (by rw [hwho]; exact hm) (by simp [Net.step, hn, hm, hnm, Net.setNode])
          (by
            have : (s.net.step (.join n m false now)).events = (applyDelta now sm (localDelta sn)).2 ++
                (applyDigest (applyDelta now sm (localDelta sn)).1 (sortDigest (digest sn))).2 := by
              simp [Net.step, hn, hm, hnm]
            rw [this]; exact hg1.trans hg2)
          (by rw [own_applyDigest _ _ (stWF_ownPresent hg1.wf), own_applyDelta])
          (fun _ _ => h.live_of_notLive (.join n m false now) trivial (hnl false) _ _)
        cases rd with
        | false => exact hstep1.1
        | true =>
          -- the reply half at `n`
          obtain ⟨h1, hle1⟩ := hstep1
          have hs1n : (s.gossip (.join n m false now)).net.nodes.find n = some sn := by
            simp [Sys.gossip, Net.step, hn, hm, hnm, Net.setNode, AMap.find_insert_ne _ _ hnm, hn]
          have hs1m : (s.gossip (.join n m false now)).net.nodes.find m =
              some (applyDigest (applyDelta now sm (localDelta sn)).1 (sortDigest (digest sn))).1 := by
            simp [Sys.gossip, Net.step, hn, hm, hnm, Net.setNode]
          obtain ⟨sdn, hsdn⟩ := h1.side_of_net hs1n
          have hin := h1.node n sdn sn hsdn hs1n
          have hreply : Flow.DeltaGood (s.gossip (.join n m false now)).Good
              (sortDelta (delta (applyDigest (applyDelta now sm (localDelta sn)).1 (sortDigest (digest sn))).1
                (sortDigest (digest sn)) true)) :=
            Flow.sortDelta_good (Flow.delta_good (h1.flow.find hs1m) _ _)
          have hap := Flow.applyDelta_good (Sys.good_marker _) now (h1.flow.find hs1n) hreply
          refine (h1.observe1 (s' := s.gossip (.join n m true now)) hsdn hs1n ?_ ?_
            (C14.applyDelta_good now sn _ hin.wf hin.keys (Sys.deltaOK_of_good hreply))
            (own_applyDelta now _ sn)
            (SyncerSpec.trace_live_of_notLive n _ _ (fun x hx => (hap.2 x hx).2))
            (fun x hx => (hap.2 x hx).1) hap.1 ?_).1
          · simp [Sys.gossip, Net.step, hn, hm, hnm, Net.setNode]
            rfl
          · intro k
            have : (s.gossip (.join n m true now)).side =
                Sys.feed (s.gossip (.join n m false now)).side n
                  (applyDelta now sn (sortDelta (delta
                    (applyDigest (applyDelta now sm (localDelta sn)).1 (sortDigest (digest sn))).1
                    (sortDigest (digest sn)) true))).2 := by
              simp [Sys.gossip, Net.step, hn, hm, hnm, Sys.replyEvents]
            rw [this]
            exact Sys.find_feed _ _ _ hsdn k
          · intro src sa dst d hd
            have : (s.gossip (.join n m true now)).net.pool = (s.gossip (.join n m false now)).net.pool := by
              simp [Sys.gossip, Net.step, hn, hm, hnm, Net.setNode]
            rw [this] at hd
            exact h1.flow.pool _ _ _ _ hd

end Piko
