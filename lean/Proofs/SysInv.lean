import Proofs.SysNode
/-!
# The invariant of the whole system and its preservation by every allowed step

`SysInv s` bundles, for every node, `NodeInv` (C14's fold, the trace hypotheses of C04 that the
gossip layer does guarantee, "syncer = pure syncer run", C05's manager invariant, own-state
well-formedness, the two address entries) with the network-wide flow invariant
(`Proofs/GossipFlow.lean`) instantiated with `Sys.Good`: deltas flag `Internal` exactly on reserved
keys, left markers only about nodes that have left, address keys only with the owner's addresses.
`sysInv_runRev`: it holds of every reachable state (`SysAllowed` history).
-/
set_option linter.unusedSimpArgs false
namespace Piko
open Piko.Gossip

structure SysInv (s : Sys) : Prop where
  nd : s.net.nodes.NoDupKeys
  dom : ∀ n, (s.side.find n).isSome = (s.net.nodes.find n).isSome
  flow : Flow.FlowInv s.Good s.HasLeft s.net
  node : ∀ n sd g, s.side.find n = some sd → s.net.nodes.find n = some g →
    NodeInv s.proxyOf s.adminOf n sd g

namespace Sys

theorem feed_nil (side : AMap String Side) (n : String) : feed side n [] = side := by
  unfold feed; split <;> simp_all

theorem feed_none (side : AMap String Side) (n : String) (ev : List Event) (h : side.find n = none) :
    feed side n ev = side := by
  unfold feed; split <;> simp_all

theorem find_feed (side : AMap String Side) (n : String) (ev : List Event) {sd : Side}
    (h : side.find n = some sd) (k : String) :
    (feed side n ev).find k = if n = k then some (sd.observe ev) else side.find k := by
  cases ev with
  | nil =>
    rw [feed_nil, Side.observe_nil]
    by_cases hk : n = k
    · subst hk; simp [h]
    · simp [hk]
  | cons x xs =>
    simp only [feed, h, AMap.find_insert]

theorem eta (s : Sys) : ({ net := s.net, side := s.side } : Sys) = s := rfl

end Sys

theorem SysInv.side_of_net {s : Sys} (h : SysInv s) {n : String} {g : CState}
    (hg : s.net.nodes.find n = some g) : ∃ sd, s.side.find n = some sd := by
  have := h.dom n
  rw [hg] at this
  cases hs : s.side.find n with
  | none => simp [hs] at this
  | some sd => exact ⟨sd, rfl⟩

theorem SysInv.net_of_side {s : Sys} (h : SysInv s) {n : String} {sd : Side}
    (hs : s.side.find n = some sd) : ∃ g, s.net.nodes.find n = some g := by
  have := h.dom n
  rw [hs] at this
  cases hg : s.net.nodes.find n with
  | none => simp [hg] at this
  | some g => exact ⟨g, rfl⟩

/-- nothing but the pool changed -/
theorem SysInv.congr {s s' : Sys} (h : SysInv s) (hnodes : s'.net.nodes = s.net.nodes) (hside : s'.side = s.side)
    (hpool : ∀ src sa dst d, Packet.delta src sa dst d ∈ s'.net.pool → Flow.DeltaGood s.Good d) :
    SysInv s' := by
  have hL : s'.HasLeft = s.HasLeft := by funext a; simp [Sys.HasLeft, hnodes]
  have hP : s'.proxyOf = s.proxyOf := by funext a; simp [Sys.proxyOf, hside]
  have hA : s'.adminOf = s.adminOf := by funext a; simp [Sys.adminOf, hside]
  have hG : s'.Good = s.Good := by funext a e; simp [Sys.Good, hL, hP, hA]
  refine ⟨hnodes ▸ h.nd, fun n => by rw [hnodes, hside]; exact h.dom n, ?_, ?_⟩
  · rw [hG, hL]
    exact ⟨fun p hp => h.flow.nodes p (hnodes ▸ hp), hpool⟩
  · intro n sd g hs hg
    rw [hP, hA]
    exact h.node n sd g (hside ▸ hs) (hnodes ▸ hg)

/-- **One node receives**: its gossip state moves `g → g'` by receive-side operations notifying
`ev`, which its syncer is given; good packets may be added to the pool. -/
theorem SysInv.observe1 {s s' : Sys} (h : SysInv s) {n : String} {sd : Side} {g g' : CState} {ev : List Event}
    (hn : s.side.find n = some sd) (hg : s.net.nodes.find n = some g)
    (hnodes : s'.net.nodes = s.net.nodes.insert n g')
    (hside : ∀ k, s'.side.find k = if n = k then some (sd.observe ev) else s.side.find k)
    (hgood : C14.Good g (g', ev)) (hown : own g' = own g)
    (hlive : SyncerSpec.Trace SyncerSpec.LiveOKn n (SyncerSpec.foldEvents sd.evs) ev)
    (hup : ∀ x ∈ ev, Flow.UpsertOK s.Good x)
    (hst : Flow.StGood s.Good s.HasLeft g')
    (hpool : ∀ src sa dst d, Packet.delta src sa dst d ∈ s'.net.pool → Flow.DeltaGood s.Good d) :
    SysInv s' ∧ Sys.Le s s' := by
  have hni := h.node n sd g hn hg
  have hfind : ∀ k, s'.net.nodes.find k = if n = k then some g' else s.net.nodes.find k := by
    intro k; rw [hnodes, AMap.find_insert]
  have hloc : (sd.observe ev).table.localNode = sd.table.localNode := by
    rw [Side.observe_table]; exact SyncerSpec.run_localNode sd.sync ev hni.pend
  have hle : Sys.Le s s' := by
    refine ⟨?_, ?_, ?_⟩
    · rintro a ⟨g0, hg0, hl⟩
      by_cases hna : n = a
      · subst hna
        rw [hg] at hg0; cases hg0
        exact ⟨g', by rw [hfind]; simp, by rw [hown]; exact hl⟩
      · exact ⟨g0, by rw [hfind]; simp [hna, hg0], hl⟩
    · intro a x hx
      unfold Sys.proxyOf at hx ⊢
      rw [hside]
      by_cases hna : n = a
      · subst hna
        simp only [hn, Option.map_some, Option.some.injEq] at hx
        simp [hloc, hx]
      · simpa [hna] using hx
    · intro a x hx
      unfold Sys.adminOf at hx ⊢
      rw [hside]
      by_cases hna : n = a
      · subst hna
        simp only [hn, Option.map_some, Option.some.injEq] at hx
        simp [hloc, hx]
      · simpa [hna] using hx
  refine ⟨⟨by rw [hnodes]; exact h.nd.insert _ _, ?_, ?_, ?_⟩, hle⟩
  · intro k
    rw [hside, hfind]
    by_cases hk : n = k
    · simp [hk]
    · simp only [hk, if_false]; exact h.dom k
  · refine ⟨?_, fun src sa dst d hd => (hpool src sa dst d hd).mono hle.good⟩
    intro p hp
    rw [hnodes] at hp
    rcases C11.mem_insert hp with rfl | hp
    · exact hst.mono hle.good hle.left
    · exact (h.flow.nodes p hp).mono hle.good hle.left
  · intro k sdk gk hsk hgk
    rw [hside] at hsk; rw [hfind] at hgk
    by_cases hk : n = k
    · subst hk
      simp only [if_true, Option.some.injEq] at hsk hgk
      subst hsk hgk
      exact (hni.observe hgood hown hlive (Sys.addrConst_of_upsertOK hup)).mono hle.proxy hle.admin
    · simp only [hk, if_false] at hsk hgk
      exact (h.node k sdk gk hsk hgk).mono hle.proxy hle.admin

/-- **One node writes its own gossip state** (and its manager-side stores), nothing is notified. -/
theorem SysInv.write1 {s s' : Sys} (h : SysInv s) {n : String} {sd sd' : Side} {g g' : CState}
    (hn : s.side.find n = some sd) (hg : s.net.nodes.find n = some g)
    (hnodes : s'.net.nodes = s.net.nodes.insert n g') (hpool : s'.net.pool = s.net.pool)
    (hside : ∀ k, s'.side.find k = if n = k then some sd' else s.side.find k)
    (hle : Sys.Le s s')
    (hgood : C14.LocalGood g g') (hevs : sd'.evs = sd.evs) (hpend : sd'.pending = sd.pending)
    (hlid : sd'.table.localId = sd.table.localId)
    (hrows : ∀ a, a ≠ sd.table.localId → sd'.table.nodes.find a = sd.table.nodes.find a)
    (hminv : Upstream.MInv { lbs := sd'.lbs, cluster := sd'.table, gossip := g' })
    (hownwf : OwnWF g')
    (hp : liveValue g' Cluster.proxyAddrKey = some sd'.table.localNode.proxyAddr)
    (ha : liveValue g' Cluster.adminAddrKey = some sd'.table.localNode.adminAddr)
    (hst : Flow.StGood s'.Good s'.HasLeft g') : SysInv s' := by
  have hni := h.node n sd g hn hg
  have hfind : ∀ k, s'.net.nodes.find k = if n = k then some g' else s.net.nodes.find k := by
    intro k; rw [hnodes, AMap.find_insert]
  refine ⟨by rw [hnodes]; exact h.nd.insert _ _, ?_, ?_, ?_⟩
  · intro k
    rw [hside, hfind]
    by_cases hk : n = k
    · simp [hk]
    · simp only [hk, if_false]; exact h.dom k
  · refine ⟨?_, fun src sa dst d hd => (h.flow.pool src sa dst d (hpool ▸ hd)).mono hle.good⟩
    intro p hp
    rw [hnodes] at hp
    rcases C11.mem_insert hp with rfl | hp
    · exact hst
    · exact (h.flow.nodes p hp).mono hle.good hle.left
  · intro k sdk gk hsk hgk
    rw [hside] at hsk; rw [hfind] at hgk
    by_cases hk : n = k
    · subst hk
      simp only [if_true, Option.some.injEq] at hsk hgk
      subst hsk hgk
      exact (hni.localWrite hgood hevs hpend hlid hrows hminv hownwf hp ha).mono hle.proxy hle.admin
    · simp only [hk, if_false] at hsk hgk
      exact (h.node k sdk gk hsk hgk).mono hle.proxy hle.admin

end Piko
