import Proofs.SysNode
/-!
# The invariant of the whole system and its preservation by every allowed step

`SysInv s` bundles, for every node, `NodeInv` (C14's fold, the trace hypotheses of C04 that the
gossip layer does guarantee, "syncer = pure syncer run", C05's manager invariant, own-state
well-formedness, the two address entries) with the network-wide flow invariant
(`Proofs/GossipFlow.lean`) instantiated with `Sys.Good`: deltas flag `Internal` exactly on reserved
keys, left markers only about nodes that have left, address keys only with the owner's addresses.
`sysInv_runRev`: it holds of every reachable state (`SysAllowed` history).
-/
set_option linter.unusedSimpArgs false
namespace Piko
open Piko.Gossip

structure SysInv (s : Sys) : Prop where
  nd : s.net.nodes.NoDupKeys
  snd : s.side.NoDupKeys
  dom : ∀ n, (s.side.find n).isSome = (s.net.nodes.find n).isSome
  flow : Flow.FlowInv s.Good s.HasLeft s.net
  node : ∀ n sd g, s.side.find n = some sd → s.net.nodes.find n = some g →
    NodeInv s.proxyOf s.adminOf n sd g

namespace Sys

theorem feed_nil (side : AMap String Side) (n : String) : feed side n [] = side := by
  unfold feed; split <;> simp_all

theorem feed_none (side : AMap String Side) (n : String) (ev : List Event) (h : side.find n = none) :
    feed side n ev = side := by
  unfold feed; split <;> simp_all

theorem find_feed (side : AMap String Side) (n : String) (ev : List Event) {sd : Side}
    (h : side.find n = some sd) (k : String) :
    (feed side n ev).find k = if n = k then some (sd.observe ev) else side.find k := by
  cases ev with
  | nil =>
    rw [feed_nil, Side.observe_nil]
    by_cases hk : n = k
    · subst hk; simp [h]
    · simp [hk]
  | cons x xs =>
    simp only [feed, h, AMap.find_insert]

theorem feed_nodup {side : AMap String Side} (h : side.NoDupKeys) (n : String) (ev : List Event) :
    (feed side n ev).NoDupKeys := by
  unfold feed; split
  · exact h.insert _ _
  · exact h

theorem eta (s : Sys) : ({ net := s.net, side := s.side } : Sys) = s := rfl

end Sys

theorem SysInv.side_of_net {s : Sys} (h : SysInv s) {n : String} {g : CState}
    (hg : s.net.nodes.find n = some g) : ∃ sd, s.side.find n = some sd := by
  have := h.dom n
  rw [hg] at this
  cases hs : s.side.find n with
  | none => simp [hs] at this
  | some sd => exact ⟨sd, rfl⟩

theorem SysInv.net_of_side {s : Sys} (h : SysInv s) {n : String} {sd : Side}
    (hs : s.side.find n = some sd) : ∃ g, s.net.nodes.find n = some g := by
  have := h.dom n
  rw [hs] at this
  cases hg : s.net.nodes.find n with
  | none => simp [hg] at this
  | some g => exact ⟨g, rfl⟩

/-- nothing but the pool changed -/
theorem SysInv.congr {s s' : Sys} (h : SysInv s) (hnodes : s'.net.nodes = s.net.nodes) (hside : s'.side = s.side)
    (hpool : ∀ src sa dst d, Packet.delta src sa dst d ∈ s'.net.pool → Flow.DeltaGood s.Good d) :
    SysInv s' := by
  have hL : s'.HasLeft = s.HasLeft := by funext a; simp [Sys.HasLeft, hnodes]
  have hP : s'.proxyOf = s.proxyOf := by funext a; simp [Sys.proxyOf, hside]
  have hA : s'.adminOf = s.adminOf := by funext a; simp [Sys.adminOf, hside]
  have hG : s'.Good = s.Good := by funext a e; simp [Sys.Good, hL, hP, hA]
  refine ⟨hnodes ▸ h.nd, hside ▸ h.snd, fun n => by rw [hnodes, hside]; exact h.dom n, ?_, ?_⟩
  · rw [hG, hL]
    exact ⟨fun p hp => h.flow.nodes p (hnodes ▸ hp), hpool⟩
  · intro n sd g hs hg
    rw [hP, hA]
    exact h.node n sd g (hside ▸ hs) (hnodes ▸ hg)

/-- **One node receives**: its gossip state moves `g → g'` by receive-side operations notifying
`ev`, which its syncer is given; good packets may be added to the pool. -/
theorem SysInv.observe1 {s s' : Sys} (h : SysInv s) {n : String} {sd : Side} {g g' : CState} {ev : List Event}
    (hn : s.side.find n = some sd) (hg : s.net.nodes.find n = some g)
    (hnodes : s'.net.nodes = s.net.nodes.insert n g') (hsnd : s'.side.NoDupKeys)
    (hside : ∀ k, s'.side.find k = if n = k then some (sd.observe ev) else s.side.find k)
    (hgood : C14.Good g (g', ev)) (hown : own g' = own g)
    (hlive : SyncerSpec.Trace SyncerSpec.LiveOKn n (SyncerSpec.foldEvents sd.evs) ev)
    (hup : ∀ x ∈ ev, Flow.UpsertOK s.Good x)
    (hst : Flow.StGood s.Good s.HasLeft g')
    (hpool : ∀ src sa dst d, Packet.delta src sa dst d ∈ s'.net.pool → Flow.DeltaGood s.Good d) :
    SysInv s' ∧ Sys.Le s s' := by
  have hni := h.node n sd g hn hg
  have hfind : ∀ k, s'.net.nodes.find k = if n = k then some g' else s.net.nodes.find k := by
    intro k; rw [hnodes, AMap.find_insert]
  have hloc : (sd.observe ev).table.localNode = sd.table.localNode := by
    rw [Side.observe_table]; exact SyncerSpec.run_localNode sd.sync ev hni.pend
  have hle : Sys.Le s s' := by
    refine ⟨?_, ?_, ?_⟩
    · rintro a ⟨g0, hg0, hl⟩
      by_cases hna : n = a
      · subst hna
        rw [hg] at hg0; cases hg0
        exact ⟨g', by rw [hfind]; simp, by rw [hown]; exact hl⟩
      · exact ⟨g0, by rw [hfind]; simp [hna, hg0], hl⟩
    · intro a x hx
      unfold Sys.proxyOf at hx ⊢
      rw [hside]
      by_cases hna : n = a
      · subst hna
        simp only [hn, Option.map_some, Option.some.injEq] at hx
        simp [hloc, hx]
      · simpa [hna] using hx
    · intro a x hx
      unfold Sys.adminOf at hx ⊢
      rw [hside]
      by_cases hna : n = a
      · subst hna
        simp only [hn, Option.map_some, Option.some.injEq] at hx
        simp [hloc, hx]
      · simpa [hna] using hx
  refine ⟨⟨by rw [hnodes]; exact h.nd.insert _ _, hsnd, ?_, ?_, ?_⟩, hle⟩
  · intro k
    rw [hside, hfind]
    by_cases hk : n = k
    · simp [hk]
    · simp only [hk, if_false]; exact h.dom k
  · refine ⟨?_, fun src sa dst d hd => (hpool src sa dst d hd).mono hle.good⟩
    intro p hp
    rw [hnodes] at hp
    rcases C11.mem_insert hp with rfl | hp
    · exact hst.mono hle.good hle.left
    · exact (h.flow.nodes p hp).mono hle.good hle.left
  · intro k sdk gk hsk hgk
    rw [hside] at hsk; rw [hfind] at hgk
    by_cases hk : n = k
    · subst hk
      simp only [if_true, Option.some.injEq] at hsk hgk
      subst hsk hgk
      exact (hni.observe hgood hown hlive (Sys.addrConst_of_upsertOK hup)).mono hle.proxy hle.admin
    · simp only [hk, if_false] at hsk hgk
      exact (h.node k sdk gk hsk hgk).mono hle.proxy hle.admin

/-- **One node writes its own gossip state** (and its manager-side stores), nothing is notified. -/
theorem SysInv.write1 {s s' : Sys} (h : SysInv s) {n : String} {sd sd' : Side} {g g' : CState}
    (hn : s.side.find n = some sd) (hg : s.net.nodes.find n = some g)
    (hnodes : s'.net.nodes = s.net.nodes.insert n g') (hpool : s'.net.pool = s.net.pool)
    (hsnd : s'.side.NoDupKeys)
    (hside : ∀ k, s'.side.find k = if n = k then some sd' else s.side.find k)
    (hle : Sys.Le s s')
    (hgood : C14.LocalGood g g') (hevs : sd'.evs = sd.evs) (hpend : sd'.pending = sd.pending)
    (hlid : sd'.table.localId = sd.table.localId)
    (hrows : ∀ a, a ≠ sd.table.localId → sd'.table.nodes.find a = sd.table.nodes.find a)
    (hminv : Upstream.MInv { lbs := sd'.lbs, cluster := sd'.table, gossip := g' })
    (hownwf : OwnWF g')
    (hp : liveValue g' Cluster.proxyAddrKey = some sd'.table.localNode.proxyAddr)
    (ha : liveValue g' Cluster.adminAddrKey = some sd'.table.localNode.adminAddr)
    (htnd : sd'.table.nodes.NoDupKeys) (htloc : ∃ row, sd'.table.nodes.find n = some row ∧ row.id = n)
    (hst : Flow.StGood s'.Good s'.HasLeft g') : SysInv s' := by
  have hni := h.node n sd g hn hg
  have hfind : ∀ k, s'.net.nodes.find k = if n = k then some g' else s.net.nodes.find k := by
    intro k; rw [hnodes, AMap.find_insert]
  refine ⟨by rw [hnodes]; exact h.nd.insert _ _, hsnd, ?_, ?_, ?_⟩
  · intro k
    rw [hside, hfind]
    by_cases hk : n = k
    · simp [hk]
    · simp only [hk, if_false]; exact h.dom k
  · refine ⟨?_, fun src sa dst d hd => (h.flow.pool src sa dst d (hpool ▸ hd)).mono hle.good⟩
    intro p hp
    rw [hnodes] at hp
    rcases C11.mem_insert hp with rfl | hp
    · exact hst
    · exact (h.flow.nodes p hp).mono hle.good hle.left
  · intro k sdk gk hsk hgk
    rw [hside] at hsk; rw [hfind] at hgk
    by_cases hk : n = k
    · subst hk
      simp only [if_true, Option.some.injEq] at hsk hgk
      subst hsk hgk
      exact (hni.localWrite hgood hevs hpend hlid hrows hminv hownwf hp ha htnd htloc).mono hle.proxy hle.admin
    · simp only [hk, if_false] at hsk hgk
      exact (h.node k sdk gk hsk hgk).mono hle.proxy hle.admin

/-! ## receive-side steps -/

theorem Sys.gossip_eq (s : Sys) (op : Gossip.Op) (hnj : ∀ n m now, op ≠ .join n m true now) :
    s.gossip op = { net := (s.net.step op).net,
                    side := Sys.feed s.side (s.net.step op).who (s.net.step op).events } := by
  cases op with
  | join n m rd now =>
    cases rd with
    | false => rfl
    | true => exact absurd rfl (hnj n m now)
  | _ => rfl

/-- a receive-side step that changes no node and notifies nothing (errors, `sendDigest`) -/
theorem SysInv.recv_same {s : Sys} (h : SysInv s) (op : Gossip.Op) (hop : Flow.Recv op)
    (hnj : ∀ n m now, op ≠ .join n m true now)
    (hnodes : (s.net.step op).net.nodes = s.net.nodes) (hev : (s.net.step op).events = []) :
    SysInv (s.gossip op) := by
  rw [Sys.gossip_eq s op hnj, hev, Sys.feed_nil]
  exact h.congr hnodes rfl (Flow.FlowInv.step_recv s.good_marker h.flow op hop).1.pool

/-- a receive-side step in which the acting node moves `g → g'` (C14-good, own node untouched) -/
theorem SysInv.recv_one {s : Sys} (h : SysInv s) (op : Gossip.Op) (hop : Flow.Recv op)
    (hnj : ∀ n m now, op ≠ .join n m true now) {g g' : CState}
    (hg : s.net.nodes.find (s.net.step op).who = some g)
    (hnodes : (s.net.step op).net.nodes = s.net.nodes.insert (s.net.step op).who g')
    (hgood : C14.Good g (g', (s.net.step op).events)) (hown : own g' = own g)
    (hlive : ∀ sd, s.side.find (s.net.step op).who = some sd →
      SyncerSpec.Trace SyncerSpec.LiveOKn (s.net.step op).who (SyncerSpec.foldEvents sd.evs) (s.net.step op).events) :
    SysInv (s.gossip op) ∧ Sys.Le s (s.gossip op) := by
  obtain ⟨sd, hsd⟩ := h.side_of_net hg
  have hfl := Flow.FlowInv.step_recv s.good_marker h.flow op hop
  rw [Sys.gossip_eq s op hnj]
  refine h.observe1 (s' := Sys.mk (s.net.step op).net (Sys.feed s.side (s.net.step op).who (s.net.step op).events))
    hsd hg hnodes (Sys.feed_nodup h.snd _ _) (fun k => Sys.find_feed _ _ _ hsd k) hgood hown (hlive sd hsd) hfl.2.1 ?_ hfl.1.pool
  exact hfl.1.find (by rw [hnodes]; exact AMap.find_insert_self _ _ _)

theorem SysInv.live_of_notLive {s : Sys} (op : Gossip.Op) (h : SysInv s) (hop : Flow.Recv op)
    (hne : ∀ n sus now, op ≠ .liveness n sus now) (l : String) (v : SyncerSpec.WView) :
    SyncerSpec.Trace SyncerSpec.LiveOKn l v (s.net.step op).events :=
  SyncerSpec.trace_live_of_notLive l _ v
    ((Flow.FlowInv.step_recv s.good_marker h.flow op hop).2.2 hne)

theorem stWF_ownPresent {g : CState} (h : C14.StWF g) : OwnPresent g := by
  obtain ⟨_, _, l, hl, _⟩ := h
  exact ⟨l, hl⟩

theorem SysInv.step_sendDigest {s : Sys} (h : SysInv s) (n dst : String) (rq : Bool) (perm : List Nat) (cut : Nat) :
    SysInv (s.step (.sendDigest n dst rq perm cut)) := by
  apply h.recv_same (.sendDigest n dst rq perm cut) trivial (fun _ _ _ => by simp)
  · simp only [Net.step]; split <;> rfl
  · simp only [Net.step]; split <;> rfl

theorem SysInv.step_deliver {s : Sys} (h : SysInv s) (i cut : Nat) (perm : List Nat) (dcut now : Nat) :
    SysInv (s.step (.deliver i cut perm dcut now)) := by
  have hnj : ∀ n m now', Gossip.Op.deliver i cut perm dcut now ≠ .join n m true now' := fun _ _ _ => by simp
  have hnl : ∀ n sus now', Gossip.Op.deliver i cut perm dcut now ≠ .liveness n sus now' := fun _ _ _ => by simp
  show SysInv (s.gossip (.deliver i cut perm dcut now))
  cases hpk : s.net.pool[i]? with
  | none =>
    apply h.recv_same (.deliver i cut perm dcut now) trivial hnj <;> simp [Net.step, hpk]
  | some pk =>
    cases pk with
    | digest src sa dst rq d =>
      cases hb : s.net.nodeByAddr dst with
      | none => apply h.recv_same (.deliver i cut perm dcut now) trivial hnj <;> simp [Net.step, hpk, hb]
      | some q =>
        obtain ⟨id, g⟩ := q
        obtain ⟨hf, _⟩ := nodeByAddr_spec h.nd hb
        obtain ⟨sd, hsd⟩ := h.side_of_net hf
        have hni := h.node id sd g hsd hf
        have hwho : (s.net.step (.deliver i cut perm dcut now)).who = id := by simp [Net.step, hpk, hb]
        refine (h.recv_one (.deliver i cut perm dcut now) trivial hnj (g := g) (g' := (applyDigest g d).1) (by rw [hwho]; exact hf) ?_ ?_ ?_ ?_).1
        · simp [Net.step, hpk, hb, Net.setNode, handleDigest]
        · have : (s.net.step (.deliver i cut perm dcut now)).events = (applyDigest g d).2 := by
            simp [Net.step, hpk, hb, handleDigest]
          rw [this]; exact C14.applyDigest_good g d hni.wf
        · exact own_applyDigest d g (stWF_ownPresent hni.wf)
        · intro _ _; exact h.live_of_notLive (.deliver i cut perm dcut now) trivial hnl _ _
    | delta src sa dst d =>
      cases hb : s.net.nodeByAddr dst with
      | none => apply h.recv_same (.deliver i cut perm dcut now) trivial hnj <;> simp [Net.step, hpk, hb]
      | some q =>
        obtain ⟨id, g⟩ := q
        obtain ⟨hf, _⟩ := nodeByAddr_spec h.nd hb
        obtain ⟨sd, hsd⟩ := h.side_of_net hf
        have hni := h.node id sd g hsd hf
        have hwho : (s.net.step (.deliver i cut perm dcut now)).who = id := by simp [Net.step, hpk, hb]
        have hdg : Flow.DeltaGood s.Good d := h.flow.pool _ _ _ _ (List.mem_of_getElem? hpk)
        refine (h.recv_one (.deliver i cut perm dcut now) trivial hnj (g := g) (g' := (applyDelta now g d).1) (by rw [hwho]; exact hf) ?_ ?_ ?_ ?_).1
        · simp [Net.step, hpk, hb, Net.setNode]
        · have : (s.net.step (.deliver i cut perm dcut now)).events = (applyDelta now g d).2 := by
            simp [Net.step, hpk, hb]
          rw [this]; exact C14.applyDelta_good now g d hni.wf hni.keys (Sys.deltaOK_of_good hdg)
        · exact own_applyDelta now d g
        · intro _ _; exact h.live_of_notLive (.deliver i cut perm dcut now) trivial hnl _ _

theorem SysInv.step_leaveStream {s : Sys} (h : SysInv s) (n m : String) (now : Nat) :
    SysInv (s.step (.leaveStream n m now)) := by
  have hnj : ∀ a b now', Gossip.Op.leaveStream n m now ≠ .join a b true now' := fun _ _ _ => by simp
  have hnl : ∀ a sus now', Gossip.Op.leaveStream n m now ≠ .liveness a sus now' := fun _ _ _ => by simp
  show SysInv (s.gossip (.leaveStream n m now))
  cases hn : s.net.nodes.find n with
  | none => apply h.recv_same (.leaveStream n m now) trivial hnj <;> simp [Net.step, hn]
  | some sn =>
    cases hm : s.net.nodes.find m with
    | none => apply h.recv_same (.leaveStream n m now) trivial hnj <;> simp [Net.step, hn, hm]
    | some sm =>
      by_cases hnm : n = m
      · apply h.recv_same (.leaveStream n m now) trivial hnj <;> simp [Net.step, hn, hm, hnm]
      · obtain ⟨sd, hsd⟩ := h.side_of_net hm
        have hni := h.node m sd sm hsd hm
        have hwho : (s.net.step (.leaveStream n m now)).who = m := by simp [Net.step, hn, hm, hnm]
        have hdg : Flow.DeltaGood s.Good (localDelta sn) := Flow.localDelta_good (h.flow.find hn)
        refine (h.recv_one (.leaveStream n m now) trivial hnj (g := sm)
          (g' := (applyDelta now sm (localDelta sn)).1) (by rw [hwho]; exact hm) ?_ ?_ ?_ ?_).1
        · simp [Net.step, hn, hm, hnm, Net.setNode]
        · have : (s.net.step (.leaveStream n m now)).events = (applyDelta now sm (localDelta sn)).2 := by
            simp [Net.step, hn, hm, hnm]
          rw [this]; exact C14.applyDelta_good now sm _ hni.wf hni.keys (Sys.deltaOK_of_good hdg)
        · exact own_applyDelta now _ sm
        · intro _ _; exact h.live_of_notLive (.leaveStream n m now) trivial hnl _ _

theorem SysInv.step_liveness {s : Sys} (h : SysInv s) (n : String) (sus : List String) (now : Nat) :
    SysInv (s.step (.liveness n sus now)) := by
  have hnj : ∀ a b now', Gossip.Op.liveness n sus now ≠ .join a b true now' := fun _ _ _ => by simp
  show SysInv (s.gossip (.liveness n sus now))
  cases hn : s.net.nodes.find n with
  | none => apply h.recv_same (.liveness n sus now) trivial hnj <;> simp [Net.step, hn]
  | some g =>
    obtain ⟨sd, hsd⟩ := h.side_of_net hn
    have hni := h.node n sd g hsd hn
    have hwho : (s.net.step (.liveness n sus now)).who = n := by simp [Net.step, hn]
    have hev : (s.net.step (.liveness n sus now)).events = (updateLiveness g (fun id => sus.contains id) now).2 := by
      simp [Net.step, hn]
    refine (h.recv_one (.liveness n sus now) trivial hnj (g := g)
      (g' := (updateLiveness g (fun id => sus.contains id) now).1) (by rw [hwho]; exact hn) ?_ ?_ ?_ ?_).1
    · simp [Net.step, hn, Net.setNode]
    · rw [hev]; exact C14.updateLiveness_good g _ now hni.wf
    · exact (keeps_updateLiveness g _ now hni.wf.1 (fun a V hf => (hni.wf.2.1 a V hf).1)).2
    · intro sd' hsd'
      rw [hwho] at hsd' ⊢
      rw [hsd] at hsd'; cases hsd'
      rw [hev]
      exact SyncerSpec.trace_live_liveness n g _ now _ _ hni.wf hni.fold
        (SyncerSpec.sameView_fold [] [] sd.evs SyncerSpec.sameView_nil)

theorem SysInv.step_join {s : Sys} (h : SysInv s) (n m : String) (rd : Bool) (now : Nat) :
    SysInv (s.step (.join n m rd now)) := by
  show SysInv (s.gossip (.join n m rd now))
  have hnjf : ∀ a b now', Gossip.Op.join n m false now ≠ .join a b true now' := fun _ _ _ => by simp
  have hnl : ∀ rd' a sus now', Gossip.Op.join n m rd' now ≠ .liveness a sus now' := fun _ _ _ _ => by simp
  -- the cases in which nothing happens
  have hsame : (s.net.nodes.find n = none ∨ s.net.nodes.find m = none ∨ n = m) → SysInv (s.gossip (.join n m rd now)) := by
    intro hc
    have h1 : (s.net.step (.join n m rd now)).net = s.net ∧ (s.net.step (.join n m rd now)).events = [] := by
      rcases hc with hc | hc | hc
      · simp [Net.step, hc]
      · cases hn : s.net.nodes.find n <;> simp [Net.step, hn, hc]
      · cases hn : s.net.nodes.find n <;> cases hm : s.net.nodes.find m <;> simp [Net.step, hn, hm, hc]
    have h2 : Sys.replyEvents s.net n m now = [] := by
      rcases hc with hc | hc | hc
      · simp [Sys.replyEvents, hc]
      · cases hn : s.net.nodes.find n <;> simp [Sys.replyEvents, hn, hc]
      · cases hn : s.net.nodes.find n <;> cases hm : s.net.nodes.find m <;> simp [Sys.replyEvents, hn, hm, hc]
    have : s.gossip (.join n m rd now) = s := by
      cases rd <;> simp [Sys.gossip, h1.1, h1.2, h2, Sys.feed_nil]
    rw [this]; exact h
  cases hn : s.net.nodes.find n with
  | none => exact hsame (Or.inl hn)
  | some sn =>
    cases hm : s.net.nodes.find m with
    | none => exact hsame (Or.inr (Or.inl hm))
    | some sm =>
      by_cases hnm : n = m
      · exact hsame (Or.inr (Or.inr hnm))
      · -- the request half at `m`
        obtain ⟨sdm, hsdm⟩ := h.side_of_net hm
        have him := h.node m sdm sm hsdm hm
        have hdg : Flow.DeltaGood s.Good (localDelta sn) := Flow.localDelta_good (h.flow.find hn)
        have hg1 := C14.applyDelta_good now sm (localDelta sn) him.wf him.keys (Sys.deltaOK_of_good hdg)
        have hg2 := C14.applyDigest_good (applyDelta now sm (localDelta sn)).1 (sortDigest (digest sn)) hg1.wf
        have hwho : (s.net.step (.join n m false now)).who = m := by simp [Net.step, hn, hm, hnm]
        have hstep1 := h.recv_one (.join n m false now) trivial hnjf (g := sm)
          (g' := (applyDigest (applyDelta now sm (localDelta sn)).1 (sortDigest (digest sn))).1)
          (by rw [hwho]; exact hm) (by simp [Net.step, hn, hm, hnm, Net.setNode])
          (by
            have : (s.net.step (.join n m false now)).events = (applyDelta now sm (localDelta sn)).2 ++
                (applyDigest (applyDelta now sm (localDelta sn)).1 (sortDigest (digest sn))).2 := by
              simp [Net.step, hn, hm, hnm]
            rw [this]; exact hg1.trans hg2)
          (by rw [own_applyDigest _ _ (stWF_ownPresent hg1.wf), own_applyDelta])
          (fun _ _ => h.live_of_notLive (.join n m false now) trivial (hnl false) _ _)
        cases rd with
        | false => exact hstep1.1
        | true =>
          -- the reply half at `n`
          obtain ⟨h1, hle1⟩ := hstep1
          have hs1n : (s.gossip (.join n m false now)).net.nodes.find n = some sn := by
            simp [Sys.gossip, Net.step, hn, hm, hnm, Net.setNode, AMap.find_insert_ne _ _ hnm, hn]
          have hs1m : (s.gossip (.join n m false now)).net.nodes.find m =
              some (applyDigest (applyDelta now sm (localDelta sn)).1 (sortDigest (digest sn))).1 := by
            simp [Sys.gossip, Net.step, hn, hm, hnm, Net.setNode]
          obtain ⟨sdn, hsdn⟩ := h1.side_of_net hs1n
          have hin := h1.node n sdn sn hsdn hs1n
          have hreply : Flow.DeltaGood (s.gossip (.join n m false now)).Good
              (sortDelta (delta (applyDigest (applyDelta now sm (localDelta sn)).1 (sortDigest (digest sn))).1
                (sortDigest (digest sn)) true)) :=
            Flow.sortDelta_good (Flow.delta_good (h1.flow.find hs1m) _ _)
          have hap := Flow.applyDelta_good (Sys.good_marker _) now (h1.flow.find hs1n) hreply
          have hsideEq : (s.gossip (.join n m true now)).side =
              Sys.feed (s.gossip (.join n m false now)).side n
                (applyDelta now sn (sortDelta (delta
                  (applyDigest (applyDelta now sm (localDelta sn)).1 (sortDigest (digest sn))).1
                  (sortDigest (digest sn)) true))).2 := by
            simp [Sys.gossip, Net.step, hn, hm, hnm, Sys.replyEvents]
          refine (h1.observe1 (s' := s.gossip (.join n m true now)) hsdn hs1n ?_
            (by rw [hsideEq]; exact Sys.feed_nodup h1.snd _ _) ?_
            (C14.applyDelta_good now sn _ hin.wf hin.keys (Sys.deltaOK_of_good hreply))
            (own_applyDelta now _ sn)
            (SyncerSpec.trace_live_of_notLive n _ _ (fun x hx => (hap.2 x hx).2))
            (fun x hx => (hap.2 x hx).1) hap.1 ?_).1
          · simp [Sys.gossip, Net.step, hn, hm, hnm, Net.setNode]
            rfl
          · intro k
            rw [hsideEq]
            exact Sys.find_feed _ _ _ hsdn k
          · intro src sa dst d hd
            have : (s.gossip (.join n m true now)).net.pool = (s.gossip (.join n m false now)).net.pool := by
              simp [Sys.gossip, Net.step, hn, hm, hnm, Net.setNode]
            rw [this] at hd
            exact h1.flow.pool _ _ _ _ hd

/-! ## own writes: `LeaveLocal`, `CompactLocal` -/

theorem Sys.good_plain (s : Sys) (a k v : String) (ver : Nat) (hl : k ≠ leftKey) (hc : k ≠ compactKey)
    (hp : k ≠ Cluster.proxyAddrKey) (ha : k ≠ Cluster.adminAddrKey) :
    s.Good a { key := k, value := v, version := ver } :=
  ⟨by simp [entryOK, isReserved, hl, hc], fun h => absurd h hl, fun h => absurd h hp, fun h => absurd h ha⟩

theorem Sys.good_tombstone {s : Sys} {a : String} {e : Entry} (ver : Nat) (h : s.Good a e)
    (hp : e.key ≠ Cluster.proxyAddrKey) (ha : e.key ≠ Cluster.adminAddrKey) :
    s.Good a { key := e.key, value := "", version := ver, internal := e.internal, deleted := true } :=
  ⟨h.1, h.2.1, fun hk => absurd hk hp, fun hk => absurd hk ha⟩

theorem epKey_ne_addr (e : String) : "endpoint:" ++ e ≠ Cluster.proxyAddrKey ∧ "endpoint:" ++ e ≠ Cluster.adminAddrKey :=
  ⟨fun h => SyncerSpec.proxy_ne_epKey e h.symm, fun h => SyncerSpec.admin_ne_epKey e h.symm⟩

theorem SysInv.step_leave {s : Sys} (h : SysInv s) (n : String) : SysInv (s.step (.leave n)) := by
  cases hn : s.net.nodes.find n with
  | none =>
    have : s.step (.leave n) = s := by simp [Sys.step, Sys.gossip, Net.step, localOp, hn, Sys.feed_nil]
    rw [this]; exact h
  | some g =>
    obtain ⟨sd, hsd⟩ := h.side_of_net hn
    have hni := h.node n sd g hsd hn
    have hs' : s.step (.leave n) = { net := s.net.setNode n (leaveLocal g), side := s.side } := by
      simp [Sys.step, Sys.gossip, Net.step, localOp, hn, Sys.feed_nil]
    rw [hs']
    have hleft : Sys.HasLeft { net := s.net.setNode n (leaveLocal g), side := s.side } n :=
      ⟨leaveLocal g, by simp [Net.setNode], C11.own_left_leaveLocal g⟩
    have hle : Sys.Le s { net := s.net.setNode n (leaveLocal g), side := s.side } := by
      refine ⟨?_, fun a x hx => hx, fun a x hx => hx⟩
      rintro a ⟨g0, hg0, hl⟩
      by_cases hna : n = a
      · subst hna; exact hleft
      · exact ⟨g0, by simp [Net.setNode, AMap.find_insert, hna, hg0], hl⟩
    have hpres := stWF_ownPresent hni.wf
    refine h.write1 (sd' := sd) hsd hn rfl rfl h.snd (fun k => ?_) hle (C14.leaveLocal_good hni.wf) rfl rfl rfl
      (fun _ _ => rfl) ⟨hni.minv.lbs, hni.minv.counts, fun e => ?_⟩ (ownWF_leaveLocal hni.ownwf) ?_ ?_
      hni.tnd hni.tloc ?_
    · by_cases hk : n = k
      · subst hk; simp [hsd]
      · simp [hk]
    · show liveValue (leaveLocal g) (Upstream.epKey e) = _
      rw [liveValue_leaveLocal g (k := Upstream.epKey e) (epKey_ne_reserved e).1]; exact hni.minv.adv e
    · rw [liveValue_leaveLocal g (by decide)]; exact hni.paddr
    · rw [liveValue_leaveLocal g (by decide)]; exact hni.aaddr
    · have hst := (h.flow.find hn).mono hle.good hle.left
      refine Flow.leaveLocal_good hst hpres (fun ver => ?_) (by rw [hni.lid]; exact hleft)
      rw [hni.lid]
      exact ⟨by simp [entryOK, isReserved], fun _ => hleft,
        fun hk => absurd (show leftKey = Cluster.proxyAddrKey from hk) (by decide),
        fun hk => absurd (show leftKey = Cluster.adminAddrKey from hk) (by decide)⟩

theorem own_left_compactLocal {g g' : CState} (hwf : OwnWF g) {thr : Nat} (hc : compactLocal g thr = some g') :
    (own g').left = (own g).left := by
  rcases compactLocal_some hwf hc with ⟨_, rfl⟩ | ⟨_, _, rfl⟩
  · rfl
  · rw [own_setOwn]; rfl

theorem SysInv.step_compact {s : Sys} (h : SysInv s) (n : String) (thr : Nat) : SysInv (s.step (.compact n thr)) := by
  cases hn : s.net.nodes.find n with
  | none =>
    have : s.step (.compact n thr) = s := by simp [Sys.step, Sys.gossip, Net.step, hn, Sys.feed_nil]
    rw [this]; exact h
  | some g =>
    cases hc : compactLocal g thr with
    | none =>
      have : s.step (.compact n thr) = s := by simp [Sys.step, Sys.gossip, Net.step, hn, hc, Sys.feed_nil]
      rw [this]; exact h
    | some g' =>
      obtain ⟨sd, hsd⟩ := h.side_of_net hn
      have hni := h.node n sd g hsd hn
      have hs' : s.step (.compact n thr) = { net := s.net.setNode n g', side := s.side } := by
        simp [Sys.step, Sys.gossip, Net.step, hn, hc, Sys.feed_nil]
      rw [hs']
      have hle : Sys.Le s { net := s.net.setNode n g', side := s.side } := by
        refine ⟨?_, fun a x hx => hx, fun a x hx => hx⟩
        rintro a ⟨g0, hg0, hl⟩
        by_cases hna : n = a
        · subst hna
          rw [hn] at hg0; cases hg0
          exact ⟨g', by simp [Net.setNode], by rw [own_left_compactLocal hni.ownwf hc]; exact hl⟩
        · exact ⟨g0, by simp [Net.setNode, AMap.find_insert, hna, hg0], hl⟩
      refine h.write1 (sd' := sd) hsd hn rfl rfl h.snd (fun k => ?_) hle (C14.compactLocal_good hni.wf thr hc) rfl rfl rfl
        (fun _ _ => rfl) ⟨hni.minv.lbs, hni.minv.counts, fun e => ?_⟩ (ownWF_compactLocal hni.ownwf hc) ?_ ?_
        hni.tnd hni.tloc ?_
      · by_cases hk : n = k
        · subst hk; simp [hsd]
        · simp [hk]
      · show liveValue g' (Upstream.epKey e) = _
        rw [liveValue_compactLocal hni.ownwf hc (k := Upstream.epKey e) (epKey_ne_reserved e).2]; exact hni.minv.adv e
      · rw [liveValue_compactLocal hni.ownwf hc (by decide)]; exact hni.paddr
      · rw [liveValue_compactLocal hni.ownwf hc (by decide)]; exact hni.aaddr
      · have hst := (h.flow.find hn).mono hle.good hle.left
        refine Flow.compactLocal_good hst (stWF_ownPresent hni.wf) hc (fun e ver he => he) (fun v ver => ?_)
        exact ⟨by simp [entryOK, isReserved],
          fun hk => absurd (show compactKey = leftKey from hk) (by decide),
          fun hk => absurd (show compactKey = Cluster.proxyAddrKey from hk) (by decide),
          fun hk => absurd (show compactKey = Cluster.adminAddrKey from hk) (by decide)⟩

/-! ## the manager's calls: `AddConn` / `RemoveConn` -/

namespace Upstream

theorem own_left_upsertLocal (g : CState) (k v : String) : (own (upsertLocal g k v)).left = (own g).left := by
  unfold upsertLocal
  split
  · split
    · rfl
    · exact left_writeOwn _ _ _
  · exact left_writeOwn _ _ _

theorem own_left_deleteLocal (g : CState) (k : String) : (own (deleteLocal g k)).left = (own g).left := by
  unfold deleteLocal
  split
  · rfl
  · split
    · rfl
    · exact left_writeOwn _ _ _

theorem onLocal_left (c : Cluster.State) (g : CState) (e : String) :
    (own (onLocalEndpointUpdate c g e)).left = (own g).left := by
  unfold onLocalEndpointUpdate
  simp only []
  split
  · exact own_left_upsertLocal _ _ _
  · exact own_left_deleteLocal _ _

theorem onLocal_localGood {g : CState} (c : Cluster.State) (e : String) (h : C14.StWF g) :
    C14.LocalGood g (onLocalEndpointUpdate c g e) := by
  unfold onLocalEndpointUpdate
  simp only []
  split
  · exact C14.upsertLocal_good h _ _
  · exact C14.deleteLocal_good h _

theorem onLocal_ownWF {g : CState} (c : Cluster.State) (e : String) (h : OwnWF g) :
    OwnWF (onLocalEndpointUpdate c g e) := by
  unfold onLocalEndpointUpdate
  simp only []
  split
  · exact ownWF_upsertLocal h _ _
  · exact ownWF_deleteLocal h _

theorem onLocal_liveValue (c : Cluster.State) (g : CState) (e k : String) (hk : "endpoint:" ++ e ≠ k) :
    liveValue (onLocalEndpointUpdate c g e) k = liveValue g k := by
  unfold onLocalEndpointUpdate
  simp only []
  split
  · rw [liveValue_upsertLocal]; simp [hk]
  · rw [liveValue_deleteLocal]; simp [hk]

theorem onLocal_stGood {P : String → Entry → Prop} {L : String → Prop} {g : CState} (c : Cluster.State) (e : String)
    (h : Flow.StGood P L g) (hwf : C14.StWF g)
    (hnew : ∀ v ver, P g.localId { key := "endpoint:" ++ e, value := v, version := ver })
    (hdel : ∀ x ver, x.key = "endpoint:" ++ e → P g.localId x →
      P g.localId { key := x.key, value := "", version := ver, internal := x.internal, deleted := true }) :
    Flow.StGood P L (onLocalEndpointUpdate c g e) := by
  have hp := stWF_ownPresent hwf
  unfold onLocalEndpointUpdate
  simp only []
  split
  · exact Flow.upsertLocal_good h hp _ _ (fun ver => hnew _ ver)
  · refine Flow.deleteLocal_good h hp _ (fun x ver hf hx => hdel x ver ?_ hx)
    exact (C14.own_of_wf hwf).2.1.2 _ x hf

/-- the manager only writes the local row's endpoint counts -/
structure RowsSame (t t' : Cluster.State) : Prop where
  lid : t'.localId = t.localId
  rows : ∀ a, a ≠ t.localId → t'.nodes.find a = t.nodes.find a
  proxy : t'.localNode.proxyAddr = t.localNode.proxyAddr
  admin : t'.localNode.adminAddr = t.localNode.adminAddr
  nd : t.nodes.NoDupKeys → t'.nodes.NoDupKeys
  loc : ∀ row, t.nodes.find t.localId = some row → ∃ row', t'.nodes.find t.localId = some row' ∧ row'.id = row.id

theorem RowsSame.refl (t : Cluster.State) : RowsSame t t :=
  ⟨rfl, fun _ _ => rfl, rfl, rfl, id, fun row h => ⟨row, h, rfl⟩⟩

theorem rowsSame_setLocal (t : Cluster.State) (f : AMap String Int → AMap String Int) :
    RowsSame t (t.setLocal { t.localNode with endpoints := f t.localNode.endpoints }) :=
  ⟨rfl, fun a ha => by simp [Cluster.State.setLocal, AMap.find_insert_ne _ _ ha], by simp, by simp,
   fun h => h.insert _ _,
   fun row h => ⟨{ t.localNode with endpoints := f t.localNode.endpoints },
     by simp [Cluster.State.setLocal], by simp [Cluster.State.localNode, h]⟩⟩

theorem rowsSame_add (t : Cluster.State) (e : String) : RowsSame t (t.addLocalEndpoint e) :=
  rowsSame_setLocal t (fun eps => eps.insert e (t.localEndpointListeners e + 1))

theorem rowsSame_remove (t : Cluster.State) (e : String) : RowsSame t (t.removeLocalEndpoint e).1 := by
  unfold Cluster.State.removeLocalEndpoint
  simp only []
  split
  · exact RowsSame.refl t
  · next l _ =>
    split
    · exact RowsSame.refl t
    · split
      · exact rowsSame_setLocal t (fun eps => eps.insert e (l - 1))
      · exact rowsSame_setLocal t (fun eps => eps.erase e)

end Upstream

/-- node `n`'s manager writes: new balancers `lbs'`, table `c` (local row only), and the subscriber's
gossip write for endpoint `e` -/
theorem SysInv.step_mgr {s : Sys} (h : SysInv s) {n : String} {sd : Side} {g : CState}
    (hsd : s.side.find n = some sd) (hg : s.net.nodes.find n = some g)
    (lbs' : AMap String Upstream.LB) (c : Cluster.State) (e : String)
    (hrows : Upstream.RowsSame sd.table c)
    (hminv : Upstream.MInv { lbs := lbs', cluster := c, gossip := Upstream.onLocalEndpointUpdate c g e }) :
    SysInv { net := s.net.setNode n (Upstream.onLocalEndpointUpdate c g e),
             side := s.side.insert n { sd with lbs := lbs', table := c } } := by
  have hni := h.node n sd g hsd hg
  have hle : Sys.Le s { net := s.net.setNode n (Upstream.onLocalEndpointUpdate c g e),
                        side := s.side.insert n { sd with lbs := lbs', table := c } } := by
    refine ⟨?_, ?_, ?_⟩
    · rintro a ⟨g0, hg0, hl⟩
      by_cases hna : n = a
      · subst hna
        rw [hg] at hg0; cases hg0
        exact ⟨Upstream.onLocalEndpointUpdate c g e, by simp [Net.setNode],
          by rw [Upstream.onLocal_left]; exact hl⟩
      · exact ⟨g0, by simp [Net.setNode, AMap.find_insert, hna, hg0], hl⟩
    · intro a x hx
      unfold Sys.proxyOf at hx ⊢
      simp only [AMap.find_insert]
      by_cases hna : n = a
      · subst hna
        simp only [hsd, Option.map_some, Option.some.injEq] at hx
        simp [hrows.proxy, hx]
      · simpa [hna] using hx
    · intro a x hx
      unfold Sys.adminOf at hx ⊢
      simp only [AMap.find_insert]
      by_cases hna : n = a
      · subst hna
        simp only [hsd, Option.map_some, Option.some.injEq] at hx
        simp [hrows.admin, hx]
      · simpa [hna] using hx
  have htloc : ∃ row, c.nodes.find n = some row ∧ row.id = n := by
    obtain ⟨row, hrow, hid⟩ := hni.tloc
    obtain ⟨row', hrow', hid'⟩ := hrows.loc row (by rw [hni.tlid]; exact hrow)
    exact ⟨row', by rw [← hni.tlid]; exact hrow', hid'.trans hid⟩
  refine h.write1 (sd' := { sd with lbs := lbs', table := c }) hsd hg rfl rfl (h.snd.insert _ _)
    (fun k => by simp [AMap.find_insert]) hle (Upstream.onLocal_localGood c e hni.wf) rfl rfl hrows.lid hrows.rows
    hminv (Upstream.onLocal_ownWF c e hni.ownwf) ?_ ?_ (hrows.nd hni.tnd) htloc ?_
  · rw [Upstream.onLocal_liveValue c g e _ (epKey_ne_addr e).1]
    show _ = some c.localNode.proxyAddr
    rw [hrows.proxy]; exact hni.paddr
  · rw [Upstream.onLocal_liveValue c g e _ (epKey_ne_addr e).2]
    show _ = some c.localNode.adminAddr
    rw [hrows.admin]; exact hni.aaddr
  · have hst := (h.flow.find hg).mono hle.good hle.left
    refine Upstream.onLocal_stGood c e hst hni.wf (fun v ver => ?_) (fun x ver hk hx => ?_)
    · exact Sys.good_plain _ _ _ _ _ (epKey_ne_reserved e).1 (epKey_ne_reserved e).2 (epKey_ne_addr e).1 (epKey_ne_addr e).2
    · exact Sys.good_tombstone ver hx (hk ▸ (epKey_ne_addr e).1) (hk ▸ (epKey_ne_addr e).2)

theorem Sys.mgr_eq {s : Sys} {n : String} {m : Upstream.Mgr} (h : s.mgr n = some m) :
    ∃ sd g, s.side.find n = some sd ∧ s.net.nodes.find n = some g ∧
      m = { lbs := sd.lbs, cluster := sd.table, gossip := g } := by
  unfold Sys.mgr at h
  cases hs : s.side.find n with
  | none => simp [hs] at h
  | some sd =>
    cases hg : s.net.nodes.find n with
    | none => simp [hs, hg] at h
    | some g =>
      simp only [hs, hg, Option.some.injEq] at h
      exact ⟨sd, g, rfl, rfl, h.symm⟩

theorem SysInv.step_addConn {s : Sys} (h : SysInv s) (n : String) (uid : Nat) (ep : String) :
    SysInv (s.step (.addConn n uid ep)) := by
  simp only [Sys.step]
  cases hm : s.mgr n with
  | none => exact h
  | some m =>
    obtain ⟨sd, g, hsd, hg, rfl⟩ := Sys.mgr_eq hm
    have hni := h.node n sd g hsd hg
    simp only [Sys.putMgr, hsd, if_true]
    exact h.step_mgr hsd hg _ (sd.table.addLocalEndpoint ep) ep (Upstream.rowsSame_add _ _)
      (Upstream.inv_addConn _ { id := uid, ep := ep } hni.minv)

/-- a registered upstream has a positive count: `RemoveLocalEndpoint` notifies -/
theorem Upstream.notify_of_registered {m : Upstream.Mgr} (h : Upstream.MInv m) {ep : String} {uid : Nat}
    (hreg : (m.registry ep).contains uid = true) : (m.cluster.removeLocalEndpoint ep).2 = true := by
  have hlen : (m.registry ep).length ≠ 0 := by
    intro h0
    have : m.registry ep = [] := List.length_eq_zero_iff.mp h0
    rw [this] at hreg; simp at hreg
  have hc := h.counts ep
  unfold Upstream.countOpt at hc
  simp only [hlen, if_false] at hc
  unfold Cluster.State.removeLocalEndpoint
  simp only [hc]
  have hne : ¬ ((m.registry ep).length : Int) = 0 := by omega
  simp only [hne, if_false]
  split <;> rfl

theorem SysInv.step_removeConn {s : Sys} (h : SysInv s) (n : String) (uid : Nat) (ep : String) :
    SysInv (s.step (.removeConn n uid ep)) := by
  simp only [Sys.step]
  cases hm : s.mgr n with
  | none => exact h
  | some m =>
    obtain ⟨sd, g, hsd, hg, rfl⟩ := Sys.mgr_eq hm
    have hni := h.node n sd g hsd hg
    simp only []
    by_cases hreg : (Upstream.Mgr.registry { lbs := sd.lbs, cluster := sd.table, gossip := g } ep).contains uid = true
    · have hnot := Upstream.notify_of_registered hni.minv hreg
      simp only [hreg, if_true, Sys.putMgr, hsd]
      have hinv := Upstream.inv_removeConn _ { id := uid, ep := ep } hni.minv
      have hlb : ∃ lb, sd.lbs.find ep = some lb ∧ lb.contains uid = true := by
        unfold Upstream.Mgr.registry at hreg
        cases hf : sd.lbs.find ep with
        | none => simp [hf] at hreg
        | some lb => exact ⟨lb, rfl, by simpa [hf, Upstream.LB.contains] using hreg⟩
      obtain ⟨lb, hlb, hc⟩ := hlb
      simp only [] at hnot
      have hshape : Upstream.Mgr.removeConn { lbs := sd.lbs, cluster := sd.table, gossip := g } { id := uid, ep := ep } =
          { lbs := (Upstream.Mgr.removeConn { lbs := sd.lbs, cluster := sd.table, gossip := g } { id := uid, ep := ep }).lbs,
            cluster := (sd.table.removeLocalEndpoint ep).1,
            gossip := Upstream.onLocalEndpointUpdate (sd.table.removeLocalEndpoint ep).1 g ep } := by
        simp [Upstream.Mgr.removeConn, hlb, hc, hnot]
      rw [hshape] at hinv ⊢
      simp only [hnot, if_true]
      exact h.step_mgr hsd hg _ (sd.table.removeLocalEndpoint ep).1 ep (Upstream.rowsSame_remove _ _) hinv
    · simp only [hreg]; exact h

/-! ## a node starts -/

theorem Gossip.C14.LocalGood.trans {a b c : CState} (h1 : C14.LocalGood a b) (h2 : C14.LocalGood b c) : C14.LocalGood a c :=
  ⟨h2.wf, fun hk => h2.keys (h1.keys hk), h2.lid.trans h1.lid, h2.vis.trans h1.vis⟩

theorem SysInv.step_boot {s : Sys} (h : SysInv s) (id ga pa aa : String) : SysInv (s.step (.boot id ga pa aa)) := by
  simp only [Sys.step]
  split
  swap
  · exact h
  next hnone _ hsnone =>
  -- abbreviations
  have hg0 : Upstream.syncInit (Sys.bootTable id pa aa) (Gossip.init id ga) =
      upsertLocal (upsertLocal (Gossip.init id ga) "proxy_addr" pa) "admin_addr" aa := Sys.syncInit_boot id ga pa aa
  rw [hg0]
  have hloc : (Sys.bootTable id pa aa).localNode = { id := id, status := .active, proxyAddr := pa, adminAddr := aa } := by
    simp [Sys.bootTable, Cluster.State.new, Cluster.State.localNode]
  have hfindS : ∀ k, (s.side.insert id ({ table := Sys.bootTable id pa aa } : Side)).find k =
      if id = k then some { table := Sys.bootTable id pa aa } else s.side.find k := fun k => AMap.find_insert _ _ _ _
  have hle : Sys.Le s { net := s.net.setNode id (upsertLocal (upsertLocal (Gossip.init id ga) "proxy_addr" pa) "admin_addr" aa),
                        side := s.side.insert id { table := Sys.bootTable id pa aa } } := by
    refine ⟨?_, ?_, ?_⟩
    · rintro a ⟨g0, hg0', hl⟩
      have hna : ¬ id = a := by intro e; rw [← e, hnone] at hg0'; cases hg0'
      exact ⟨g0, by simp [Net.setNode, AMap.find_insert, hna, hg0'], hl⟩
    · intro a x hx
      unfold Sys.proxyOf at hx ⊢
      have hna : ¬ id = a := by intro e; rw [← e, hsnone] at hx; cases hx
      simpa [AMap.find_insert, hna] using hx
    · intro a x hx
      unfold Sys.adminOf at hx ⊢
      have hna : ¬ id = a := by intro e; rw [← e, hsnone] at hx; cases hx
      simpa [AMap.find_insert, hna] using hx
  have hwf0 := C14.stWF_init id ga
  have hlg1 := C14.upsertLocal_good hwf0 "proxy_addr" pa
  have hlg2 := C14.upsertLocal_good hlg1.wf "admin_addr" aa
  have hlg := hlg1.trans hlg2
  have hlid : (upsertLocal (upsertLocal (Gossip.init id ga) "proxy_addr" pa) "admin_addr" aa).localId = id := hlg.lid
  have hlive1 : ∀ k, liveValue (upsertLocal (upsertLocal (Gossip.init id ga) "proxy_addr" pa) "admin_addr" aa) k =
      if "admin_addr" = k then some aa else if "proxy_addr" = k then some pa else none := by
    intro k
    rw [liveValue_upsertLocal, liveValue_upsertLocal, liveValue_init]
  refine ⟨h.nd.insert _ _, h.snd.insert _ _, ?_, ?_, ?_⟩
  · intro k
    simp only [Net.setNode, AMap.find_insert]
    by_cases hk : id = k
    · simp [hk]
    · simp only [hk, if_false]; exact h.dom k
  · refine ⟨?_, fun src sa dst d hd => (h.flow.pool src sa dst d hd).mono hle.good⟩
    intro p hp
    rcases C11.mem_insert hp with rfl | hp
    · -- the fresh node: two good entries
      have hst0 : Flow.StGood
          (Sys.Good { net := s.net.setNode id (upsertLocal (upsertLocal (Gossip.init id ga) "proxy_addr" pa) "admin_addr" aa),
                      side := s.side.insert id { table := Sys.bootTable id pa aa } })
          (Sys.HasLeft { net := s.net.setNode id (upsertLocal (upsertLocal (Gossip.init id ga) "proxy_addr" pa) "admin_addr" aa),
                         side := s.side.insert id { table := Sys.bootTable id pa aa } })
          (Gossip.init id ga) := by
        intro q hq
        simp only [Gossip.init, List.mem_cons, List.not_mem_nil, or_false] at hq
        subst hq
        exact Flow.viewGood_fresh _ _
      have hst1 := Flow.upsertLocal_good hst0 (ownPresent_init id ga) "proxy_addr" pa (fun ver =>
        ⟨by simp [entryOK, isReserved, leftKey, compactKey],
         fun hk => absurd (show "proxy_addr" = leftKey from hk) (by decide),
         fun _ => ⟨rfl, by simp [Sys.proxyOf, Gossip.init, AMap.find_insert, hloc]⟩,
         fun hk => absurd (show "proxy_addr" = Cluster.adminAddrKey from hk) (by decide)⟩)
      exact Flow.upsertLocal_good hst1 (ownPresent_upsertLocal _ _ _ (ownPresent_init id ga)) "admin_addr" aa (fun ver =>
        ⟨by simp [entryOK, isReserved, leftKey, compactKey],
         fun hk => absurd (show "admin_addr" = leftKey from hk) (by decide),
         fun hk => absurd (show "admin_addr" = Cluster.proxyAddrKey from hk) (by decide),
         fun _ => ⟨rfl, by
           have : (upsertLocal (Gossip.init id ga) "proxy_addr" pa).localId = id := hlg1.lid
           simp [Sys.adminOf, this, AMap.find_insert, hloc]⟩⟩)
    · exact (h.flow.nodes p hp).mono hle.good hle.left
  · intro k sdk gk hsk hgk
    rw [hfindS] at hsk
    simp only [Net.setNode, AMap.find_insert] at hgk
    by_cases hk : id = k
    · subst hk
      simp only [if_true, Option.some.injEq] at hsk hgk
      subst hsk hgk
      exact
        { lid := hlid
          wf := hlg.wf
          keys := hlg.keys (C14.keysOK_init id ga)
          fold := by
            show C14.foldOK [] _
            have := C14.foldOK_init id ga
            unfold C14.foldOK at *; rw [hlg.vis]; exact this
          evok := rfl
          live := trivial
          addr := fun a k v hm => by simp at hm
          tlid := rfl
          pend := fun a x hx => by simp [Side.sync] at hx
          agree := by
            refine ⟨rfl, fun a hne => ?_⟩
            have hne' : ¬ id = a := fun e => hne (by simp [Side.sync, Sys.bootTable, Cluster.State.new, e])
            simp [SyncerSpec.atNode, Side.sync, Sys.bootTable, Cluster.State.new, Cluster.Sync.new, Cluster.Sync.run, hne']
          minv := by
            refine ⟨fun e lb hf => by simp at hf, fun e => ?_, fun e => ?_⟩
            · simp [hloc, Upstream.Mgr.registry, Upstream.countOpt]
            · show liveValue _ (Upstream.epKey e) = _
              rw [hlive1]
              have h1 : ¬ "admin_addr" = Upstream.epKey e := fun hh => (epKey_ne_addr e).2 hh.symm
              have h2 : ¬ "proxy_addr" = Upstream.epKey e := fun hh => (epKey_ne_addr e).1 hh.symm
              simp [h1, h2, Upstream.Mgr.registry, Upstream.advOpt]
          ownwf := ownWF_upsertLocal (ownWF_upsertLocal (ownWF_init id ga) _ _) _ _
          paddr := by rw [hlive1, hloc]; simp [Cluster.proxyAddrKey]
          aaddr := by rw [hlive1, hloc]; simp [Cluster.adminAddrKey]
          tnd := by simp [Sys.bootTable, Cluster.State.new, AMap.NoDupKeys, AMap.keys]
          tloc := ⟨{ id := id, status := .active, proxyAddr := pa, adminAddr := aa },
            by simp [Sys.bootTable, Cluster.State.new], rfl⟩ }
    · simp only [hk, if_false] at hsk hgk
      exact (h.node k sdk gk hsk hgk).mono hle.proxy hle.admin

/-! ## every allowed step, every reachable state -/

theorem sysInv_empty : SysInv {} := by
  refine ⟨AMap.noDupKeys_nil, AMap.noDupKeys_nil, fun n => rfl, ⟨fun p hp => by simp at hp, fun _ _ _ _ hd => by simp at hd⟩, ?_⟩
  intro n sd g hs; simp at hs

/-- **Every allowed step preserves the system invariant.** -/
theorem SysInv.step {s : Sys} (h : SysInv s) (op : SysOp) (ha : SysStepAllowed s op) : SysInv (s.step op) := by
  cases op with
  | boot id ga pa aa => exact h.step_boot id ga pa aa
  | addConn n uid ep => exact h.step_addConn n uid ep
  | removeConn n uid ep => exact h.step_removeConn n uid ep
  | leave n => exact h.step_leave n
  | compact n thr => exact h.step_compact n thr
  | sendDigest n dst rq perm cut => exact h.step_sendDigest n dst rq perm cut
  | deliver i cut perm dcut now => exact h.step_deliver i cut perm dcut now
  | join n m rd now => exact h.step_join n m rd now
  | leaveStream n m now => exact h.step_leaveStream n m now
  | liveness n sus now => exact h.step_liveness n sus now
  | expire n t => exact ha.elim

/-- **The system invariant holds of every reachable state.** -/
theorem sysInv_runRev : ∀ ops : List SysOp, SysAllowed ops → SysInv (Sys.runRev ops)
  | [], _ => sysInv_empty
  | op :: earlier, h => (sysInv_runRev earlier h.1).step op h.2

end Piko
