import Proofs.SysNode
/-!
# The invariant of the whole system and its preservation by every allowed step

`SysInv s` bundles, for every node, `NodeInv` (C14's fold, the trace hypotheses of C04 that the
gossip layer does guarantee, "syncer = pure syncer run", C05's manager invariant, own-state
well-formedness, the two address entries) with the network-wide flow invariant
(`Proofs/GossipFlow.lean`) instantiated with `Sys.Good`: deltas flag `Internal` exactly on reserved
keys, left markers only about nodes that have left, address keys only with the owner's addresses.
`sysInv_runRev`: it holds of every reachable state (`SysAllowed` history).
-/
set_option linter.unusedSimpArgs false
namespace Piko
open Piko.Gossip

structure SysInv (s : Sys) : Prop where
  nd : s.net.nodes.NoDupKeys
  dom : ∀ n, (s.side.find n).isSome = (s.net.nodes.find n).isSome
  flow : Flow.FlowInv s.Good s.HasLeft s.net
  node : ∀ n sd g, s.side.find n = some sd → s.net.nodes.find n = some g →
    NodeInv s.proxyOf s.adminOf n sd g

namespace Sys

theorem feed_nil (side : AMap String Side) (n : String) : feed side n [] = side := by
  unfold feed; split <;> simp_all

theorem feed_none (side : AMap String Side) (n : String) (ev : List Event) (h : side.find n = none) :
    feed side n ev = side := by
  unfold feed; split <;> simp_all

theorem find_feed (side : AMap String Side) (n : String) (ev : List Event) {sd : Side}
    (h : side.find n = some sd) (k : String) :
    (feed side n ev).find k = if n = k then some (sd.observe ev) else side.find k := by
  cases ev with
  | nil =>
    rw [feed_nil, Side.observe_nil]
    by_cases hk : n = k
    · subst hk; simp [h]
    · simp [hk]
  | cons x xs =>
    simp only [feed, h, AMap.find_insert]

theorem eta (s : Sys) : ({ net := s.net, side := s.side } : Sys) = s := rfl

end Sys

theorem SysInv.side_of_net {s : Sys} (h : SysInv s) {n : String} {g : CState}
    (hg : s.net.nodes.find n = some g) : ∃ sd, s.side.find n = some sd := by
  have := h.dom n
  rw [hg] at this
  cases hs : s.side.find n with
  | none => simp [hs] at this
  | some sd => exact ⟨sd, rfl⟩

theorem SysInv.net_of_side {s : Sys} (h : SysInv s) {n : String} {sd : Side}
    (hs : s.side.find n = some sd) : ∃ g, s.net.nodes.find n = some g := by
  have := h.dom n
  rw [hs] at this
  cases hg : s.net.nodes.find n with
  | none => simp [hg] at this
  | some g => exact ⟨g, rfl⟩

/-- nothing but the pool changed -/
theorem SysInv.congr {s s' : Sys} (h : SysInv s) (hnodes : s'.net.nodes = s.net.nodes) (hside : s'.side = s.side)
    (hpool : ∀ src sa dst d, Packet.delta src sa dst d ∈ s'.net.pool → Flow.DeltaGood s.Good d) :
    SysInv s' := by
  have hL : s'.HasLeft = s.HasLeft := by funext a; simp [Sys.HasLeft, hnodes]
  have hP : s'.proxyOf = s.proxyOf := by funext a; simp [Sys.proxyOf, hside]
  have hA : s'.adminOf = s.adminOf := by funext a; simp [Sys.adminOf, hside]
  have hG : s'.Good = s.Good := by funext a e; simp [Sys.Good, hL, hP, hA]
  refine ⟨hnodes ▸ h.nd, fun n => by rw [hnodes, hside]; exact h.dom n, ?_, ?_⟩
  · rw [hG, hL]
    exact ⟨fun p hp => h.flow.nodes p (hnodes ▸ hp), hpool⟩
  · intro n sd g hs hg
    rw [hP, hA]
    exact h.node n sd g (hside ▸ hs) (hnodes ▸ hg)

/-- **One node receives**: its gossip state moves `g → g'` by receive-side operations notifying
`ev`, which its syncer is given; good packets may be added to the pool. -/
theorem SysInv.observe1 {s s' : Sys} (h : SysInv s) {n : String} {sd : Side} {g g' : CState} {ev : List Event}
    (hn : s.side.find n = some sd) (hg : s.net.nodes.find n = some g)
    (hnodes : s'.net.nodes = s.net.nodes.insert n g')
    (hside : ∀ k, s'.side.find k = if n = k then some (sd.observe ev) else s.side.find k)
    (hgood : C14.Good g (g', ev)) (hown : own g' = own g)
    (hlive : SyncerSpec.Trace SyncerSpec.LiveOKn n (SyncerSpec.foldEvents sd.evs) ev)
    (hup : ∀ x ∈ ev, Flow.UpsertOK s.Good x)
    (hst : Flow.StGood s.Good s.HasLeft g')
    (hpool : ∀ src sa dst d, Packet.delta src sa dst d ∈ s'.net.pool → Flow.DeltaGood s.Good d) :
    SysInv s' ∧ Sys.Le s s' := by
  have hni := h.node n sd g hn hg
  have hfind : ∀ k, s'.net.nodes.find k = if n = k then some g' else s.net.nodes.find k := by
    intro k; rw [hnodes, AMap.find_insert]
  have hloc : (sd.observe ev).table.localNode = sd.table.localNode := by
    rw [Side.observe_table]; exact SyncerSpec.run_localNode sd.sync ev hni.pend
  have hle : Sys.Le s s' := by
    refine ⟨?_, ?_, ?_⟩
    · rintro a ⟨g0, hg0, hl⟩
      by_cases hna : n = a
      · subst hna
        rw [hg] at hg0; cases hg0
        exact ⟨g', by rw [hfind]; simp, by rw [hown]; exact hl⟩
      · exact ⟨g0, by rw [hfind]; simp [hna, hg0], hl⟩
    · intro a x hx
      unfold Sys.proxyOf at hx ⊢
      rw [hside]
      by_cases hna : n = a
      · subst hna
        simp only [hn, Option.map_some, Option.some.injEq] at hx
        simp [hloc, hx]
      · simpa [hna] using hx
    · intro a x hx
      unfold Sys.adminOf at hx ⊢
      rw [hside]
      by_cases hna : n = a
      · subst hna
        simp only [hn, Option.map_some, Option.some.injEq] at hx
        simp [hloc, hx]
      · simpa [hna] using hx
  refine ⟨⟨by rw [hnodes]; exact h.nd.insert _ _, ?_, ?_, ?_⟩, hle⟩
  · intro k
    rw [hside, hfind]
    by_cases hk : n = k
    · simp [hk]
    · simp only [hk, if_false]; exact h.dom k
  · refine ⟨?_, fun src sa dst d hd => (hpool src sa dst d hd).mono hle.good⟩
    intro p hp
    rw [hnodes] at hp
    rcases C11.mem_insert hp with rfl | hp
    · exact hst.mono hle.good hle.left
    · exact (h.flow.nodes p hp).mono hle.good hle.left
  · intro k sdk gk hsk hgk
    rw [hside] at hsk; rw [hfind] at hgk
    by_cases hk : n = k
    · subst hk
      simp only [if_true, Option.some.injEq] at hsk hgk
      subst hsk hgk
      exact (hni.observe hgood hown hlive (Sys.addrConst_of_upsertOK hup)).mono hle.proxy hle.admin
    · simp only [hk, if_false] at hsk hgk
      exact (h.node k sdk gk hsk hgk).mono hle.proxy hle.admin

/-- **One node writes its own gossip state** (and its manager-side stores), nothing is notified. -/
theorem SysInv.write1 {s s' : Sys} (h : SysInv s) {n : String} {sd sd' : Side} {g g' : CState}
    (hn : s.side.find n = some sd) (hg : s.net.nodes.find n = some g)
    (hnodes : s'.net.nodes = s.net.nodes.insert n g') (hpool : s'.net.pool = s.net.pool)
    (hside : ∀ k, s'.side.find k = if n = k then some sd' else s.side.find k)
    (hle : Sys.Le s s')
    (hgood : C14.LocalGood g g') (hevs : sd'.evs = sd.evs) (hpend : sd'.pending = sd.pending)
    (hlid : sd'.table.localId = sd.table.localId)
    (hrows : ∀ a, a ≠ sd.table.localId → sd'.table.nodes.find a = sd.table.nodes.find a)
    (hminv : Upstream.MInv { lbs := sd'.lbs, cluster := sd'.table, gossip := g' })
    (hownwf : OwnWF g')
    (hp : liveValue g' Cluster.proxyAddrKey = some sd'.table.localNode.proxyAddr)
    (ha : liveValue g' Cluster.adminAddrKey = some sd'.table.localNode.adminAddr)
    (hst : Flow.StGood s'.Good s'.HasLeft g') : SysInv s' := by
  have hni := h.node n sd g hn hg
  have hfind : ∀ k, s'.net.nodes.find k = if n = k then some g' else s.net.nodes.find k := by
    intro k; rw [hnodes, AMap.find_insert]
  refine ⟨by rw [hnodes]; exact h.nd.insert _ _, ?_, ?_, ?_⟩
  · intro k
    rw [hside, hfind]
    by_cases hk : n = k
    · simp [hk]
    · simp only [hk, if_false]; exact h.dom k
  · refine ⟨?_, fun src sa dst d hd => (h.flow.pool src sa dst d (hpool ▸ hd)).mono hle.good⟩
    intro p hp
    rw [hnodes] at hp
    rcases C11.mem_insert hp with rfl | hp
    · exact hst
    · exact (h.flow.nodes p hp).mono hle.good hle.left
  · intro k sdk gk hsk hgk
    rw [hside] at hsk; rw [hfind] at hgk
    by_cases hk : n = k
    · subst hk
      simp only [if_true, Option.some.injEq] at hsk hgk
      subst hsk hgk
      exact (hni.localWrite hgood hevs hpend hlid hrows hminv hownwf hp ha).mono hle.proxy hle.admin
    · simp only [hk, if_false] at hsk hgk
      exact (h.node k sdk gk hsk hgk).mono hle.proxy hle.admin

/-! ## receive-side steps -/

theorem Sys.gossip_eq (s : Sys) (op : Gossip.Op) (hnj : ∀ n m now, op ≠ .join n m true now) :
    s.gossip op = { net := (s.net.step op).net,
                    side := Sys.feed s.side (s.net.step op).who (s.net.step op).events } := by
  cases op with
  | join n m rd now =>
    cases rd with
    | false => rfl
    | true => exact absurd rfl (hnj n m now)
  | _ => rfl

/-- a receive-side step that changes no node and notifies nothing (errors, `sendDigest`) -/
theorem SysInv.recv_same {s : Sys} (h : SysInv s) (op : Gossip.Op) (hop : Flow.Recv op)
    (hnj : ∀ n m now, op ≠ .join n m true now)
    (hnodes : (s.net.step op).net.nodes = s.net.nodes) (hev : (s.net.step op).events = []) :
    SysInv (s.gossip op) := by
  rw [Sys.gossip_eq s op hnj, hev, Sys.feed_nil]
  exact h.congr hnodes rfl (Flow.FlowInv.step_recv s.good_marker h.flow op hop).1.pool

/-- a receive-side step in which the acting node moves `g → g'` (C14-good, own node untouched) -/
theorem SysInv.recv_one {s : Sys} (h : SysInv s) (op : Gossip.Op) (hop : Flow.Recv op)
    (hnj : ∀ n m now, op ≠ .join n m true now) {g g' : CState}
    (hg : s.net.nodes.find (s.net.step op).who = some g)
    (hnodes : (s.net.step op).net.nodes = s.net.nodes.insert (s.net.step op).who g')
    (hgood : C14.Good g (g', (s.net.step op).events)) (hown : own g' = own g)
    (hlive : ∀ sd, s.side.find (s.net.step op).who = some sd →
      SyncerSpec.Trace SyncerSpec.LiveOKn (s.net.step op).who (SyncerSpec.foldEvents sd.evs) (s.net.step op).events) :
    SysInv (s.gossip op) ∧ Sys.Le s (s.gossip op) := by
  obtain ⟨sd, hsd⟩ := h.side_of_net hg
  have hfl := Flow.FlowInv.step_recv s.good_marker h.flow op hop
  rw [Sys.gossip_eq s op hnj]
  refine h.observe1 (s' := Sys.mk (s.net.step op).net (Sys.feed s.side (s.net.step op).who (s.net.step op).events))
    hsd hg hnodes (fun k => Sys.find_feed _ _ _ hsd k) hgood hown (hlive sd hsd) hfl.2.1 ?_ hfl.1.pool
  exact hfl.1.find (by rw [hnodes]; exact AMap.find_insert_self _ _ _)

theorem SysInv.live_of_notLive {s : Sys} (op : Gossip.Op) (h : SysInv s) (hop : Flow.Recv op)
    (hne : ∀ n sus now, op ≠ .liveness n sus now) (l : String) (v : SyncerSpec.WView) :
    SyncerSpec.Trace SyncerSpec.LiveOKn l v (s.net.step op).events :=
  SyncerSpec.trace_live_of_notLive l _ v
    ((Flow.FlowInv.step_recv s.good_marker h.flow op hop).2.2 hne)

theorem stWF_ownPresent {g : CState} (h : C14.StWF g) : OwnPresent g := by
  obtain ⟨_, _, l, hl, _⟩ := h
  exact ⟨l, hl⟩

theorem SysInv.step_sendDigest {s : Sys} (h : SysInv s) (n dst : String) (rq : Bool) (perm : List Nat) (cut : Nat) :
    SysInv (s.step (.sendDigest n dst rq perm cut)) := by
  apply h.recv_same (.sendDigest n dst rq perm cut) trivial (fun _ _ _ => by simp)
  · simp only [Net.step]; split <;> rfl
  · simp only [Net.step]; split <;> rfl

theorem SysInv.step_deliver {s : Sys} (h : SysInv s) (i cut : Nat) (perm : List Nat) (dcut now : Nat) :
    SysInv (s.step (.deliver i cut perm dcut now)) := by
  have hnj : ∀ n m now', Gossip.Op.deliver i cut perm dcut now ≠ .join n m true now' := fun _ _ _ => by simp
  have hnl : ∀ n sus now', Gossip.Op.deliver i cut perm dcut now ≠ .liveness n sus now' := fun _ _ _ => by simp
  show SysInv (s.gossip (.deliver i cut perm dcut now))
  cases hpk : s.net.pool[i]? with
  | none =>
    apply h.recv_same (.deliver i cut perm dcut now) trivial hnj <;> simp [Net.step, hpk]
  | some pk =>
    cases pk with
    | digest src sa dst rq d =>
      cases hb : s.net.nodeByAddr dst with
      | none => apply h.recv_same (.deliver i cut perm dcut now) trivial hnj <;> simp [Net.step, hpk, hb]
      | some q =>
        obtain ⟨id, g⟩ := q
        obtain ⟨hf, _⟩ := nodeByAddr_spec h.nd hb
        obtain ⟨sd, hsd⟩ := h.side_of_net hf
        have hni := h.node id sd g hsd hf
        have hwho : (s.net.step (.deliver i cut perm dcut now)).who = id := by simp [Net.step, hpk, hb]
        refine (h.recv_one (.deliver i cut perm dcut now) trivial hnj (g := g) (g' := (applyDigest g d).1) (by rw [hwho]; exact hf) ?_ ?_ ?_ ?_).1
        · simp [Net.step, hpk, hb, Net.setNode, handleDigest]
        · have : (s.net.step (.deliver i cut perm dcut now)).events = (applyDigest g d).2 := by
            simp [Net.step, hpk, hb, handleDigest]
          rw [this]; exact C14.applyDigest_good g d hni.wf
        · exact own_applyDigest d g (stWF_ownPresent hni.wf)
        · intro _ _; exact h.live_of_notLive (.deliver i cut perm dcut now) trivial hnl _ _
    | delta src sa dst d =>
      cases hb : s.net.nodeByAddr dst with
      | none => apply h.recv_same (.deliver i cut perm dcut now) trivial hnj <;> simp [Net.step, hpk, hb]
      | some q =>
        obtain ⟨id, g⟩ := q
        obtain ⟨hf, _⟩ := nodeByAddr_spec h.nd hb
        obtain ⟨sd, hsd⟩ := h.side_of_net hf
        have hni := h.node id sd g hsd hf
        have hwho : (s.net.step (.deliver i cut perm dcut now)).who = id := by simp [Net.step, hpk, hb]
        have hdg : Flow.DeltaGood s.Good d := h.flow.pool _ _ _ _ (List.mem_of_getElem? hpk)
        refine (h.recv_one (.deliver i cut perm dcut now) trivial hnj (g := g) (g' := (applyDelta now g d).1) (by rw [hwho]; exact hf) ?_ ?_ ?_ ?_).1
        · simp [Net.step, hpk, hb, Net.setNode]
        · have : (s.net.step (.deliver i cut perm dcut now)).events = (applyDelta now g d).2 := by
            simp [Net.step, hpk, hb]
          rw [this]; exact C14.applyDelta_good now g d hni.wf hni.keys (Sys.deltaOK_of_good hdg)
        · exact own_applyDelta now d g
        · intro _ _; exact h.live_of_notLive (.deliver i cut perm dcut now) trivial hnl _ _

end Piko
