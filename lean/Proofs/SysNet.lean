import PikoModel.Sys.System
import Proofs.Reach
import Proofs.Syncer
/-!
# The system's gossip network is the network of `Gossip/Net.lean`

* `Sys.step_net` — one system step is, on the gossip network, the `Net.step`s `Sys.netOps` lists
  (one for every gossip-level op; `node`+two `upsert`s for `boot`; the one `upsert`/`delete` of
  `endpoint:<e>` the subscriber makes for `addConn`/`removeConn`, or none).
* `Sys.netHist` / `Sys.runRev_net` — a system history is a `Gossip.runRev` history.
* `SysAllowed` / `allowedRev_netHist` — system histories without `expire` and with version counters
  below 2^64 at compactions are `AllowedRev` histories: the keys a piko node writes
  (`proxy_addr`, `admin_addr`, `endpoint:<e>`) are never the reserved `_internal:` keys.
  So NetInv / C02 / C03 hold of every reachable system state.
-/
namespace Piko
open Piko.Gossip

namespace AMap
variable {κ ν : Type} [DecidableEq κ]

theorem erase_erase (m : AMap κ ν) (k : κ) : erase (erase m k) k = erase m k := by
  simp [erase, List.filter_filter]

theorem insert_insert (m : AMap κ ν) (k : κ) (v w : ν) : insert (insert m k v) k w = insert m k w := by
  simp [insert, erase_cons, erase_erase]

end AMap

/-! ## reserved keys -/

theorem epKey_ne_reserved (e : String) : "endpoint:" ++ e ≠ leftKey ∧ "endpoint:" ++ e ≠ compactKey := by
  have h1 : SyncerSpec.epKey e = "endpoint:" ++ e := rfl
  constructor
  · rw [← h1]; exact fun h => SyncerSpec.ne_epKey_of_cutPrefix_none (k := leftKey) (by decide) e h.symm
  · rw [← h1]; exact fun h => SyncerSpec.ne_epKey_of_cutPrefix_none (k := compactKey) (by decide) e h.symm

theorem proxy_ne_reserved : "proxy_addr" ≠ leftKey ∧ "proxy_addr" ≠ compactKey := by decide
theorem admin_ne_reserved : "admin_addr" ≠ leftKey ∧ "admin_addr" ≠ compactKey := by decide

namespace Sys

theorem mgr_some {s : Sys} {n : String} {m : Upstream.Mgr} (h : s.mgr n = some m) :
    ∃ sd, s.side.find n = some sd ∧ s.net.nodes.find n = some m.gossip ∧ m.lbs = sd.lbs ∧ m.cluster = sd.table := by
  unfold mgr at h
  cases hs : s.side.find n with
  | none => simp [hs] at h
  | some sd =>
    cases hg : s.net.nodes.find n with
    | none => simp [hs, hg] at h
    | some g =>
      simp only [hs, hg, Option.some.injEq] at h
      subst h
      exact ⟨sd, rfl, rfl, rfl, rfl⟩

theorem syncInit_boot (id ga pa aa : String) :
    Upstream.syncInit (bootTable id pa aa) (Gossip.init id ga) =
      upsertLocal (upsertLocal (Gossip.init id ga) "proxy_addr" pa) "admin_addr" aa := by
  simp [Upstream.syncInit, bootTable, Cluster.State.new, Cluster.State.localNode]

theorem step_endpointWrite (net : Net) (c : Cluster.State) (n ep : String) (g : CState)
    (hg : net.nodes.find n = some g) :
    (net.step (endpointWrite c n ep)).net = net.setNode n (Upstream.onLocalEndpointUpdate c g ep) := by
  unfold endpointWrite Upstream.onLocalEndpointUpdate
  by_cases h : c.localEndpointListeners ep > 0
  · simp [h, Net.step, localOp, hg]
  · simp [h, Net.step, localOp, hg]

/-- **One system step is, on the gossip network, the listed `Net.step`s.** -/
theorem step_net (s : Sys) (op : SysOp) : (s.step op).net = s.net.run (s.netOps op) := by
  cases op with
  | boot id ga pa aa =>
    simp only [step, netOps]
    split
    · next h1 h2 h3 =>
      simp only [Net.run, List.foldl_cons, List.foldl_nil, Net.step, h1, h2, Net.setNode, localOp,
        AMap.find_insert_self, AMap.insert_insert, syncInit_boot]
    · rfl
  | addConn n uid ep =>
    simp only [step, netOps]
    cases hm : s.mgr n with
    | none => rfl
    | some m =>
      obtain ⟨sd, hsd, hg, _, _⟩ := mgr_some hm
      simp only [putMgr, hsd, if_true, Net.run, List.foldl_cons, List.foldl_nil]
      rw [step_endpointWrite _ _ _ _ _ hg]
      rfl
  | removeConn n uid ep =>
    simp only [step, netOps]
    cases hm : s.mgr n with
    | none => rfl
    | some m =>
      obtain ⟨sd, hsd, hg, _, _⟩ := mgr_some hm
      simp only []
      by_cases hreg : (m.registry ep).contains uid = true
      · simp only [hreg, if_true, putMgr, hsd]
        -- unfold `RemoveConn` along the registered branch
        have hlb : ∃ lb, m.lbs.find ep = some lb ∧ lb.contains uid = true := by
          unfold Upstream.Mgr.registry at hreg
          cases hf : m.lbs.find ep with
          | none => simp [hf] at hreg
          | some lb => exact ⟨lb, rfl, by simpa [hf, Upstream.LB.contains] using hreg⟩
        obtain ⟨lb, hlb, hc⟩ := hlb
        by_cases hnot : (m.cluster.removeLocalEndpoint ep).2 = true
        · simp only [hnot, if_true, Net.run, List.foldl_cons, List.foldl_nil]
          rw [step_endpointWrite _ _ _ _ _ hg]
          simp [Upstream.Mgr.removeConn, hlb, hc, hnot]
        · simp [hnot, Net.run]
      · simp only [hreg]; rfl
  | leave n => rfl
  | compact n thr => rfl
  | sendDigest n dst rq perm cut => rfl
  | deliver i cut perm dcut now => rfl
  | join n m rd now => rfl
  | leaveStream n m now => rfl
  | liveness n sus now => rfl
  | expire n t => rfl

/-- the gossip history (latest first) of a system history (latest first) -/
def netHist : List SysOp → List Gossip.Op
  | [] => []
  | op :: earlier => ((runRev earlier).netOps op).reverse ++ netHist earlier

theorem runRev_rev_append_net (a b : List Gossip.Op) :
    (Gossip.runRev (a.reverse ++ b)).net = (Gossip.runRev b).net.run a := by
  induction a generalizing b with
  | nil => rfl
  | cons x a ih =>
    rw [List.reverse_cons, List.append_assoc, List.singleton_append, ih (x :: b)]
    rfl

/-- **`Sys.net` of a system history is the network of the corresponding gossip history.** -/
theorem runRev_net : ∀ ops : List SysOp, (runRev ops).net = (Gossip.runRev (netHist ops)).net
  | [] => rfl
  | op :: earlier => by
    rw [runRev, step_net, netHist, runRev_rev_append_net, runRev_net earlier]

end Sys

/-- what the system theorems quantify over (C02's quantifier, lifted): no expiry sweep (O2), version
counters below 2^64 when a compaction formats one.  The third clause of `StepAllowed` (no write to
the reserved keys) is a theorem here, not a hypothesis. -/
def SysStepAllowed (s : Sys) : SysOp → Prop
  | .expire _ _ => False
  | .compact n _ => ∀ g, s.net.nodes.find n = some g → (own g).version < 2^64
  | _ => True

def SysAllowed : List SysOp → Prop
  | [] => True
  | op :: earlier => SysAllowed earlier ∧ SysStepAllowed (Sys.runRev earlier) op

theorem sysAllowed_append : ∀ (sched ops : List SysOp), SysAllowed (sched ++ ops) → SysAllowed ops
  | [], _, h => h
  | _ :: sched, ops, h => sysAllowed_append sched ops h.1

theorem allowedRev_rev_append (a b : List Gossip.Op) (hb : AllowedRev b)
    (ha : ∀ op ∈ a, ∀ g, StepAllowed g op) : AllowedRev (a.reverse ++ b) := by
  induction a generalizing b with
  | nil => exact hb
  | cons x a ih =>
    rw [List.reverse_cons, List.append_assoc, List.singleton_append]
    exact ih (x :: b) ⟨hb, ha x (List.mem_cons_self ..) _⟩ (fun op h => ha op (List.mem_cons_of_mem _ h))

theorem stepAllowed_endpointWrite (g : GNet) (c : Cluster.State) (n ep : String) :
    StepAllowed g (Sys.endpointWrite c n ep) := by
  unfold Sys.endpointWrite
  split <;> exact epKey_ne_reserved ep

/-- **Reachable system states project to allowed gossip histories.** -/
theorem allowedRev_netHist : ∀ ops : List SysOp, SysAllowed ops → AllowedRev (Sys.netHist ops)
  | [], _ => trivial
  | op :: earlier, h => by
    have ih := allowedRev_netHist earlier h.1
    have hstep := h.2
    rw [Sys.netHist]
    cases op with
    | boot id ga pa aa =>
      apply allowedRev_rev_append _ _ ih
      intro o ho g
      simp only [Sys.netOps] at ho
      split at ho
      · simp only [List.mem_cons, List.not_mem_nil, or_false] at ho
        rcases ho with rfl | rfl | rfl
        · trivial
        · exact proxy_ne_reserved
        · exact admin_ne_reserved
      · simp at ho
    | addConn n uid ep =>
      apply allowedRev_rev_append _ _ ih
      intro o ho g
      simp only [Sys.netOps] at ho
      split at ho
      · simp at ho
      · simp only [List.mem_cons, List.not_mem_nil, or_false] at ho
        subst ho; exact stepAllowed_endpointWrite _ _ _ _
    | removeConn n uid ep =>
      apply allowedRev_rev_append _ _ ih
      intro o ho g
      simp only [Sys.netOps] at ho
      split at ho
      · simp at ho
      · split at ho
        · split at ho
          · simp only [List.mem_cons, List.not_mem_nil, or_false] at ho
            subst ho; exact stepAllowed_endpointWrite _ _ _ _
          · simp at ho
        · simp at ho
    | leave n => exact ⟨ih, trivial⟩
    | compact n thr =>
      refine ⟨ih, ?_⟩
      intro g hg
      have hg' : (Gossip.runRev (Sys.netHist earlier)).net.nodes.find n = some g := hg
      rw [← Sys.runRev_net] at hg'
      exact hstep g hg'
    | sendDigest n dst rq perm cut => exact ⟨ih, trivial⟩
    | deliver i cut perm dcut now => exact ⟨ih, trivial⟩
    | join n m rd now => exact ⟨ih, trivial⟩
    | leaveStream n m now => exact ⟨ih, trivial⟩
    | liveness n sus now => exact ⟨ih, trivial⟩
    | expire n t => exact hstep.elim

/-- the network invariant of C02 holds of every reachable system state -/
theorem netInv_sys (ops : List SysOp) (h : SysAllowed ops) : NetInv (Gossip.runRev (Sys.netHist ops)) :=
  netInv_runRev _ (allowedRev_netHist ops h)

end Piko
