import Proofs.NetSteps2
/-!
# `NetInv` is preserved by every allowed step, hence holds in every reachable state
-/
namespace Piko.Gossip
open Piko

theorem ownerInv_init (id addr : String) : OwnerInv [] (own (init id addr)) := by
  have : own (init id addr) = { id := id, addr := addr } := by simp [own, init]
  rw [this]
  refine ⟨EntWF.nil, ?_, ?_, ?_, ?_, ?_, ?_, ?_, ?_, ?_⟩ <;> intros <;> simp_all

theorem NetInv.addNode {g g' : GNet} (h : NetInv g) {id addr : String}
    (hnone : g.net.nodes.find id = none) (haddr : g.net.nodeByAddr addr = none)
    (hnet : g'.net.nodes = g.net.nodes.insert id (init id addr)) (hpool : g'.net.pool = g.net.pool)
    (hhist : HistExt g g') : NetInv g' := by
  have hfind' : ∀ a, g'.net.nodes.find a =
      if id = a then some (init id addr) else g.net.nodes.find a := by
    intro a; rw [hnet, AMap.find_insert]
  have hownInit : own (init id addr) = { id := id, addr := addr } := by simp [own, init]
  have hold' : ∀ a s, g.net.nodes.find a = some s → g'.net.nodes.find a = some s ∧ ¬ id = a := by
    intro a s hf
    have hne : ¬ id = a := by intro e; subst e; rw [hnone] at hf; cases hf
    exact ⟨by rw [hfind' a]; simp [hne, hf], hne⟩
  have hws : WorldStep g.world g'.world := by
    intro a H O hW
    unfold GNet.world at hW ⊢
    cases hf : g.net.nodes.find a with
    | none => simp [hf] at hW
    | some s =>
      simp only [hf, Option.map_some, Option.some.injEq, Prod.mk.injEq] at hW
      obtain ⟨rfl, rfl⟩ := hW
      obtain ⟨hf', _⟩ := hold' a s hf
      refine ⟨g'.hist a, own s, by simp [hf'], ?_, noop_ok (h.node a s hf).owner⟩
      intro x; have := hhist a x; rw [hf'] at this; exact this
  have hhistId : ∀ x, x ∈ g'.hist id ↔ x ∈ ([] : List Entry) := by
    intro x
    have := hhist id x
    rw [hfind' id] at this
    simp only [if_true] at this
    rw [this]
    simp [histAfter, h.histNone id hnone, hownInit, AMap.vals]
  refine ⟨?_, ?_, ?_, ?_, ?_, ?_, ?_⟩
  · rw [hnet]; exact h.nd.insert _ _
  · intro a hf
    rw [hfind' a] at hf
    by_cases hne : id = a
    · simp [hne] at hf
    · simp only [hne, if_false] at hf
      apply List.eq_nil_iff_forall_not_mem.mpr
      intro x hx
      have := (hhist a x).mp hx
      rw [hfind' a] at this
      simp only [hne, if_false, hf] at this
      rw [h.histNone a hf] at this; simp at this
  · intro a s hf
    rw [hfind' a] at hf
    by_cases hne : id = a
    · subst hne
      simp only [if_true, Option.some.injEq] at hf; subst hf
      refine ⟨rfl, ?_, ?_, ?_, ?_⟩
      rotate_left 3
      · show (own (init id addr)).id = id
        simp [own, init]
      · simp [init, AMap.NoDupKeys, AMap.keys]
      · refine ⟨⟨{ id := id, addr := addr }, by simp [init]⟩, ?_, ?_, ?_⟩
        · intro a V hf
          simp only [init, AMap.find_cons, AMap.find_nil] at hf
          by_cases e : id = a
          · subst e; simp only [if_true, Option.some.injEq] at hf; subst hf; rfl
          · simp [e] at hf
        · intro a V hf
          simp only [init, AMap.find_cons, AMap.find_nil] at hf
          by_cases e : id = a
          · subst e
            exact ⟨g'.hist id, own (init id addr), by simp only [GNet.world]; rw [hfind' id]; simp⟩
          · simp [e] at hf
        · intro a V H O hf hal _
          simp only [init, AMap.find_cons, AMap.find_nil] at hf
          by_cases e : id = a
          · exact absurd e.symm hal
          · simp [e] at hf
      · exact (ownerInv_init id addr).congr hhistId
    · simp only [hne, if_false] at hf
      have hold := h.node a s hf
      obtain ⟨hf', _⟩ := hold' a s hf
      refine ⟨hold.lid, hold.nd, hold.recv.transfer hws, ?_, hold.ownId⟩
      apply (noop_ok hold.owner).owner.congr
      intro x; have := hhist a x; rw [hf'] at this; exact this
  · intro r₁ s₁ r₂ s₂ h1 h2 ha
    rw [hfind' r₁] at h1; rw [hfind' r₂] at h2
    by_cases e1 : id = r₁ <;> by_cases e2 : id = r₂
    · rw [← e1, ← e2]
    · subst e1
      simp only [if_true, Option.some.injEq] at h1; subst h1
      simp only [e2, if_false] at h2
      rw [hownInit] at ha
      exact absurd ha.symm (nodeByAddr_none haddr r₂ s₂ h2)
    · subst e2
      simp only [if_true, Option.some.injEq] at h2; subst h2
      simp only [e1, if_false] at h1
      rw [hownInit] at ha
      exact absurd ha (nodeByAddr_none haddr r₁ s₁ h1)
    · simp only [e1, if_false] at h1; simp only [e2, if_false] at h2
      exact h.addrUniq r₁ s₁ r₂ s₂ h1 h2 ha
  · intro src sa dst req d hp
    rw [hpool] at hp
    obtain ⟨ss, hss, hsa, hcl⟩ := h.digests src sa dst req d hp
    exact ⟨ss, (hold' src ss hss).1, hsa, hcl⟩
  · intro src sa dst d hp r' sr'' hf' hdst de hde
    rw [hpool] at hp
    rw [hfind' r'] at hf'
    by_cases hne : id = r'
    · subst hne
      simp only [if_true, Option.some.injEq] at hf'; subst hf'
      obtain ⟨r0, s0, hf0, ha0⟩ := h.deltaDst src sa dst d hp
      rw [hownInit] at hdst
      exact absurd (ha0.trans hdst.symm) (nodeByAddr_none haddr r0 s0 hf0)
    · simp only [hne, if_false] at hf'
      exact (h.deltas src sa dst d hp r' sr'' hf' hdst de hde).transfer hws
  · intro src sa dst d hp
    rw [hpool] at hp
    obtain ⟨r0, s0, hf0, ha0⟩ := h.deltaDst src sa dst d hp
    exact ⟨r0, s0, (hold' r0 s0 hf0).1, ha0⟩

/-- the network with its node map replaced -/
def withNodes (net : Net) (ns : AMap String CState) : Net := { net with nodes := ns }

@[simp] theorem withNodes_nodes (net : Net) (ns : AMap String CState) : (withNodes net ns).nodes = ns := rfl
@[simp] theorem withNodes_pool (net : Net) (ns : AMap String CState) : (withNodes net ns).pool = net.pool := rfl

/-- the `join` stream exchange: request half at `m`, optional reply half at `n` -/
theorem NetInv.joinStep {g : GNet} (h : NetInv g) {n m : String} {sn sm : CState} (rd : Bool) (now : Nat)
    (hn : g.net.nodes.find n = some sn) (hm : g.net.nodes.find m = some sm) (hnm : n ≠ m) :
    let dg := sortDigest (digest sn)
    let sm2 := (applyDigest (applyDelta now sm (localDelta sn)).1 dg).1
    let sn1 := (applyDelta now sn (sortDelta (delta sm2 dg true))).1
    NetInv (mkG g (withNodes g.net (g.net.nodes.insert m sm2))) ∧
    NetInv (mkG g (withNodes g.net ((g.net.nodes.insert m sm2).insert n sn1))) := by
  intro dg sm2 sn1
  -- request half, step 1: m applies n's local delta
  have hG1 : NetInv (mkG g (withNodes g.net (g.net.nodes.insert m (applyDelta now sm (localDelta sn)).1))) :=
    h.recvDelta now (localDelta sn) hm rfl rfl (histExt_mkG g _) (localDelta_deOK h hn)
  have hf1 : (mkG g (withNodes g.net (g.net.nodes.insert m (applyDelta now sm (localDelta sn)).1))).net.nodes.find m =
      some (applyDelta now sm (localDelta sn)).1 := by simp [mkG]
  have hold1 := hG1.node m _ hf1
  -- step 2: m discovers nodes from n's digest
  have hdnodes : ∀ de ∈ dg, ∃ s, (mkG g (withNodes g.net (g.net.nodes.insert m (applyDelta now sm (localDelta sn)).1))).net.nodes.find de.id = some s := by
    intro de hde
    obtain ⟨s, hs⟩ := digest_ids_nodes h hn de hde
    simp only [mkG, withNodes_nodes, AMap.find_insert]
    by_cases e : m = de.id
    · exact ⟨(applyDelta now sm (localDelta sn)).1, by simp [e]⟩
    · exact ⟨s, by simp [e, hs]⟩
  have hdig1 : ∀ de ∈ dg, ∃ H O, (mkG g (withNodes g.net (g.net.nodes.insert m (applyDelta now sm (localDelta sn)).1))).world de.id = some (H, O) ∧ OwnerInv H O := by
    intro de hde
    obtain ⟨s, hs⟩ := hdnodes de hde
    exact ⟨_, own s, by simp only [GNet.world, hs]; rfl, (hG1.node _ _ hs).owner⟩
  obtain ⟨_, hown12, _, _, _⟩ := applyDigest_recv dg _ hold1.recv hdig1
  have hG2 : NetInv (mkG g (withNodes g.net (g.net.nodes.insert m sm2))) := by
    refine hG1.digestOnly dg hf1 ?_ rfl ?_ hdnodes
    · simp only [mkG, withNodes_nodes]; exact (AMap.insert_insert_same _ _ _ _).symm
    · apply histExt_chain
      intro a
      simp only [withNodes_nodes, AMap.find_insert]
      by_cases e : m = a
      · simp only [e, if_true, Option.map_some]; rw [hown12]
      · simp [e]
  refine ⟨hG2, ?_⟩
  -- reply half: n applies m's reply
  have hf2n : (mkG g (withNodes g.net (g.net.nodes.insert m sm2))).net.nodes.find n = some sn := by
    simp only [mkG, withNodes_nodes]; rw [AMap.find_insert_ne _ _ hnm]; exact hn
  have hf2m : (mkG g (withNodes g.net (g.net.nodes.insert m sm2))).net.nodes.find m = some sm2 := by
    simp [mkG]
  have hold2m := hG2.node m sm2 hf2m
  have hold2n := hG2.node n sn hf2n
  have hclaims : ∀ de ∈ dg, ∃ x, sn.nodes.find de.id = some x ∧ de.version ≤ x.version := by
    intro de hde
    exact digest_claims hold2n.nd hold2n.recv.ids de (mem_sortDigest.mp hde)
  have hd3 : ∀ x ∈ sortDelta (delta sm2 dg true), DeOK (mkG g (withNodes g.net (g.net.nodes.insert m sm2))).world sn x := by
    intro x hx
    have hx' := mem_sortDelta.mp hx
    have hownW : ∃ H, (mkG g (withNodes g.net (g.net.nodes.insert m sm2))).world sm2.localId = some (H, own sm2) := by
      refine ⟨(mkG g (withNodes g.net (g.net.nodes.insert m sm2))).hist m, ?_⟩
      simp only [GNet.world]; rw [hold2m.lid, hf2m]; rfl
    exact deOK_of_spec hG2.worldOK hclaims (delta_spec hG2.worldOK hold2m.recv hold2m.nd hownW dg true x hx')
  obtain ⟨_, hown3, _, _⟩ := applyDelta_recv now _ sn hold2n.recv hd3
  refine hG2.recvDelta now _ hf2n rfl rfl ?_ hd3
  apply histExt_chain
  intro a
  simp only [withNodes_nodes, AMap.find_insert]
  by_cases e : n = a
  · subst e
    have : ¬ m = n := fun e => hnm e.symm
    simp only [if_true, Option.map_some, this, if_false, hn]
    rw [hown3]
  · simp [e]

theorem NetInv.errStep {g : GNet} (h : NetInv g) (op : Op) (he : (g.net.step op).net = g.net) :
    NetInv (g.step op) :=
  h.same_nopkt he (histExt_step g op)

/-- **Every allowed step preserves the network invariant.** -/
theorem NetInv.step {g : GNet} (h : NetInv g) (op : Op) (ha : StepAllowed g op) : NetInv (g.step op) := by
  cases op with
  | node id addr =>
    cases hf : g.net.nodes.find id with
    | some _ => exact h.errStep _ (by simp [Net.step, hf])
    | none =>
      cases hb : g.net.nodeByAddr addr with
      | some _ => exact h.errStep _ (by simp [Net.step, hf, hb])
      | none =>
        exact h.addNode hf hb (by simp [GNet.step, Net.step, hf, hb, Net.setNode])
          (by simp [GNet.step, Net.step, hf, hb, Net.setNode]) (histExt_step g _)
  | upsert n k v =>
    cases hf : g.net.nodes.find n with
    | none => exact h.errStep _ (by simp [Net.step, localOp, hf])
    | some s =>
      exact h.localStep _ hf (by simp [Net.step, localOp, hf, Net.setNode])
        (by simp [Net.step, localOp, hf, Net.setNode]) (upsert_ok k v (h.node n s hf).owner ha)
  | delete n k =>
    cases hf : g.net.nodes.find n with
    | none => exact h.errStep _ (by simp [Net.step, localOp, hf])
    | some s =>
      exact h.localStep _ hf (by simp [Net.step, localOp, hf, Net.setNode])
        (by simp [Net.step, localOp, hf, Net.setNode]) (delete_ok k (h.node n s hf).owner ha)
  | leave n =>
    cases hf : g.net.nodes.find n with
    | none => exact h.errStep _ (by simp [Net.step, localOp, hf])
    | some s =>
      exact h.localStep _ hf (by simp [Net.step, localOp, hf, Net.setNode])
        (by simp [Net.step, localOp, hf, Net.setNode]) (leave_ok (h.node n s hf).owner)
  | compact n thr =>
    cases hf : g.net.nodes.find n with
    | none => exact h.errStep _ (by simp [Net.step, hf])
    | some s =>
      cases hc : compactLocal s thr with
      | none => exact h.errStep _ (by simp [Net.step, hf, hc])
      | some s' =>
        exact h.localStep _ hf (by simp [Net.step, hf, hc, Net.setNode])
          (by simp [Net.step, hf, hc, Net.setNode]) (compact_ok' (h.node n s hf).owner (ha s hf) hc)
  | sendDigest n dst request perm cut =>
    cases hf : g.net.nodes.find n with
    | none => exact h.errStep _ (by simp [Net.step, hf])
    | some s =>
      have hold := h.node n s hf
      refine h.same (newPkts := [Packet.digest (own s).id (own s).addr dst request
          ((selectIdx perm (sortDigest (digest s))).take cut)])
        (by simp [GNet.step, Net.step, hf]) (by simp [GNet.step, Net.step, hf]) (histExt_step g _) ?_ (by simp) (by simp)
      intro src sa dst' req d hmem
      simp only [List.mem_singleton, Packet.digest.injEq] at hmem
      obtain ⟨rfl, rfl, rfl, rfl, rfl⟩ := hmem
      refine ⟨s, by simp [GNet.step, Net.step, hf, hold.ownId], rfl, ?_⟩
      intro de hde
      exact digest_claims hold.nd hold.recv.ids de
        (mem_sortDigest.mp (mem_selectIdx (List.mem_of_mem_take hde)))
  | deliver i cut perm dcut now =>
    cases hp : g.net.pool[i]? with
    | none => exact h.errStep _ (by simp [Net.step, hp])
    | some pk =>
      have hmem : pk ∈ g.net.pool := List.mem_of_getElem? hp
      cases pk with
      | digest src sa dst req d =>
        cases hb : g.net.nodeByAddr dst with
        | none => exact h.errStep _ (by simp [Net.step, hp, hb])
        | some q =>
          obtain ⟨id, s⟩ := q
          obtain ⟨hf, _⟩ := nodeByAddr_spec h.nd hb
          exact h.recvDigest cut perm dcut hmem hf
            (by simp [GNet.step, Net.step, hp, hb, Net.setNode])
            (by simp [GNet.step, Net.step, hp, hb, Net.setNode]) (histExt_step g _)
      | delta src sa dst d =>
        cases hb : g.net.nodeByAddr dst with
        | none => exact h.errStep _ (by simp [Net.step, hp, hb])
        | some q =>
          obtain ⟨id, s⟩ := q
          obtain ⟨hf, haddr⟩ := nodeByAddr_spec h.nd hb
          exact h.recvDelta now d hf
            (by simp [GNet.step, Net.step, hp, hb, Net.setNode])
            (by simp [GNet.step, Net.step, hp, hb, Net.setNode]) (histExt_step g _)
            (h.deltas src sa dst d hmem id s hf haddr)
  | join n m rd now =>
    cases hn : g.net.nodes.find n with
    | none => exact h.errStep _ (by simp [Net.step, hn])
    | some sn =>
      cases hm : g.net.nodes.find m with
      | none => exact h.errStep _ (by simp [Net.step, hn, hm])
      | some sm =>
        by_cases hnm : n = m
        · exact h.errStep _ (by simp [Net.step, hn, hm, hnm])
        · obtain ⟨h2, h3⟩ := h.joinStep rd now hn hm hnm
          rw [step_eq_mkG]
          cases rd with
          | false =>
            have : (g.net.step (.join n m false now)).net =
                withNodes g.net (g.net.nodes.insert m
                    (applyDigest (applyDelta now sm (localDelta sn)).1 (sortDigest (digest sn))).1) := by
              simp [Net.step, hn, hm, hnm, Net.setNode, withNodes]
            rw [this]; exact h2
          | true =>
            have : (g.net.step (.join n m true now)).net =
                withNodes g.net ((g.net.nodes.insert m
                    (applyDigest (applyDelta now sm (localDelta sn)).1 (sortDigest (digest sn))).1).insert n
                    (applyDelta now sn (sortDelta (delta
                      (applyDigest (applyDelta now sm (localDelta sn)).1 (sortDigest (digest sn))).1
                      (sortDigest (digest sn)) true))).1) := by
              simp [Net.step, hn, hm, hnm, Net.setNode, withNodes]
            rw [this]; exact h3
  | leaveStream n m now =>
    cases hn : g.net.nodes.find n with
    | none => exact h.errStep _ (by simp [Net.step, hn])
    | some sn =>
      cases hm : g.net.nodes.find m with
      | none => exact h.errStep _ (by simp [Net.step, hn, hm])
      | some sm =>
        by_cases hnm : n = m
        · exact h.errStep _ (by simp [Net.step, hn, hm, hnm])
        · exact h.recvDelta now (localDelta sn) hm
            (by simp [GNet.step, Net.step, hn, hm, hnm, Net.setNode])
            (by simp [GNet.step, Net.step, hn, hm, hnm, Net.setNode]) (histExt_step g _)
            (localDelta_deOK h hn)
  | liveness n suspected now =>
    cases hf : g.net.nodes.find n with
    | none => exact h.errStep _ (by simp [Net.step, hf])
    | some s =>
      have hold := h.node n s hf
      obtain ⟨h1, h2, h3, h4⟩ := updateLiveness_same s (fun id => suspected.contains id) now hold.nd hold.recv.ids
      exact h.flagsOnly hf (by simp [GNet.step, Net.step, hf, Net.setNode])
        (by simp [GNet.step, Net.step, hf, Net.setNode]) (histExt_step g _) h1 h2 h3 h4
  | expire n t => exact ha.elim

end Piko.Gossip
