import Proofs.NetSteps
/-!
# Liveness, stream exchanges, node creation; the step theorem
-/
namespace Piko.Gossip
open Piko

/-- ghost net obtained from `g` by replacing the network (history extended from `g`) -/
def mkG (g : GNet) (net' : Net) : GNet :=
  { net := net',
    hist := fun a => match net'.nodes.find a with
      | some s => histAfter (g.hist a) (own s)
      | none => g.hist a }

theorem step_eq_mkG (g : GNet) (op : Op) : g.step op = mkG g (g.net.step op).net := rfl

theorem histExt_mkG (g : GNet) (net' : Net) : HistExt g (mkG g net') := by intro a x; rfl

theorem histExt_chain (g : GNet) (n1 n2 : Net)
    (h : ∀ a, (n1.nodes.find a).map own = (n2.nodes.find a).map own) :
    HistExt (mkG g n1) (mkG g n2) := by
  intro a x
  have := h a
  simp only [mkG]
  cases h1 : n1.nodes.find a <;> cases h2 : n2.nodes.find a <;> simp [h1, h2] at this ⊢
  rw [this]
  simp [histAfter]

theorem AMap.insert_insert_same {κ ν : Type} [DecidableEq κ] (m : AMap κ ν) (k : κ) (v v' : ν) :
    (m.insert k v).insert k v' = m.insert k v' := by
  unfold AMap.insert
  congr 1
  unfold AMap.erase
  simp [List.filter_cons, List.filter_filter]

/-! ### liveness -/

/-- `updateLiveness` changes flags and expiry only -/
def NodeSame (n n' : NodeSt) : Prop :=
  n'.id = n.id ∧ n'.addr = n.addr ∧ n'.version = n.version ∧ n'.entries = n.entries

def FindSame (s s' : CState) : Prop :=
  ∀ a, match s.nodes.find a, s'.nodes.find a with
    | some n, some n' => NodeSame n n'
    | none, none => True
    | _, _ => False

theorem livenessStep_cases (lid : String) (f : String → Bool) (now : Nat)
    (acc : CState × List Event) (p : String × NodeSt) :
    (livenessStep lid f now acc p).1 = acc.1 ∨
    ∃ n', (livenessStep lid f now acc p).1 = setNode acc.1 n' ∧ NodeSame p.2 n' ∧ p.2.id ≠ lid := by
  unfold livenessStep
  simp only
  by_cases hloc : (p.2.id = lid || p.2.left) = true
  · simp [hloc]
  · have hne : p.2.id ≠ lid := by intro e; simp [e] at hloc
    simp only [hloc, Bool.false_eq_true, if_false]
    by_cases hf : f p.2.id = true
    · simp only [hf, if_true]
      by_cases hu : p.2.unreachable = true
      · simp [hu]
      · simp only [hu, Bool.false_eq_true, if_false]
        exact Or.inr ⟨_, rfl, ⟨rfl, rfl, rfl, rfl⟩, hne⟩
    · simp only [hf, Bool.false_eq_true, if_false]
      by_cases hu : p.2.unreachable = true
      · simp only [hu, if_true]
        exact Or.inr ⟨_, rfl, ⟨rfl, rfl, rfl, rfl⟩, hne⟩
      · simp [hu]

theorem updateLiveness_same (s : CState) (f : String → Bool) (now : Nat)
    (hnd : s.nodes.NoDupKeys) (hids : ∀ a V, s.nodes.find a = some V → V.id = a) :
    FindSame s (updateLiveness s f now).1 ∧ (updateLiveness s f now).1.localId = s.localId ∧
    (updateLiveness s f now).1.nodes.find s.localId = s.nodes.find s.localId ∧
    (updateLiveness s f now).1.nodes.NoDupKeys := by
  unfold updateLiveness
  suffices hgen : ∀ (l : List (String × NodeSt)) (acc : CState × List Event),
      (∀ p ∈ l, s.nodes.find p.1 = some p.2 ∧ p.2.id = p.1) →
      FindSame s acc.1 → acc.1.localId = s.localId →
      acc.1.nodes.find s.localId = s.nodes.find s.localId → acc.1.nodes.NoDupKeys →
      FindSame s (l.foldl (livenessStep s.localId f now) acc).1 ∧
      (l.foldl (livenessStep s.localId f now) acc).1.localId = s.localId ∧
      (l.foldl (livenessStep s.localId f now) acc).1.nodes.find s.localId = s.nodes.find s.localId ∧
      (l.foldl (livenessStep s.localId f now) acc).1.nodes.NoDupKeys by
    apply hgen s.nodes (s, [])
    · intro p hp
      have := AMap.findOfMem hnd (k := p.1) (v := p.2) hp
      exact ⟨this, hids _ _ this⟩
    · intro a; cases hf : s.nodes.find a <;> simp [NodeSame]
    · rfl
    · rfl
    · exact hnd
  intro l
  induction l with
  | nil => intro acc _ h1 h2 h3 h4; exact ⟨h1, h2, h3, h4⟩
  | cons p l ih =>
    intro acc hl h1 h2 h3 h4
    simp only [List.foldl_cons]
    obtain ⟨hp1, hp2⟩ := hl p (List.mem_cons_self ..)
    rcases livenessStep_cases s.localId f now acc p with he | ⟨n', he, hsame, hne⟩
    · apply ih _ (fun q hq => hl q (List.mem_cons_of_mem _ hq)) <;> rw [he] <;> assumption
    · have hid : n'.id = p.1 := hsame.1.trans hp2
      apply ih _ (fun q hq => hl q (List.mem_cons_of_mem _ hq)) <;> rw [he]
      · intro a
        simp only [setNode, AMap.find_insert, hid]
        by_cases ha : p.1 = a
        · subst ha; simp [hp1, hsame]
        · simp only [ha, if_false]; exact h1 a
      · exact h2
      · simp only [setNode, hid]
        rw [AMap.find_insert_ne _ _ (by rw [← hp2]; exact fun e => hne e.symm)]
        exact h3
      · exact h4.insert _ _

/-- the events of one `livenessStep` are about the node `p.2`, which is neither local nor left -/
theorem livenessStep_events (lid : String) (f : String → Bool) (now : Nat)
    (acc : CState × List Event) (p : String × NodeSt) :
    ∃ new, (livenessStep lid f now acc p).2 = acc.2 ++ new ∧
      ∀ e ∈ new, (e = .unreachable p.2.id ∨ e = .reachable p.2.id) ∧ p.2.left = false ∧ p.2.id ≠ lid := by
  unfold livenessStep
  simp only
  by_cases hloc : (p.2.id = lid || p.2.left) = true
  · exact ⟨[], by simp [hloc], by simp⟩
  · have hne : p.2.id ≠ lid := by intro e; simp [e] at hloc
    have hl : p.2.left = false := by
      cases h : p.2.left with
      | false => rfl
      | true => simp [h] at hloc
    simp only [hloc, Bool.false_eq_true, if_false]
    by_cases hf : f p.2.id = true
    · simp only [hf, if_true]
      by_cases hu : p.2.unreachable = true
      · exact ⟨[], by simp [hu], by simp⟩
      · simp only [hu, Bool.false_eq_true, if_false]
        exact ⟨[.unreachable p.2.id], rfl, by simp [hl, hne]⟩
    · simp only [hf, Bool.false_eq_true, if_false]
      by_cases hu : p.2.unreachable = true
      · simp only [hu, if_true]
        exact ⟨[.reachable p.2.id], rfl, by simp [hl, hne]⟩
      · exact ⟨[], by simp [hu], by simp⟩

/-- `UpdateLiveness` only ever announces reachable/unreachable for nodes that are remembered,
not local and have **not left** -/
theorem updateLiveness_events (s : CState) (f : String → Bool) (now : Nat) :
    ∀ e ∈ (updateLiveness s f now).2, ∃ p ∈ s.nodes,
      (e = .unreachable p.2.id ∨ e = .reachable p.2.id) ∧ p.2.left = false ∧ p.2.id ≠ s.localId := by
  unfold updateLiveness
  suffices hgen : ∀ (l : List (String × NodeSt)) (acc : CState × List Event),
      (∀ q ∈ l, q ∈ s.nodes) →
      (∀ e ∈ acc.2, ∃ p ∈ s.nodes, (e = .unreachable p.2.id ∨ e = .reachable p.2.id) ∧ p.2.left = false ∧ p.2.id ≠ s.localId) →
      ∀ e ∈ (l.foldl (livenessStep s.localId f now) acc).2, ∃ p ∈ s.nodes,
        (e = .unreachable p.2.id ∨ e = .reachable p.2.id) ∧ p.2.left = false ∧ p.2.id ≠ s.localId by
    exact hgen s.nodes (s, []) (fun q hq => hq) (by simp)
  intro l
  induction l with
  | nil => intro acc _ h; exact h
  | cons q l ih =>
    intro acc hl h
    simp only [List.foldl_cons]
    apply ih _ (fun x hx => hl x (List.mem_cons_of_mem _ hx))
    obtain ⟨new, hnew, hall⟩ := livenessStep_events s.localId f now acc q
    intro e he
    rw [hnew] at he
    rcases List.mem_append.mp he with h1 | h1
    · exact h e h1
    · exact ⟨q, hl q (List.mem_cons_self ..), hall e h1⟩

theorem ViewInv.of_same {H : List Entry} {O V V' : NodeSt} (h : ViewInv H O V) (e : NodeSame V V') :
    ViewInv H O V' := by
  obtain ⟨_, _, hv, he⟩ := e
  exact ⟨he ▸ h.wf, fun k x hf => h.genuine k x (he ▸ hf), fun k x hf => hv ▸ h.bounded k x (he ▸ hf),
    hv ▸ h.le, fun k x hf hle => he ▸ h.complete k x hf (hv ▸ hle),
    fun c cv hc hp k x hf => h.aboveOwnMarker c cv (he ▸ hc) hp k x (he ▸ hf)⟩

/-- a step that only changes flags/expiry of remote nodes of `r` -/
theorem NetInv.flagsOnly {g g' : GNet} (h : NetInv g) {r : String} {sr sr' : CState}
    (hfind : g.net.nodes.find r = some sr)
    (hnet : g'.net.nodes = g.net.nodes.insert r sr') (hpool : g'.net.pool = g.net.pool)
    (hhist : HistExt g g')
    (hsame : FindSame sr sr') (hlid : sr'.localId = sr.localId)
    (hown : sr'.nodes.find sr.localId = sr.nodes.find sr.localId) (hnd : sr'.nodes.NoDupKeys) :
    NetInv g' := by
  have hold := h.node r sr hfind
  have hownEq : own sr' = own sr := by unfold own; rw [hlid, hown]
  have hstep := ownerStep_of_own_eq hold.owner hownEq
  have hws := worldStep_update h hfind hnet hhist hstep
  have hr' := hold.recv.transfer hws
  have hback : ∀ a V', sr'.nodes.find a = some V' → ∃ V, sr.nodes.find a = some V ∧ NodeSame V V' := by
    intro a V' hf
    have := hsame a
    rw [hf] at this
    cases hf0 : sr.nodes.find a with
    | none => rw [hf0] at this; exact this.elim
    | some V => rw [hf0] at this; exact ⟨V, rfl, this⟩
  refine h.update (newPkts := []) hfind hnet (by rw [hpool]; simp) hhist hstep (hlid.trans hold.lid) hnd
    ?_ ?_ ?_ (by simp) (by simp) (by simp)
  · refine ⟨?_, ?_, ?_, ?_⟩
    · obtain ⟨n, hn⟩ := hr'.ownPresent
      exact ⟨n, by rw [hlid, hown]; exact hn⟩
    · intro a V' hf
      obtain ⟨V, hV, hs⟩ := hback a V' hf
      rw [hs.1]; exact hr'.ids a V hV
    · intro a V' hf
      obtain ⟨V, hV, _⟩ := hback a V' hf
      exact hr'.known a V hV
    · intro a V' H O hf hal hW
      obtain ⟨V, hV, hs⟩ := hback a V' hf
      exact (hr'.views a V H O hV (hlid ▸ hal) hW).of_same hs
  · intro a n hf
    have := hsame a
    rw [hf] at this
    cases hf' : sr'.nodes.find a with
    | none => rw [hf'] at this; exact this.elim
    | some n' => rw [hf'] at this; exact ⟨n', rfl, by rw [this.2.2.1]; exact Nat.le_refl _⟩
  · intro a v0 hb
    unfold BaseOK at hb ⊢
    have := hsame a
    cases hf : sr.nodes.find a <;> cases hf' : sr'.nodes.find a <;> rw [hf, hf'] at this
    · rw [hf] at hb; exact hb
    · exact this.elim
    · exact this.elim
    · rw [hf] at hb; simp only; rw [this.2.2.1]; exact hb

/-! ### stream exchanges -/

/-- a node discovers nodes from a digest whose ids are all nodes of the network -/
theorem NetInv.digestOnly {g g' : GNet} (h : NetInv g) {r : String} {sr : CState} (d : Digest)
    (hfind : g.net.nodes.find r = some sr)
    (hnet : g'.net.nodes = g.net.nodes.insert r (applyDigest sr d).1)
    (hpool : g'.net.pool = g.net.pool) (hhist : HistExt g g')
    (hd : ∀ de ∈ d, ∃ s, g.net.nodes.find de.id = some s) : NetInv g' := by
  have hold := h.node r sr hfind
  have hdig : ∀ (g0 : GNet), NetInv g0 → (∀ a, (g0.net.nodes.find a).isSome = (g.net.nodes.find a).isSome) →
      ∀ de ∈ d, ∃ H O, g0.world de.id = some (H, O) ∧ OwnerInv H O := by
    intro g0 h0 hsome de hde
    obtain ⟨s, hs⟩ := hd de hde
    have := hsome de.id
    rw [hs] at this
    cases hf : g0.net.nodes.find de.id with
    | none => rw [hf] at this; cases this
    | some s0 =>
      exact ⟨g0.hist de.id, own s0, by simp [GNet.world, hf], (h0.node _ _ hf).owner⟩
  obtain ⟨_, hown0, _, _, _⟩ := applyDigest_recv d sr hold.recv (hdig g h (fun _ => rfl))
  have hstep := ownerStep_of_own_eq hold.owner hown0
  have hws := worldStep_update h hfind hnet hhist hstep
  have hr' := hold.recv.transfer hws
  have hd' : ∀ de ∈ d, ∃ H O, g'.world de.id = some (H, O) ∧ OwnerInv H O := by
    intro de hde
    obtain ⟨H, O, hW, _⟩ := hdig g h (fun _ => rfl) de hde
    obtain ⟨H', O', hW', heq, hok⟩ := hws de.id H O hW
    exact ⟨H', O', hW', hok.owner.congr heq⟩
  obtain ⟨h1, _, h3, h4, h5⟩ := applyDigest_recv d sr hr' hd'
  exact h.update (newPkts := []) hfind hnet (by rw [hpool]; simp) hhist hstep (h3.trans hold.lid)
    (applyDigest_nd d sr hold.nd) h1 (fun a n hf => ⟨n, h5 a n hf, Nat.le_refl _⟩) h4 (by simp) (by simp) (by simp)

theorem localDelta_deOK {g : GNet} (h : NetInv g) {n : String} {sn sm : CState}
    (hn : g.net.nodes.find n = some sn) : ∀ de ∈ localDelta sn, DeOK g.world sm de := by
  intro de hde _
  have hold := h.node n sn hn
  simp only [localDelta, List.mem_singleton] at hde
  subst hde
  have hid : (deltaEntry (own sn) 0).id = n := hold.ownId
  refine ⟨g.hist n, own sn, 0, by rw [hid]; simp [GNet.world, hn], hold.owner,
    deltaEntry_pktInv hold.owner (SrcOK.ofOwner hold.owner) 0, ?_⟩
  unfold BaseOK
  cases sm.nodes.find (deltaEntry (own sn) 0).id <;> simp

theorem digest_ids_nodes {g : GNet} (h : NetInv g) {n : String} {sn : CState}
    (hn : g.net.nodes.find n = some sn) : ∀ de ∈ sortDigest (digest sn), ∃ s, g.net.nodes.find de.id = some s := by
  intro de hde
  have hold := h.node n sn hn
  obtain ⟨x, hx, _⟩ := digest_claims hold.nd hold.recv.ids de (mem_sortDigest.mp hde)
  obtain ⟨H, O, hW⟩ := hold.recv.known _ _ hx
  unfold GNet.world at hW
  cases hf : g.net.nodes.find de.id with
  | none => simp [hf] at hW
  | some s => exact ⟨s, rfl⟩

end Piko.Gossip
