import Props.C15
import PikoModel.Proxy.Route
namespace Piko.Proxy
open Piko Piko.Upstream

def LbOk (m : Mgr) : Prop := ∀ e lb, m.lbs.find e = some lb → lb.ups ≠ [] ∧ lb.Inv

theorem lbOk_of_inv {m : Mgr} (h : MInv m) : LbOk m := h.lbs

theorem pick_up_mem (lb : LB) (u : Nat) (lb' : LB) (h : lb.pick = (.up u, lb')) :
    u ∈ lb.ups ∧ lb'.ups = lb.ups := by
  have hu := LB.pick_ups lb
  rw [h] at hu
  refine ⟨?_, hu⟩
  unfold LB.pick at h
  split at h
  · simp at h
  · split at h
    · simp at h
    · rename_i u' hg
      simp only [Prod.mk.injEq, Pick.up.injEq] at h
      rw [← h.1]
      exact List.mem_of_getElem? hg

/-- all the ways `Select` can answer -/
theorem select_spec (m : Mgr) (e : String) (a : Bool) :
    (∃ lb u lb', m.lbs.find e = some lb ∧ u ∈ lb.ups ∧ lb'.ups = lb.ups ∧ (lb.Inv → lb'.Inv) ∧
        m.select e a = (.localUp u, { m with lbs := m.lbs.insert e lb' })) ∨
    (∃ lb, m.lbs.find e = some lb ∧ (m.select e a = (.nilTrue, m) ∨ m.select e a = (.panic, m)) ∧
        ¬ (lb.ups ≠ [] ∧ lb.Inv)) ∨
    (m.lbs.find e = none ∧ a = true ∧ m.cluster.lookupCandidates e ≠ [] ∧
        m.select e a = (.remote ((m.cluster.lookupCandidates e).map (·.id)), m)) ∨
    (m.lbs.find e = none ∧ (a = false ∨ m.cluster.lookupCandidates e = []) ∧
        m.select e a = (.notFound, m)) := by
  unfold Mgr.select
  cases hf : m.lbs.find e with
  | some lb =>
    simp only
    cases hp : lb.pick with
    | mk p lb' =>
      cases p with
      | up u =>
        left
        obtain ⟨h1, h2⟩ := pick_up_mem lb u lb' hp
        have h3 : lb.Inv → lb'.Inv := fun hi => by have := LB.inv_pick lb hi; rwa [hp] at this
        exact ⟨lb, u, lb', rfl, h1, h2, h3, rfl⟩
      | none =>
        right; left
        refine ⟨lb, rfl, Or.inl ?_, ?_⟩
        · have : lb' = lb := by
            unfold LB.pick at hp
            split at hp
            · simp at hp; exact hp.symm
            · split at hp <;> simp at hp
          simp
        · rintro ⟨hne, hinv⟩
          obtain ⟨_, hp'⟩ := lb.pick_of_inv hinv hne
          rw [hp'] at hp; simp at hp
      | panic =>
        right; left
        refine ⟨lb, rfl, Or.inr (by simp), ?_⟩
        rintro ⟨hne, hinv⟩
        obtain ⟨_, hp'⟩ := lb.pick_of_inv hinv hne
        rw [hp'] at hp; simp at hp
  | none =>
    simp only
    cases a with
    | false => right; right; right; simp
    | true =>
      simp only [Bool.not_true, Bool.false_eq_true, if_false]
      cases hc : m.cluster.lookupCandidates e with
      | nil => right; right; right; simp
      | cons c cs => right; right; left; simp

theorem registry_insert_sameUps (m : Mgr) (e : String) (lb lb' : LB) (hf : m.lbs.find e = some lb)
    (hu : lb'.ups = lb.ups) (e' : String) :
    ({ m with lbs := m.lbs.insert e lb' } : Mgr).registry e' = m.registry e' := by
  unfold Mgr.registry
  simp only [AMap.find_insert]
  by_cases he : e = e'
  · subst he; simp [hf, hu]
  · simp [he]

theorem lbOk_insert (m : Mgr) (e : String) (lb lb' : LB) (hf : m.lbs.find e = some lb)
    (hu : lb'.ups = lb.ups) (hi : lb.Inv → lb'.Inv) (h : LbOk m) :
    LbOk ({ m with lbs := m.lbs.insert e lb' } : Mgr) := by
  intro e' l hl
  simp only [AMap.find_insert] at hl
  by_cases he : e = e'
  · simp only [he, if_true, Option.some.injEq] at hl
    subst hl
    obtain ⟨h1, h2⟩ := h e lb hf
    exact ⟨by rw [hu]; exact h1, hi h2⟩
  · simp only [he, if_false] at hl
    exact h e' l hl

/-- all the ways one handler invocation can go -/
theorem handle_spec (lib : Lib) (m : Mgr) (r : Req) :
    (endpointOf lib r = none ∧ handle lib m r = (.reply400, m)) ∨
    (∃ e, endpointOf lib r = some e ∧
      ((∃ lb u lb', m.lbs.find e = some lb ∧ u ∈ lb.ups ∧ lb'.ups = lb.ups ∧ (lb.Inv → lb'.Inv) ∧
          handle lib m r = (.serve e u, { m with lbs := m.lbs.insert e lb' })) ∨
       (∃ lb, m.lbs.find e = some lb ∧ handle lib m r = (.fault, m) ∧ ¬ (lb.ups ≠ [] ∧ lb.Inv)) ∨
       (m.lbs.find e = none ∧ r.forwarded = false ∧ m.cluster.lookupCandidates e ≠ [] ∧
          handle lib m r = (.forward e (m.cluster.lookupCandidates e) (forwardReq r), m)) ∨
       (m.lbs.find e = none ∧ (r.forwarded = true ∨ m.cluster.lookupCandidates e = []) ∧
          handle lib m r = (.reply502, m)))) := by
  unfold handle
  cases he : endpointOf lib r with
  | none => left; exact ⟨rfl, rfl⟩
  | some e =>
    right
    refine ⟨e, rfl, ?_⟩
    simp only
    rcases select_spec m e (!r.forwarded) with ⟨lb, u, lb', h1, h2, h3, h4, h5⟩ | ⟨lb, h1, h2 | h2, h3⟩ |
        ⟨h1, h2, h3, h4⟩ | ⟨h1, h2, h3⟩
    · left; exact ⟨lb, u, lb', h1, h2, h3, h4, by rw [h5]⟩
    · right; left; exact ⟨lb, h1, by rw [h2], h3⟩
    · right; left; exact ⟨lb, h1, by rw [h2], h3⟩
    · right; right; left
      refine ⟨h1, by simpa using h2, h3, by rw [h4]⟩
    · right; right; right
      refine ⟨h1, ?_, by rw [h3]⟩
      rcases h2 with h2 | h2
      · left; simpa using h2
      · right; exact h2

theorem not_mem_removeConnectionOptions (conn : List String) :
    fwdName ∉ removeConnectionOptions conn ∧ epName ∉ removeConnectionOptions conn := by
  constructor <;> simp [removeConnectionOptions, List.mem_filter]

/-- the forwarded request always carries the marker -/
theorem forwardReq_forwarded (r : Req) : (forwardReq r).forwarded = true := by
  simp [forwardReq, proxySend, (not_mem_removeConnectionOptions r.conn).1, Req.forwarded]

/-- regression (1c64d44): before the repair a client `Connection: x-piko-forward` made the
forwarding step drop the marker it had just set -/
theorem forwardReqUnrepaired_loses_marker (r : Req) (h : fwdName ∈ r.conn) :
    (forwardReqUnrepaired r).forwarded = false := by
  simp [forwardReqUnrepaired, proxySend, h, Req.forwarded]

/-- the forwarding step leaves `Host`, the path and the `x-piko-endpoint` header alone, so the
receiver derives the same endpoint -/
theorem endpointOf_forwardReq (lib : Lib) (r : Req) :
    endpointOf lib (forwardReq r) = endpointOf lib r := by
  simp [forwardReq, proxySend, (not_mem_removeConnectionOptions r.conn).2, endpointOf]

/-! ### unfolding `routeAt` -/

theorem routeAt_terminal (lib : Lib) (fuel : Nat) (w : World) (n : String) (r : Req) (ch : List Nat)
    (m m' : Mgr) (hn : w.nodes.find n = some m) :
    (handle lib m r = (.reply400, m') → routeAt lib (fuel + 1) w n r ch =
        ({ visited := [n], outcome := .badRequest n }, { w with nodes := w.nodes.insert n m' })) ∧
    (∀ e u, handle lib m r = (.serve e u, m') → routeAt lib (fuel + 1) w n r ch =
        ({ visited := [n], outcome := .served n e u }, { w with nodes := w.nodes.insert n m' })) ∧
    (handle lib m r = (.reply502, m') → routeAt lib (fuel + 1) w n r ch =
        ({ visited := [n], outcome := .noUpstream n }, { w with nodes := w.nodes.insert n m' })) ∧
    (handle lib m r = (.fault, m') → routeAt lib (fuel + 1) w n r ch =
        ({ visited := [n], outcome := .fault n }, { w with nodes := w.nodes.insert n m' })) := by
  refine ⟨?_, ?_, ?_, ?_⟩
  · intro hh; rw [routeAt, hn]; simp only [hh]
  · intro e u hh; rw [routeAt, hn]; simp only [hh]
  · intro hh; rw [routeAt, hn]; simp only [hh]
  · intro hh; rw [routeAt, hn]; simp only [hh]

theorem routeAt_forward (lib : Lib) (fuel : Nat) (w : World) (n : String) (r : Req) (ch : List Nat)
    (m m' : Mgr) (e : String) (cands : List Cluster.Node) (r' : Req)
    (hn : w.nodes.find n = some m) (hh : handle lib m r = (.forward e cands r', m')) :
    routeAt lib (fuel + 1) w n r ch =
      match pickCand cands (ch.headD 0) with
      | none => ({ visited := [n], outcome := .fault n }, { w with nodes := w.nodes.insert n m' })
      | some c =>
        match w.listen.find c.proxyAddr with
        | none => ({ visited := [n], via := [(n, c.id)], outcome := .unreachable },
                   { w with nodes := w.nodes.insert n m' })
        | some k =>
          ({ visited := n :: (routeAt lib fuel { w with nodes := w.nodes.insert n m' } k r' ch.tail).1.visited,
             via := (n, c.id) :: (routeAt lib fuel { w with nodes := w.nodes.insert n m' } k r' ch.tail).1.via,
             outcome := (routeAt lib fuel { w with nodes := w.nodes.insert n m' } k r' ch.tail).1.outcome },
           (routeAt lib fuel { w with nodes := w.nodes.insert n m' } k r' ch.tail).2) := by
  rw [routeAt, hn]
  simp only [hh]
  cases pickCand cands (ch.headD 0) with
  | none => rfl
  | some c =>
    simp only
    cases w.listen.find c.proxyAddr <;> rfl

theorem pickCand_mem {cands : List Cluster.Node} {i : Nat} {c : Cluster.Node}
    (h : pickCand cands i = some c) : c ∈ cands := List.mem_of_getElem? h

theorem pickCand_some_of_ne {cands : List Cluster.Node} (h : cands ≠ []) (i : Nat) :
    ∃ c, pickCand cands i = some c := by
  have hpos : 0 < cands.length := List.length_pos_iff.mpr h
  have : i % cands.length < cands.length := Nat.mod_lt _ hpos
  exact ⟨cands[i % cands.length], by simp [pickCand, List.getElem?_eq_getElem this]⟩

/-! ### hop bounds -/

/-- a request that carries the marker ends at the node that receives it -/
theorem routeAt_forwarded (lib : Lib) (fuel : Nat) (w : World) (n : String) (r : Req) (ch : List Nat)
    (hf : r.forwarded = true) :
    (routeAt lib fuel w n r ch).1.visited.length ≤ 1 ∧ (routeAt lib fuel w n r ch).1.via = [] ∧
    (1 ≤ fuel → (routeAt lib fuel w n r ch).1.outcome ≠ .outOfFuel) := by
  cases fuel with
  | zero => simp [routeAt]
  | succ fuel =>
    cases hn : w.nodes.find n with
    | none => rw [routeAt, hn]; simp
    | some m =>
      rcases handle_spec lib m r with ⟨_, hh⟩ | ⟨e, _, ⟨lb, u, lb', _, _, _, _, hh⟩ | ⟨lb, _, hh, _⟩ |
          ⟨_, h2, _, hh⟩ | ⟨_, _, hh⟩⟩
      · rw [(routeAt_terminal lib fuel w n r ch m _ hn).1 hh]; simp
      · rw [(routeAt_terminal lib fuel w n r ch m _ hn).2.1 _ _ hh]; simp
      · rw [(routeAt_terminal lib fuel w n r ch m _ hn).2.2.2 hh]; simp
      · rw [hf] at h2; simp at h2
      · rw [(routeAt_terminal lib fuel w n r ch m _ hn).2.2.1 hh]; simp

theorem routeAt_hops (lib : Lib) (fuel : Nat) (w : World) (n : String) (r : Req) (ch : List Nat) :
    (routeAt lib fuel w n r ch).1.visited.length ≤ 2 ∧ (routeAt lib fuel w n r ch).1.via.length ≤ 1 ∧
    (2 ≤ fuel → (routeAt lib fuel w n r ch).1.outcome ≠ .outOfFuel) := by
  cases fuel with
  | zero => simp [routeAt]
  | succ fuel =>
    cases hn : w.nodes.find n with
    | none => rw [routeAt, hn]; simp
    | some m =>
      rcases handle_spec lib m r with ⟨_, hh⟩ | ⟨e, _, ⟨lb, u, lb', _, _, _, _, hh⟩ | ⟨lb, _, hh, _⟩ |
          ⟨_, h2, _, hh⟩ | ⟨_, _, hh⟩⟩
      · rw [(routeAt_terminal lib fuel w n r ch m _ hn).1 hh]; simp
      · rw [(routeAt_terminal lib fuel w n r ch m _ hn).2.1 _ _ hh]; simp
      · rw [(routeAt_terminal lib fuel w n r ch m _ hn).2.2.2 hh]; simp
      · rw [routeAt_forward lib fuel w n r ch m m e _ _ hn hh]
        cases pickCand (m.cluster.lookupCandidates e) (ch.headD 0) with
        | none => simp
        | some c =>
          simp only
          cases w.listen.find c.proxyAddr with
          | none => simp
          | some k =>
            simp only
            obtain ⟨a1, a2, a3⟩ := routeAt_forwarded lib fuel { w with nodes := w.nodes.insert n m } k
              (forwardReq r) ch.tail (forwardReq_forwarded r)
            refine ⟨?_, ?_, ?_⟩
            · simp only [List.length_cons]; omega
            · simp [a2]
            · intro h2; exact a3 (by omega)
      · rw [(routeAt_terminal lib fuel w n r ch m _ hn).2.2.1 hh]; simp

/-- the upstreams registered at node `k` for endpoint `e` (`[]` for an unknown node) -/
def World.reg (w : World) (k e : String) : List Nat := ((w.nodes.find k).map (·.registry e)).getD []

/-- every node's manager carries its own id -/
def WId (w : World) : Prop := ∀ n m, w.nodes.find n = some m → m.cluster.localId = n

/-- every node's balancers satisfy the cursor invariant (true of every reachable manager) -/
def WOk (w : World) : Prop := ∀ n m, w.nodes.find n = some m → LbOk m

theorem handle_preserves (lib : Lib) (m : Mgr) (r : Req) :
    (handle lib m r).2.cluster = m.cluster ∧ (∀ e', (handle lib m r).2.registry e' = m.registry e') ∧
    (LbOk m → LbOk (handle lib m r).2) := by
  rcases handle_spec lib m r with ⟨_, hh⟩ | ⟨e, _, ⟨lb, u, lb', h1, _, h3, h4, hh⟩ | ⟨lb, _, hh, _⟩ |
      ⟨_, _, _, hh⟩ | ⟨_, _, hh⟩⟩
  · rw [hh]; exact ⟨rfl, fun _ => rfl, id⟩
  · rw [hh]
    exact ⟨rfl, fun e' => registry_insert_sameUps m e lb lb' h1 h3 e', lbOk_insert m e lb lb' h1 h3 h4⟩
  · rw [hh]; exact ⟨rfl, fun _ => rfl, id⟩
  · rw [hh]; exact ⟨rfl, fun _ => rfl, id⟩
  · rw [hh]; exact ⟨rfl, fun _ => rfl, id⟩

/-- the world after node `n`'s handler ran -/
def World.set (w : World) (n : String) (m' : Mgr) : World := { w with nodes := w.nodes.insert n m' }

theorem set_inv (w : World) (n : String) (m m' : Mgr) (hn : w.nodes.find n = some m)
    (hc : m'.cluster = m.cluster) (hr : ∀ e', m'.registry e' = m.registry e') (hl : LbOk m → LbOk m') :
    (∀ k e, (w.set n m').reg k e = w.reg k e) ∧ (w.set n m').listen = w.listen ∧
    (WId w → WId (w.set n m')) ∧ (WOk w → WOk (w.set n m')) := by
  refine ⟨?_, rfl, ?_, ?_⟩
  · intro k e
    unfold World.reg World.set
    simp only [AMap.find_insert]
    by_cases h : n = k
    · subst h; simp [hn, hr]
    · simp [h]
  · intro hw k mk hk
    unfold World.set at hk
    simp only [AMap.find_insert] at hk
    by_cases h : n = k
    · simp only [h, if_true, Option.some.injEq] at hk
      subst hk; rw [hc, hw n m hn, h]
    · simp only [h, if_false] at hk; exact hw k mk hk
  · intro hw k mk hk
    unfold World.set at hk
    simp only [AMap.find_insert] at hk
    by_cases h : n = k
    · simp only [h, if_true, Option.some.injEq] at hk
      subst hk; exact hl (hw n m hn)
    · simp only [h, if_false] at hk; exact hw k mk hk

theorem set_handle_inv (lib : Lib) (w : World) (n : String) (m : Mgr) (r : Req) (hn : w.nodes.find n = some m) :
    (∀ k e, (w.set n (handle lib m r).2).reg k e = w.reg k e) ∧ (w.set n (handle lib m r).2).listen = w.listen ∧
    (WId w → WId (w.set n (handle lib m r).2)) ∧ (WOk w → WOk (w.set n (handle lib m r).2)) := by
  obtain ⟨a, b, c⟩ := handle_preserves lib m r
  exact set_inv w n m _ hn a b c

/-- routing never changes who is registered where, who listens where, nor the invariants -/
theorem routeAt_world (lib : Lib) : ∀ (fuel : Nat) (w : World) (n : String) (r : Req) (ch : List Nat),
    (∀ k e, (routeAt lib fuel w n r ch).2.reg k e = w.reg k e) ∧ (routeAt lib fuel w n r ch).2.listen = w.listen ∧
    (WId w → WId (routeAt lib fuel w n r ch).2) ∧ (WOk w → WOk (routeAt lib fuel w n r ch).2) := by
  intro fuel
  induction fuel with
  | zero => intro w n r ch; simp [routeAt]
  | succ fuel ih =>
    intro w n r ch
    cases hn : w.nodes.find n with
    | none => rw [routeAt, hn]; simp
    | some m =>
      have hs := set_handle_inv lib w n m r hn
      rcases handle_spec lib m r with ⟨_, hh⟩ | ⟨e, _, ⟨lb, u, lb', _, _, _, _, hh⟩ | ⟨lb, _, hh, _⟩ |
          ⟨_, h2, _, hh⟩ | ⟨_, _, hh⟩⟩
      · rw [(routeAt_terminal lib fuel w n r ch m _ hn).1 hh]; rw [hh] at hs; exact hs
      · rw [(routeAt_terminal lib fuel w n r ch m _ hn).2.1 _ _ hh]; rw [hh] at hs; exact hs
      · rw [(routeAt_terminal lib fuel w n r ch m _ hn).2.2.2 hh]; rw [hh] at hs; exact hs
      · rw [routeAt_forward lib fuel w n r ch m m e _ _ hn hh]
        rw [hh] at hs
        cases pickCand (m.cluster.lookupCandidates e) (ch.headD 0) with
        | none => exact hs
        | some c =>
          simp only
          cases w.listen.find c.proxyAddr with
          | none => exact hs
          | some k =>
            simp only
            obtain ⟨i1, i2, i3, i4⟩ := ih (w.set n m) k (forwardReq r) ch.tail
            obtain ⟨s1, s2, s3, s4⟩ := hs
            refine ⟨fun k' e' => ?_, ?_, fun h => i3 (s3 h), fun h => i4 (s4 h)⟩
            · exact (i1 k' e').trans (s1 k' e')
            · exact i2.trans s2
      · rw [(routeAt_terminal lib fuel w n r ch m _ hn).2.2.1 hh]; rw [hh] at hs; exact hs

theorem reg_of_find {w : World} {n : String} {m : Mgr} (hn : w.nodes.find n = some m) (e : String) :
    w.reg n e = m.registry e := by simp [World.reg, hn]

/-- whoever serves, serves the endpoint the request names, with an upstream registered for it there -/
theorem routeAt_served (lib : Lib) : ∀ (fuel : Nat) (w : World) (n : String) (r : Req) (ch : List Nat)
    (k e : String) (u : Nat), (routeAt lib fuel w n r ch).1.outcome = .served k e u →
    u ∈ w.reg k e ∧ endpointOf lib r = some e ∧ (routeAt lib fuel w n r ch).1.visited.getLast? = some k := by
  intro fuel
  induction fuel with
  | zero => intro w n r ch k e u h; simp [routeAt] at h
  | succ fuel ih =>
    intro w n r ch k e u h
    cases hn : w.nodes.find n with
    | none => rw [routeAt, hn] at h; simp at h
    | some m =>
      rcases handle_spec lib m r with ⟨_, hh⟩ | ⟨e0, he0, ⟨lb, u0, lb', h1, h2, _, _, hh⟩ | ⟨lb, _, hh, _⟩ |
          ⟨_, _, _, hh⟩ | ⟨_, _, hh⟩⟩
      · rw [(routeAt_terminal lib fuel w n r ch m _ hn).1 hh] at h; simp at h
      · rw [(routeAt_terminal lib fuel w n r ch m _ hn).2.1 _ _ hh] at h ⊢
        simp only [Outcome.served.injEq] at h
        obtain ⟨rfl, rfl, rfl⟩ := h
        refine ⟨?_, he0, by simp⟩
        rw [reg_of_find hn, registry_of_find h1]; exact h2
      · rw [(routeAt_terminal lib fuel w n r ch m _ hn).2.2.2 hh] at h; simp at h
      · rw [routeAt_forward lib fuel w n r ch m m e0 _ _ hn hh] at h ⊢
        cases hp : pickCand (m.cluster.lookupCandidates e0) (ch.headD 0) with
        | none => rw [hp] at h; simp at h
        | some c =>
          rw [hp] at h; simp only at h ⊢
          cases hl : w.listen.find c.proxyAddr with
          | none => rw [hl] at h; simp at h
          | some k' =>
            rw [hl] at h; simp only at h ⊢
            obtain ⟨j1, j2, j3⟩ := ih _ k' (forwardReq r) ch.tail k e u h
            have hs := (set_handle_inv lib w n m r hn).1 k e
            rw [hh] at hs
            refine ⟨?_, ?_, ?_⟩
            · rw [← hs]; exact j1
            · rw [← endpointOf_forwardReq lib r]; exact j2
            · rw [List.getLast?_cons]
              cases hv : (routeAt lib fuel { nodes := AMap.insert w.nodes n m, listen := w.listen } k' (forwardReq r) ch.tail).1.visited.getLast? with
              | none => rw [hv] at j3; simp at j3
              | some x => rw [hv] at j3; simpa using j3
      · rw [(routeAt_terminal lib fuel w n r ch m _ hn).2.2.1 hh] at h; simp at h

/-- forwarding decisions never name the forwarding node itself -/
theorem routeAt_no_self (lib : Lib) : ∀ (fuel : Nat) (w : World) (n : String) (r : Req) (ch : List Nat),
    WId w → ∀ p ∈ (routeAt lib fuel w n r ch).1.via, p.1 ≠ p.2 := by
  intro fuel
  induction fuel with
  | zero => intro w n r ch _ p hp; simp [routeAt] at hp
  | succ fuel ih =>
    intro w n r ch hw p hp
    cases hn : w.nodes.find n with
    | none => rw [routeAt, hn] at hp; simp at hp
    | some m =>
      rcases handle_spec lib m r with ⟨_, hh⟩ | ⟨e0, he0, ⟨lb, u0, lb', h1, h2, _, _, hh⟩ | ⟨lb, _, hh, _⟩ |
          ⟨_, _, _, hh⟩ | ⟨_, _, hh⟩⟩
      · rw [(routeAt_terminal lib fuel w n r ch m _ hn).1 hh] at hp; simp at hp
      · rw [(routeAt_terminal lib fuel w n r ch m _ hn).2.1 _ _ hh] at hp; simp at hp
      · rw [(routeAt_terminal lib fuel w n r ch m _ hn).2.2.2 hh] at hp; simp at hp
      · rw [routeAt_forward lib fuel w n r ch m m e0 _ _ hn hh] at hp
        cases hpc : pickCand (m.cluster.lookupCandidates e0) (ch.headD 0) with
        | none => rw [hpc] at hp; simp at hp
        | some c =>
          have hc := pickCand_mem hpc
          have hne : n ≠ c.id := by
            unfold Cluster.State.lookupCandidates at hc
            simp only [List.mem_filter, Bool.and_eq_true, Bool.not_eq_true', decide_eq_false_iff_not] at hc
            rw [hw n m hn] at hc
            exact fun h => hc.2.1.1 h.symm
          rw [hpc] at hp; simp only at hp
          cases hl : w.listen.find c.proxyAddr with
          | none =>
            rw [hl] at hp; simp only [List.mem_singleton] at hp
            subst hp; exact hne
          | some k' =>
            rw [hl] at hp; simp only [List.mem_cons] at hp
            rcases hp with hp | hp
            · subst hp; exact hne
            · have hs := (set_handle_inv lib w n m r hn).2.2.1 hw
              rw [hh] at hs
              exact ih _ k' (forwardReq r) ch.tail hs p hp
      · rw [(routeAt_terminal lib fuel w n r ch m _ hn).2.2.1 hh] at hp; simp at hp

/-- a node with a local upstream for the endpoint serves the request itself -/
theorem routeAt_local (lib : Lib) (fuel : Nat) (w : World) (n : String) (r : Req) (ch : List Nat)
    (m : Mgr) (e : String) (hn : w.nodes.find n = some m) (hok : LbOk m)
    (he : endpointOf lib r = some e) (hreg : m.registry e ≠ []) :
    ∃ u, u ∈ m.registry e ∧
      (routeAt lib (fuel + 1) w n r ch).1 = { visited := [n], via := [], outcome := .served n e u } := by
  rcases handle_spec lib m r with ⟨h0, _⟩ | ⟨e0, he0, ⟨lb, u0, lb', h1, h2, _, _, hh⟩ | ⟨lb, h1, _, h3⟩ |
      ⟨h1, _, _, _⟩ | ⟨h1, _, _⟩⟩
  · rw [he] at h0; simp at h0
  · rw [he] at he0; simp only [Option.some.injEq] at he0; subst he0
    refine ⟨u0, by rw [registry_of_find h1]; exact h2, ?_⟩
    rw [(routeAt_terminal lib fuel w n r ch m _ hn).2.1 _ _ hh]
  · exact absurd (hok e0 lb h1) h3
  · rw [he] at he0; simp only [Option.some.injEq] at he0; subst he0
    exact absurd (registry_of_none h1) hreg
  · rw [he] at he0; simp only [Option.some.injEq] at he0; subst he0
    exact absurd (registry_of_none h1) hreg

/-- routing information has settled: every row a node holds about another node is that
node's truth (active, its real listening address, "serves e" exactly when it has an upstream
for e), and every node has a row for every other node -/
structure Settled (w : World) : Prop where
  ids : WId w
  ok : WOk w
  rows_sound : ∀ n m, w.nodes.find n = some m → ∀ c ∈ m.cluster.nodes.vals, c.id ≠ n →
    c.status = .active ∧ w.listen.find c.proxyAddr = some c.id ∧
    ∃ mk, w.nodes.find c.id = some mk ∧ ∀ e, (c.serves e = true ↔ mk.registry e ≠ [])
  rows_complete : ∀ n m k mk, w.nodes.find n = some m → w.nodes.find k = some mk → k ≠ n →
    ∃ c ∈ m.cluster.nodes.vals, c.id = k

theorem mem_lookupCandidates {s : Cluster.State} {e : String} {c : Cluster.Node} :
    c ∈ s.lookupCandidates e ↔ c ∈ s.nodes.vals ∧ c.id ≠ s.localId ∧ c.status = .active ∧ c.serves e = true := by
  unfold Cluster.State.lookupCandidates
  simp only [List.mem_filter, Bool.and_eq_true, Bool.not_eq_true', decide_eq_false_iff_not, decide_eq_true_eq]
  constructor
  · rintro ⟨a, ⟨b, c'⟩, d⟩; exact ⟨a, b, c', d⟩
  · rintro ⟨a, b, c', d⟩; exact ⟨a, ⟨b, c'⟩, d⟩

theorem route_settled (lib : Lib) (w : World) (hs : Settled w) (fuel : Nat) (n : String) (m : Mgr)
    (hn : w.nodes.find n = some m) (r : Req) (hnf : r.forwarded = false) (e : String)
    (he : endpointOf lib r = some e) (ch : List Nat) :
    ((∃ k, w.reg k e ≠ []) → ∃ k u, (routeAt lib (fuel + 2) w n r ch).1.outcome = .served k e u ∧ u ∈ w.reg k e) ∧
    ((∀ k, w.reg k e = []) → (routeAt lib (fuel + 2) w n r ch).1 = { visited := [n], via := [], outcome := .noUpstream n }) := by
  have hid : m.cluster.localId = n := hs.ids n m hn
  by_cases hreg : m.registry e = []
  swap
  · obtain ⟨u, hu, hr⟩ := routeAt_local lib (fuel + 1) w n r ch m e hn (hs.ok n m hn) he hreg
    refine ⟨fun _ => ⟨n, u, by rw [hr], by rw [reg_of_find hn]; exact hu⟩, fun h => ?_⟩
    have := h n; rw [reg_of_find hn] at this; exact absurd this hreg
  rcases handle_spec lib m r with ⟨h0, _⟩ | ⟨e0, he0, ⟨lb, u0, lb', h1, h2, _, _, hh⟩ | ⟨lb, h1, _, h3⟩ |
      ⟨h1, _, hc, hh⟩ | ⟨h1, h2, hh⟩⟩
  · rw [he] at h0; simp at h0
  · rw [he] at he0; simp only [Option.some.injEq] at he0; subst he0
    rw [registry_of_find h1] at hreg
    exact absurd hreg (hs.ok n m hn e lb h1).1
  · exact absurd (hs.ok n m hn e0 lb h1) h3
  · rw [he] at he0; simp only [Option.some.injEq] at he0; subst he0
    obtain ⟨c, hpc⟩ := pickCand_some_of_ne hc (ch.headD 0)
    have hcm := mem_lookupCandidates.mp (pickCand_mem hpc)
    rw [hid] at hcm
    obtain ⟨hact, hlis, mk, hk, hsv⟩ := hs.rows_sound n m hn c hcm.1 hcm.2.1
    have hkreg : mk.registry e ≠ [] := (hsv e).mp hcm.2.2.2
    rw [routeAt_forward lib (fuel + 1) w n r ch m m e _ _ hn hh, hpc]
    simp only [hlis]
    have hk' : ({ w with nodes := w.nodes.insert n m } : World).nodes.find c.id = some mk := by
      simp only [AMap.find_insert]
      have : ¬ n = c.id := fun h => hcm.2.1 h.symm
      simp [this, hk]
    obtain ⟨u, hu, hr⟩ := routeAt_local lib fuel { w with nodes := w.nodes.insert n m } c.id (forwardReq r)
      ch.tail mk e hk' (hs.ok c.id mk hk) (by rw [endpointOf_forwardReq]; exact he) hkreg
    refine ⟨fun _ => ⟨c.id, u, by rw [hr], by rw [reg_of_find hk]; exact hu⟩, fun h => ?_⟩
    have := h c.id; rw [reg_of_find hk] at this; exact absurd this hkreg
  · rw [he] at he0; simp only [Option.some.injEq] at he0; subst he0
    have hc : m.cluster.lookupCandidates e = [] := by
      rcases h2 with h2 | h2
      · rw [hnf] at h2; simp at h2
      · exact h2
    rw [(routeAt_terminal lib (fuel + 1) w n r ch m _ hn).2.2.1 hh]
    refine ⟨fun ⟨k, hk⟩ => ?_, fun _ => rfl⟩
    exfalso
    have hkn : k ≠ n := by
      intro h; subst h; rw [reg_of_find hn] at hk; exact hk hreg
    cases hkf : w.nodes.find k with
    | none => simp [World.reg, hkf] at hk
    | some mk =>
      rw [reg_of_find hkf] at hk
      obtain ⟨c, hcv, hcid⟩ := hs.rows_complete n m k mk hn hkf hkn
      have hcn : c.id ≠ n := by rw [hcid]; exact hkn
      obtain ⟨hact, _, mk', hk', hsv⟩ := hs.rows_sound n m hn c hcv hcn
      rw [hcid, hkf] at hk'
      simp only [Option.some.injEq] at hk'; subst hk'
      have : c ∈ m.cluster.lookupCandidates e :=
        mem_lookupCandidates.mpr ⟨hcv, by rw [hid]; exact hcn, hact, (hsv e).mpr hk⟩
      rw [hc] at this; simp at this

/-- a request without an endpoint is answered 400 by the node that receives it -/
theorem routeAt_badRequest (lib : Lib) (fuel : Nat) (w : World) (n : String) (m : Mgr) (r : Req)
    (ch : List Nat) (hn : w.nodes.find n = some m) (he : endpointOf lib r = none) :
    (routeAt lib (fuel + 1) w n r ch).1 = { visited := [n], via := [], outcome := .badRequest n } := by
  rcases handle_spec lib m r with ⟨_, hh⟩ | ⟨e0, he0, _⟩
  · rw [(routeAt_terminal lib fuel w n r ch m _ hn).1 hh]
  · rw [he] at he0; simp at he0

/-- one handler invocation on a request that carries the marker -/
theorem handle_forwarded (lib : Lib) (m : Mgr) (r : Req) (hf : r.forwarded = true) :
    (endpointOf lib r = none ∧ (handle lib m r).1 = .reply400) ∨
    (∃ e, endpointOf lib r = some e ∧
      ((∃ u, u ∈ m.registry e ∧ (handle lib m r).1 = .serve e u) ∨
       (m.registry e = [] ∧ (handle lib m r).1 = .reply502) ∨
       (¬ LbOk m ∧ (handle lib m r).1 = .fault))) := by
  rcases handle_spec lib m r with ⟨h0, hh⟩ | ⟨e0, he0, ⟨lb, u0, lb', h1, h2, _, _, hh⟩ | ⟨lb, h1, hh, h3⟩ |
      ⟨_, h2, _, _⟩ | ⟨h1, _, hh⟩⟩
  · left; exact ⟨h0, by rw [hh]⟩
  · right; exact ⟨e0, he0, Or.inl ⟨u0, by rw [registry_of_find h1]; exact h2, by rw [hh]⟩⟩
  · right; exact ⟨e0, he0, Or.inr (Or.inr ⟨fun h => h3 (h e0 lb h1), by rw [hh]⟩)⟩
  · rw [hf] at h2; simp at h2
  · right; exact ⟨e0, he0, Or.inr (Or.inl ⟨registry_of_none h1, by rw [hh]⟩)⟩

/-- only the node the request entered at ever forwards -/
theorem routeAt_via_entry (lib : Lib) (fuel : Nat) (w : World) (n : String) (r : Req) (ch : List Nat) :
    ∀ p ∈ (routeAt lib fuel w n r ch).1.via, p.1 = n := by
  cases fuel with
  | zero => simp [routeAt]
  | succ fuel =>
    cases hn : w.nodes.find n with
    | none => rw [routeAt, hn]; simp
    | some m =>
      rcases handle_spec lib m r with ⟨_, hh⟩ | ⟨e, _, ⟨lb, u, lb', _, _, _, _, hh⟩ | ⟨lb, _, hh, _⟩ |
          ⟨_, h2, _, hh⟩ | ⟨_, _, hh⟩⟩
      · rw [(routeAt_terminal lib fuel w n r ch m _ hn).1 hh]; simp
      · rw [(routeAt_terminal lib fuel w n r ch m _ hn).2.1 _ _ hh]; simp
      · rw [(routeAt_terminal lib fuel w n r ch m _ hn).2.2.2 hh]; simp
      · rw [routeAt_forward lib fuel w n r ch m m e _ _ hn hh]
        cases pickCand (m.cluster.lookupCandidates e) (ch.headD 0) with
        | none => simp
        | some c =>
          simp only
          cases w.listen.find c.proxyAddr with
          | none => simp
          | some k =>
            simp only
            obtain ⟨_, a2, _⟩ := routeAt_forwarded lib fuel { w with nodes := w.nodes.insert n m } k
              (forwardReq r) ch.tail (forwardReq_forwarded r)
            simp [a2]
      · rw [(routeAt_terminal lib fuel w n r ch m _ hn).2.2.1 hh]; simp

/-- every manager state reachable from a fresh node by AddConn/RemoveConn/Select, paired with
ANY routing view, satisfies the balancer invariant the routing theorems assume -/
theorem lbOk_reach_view (id proxy admin : String) (ops : List Op) (view : Cluster.State) :
    LbOk { reach id proxy admin ops with cluster := view } :=
  (inv_reach id proxy admin ops).lbs

theorem registry_reach_view (id proxy admin : String) (ops : List Op) (view : Cluster.State) (e : String) :
    ({ reach id proxy admin ops with cluster := view } : Mgr).registry e = refRun ops e :=
  registry_reach id proxy admin ops e

end Piko.Proxy
