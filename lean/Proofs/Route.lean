import Props.C15
import PikoModel.Proxy.Route
namespace Piko.Proxy
open Piko Piko.Upstream

def LbOk (m : Mgr) : Prop := ∀ e lb, m.lbs.find e = some lb → lb.ups ≠ [] ∧ lb.Inv

theorem lbOk_of_inv {m : Mgr} (h : MInv m) : LbOk m := h.lbs

theorem pick_up_mem (lb : LB) (u : Nat) (lb' : LB) (h : lb.pick = (.up u, lb')) :
    u ∈ lb.ups ∧ lb'.ups = lb.ups := by
  have hu := LB.pick_ups lb
  rw [h] at hu
  refine ⟨?_, hu⟩
  unfold LB.pick at h
  split at h
  · simp at h
  · split at h
    · simp at h
    · rename_i u' hg
      simp only [Prod.mk.injEq, Pick.up.injEq] at h
      rw [← h.1]
      exact List.mem_of_getElem? hg

/-- all the ways `Select` can answer -/
theorem select_spec (m : Mgr) (e : String) (a : Bool) :
    (∃ lb u lb', m.lbs.find e = some lb ∧ u ∈ lb.ups ∧ lb'.ups = lb.ups ∧ (lb.Inv → lb'.Inv) ∧
        m.select e a = (.localUp u, { m with lbs := m.lbs.insert e lb' })) ∨
    (∃ lb, m.lbs.find e = some lb ∧ (m.select e a = (.nilTrue, m) ∨ m.select e a = (.panic, m)) ∧
        ¬ (lb.ups ≠ [] ∧ lb.Inv)) ∨
    (m.lbs.find e = none ∧ a = true ∧ m.cluster.lookupCandidates e ≠ [] ∧
        m.select e a = (.remote ((m.cluster.lookupCandidates e).map (·.id)), m)) ∨
    (m.lbs.find e = none ∧ (a = false ∨ m.cluster.lookupCandidates e = []) ∧
        m.select e a = (.notFound, m)) := by
  unfold Mgr.select
  cases hf : m.lbs.find e with
  | some lb =>
    simp only
    cases hp : lb.pick with
    | mk p lb' =>
      cases p with
      | up u =>
        left
        obtain ⟨h1, h2⟩ := pick_up_mem lb u lb' hp
        have h3 : lb.Inv → lb'.Inv := fun hi => by have := LB.inv_pick lb hi; rwa [hp] at this
        exact ⟨lb, u, lb', rfl, h1, h2, h3, rfl⟩
      | none =>
        right; left
        refine ⟨lb, rfl, Or.inl ?_, ?_⟩
        · have : lb' = lb := by
            unfold LB.pick at hp
            split at hp
            · simp at hp; exact hp.symm
            · split at hp <;> simp at hp
          simp
        · rintro ⟨hne, hinv⟩
          obtain ⟨_, hp'⟩ := lb.pick_of_inv hinv hne
          rw [hp'] at hp; simp at hp
      | panic =>
        right; left
        refine ⟨lb, rfl, Or.inr (by simp), ?_⟩
        rintro ⟨hne, hinv⟩
        obtain ⟨_, hp'⟩ := lb.pick_of_inv hinv hne
        rw [hp'] at hp; simp at hp
  | none =>
    simp only
    cases a with
    | false => right; right; right; simp
    | true =>
      simp only [Bool.not_true, Bool.false_eq_true, if_false]
      cases hc : m.cluster.lookupCandidates e with
      | nil => right; right; right; simp
      | cons c cs => right; right; left; simp

theorem registry_insert_sameUps (m : Mgr) (e : String) (lb lb' : LB) (hf : m.lbs.find e = some lb)
    (hu : lb'.ups = lb.ups) (e' : String) :
    ({ m with lbs := m.lbs.insert e lb' } : Mgr).registry e' = m.registry e' := by
  unfold Mgr.registry
  simp only [AMap.find_insert]
  by_cases he : e = e'
  · subst he; simp [hf, hu]
  · simp [he]

theorem lbOk_insert (m : Mgr) (e : String) (lb lb' : LB) (hf : m.lbs.find e = some lb)
    (hu : lb'.ups = lb.ups) (hi : lb.Inv → lb'.Inv) (h : LbOk m) :
    LbOk ({ m with lbs := m.lbs.insert e lb' } : Mgr) := by
  intro e' l hl
  simp only [AMap.find_insert] at hl
  by_cases he : e = e'
  · simp only [he, if_true, Option.some.injEq] at hl
    subst hl
    obtain ⟨h1, h2⟩ := h e lb hf
    exact ⟨by rw [hu]; exact h1, hi h2⟩
  · simp only [he, if_false] at hl
    exact h e' l hl

/-- all the ways one handler invocation can go -/
theorem handle_spec (lib : Lib) (m : Mgr) (r : Req) :
    (endpointOf lib r = none ∧ handle lib m r = (.reply400, m)) ∨
    (∃ e, endpointOf lib r = some e ∧
      ((∃ lb u lb', m.lbs.find e = some lb ∧ u ∈ lb.ups ∧ lb'.ups = lb.ups ∧ (lb.Inv → lb'.Inv) ∧
          handle lib m r = (.serve e u, { m with lbs := m.lbs.insert e lb' })) ∨
       (∃ lb, m.lbs.find e = some lb ∧ handle lib m r = (.fault, m) ∧ ¬ (lb.ups ≠ [] ∧ lb.Inv)) ∨
       (m.lbs.find e = none ∧ r.forwarded = false ∧ m.cluster.lookupCandidates e ≠ [] ∧
          handle lib m r = (.forward e (m.cluster.lookupCandidates e) (forwardReq r), m)) ∨
       (m.lbs.find e = none ∧ (r.forwarded = true ∨ m.cluster.lookupCandidates e = []) ∧
          handle lib m r = (.reply502, m)))) := by
  unfold handle
  cases he : endpointOf lib r with
  | none => left; exact ⟨rfl, rfl⟩
  | some e =>
    right
    refine ⟨e, rfl, ?_⟩
    simp only
    rcases select_spec m e (!r.forwarded) with ⟨lb, u, lb', h1, h2, h3, h4, h5⟩ | ⟨lb, h1, h2 | h2, h3⟩ |
        ⟨h1, h2, h3, h4⟩ | ⟨h1, h2, h3⟩
    · left; exact ⟨lb, u, lb', h1, h2, h3, h4, by rw [h5]⟩
    · right; left; exact ⟨lb, h1, by rw [h2], h3⟩
    · right; left; exact ⟨lb, h1, by rw [h2], h3⟩
    · right; right; left
      refine ⟨h1, by simpa using h2, h3, by rw [h4]⟩
    · right; right; right
      refine ⟨h1, ?_, by rw [h3]⟩
      rcases h2 with h2 | h2
      · left; simpa using h2
      · right; exact h2

end Piko.Proxy
