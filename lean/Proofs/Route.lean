import Props.C15
import PikoModel.Proxy.Route
namespace Piko.Proxy
open Piko Piko.Upstream

def LbOk (m : Mgr) : Prop := ∀ e lb, m.lbs.find e = some lb → lb.ups ≠ [] ∧ lb.Inv

theorem lbOk_of_inv {m : Mgr} (h : MInv m) : LbOk m := h.lbs

theorem pick_up_mem (lb : LB) (u : Nat) (lb' : LB) (h : lb.pick = (.up u, lb')) :
    u ∈ lb.ups ∧ lb'.ups = lb.ups := by
  have hu := LB.pick_ups lb
  rw [h] at hu
  refine ⟨?_, hu⟩
  unfold LB.pick at h
  split at h
  · simp at h
  · split at h
    · simp at h
    · rename_i u' hg
      simp only [Prod.mk.injEq, Pick.up.injEq] at h
      rw [← h.1]
      exact List.mem_of_getElem? hg

/-- all the ways `Select` can answer -/
theorem select_spec (m : Mgr) (e : String) (a : Bool) :
    (∃ lb u lb', m.lbs.find e = some lb ∧ u ∈ lb.ups ∧ lb'.ups = lb.ups ∧ (lb.Inv → lb'.Inv) ∧
        m.select e a = (.localUp u, { m with lbs := m.lbs.insert e lb' })) ∨
    (∃ lb, m.lbs.find e = some lb ∧ (m.select e a = (.nilTrue, m) ∨ m.select e a = (.panic, m)) ∧
        ¬ (lb.ups ≠ [] ∧ lb.Inv)) ∨
    (m.lbs.find e = none ∧ a = true ∧ m.cluster.lookupCandidates e ≠ [] ∧
        m.select e a = (.remote ((m.cluster.lookupCandidates e).map (·.id)), m)) ∨
    (m.lbs.find e = none ∧ (a = false ∨ m.cluster.lookupCandidates e = []) ∧
        m.select e a = (.notFound, m)) := by
  unfold Mgr.select
  cases hf : m.lbs.find e with
  | some lb =>
    simp only
    cases hp : lb.pick with
    | mk p lb' =>
      cases p with
      | up u =>
        left
        obtain ⟨h1, h2⟩ := pick_up_mem lb u lb' hp
        have h3 : lb.Inv → lb'.Inv := fun hi => by have := LB.inv_pick lb hi; rwa [hp] at this
        exact ⟨lb, u, lb', rfl, h1, h2, h3, rfl⟩
      | none =>
        right; left
        refine ⟨lb, rfl, Or.inl ?_, ?_⟩
        · have : lb' = lb := by
            unfold LB.pick at hp
            split at hp
            · simp at hp; exact hp.symm
            · split at hp <;> simp at hp
          simp
        · rintro ⟨hne, hinv⟩
          obtain ⟨_, hp'⟩ := lb.pick_of_inv hinv hne
          rw [hp'] at hp; simp at hp
      | panic =>
        right; left
        refine ⟨lb, rfl, Or.inr (by simp), ?_⟩
        rintro ⟨hne, hinv⟩
        obtain ⟨_, hp'⟩ := lb.pick_of_inv hinv hne
        rw [hp'] at hp; simp at hp
  | none =>
    simp only
    cases a with
    | false => right; right; right; simp
    | true =>
      simp only [Bool.not_true, Bool.false_eq_true, if_false]
      cases hc : m.cluster.lookupCandidates e with
      | nil => right; right; right; simp
      | cons c cs => right; right; left; simp

theorem registry_insert_sameUps (m : Mgr) (e : String) (lb lb' : LB) (hf : m.lbs.find e = some lb)
    (hu : lb'.ups = lb.ups) (e' : String) :
    ({ m with lbs := m.lbs.insert e lb' } : Mgr).registry e' = m.registry e' := by
  unfold Mgr.registry
  simp only [AMap.find_insert]
  by_cases he : e = e'
  · subst he; simp [hf, hu]
  · simp [he]

theorem lbOk_insert (m : Mgr) (e : String) (lb lb' : LB) (hf : m.lbs.find e = some lb)
    (hu : lb'.ups = lb.ups) (hi : lb.Inv → lb'.Inv) (h : LbOk m) :
    LbOk ({ m with lbs := m.lbs.insert e lb' } : Mgr) := by
  intro e' l hl
  simp only [AMap.find_insert] at hl
  by_cases he : e = e'
  · simp only [he, if_true, Option.some.injEq] at hl
    subst hl
    obtain ⟨h1, h2⟩ := h e lb hf
    exact ⟨by rw [hu]; exact h1, hi h2⟩
  · simp only [he, if_false] at hl
    exact h e' l hl

theorem removeLocalEndpoint_localId (c : Cluster.State) (e : String) :
    (c.removeLocalEndpoint e).1.localId = c.localId := by
  unfold Cluster.State.removeLocalEndpoint
  simp only
  split
  · rfl
  · split
    · rfl
    · split <;> rfl

theorem removeConn_localId (m : Mgr) (u : Up) : (m.removeConn u).cluster.localId = m.cluster.localId := by
  unfold Mgr.removeConn
  split
  · rfl
  · split
    · rfl
    · exact removeLocalEndpoint_localId _ _

theorem lbOk_removeConn (m : Mgr) (u : Up) (h : LbOk m) : LbOk (m.removeConn u) := by
  by_cases hm : u.id ∈ m.registry u.ep
  swap
  · rw [removeConn_absent m u hm]; exact h
  cases hf : m.lbs.find u.ep with
  | none => simp [registry_of_none hf] at hm
  | some lb =>
    have hmem : u.id ∈ lb.ups := by rwa [registry_of_find hf] at hm
    have hc : lb.contains u.id = true := by simpa [LB.contains] using hmem
    obtain ⟨h1, h2⟩ := lb_remove_of_mem lb u.id hmem
    intro e lb' hf'
    unfold Mgr.removeConn at hf'
    simp only [hf, hc, Bool.not_true, Bool.false_eq_true, if_false] at hf'
    by_cases hem : (lb.remove u.id).2 = true
    · simp only [hem, if_true, AMap.find_erase] at hf'
      by_cases he : u.ep = e
      · simp [he] at hf'
      · simp only [he, if_false] at hf'; exact h e lb' hf'
    · simp only [hem, Bool.false_eq_true, if_false, AMap.find_insert] at hf'
      by_cases he : u.ep = e
      · simp only [he, if_true, Option.some.injEq] at hf'
        subst hf'
        refine ⟨?_, LB.inv_remove lb u.id (h _ _ hf).2⟩
        rw [h1]
        intro hnil
        apply hem; apply h2.mpr; simp [hnil]
      · simp only [he, if_false] at hf'; exact h e lb' hf'

/-- all the ways one handler invocation can go -/
theorem handle_spec (lib : Lib) (g : String → Nat → Bool) (m : Mgr) (r : Req) :
    (endpointOf lib r = none ∧ handle lib g m r = (.reply400, m)) ∨
    (∃ e, endpointOf lib r = some e ∧
      ((∃ lb u lb', m.lbs.find e = some lb ∧ u ∈ lb.ups ∧ lb'.ups = lb.ups ∧ (lb.Inv → lb'.Inv) ∧ g e u = false ∧
          handle lib g m r = (.serve e u, { m with lbs := m.lbs.insert e lb' })) ∨
       (∃ lb u lb', m.lbs.find e = some lb ∧ u ∈ lb.ups ∧ lb'.ups = lb.ups ∧ (lb.Inv → lb'.Inv) ∧ g e u = true ∧
          handle lib g m r = (.dialGone e u, ({ m with lbs := m.lbs.insert e lb' } : Mgr).removeConn { id := u, ep := e })) ∨
       (∃ lb, m.lbs.find e = some lb ∧ handle lib g m r = (.fault, m) ∧ ¬ (lb.ups ≠ [] ∧ lb.Inv)) ∨
       (m.lbs.find e = none ∧ r.forwarded = false ∧ m.cluster.lookupCandidates e ≠ [] ∧
          handle lib g m r = (.forward e (m.cluster.lookupCandidates e) (forwardReq r), m)) ∨
       (m.lbs.find e = none ∧ (r.forwarded = true ∨ m.cluster.lookupCandidates e = []) ∧
          handle lib g m r = (.reply502, m)))) := by
  unfold handle
  cases he : endpointOf lib r with
  | none => left; exact ⟨rfl, rfl⟩
  | some e =>
    right
    refine ⟨e, rfl, ?_⟩
    simp only
    rcases select_spec m e (!r.forwarded) with ⟨lb, u, lb', h1, h2, h3, h4, h5⟩ | ⟨lb, h1, h2 | h2, h3⟩ |
        ⟨h1, h2, h3, h4⟩ | ⟨h1, h2, h3⟩
    · by_cases hg : g e u = true
      · right; left; exact ⟨lb, u, lb', h1, h2, h3, h4, hg, by rw [h5]; simp [hg]⟩
      · have hg' : g e u = false := by simpa using hg
        left; exact ⟨lb, u, lb', h1, h2, h3, h4, hg', by rw [h5]; simp [hg']⟩
    · right; right; left; exact ⟨lb, h1, by rw [h2], h3⟩
    · right; right; left; exact ⟨lb, h1, by rw [h2], h3⟩
    · right; right; right; left
      refine ⟨h1, by simpa using h2, h3, by rw [h4]⟩
    · right; right; right; right
      refine ⟨h1, ?_, by rw [h3]⟩
      rcases h2 with h2 | h2
      · left; simpa using h2
      · right; exact h2

theorem not_mem_removeConnectionOptions (conn : List String) :
    fwdName ∉ removeConnectionOptions conn ∧ epName ∉ removeConnectionOptions conn := by
  constructor <;> simp [removeConnectionOptions, List.mem_filter]

/-- the forwarded request always carries the marker -/
theorem forwardReq_forwarded (r : Req) : (forwardReq r).forwarded = true := by
  simp [forwardReq, proxySend, (not_mem_removeConnectionOptions r.conn).1, Req.forwarded]

/-- regression (1c64d44): before the repair a client `Connection: x-piko-forward` made the
forwarding step drop the marker it had just set -/
theorem forwardReqUnrepaired_loses_marker (r : Req) (h : fwdName ∈ r.conn) :
    (forwardReqUnrepaired r).forwarded = false := by
  simp [forwardReqUnrepaired, proxySend, h, Req.forwarded]

/-- the forwarding step leaves `Host`, the path and the `x-piko-endpoint` header alone, so the
receiver derives the same endpoint -/
theorem endpointOf_forwardReq (lib : Lib) (r : Req) :
    endpointOf lib (forwardReq r) = endpointOf lib r := by
  simp [forwardReq, proxySend, (not_mem_removeConnectionOptions r.conn).2, endpointOf]

/-! ### unfolding `routeAt` -/

theorem routeAt_terminal (lib : Lib) (fuel : Nat) (w : World) (n : String) (r : Req) (ch : List Nat)
    (m m' : Mgr) (hn : w.nodes.find n = some m) :
    (handle lib (w.isGone n) m r = (.reply400, m') → routeAt lib (fuel + 1) w n r ch =
        ({ visited := [n], outcome := .badRequest n }, { w with nodes := w.nodes.insert n m' })) ∧
    (∀ e u, handle lib (w.isGone n) m r = (.serve e u, m') → routeAt lib (fuel + 1) w n r ch =
        ({ visited := [n], outcome := .served n e u }, { w with nodes := w.nodes.insert n m' })) ∧
    (handle lib (w.isGone n) m r = (.reply502, m') → routeAt lib (fuel + 1) w n r ch =
        ({ visited := [n], outcome := .noUpstream n }, { w with nodes := w.nodes.insert n m' })) ∧
    (handle lib (w.isGone n) m r = (.fault, m') → routeAt lib (fuel + 1) w n r ch =
        ({ visited := [n], outcome := .fault n }, { w with nodes := w.nodes.insert n m' })) ∧
    (∀ e u, handle lib (w.isGone n) m r = (.dialGone e u, m') → routeAt lib (fuel + 1) w n r ch =
        ({ visited := [n], outcome := .gone n e u }, { w with nodes := w.nodes.insert n m' })) := by
  refine ⟨?_, ?_, ?_, ?_, ?_⟩
  · intro hh; rw [routeAt, hn]; simp only [hh]
  · intro e u hh; rw [routeAt, hn]; simp only [hh]
  · intro hh; rw [routeAt, hn]; simp only [hh]
  · intro hh; rw [routeAt, hn]; simp only [hh]
  · intro e u hh; rw [routeAt, hn]; simp only [hh]

theorem routeAt_forward (lib : Lib) (fuel : Nat) (w : World) (n : String) (r : Req) (ch : List Nat)
    (m m' : Mgr) (e : String) (cands : List Cluster.Node) (r' : Req)
    (hn : w.nodes.find n = some m) (hh : handle lib (w.isGone n) m r = (.forward e cands r', m')) :
    routeAt lib (fuel + 1) w n r ch =
      match pickCand cands (ch.headD 0) with
      | none => ({ visited := [n], outcome := .fault n }, { w with nodes := w.nodes.insert n m' })
      | some c =>
        match w.listen.find c.proxyAddr with
        | none => ({ visited := [n], via := [(n, c.id)], outcome := .unreachable },
                   { w with nodes := w.nodes.insert n m' })
        | some k =>
          ({ visited := n :: (routeAt lib fuel { w with nodes := w.nodes.insert n m' } k r' ch.tail).1.visited,
             via := (n, c.id) :: (routeAt lib fuel { w with nodes := w.nodes.insert n m' } k r' ch.tail).1.via,
             outcome := (routeAt lib fuel { w with nodes := w.nodes.insert n m' } k r' ch.tail).1.outcome },
           (routeAt lib fuel { w with nodes := w.nodes.insert n m' } k r' ch.tail).2) := by
  rw [routeAt, hn]
  simp only [hh]
  cases pickCand cands (ch.headD 0) with
  | none => rfl
  | some c =>
    simp only
    cases w.listen.find c.proxyAddr <;> rfl

theorem pickCand_mem {cands : List Cluster.Node} {i : Nat} {c : Cluster.Node}
    (h : pickCand cands i = some c) : c ∈ cands := List.mem_of_getElem? h

theorem pickCand_some_of_ne {cands : List Cluster.Node} (h : cands ≠ []) (i : Nat) :
    ∃ c, pickCand cands i = some c := by
  have hpos : 0 < cands.length := List.length_pos_iff.mpr h
  have : i % cands.length < cands.length := Nat.mod_lt _ hpos
  exact ⟨cands[i % cands.length], by simp [pickCand, List.getElem?_eq_getElem this]⟩

/-- the outcome of a handler invocation that does not forward -/
def termOutcome (n : String) : Step → Outcome
  | .reply400 => .badRequest n
  | .serve e u => .served n e u
  | .dialGone e u => .gone n e u
  | .reply502 => .noUpstream n
  | .fault => .fault n
  | .forward _ _ _ => .fault n

theorem termOutcome_ne_outOfFuel (n : String) (st : Step) : termOutcome n st ≠ .outOfFuel := by
  cases st <;> simp [termOutcome]

/-- a handler invocation at a known node either ends the request there (`termOutcome`) or is
the forwarding step described by `routeAt_forward` -/
theorem routeAt_cases (lib : Lib) (fuel : Nat) (w : World) (n : String) (r : Req) (ch : List Nat)
    (m : Mgr) (hn : w.nodes.find n = some m) :
    (∃ st m', handle lib (w.isGone n) m r = (st, m') ∧ (∀ e c r', st ≠ .forward e c r') ∧
        routeAt lib (fuel + 1) w n r ch =
          ({ visited := [n], via := [], outcome := termOutcome n st }, { w with nodes := w.nodes.insert n m' })) ∨
    (∃ e, r.forwarded = false ∧ m.cluster.lookupCandidates e ≠ [] ∧ endpointOf lib r = some e ∧ m.lbs.find e = none ∧
        handle lib (w.isGone n) m r = (.forward e (m.cluster.lookupCandidates e) (forwardReq r), m)) := by
  rcases handle_spec lib (w.isGone n) m r with ⟨_, hh⟩ | ⟨e, he, ⟨lb, u, lb', _, _, _, _, _, hh⟩ |
      ⟨lb, u, lb', _, _, _, _, _, hh⟩ | ⟨lb, _, hh, _⟩ | ⟨h1, h2, h3, hh⟩ | ⟨_, _, hh⟩⟩
  · left; exact ⟨_, _, hh, by intros; simp, (routeAt_terminal lib fuel w n r ch m _ hn).1 hh⟩
  · left; exact ⟨_, _, hh, by intros; simp, (routeAt_terminal lib fuel w n r ch m _ hn).2.1 _ _ hh⟩
  · left; exact ⟨_, _, hh, by intros; simp, (routeAt_terminal lib fuel w n r ch m _ hn).2.2.2.2 _ _ hh⟩
  · left; exact ⟨_, _, hh, by intros; simp, (routeAt_terminal lib fuel w n r ch m _ hn).2.2.2.1 hh⟩
  · right; exact ⟨e, h2, h3, he, h1, hh⟩
  · left; exact ⟨_, _, hh, by intros; simp, (routeAt_terminal lib fuel w n r ch m _ hn).2.2.1 hh⟩

/-! ### hop bounds -/

/-- a request that carries the marker ends at the node that receives it -/
theorem routeAt_forwarded (lib : Lib) (fuel : Nat) (w : World) (n : String) (r : Req) (ch : List Nat)
    (hf : r.forwarded = true) :
    (routeAt lib fuel w n r ch).1.visited.length ≤ 1 ∧ (routeAt lib fuel w n r ch).1.via = [] ∧
    (1 ≤ fuel → (routeAt lib fuel w n r ch).1.outcome ≠ .outOfFuel) := by
  cases fuel with
  | zero => simp [routeAt]
  | succ fuel =>
    cases hn : w.nodes.find n with
    | none => rw [routeAt, hn]; simp
    | some m =>
      rcases routeAt_cases lib fuel w n r ch m hn with ⟨st, m', _, _, hr⟩ | ⟨e, h2, _⟩
      · rw [hr]
        exact ⟨by simp, rfl, fun _ => termOutcome_ne_outOfFuel n st⟩
      · rw [hf] at h2; simp at h2

theorem routeAt_hops (lib : Lib) (fuel : Nat) (w : World) (n : String) (r : Req) (ch : List Nat) :
    (routeAt lib fuel w n r ch).1.visited.length ≤ 2 ∧ (routeAt lib fuel w n r ch).1.via.length ≤ 1 ∧
    (2 ≤ fuel → (routeAt lib fuel w n r ch).1.outcome ≠ .outOfFuel) ∧
    (∀ p ∈ (routeAt lib fuel w n r ch).1.via, p.1 = n) := by
  cases fuel with
  | zero => simp [routeAt]
  | succ fuel =>
    cases hn : w.nodes.find n with
    | none => rw [routeAt, hn]; simp
    | some m =>
      rcases routeAt_cases lib fuel w n r ch m hn with ⟨st, m', _, _, hr⟩ | ⟨e, _, _, _, _, hh⟩
      · rw [hr]
        exact ⟨by simp, by simp, fun _ => termOutcome_ne_outOfFuel n st, by simp⟩
      · rw [routeAt_forward lib fuel w n r ch m m e _ _ hn hh]
        cases pickCand (m.cluster.lookupCandidates e) (ch.headD 0) with
        | none => simp
        | some c =>
          simp only
          cases w.listen.find c.proxyAddr with
          | none => simp
          | some k =>
            simp only
            obtain ⟨a1, a2, a3⟩ := routeAt_forwarded lib fuel { w with nodes := w.nodes.insert n m } k
              (forwardReq r) ch.tail (forwardReq_forwarded r)
            refine ⟨?_, ?_, ?_, ?_⟩
            · simp only [List.length_cons]; omega
            · simp [a2]
            · intro h2; exact a3 (by omega)
            · simp [a2]

/-- only the node the request entered at ever forwards -/
theorem routeAt_via_entry (lib : Lib) (fuel : Nat) (w : World) (n : String) (r : Req) (ch : List Nat) :
    ∀ p ∈ (routeAt lib fuel w n r ch).1.via, p.1 = n := (routeAt_hops lib fuel w n r ch).2.2.2

/-! ### registries, invariants -/

/-- the upstreams registered at node `k` for endpoint `e` (`[]` for an unknown node) -/
def World.reg (w : World) (k e : String) : List Nat := ((w.nodes.find k).map (·.registry e)).getD []

/-- every node's manager carries its own id -/
def WId (w : World) : Prop := ∀ n m, w.nodes.find n = some m → m.cluster.localId = n

/-- every node's balancers satisfy the cursor invariant (true of every reachable manager) -/
def WOk (w : World) : Prop := ∀ n m, w.nodes.find n = some m → LbOk m

/-- no registered upstream answers `ErrGone` -/
def NoGone (w : World) : Prop := ∀ n e u, w.isGone n e u = false

/-- the registry after one handler invocation: unchanged, except that an upstream that
answered `ErrGone` has been removed (`RemoveConn`) -/
def stepReg (st : Step) (reg : String → List Nat) (e' : String) : List Nat :=
  match st with
  | .dialGone e u => if e = e' then (reg e').erase u else reg e'
  | _ => reg e'

theorem handle_preserves (lib : Lib) (g : String → Nat → Bool) (m : Mgr) (r : Req) :
    (handle lib g m r).2.cluster.localId = m.cluster.localId ∧
    (∀ e', (handle lib g m r).2.registry e' = stepReg (handle lib g m r).1 m.registry e') ∧
    (LbOk m → LbOk (handle lib g m r).2) := by
  rcases handle_spec lib g m r with ⟨_, hh⟩ | ⟨e, _, ⟨lb, u, lb', h1, _, h3, h4, _, hh⟩ |
      ⟨lb, u, lb', h1, _, h3, h4, _, hh⟩ | ⟨lb, _, hh, _⟩ | ⟨_, _, _, hh⟩ | ⟨_, _, hh⟩⟩
  · rw [hh]; exact ⟨rfl, fun _ => rfl, id⟩
  · rw [hh]
    exact ⟨rfl, fun e' => registry_insert_sameUps m e lb lb' h1 h3 e', lbOk_insert m e lb lb' h1 h3 h4⟩
  · rw [hh]
    refine ⟨by rw [removeConn_localId], fun e' => ?_, fun h => lbOk_removeConn _ _ (lbOk_insert m e lb lb' h1 h3 h4 h)⟩
    rw [registry_removeConn]
    simp only [stepReg, registry_insert_sameUps m e lb lb' h1 h3]
  · rw [hh]; exact ⟨rfl, fun _ => rfl, id⟩
  · rw [hh]; exact ⟨rfl, fun _ => rfl, id⟩
  · rw [hh]; exact ⟨rfl, fun _ => rfl, id⟩

/-- the world after node `n`'s handler ran -/
def World.set (w : World) (n : String) (m' : Mgr) : World := { w with nodes := w.nodes.insert n m' }

theorem reg_set (w : World) (n : String) (m' : Mgr) (k e : String) :
    (w.set n m').reg k e = if n = k then m'.registry e else w.reg k e := by
  unfold World.reg World.set
  simp only [AMap.find_insert]
  by_cases h : n = k <;> simp [h]

theorem reg_of_find {w : World} {n : String} {m : Mgr} (hn : w.nodes.find n = some m) (e : String) :
    w.reg n e = m.registry e := by simp [World.reg, hn]

theorem reg_set_same (w : World) (n : String) (m : Mgr) (hn : w.nodes.find n = some m) (k e : String) :
    (w.set n m).reg k e = w.reg k e := by
  rw [reg_set]
  by_cases h : n = k
  · subst h; simp [reg_of_find hn]
  · simp [h]

theorem set_inv (w : World) (n : String) (m m' : Mgr) (hn : w.nodes.find n = some m)
    (hc : m'.cluster.localId = m.cluster.localId) (hl : LbOk m → LbOk m') :
    (w.set n m').listen = w.listen ∧ (w.set n m').gone = w.gone ∧
    (WId w → WId (w.set n m')) ∧ (WOk w → WOk (w.set n m')) := by
  refine ⟨rfl, rfl, ?_, ?_⟩
  · intro hw k mk hk
    unfold World.set at hk
    simp only [AMap.find_insert] at hk
    by_cases h : n = k
    · simp only [h, if_true, Option.some.injEq] at hk
      subst hk; rw [hc, hw n m hn, h]
    · simp only [h, if_false] at hk; exact hw k mk hk
  · intro hw k mk hk
    unfold World.set at hk
    simp only [AMap.find_insert] at hk
    by_cases h : n = k
    · simp only [h, if_true, Option.some.injEq] at hk
      subst hk; exact hl (hw n m hn)
    · simp only [h, if_false] at hk; exact hw k mk hk

/-- the registries after a routed request: unchanged, except that an upstream that answered
`ErrGone` when dialled has been removed from the node that dialled it -/
def regAfter (o : Outcome) (w : World) (k e : String) : List Nat :=
  match o with
  | .gone k0 e0 u => if k0 = k ∧ e0 = e then (w.reg k e).erase u else w.reg k e
  | _ => w.reg k e

theorem regAfter_term (n : String) (st : Step) (hst : ∀ e c r', st ≠ .forward e c r') (w : World) (k e' : String) :
    regAfter (termOutcome n st) w k e' = if n = k then stepReg st (w.reg n) e' else w.reg k e' := by
  cases st with
  | forward e c r' => exact absurd rfl (hst e c r')
  | dialGone e u =>
    simp only [termOutcome, regAfter, stepReg]
    by_cases hk : n = k
    · subst hk
      by_cases he : e = e' <;> simp [he]
    · simp [hk]
  | reply400 => simp only [termOutcome, regAfter, stepReg]; by_cases hk : n = k <;> simp [hk]
  | serve e u => simp only [termOutcome, regAfter, stepReg]; by_cases hk : n = k <;> simp [hk]
  | reply502 => simp only [termOutcome, regAfter, stepReg]; by_cases hk : n = k <;> simp [hk]
  | fault => simp only [termOutcome, regAfter, stepReg]; by_cases hk : n = k <;> simp [hk]

/-- routing changes the registries only by `regAfter`, never who listens where, which
upstreams are gone, nor the invariants -/
theorem routeAt_world (lib : Lib) : ∀ (fuel : Nat) (w : World) (n : String) (r : Req) (ch : List Nat),
    (∀ k e, (routeAt lib fuel w n r ch).2.reg k e = regAfter (routeAt lib fuel w n r ch).1.outcome w k e) ∧
    (routeAt lib fuel w n r ch).2.listen = w.listen ∧ (routeAt lib fuel w n r ch).2.gone = w.gone ∧
    (WId w → WId (routeAt lib fuel w n r ch).2) ∧ (WOk w → WOk (routeAt lib fuel w n r ch).2) := by
  intro fuel
  induction fuel with
  | zero => intro w n r ch; simp [routeAt, regAfter]
  | succ fuel ih =>
    intro w n r ch
    cases hn : w.nodes.find n with
    | none => rw [routeAt, hn]; simp [regAfter]
    | some m =>
      obtain ⟨p1, p2, p3⟩ := handle_preserves lib (w.isGone n) m r
      rcases routeAt_cases lib fuel w n r ch m hn with ⟨st, m', hh, hst, hr⟩ | ⟨e, _, _, _, _, hh⟩
      · rw [hh] at p1 p2 p3
        obtain ⟨s1, s2, s3, s4⟩ := set_inv w n m m' hn p1 p3
        rw [hr]
        refine ⟨fun k e' => ?_, s1, s2, s3, s4⟩
        show (w.set n m').reg k e' = _
        rw [reg_set, regAfter_term n st hst, p2 e']
        by_cases hk : n = k
        · simp only [hk, if_true]
          cases st <;> simp [stepReg, reg_of_find (hk ▸ hn)]
        · simp [hk]
      · obtain ⟨s1, s2, s3, s4⟩ := set_inv w n m m hn rfl id
        have hsame : ∀ k e', ({ w with nodes := w.nodes.insert n m } : World).reg k e' = w.reg k e' :=
          fun k e' => reg_set_same w n m hn k e'
        rw [routeAt_forward lib fuel w n r ch m m e _ _ hn hh]
        cases pickCand (m.cluster.lookupCandidates e) (ch.headD 0) with
        | none => exact ⟨fun k e' => by simpa [regAfter] using hsame k e', s1, s2, s3, s4⟩
        | some c =>
          simp only
          cases w.listen.find c.proxyAddr with
          | none => exact ⟨fun k e' => by simpa [regAfter] using hsame k e', s1, s2, s3, s4⟩
          | some k =>
            simp only
            obtain ⟨i1, i2, i3, i4, i5⟩ := ih { w with nodes := w.nodes.insert n m } k (forwardReq r) ch.tail
            refine ⟨fun k' e' => ?_, i2.trans s1, i3.trans s2, fun h => i4 (s3 h), fun h => i5 (s4 h)⟩
            rw [i1 k' e']
            unfold regAfter
            split <;> simp only [hsame]

/-- whoever serves, serves the endpoint the request names, with an upstream registered for it there -/
theorem routeAt_served (lib : Lib) : ∀ (fuel : Nat) (w : World) (n : String) (r : Req) (ch : List Nat)
    (k e : String) (u : Nat), (routeAt lib fuel w n r ch).1.outcome = .served k e u →
    u ∈ w.reg k e ∧ endpointOf lib r = some e ∧ (routeAt lib fuel w n r ch).1.visited.getLast? = some k ∧
    w.isGone k e u = false := by
  intro fuel
  induction fuel with
  | zero => intro w n r ch k e u h; simp [routeAt] at h
  | succ fuel ih =>
    intro w n r ch k e u h
    cases hn : w.nodes.find n with
    | none => rw [routeAt, hn] at h; simp at h
    | some m =>
      rcases handle_spec lib (w.isGone n) m r with ⟨_, hh⟩ | ⟨e0, he0, ⟨lb, u0, lb', h1, h2, _, _, hg, hh⟩ |
          ⟨lb, u0, lb', _, _, _, _, _, hh⟩ | ⟨lb, _, hh, _⟩ | ⟨_, _, _, hh⟩ | ⟨_, _, hh⟩⟩
      · rw [(routeAt_terminal lib fuel w n r ch m _ hn).1 hh] at h; simp at h
      · rw [(routeAt_terminal lib fuel w n r ch m _ hn).2.1 _ _ hh] at h ⊢
        simp only [Outcome.served.injEq] at h
        obtain ⟨rfl, rfl, rfl⟩ := h
        refine ⟨?_, he0, by simp, hg⟩
        rw [reg_of_find hn, registry_of_find h1]; exact h2
      · rw [(routeAt_terminal lib fuel w n r ch m _ hn).2.2.2.2 _ _ hh] at h; simp at h
      · rw [(routeAt_terminal lib fuel w n r ch m _ hn).2.2.2.1 hh] at h; simp at h
      · rw [routeAt_forward lib fuel w n r ch m m e0 _ _ hn hh] at h ⊢
        cases hp : pickCand (m.cluster.lookupCandidates e0) (ch.headD 0) with
        | none => rw [hp] at h; simp at h
        | some c =>
          rw [hp] at h; simp only at h ⊢
          cases hl : w.listen.find c.proxyAddr with
          | none => rw [hl] at h; simp at h
          | some k' =>
            rw [hl] at h; simp only at h ⊢
            obtain ⟨j1, j2, j3, j4⟩ := ih _ k' (forwardReq r) ch.tail k e u h
            refine ⟨?_, ?_, ?_, j4⟩
            · rw [← reg_set_same w n m hn k e]; exact j1
            · rw [← endpointOf_forwardReq lib r]; exact j2
            · rw [List.getLast?_cons]
              cases hv : (routeAt lib fuel { nodes := AMap.insert w.nodes n m, listen := w.listen, gone := w.gone } k' (forwardReq r) ch.tail).1.visited.getLast? with
              | none => rw [hv] at j3; simp at j3
              | some x => rw [hv] at j3; simpa using j3
      · rw [(routeAt_terminal lib fuel w n r ch m _ hn).2.2.1 hh] at h; simp at h

/-- forwarding decisions never name the forwarding node itself -/
theorem routeAt_no_self (lib : Lib) (fuel : Nat) (w : World) (n : String) (r : Req) (ch : List Nat)
    (hw : WId w) : ∀ p ∈ (routeAt lib fuel w n r ch).1.via, p.1 ≠ p.2 := by
  intro p hp
  cases fuel with
  | zero => simp [routeAt] at hp
  | succ fuel =>
    cases hn : w.nodes.find n with
    | none => rw [routeAt, hn] at hp; simp at hp
    | some m =>
      rcases routeAt_cases lib fuel w n r ch m hn with ⟨st, m', _, _, hr⟩ | ⟨e0, _, _, _, _, hh⟩
      · rw [hr] at hp; simp at hp
      · rw [routeAt_forward lib fuel w n r ch m m e0 _ _ hn hh] at hp
        cases hpc : pickCand (m.cluster.lookupCandidates e0) (ch.headD 0) with
        | none => rw [hpc] at hp; simp at hp
        | some c =>
          have hc := pickCand_mem hpc
          have hne : n ≠ c.id := by
            unfold Cluster.State.lookupCandidates at hc
            simp only [List.mem_filter, Bool.and_eq_true, Bool.not_eq_true', decide_eq_false_iff_not] at hc
            rw [hw n m hn] at hc
            exact fun h => hc.2.1.1 h.symm
          rw [hpc] at hp; simp only at hp
          cases hl : w.listen.find c.proxyAddr with
          | none =>
            rw [hl] at hp; simp only [List.mem_singleton] at hp
            subst hp; exact hne
          | some k' =>
            rw [hl] at hp; simp only [List.mem_cons] at hp
            rcases hp with hp | hp
            · subst hp; exact hne
            · have := (routeAt_forwarded lib fuel { w with nodes := w.nodes.insert n m } k' (forwardReq r) ch.tail
                (forwardReq_forwarded r)).2.1
              rw [this] at hp; simp at hp

/-- a node with a local upstream for the endpoint handles the request itself: it delivers it to
one of them, or - when the one selected answers `ErrGone` - removes it and answers 502 -/
theorem routeAt_local (lib : Lib) (fuel : Nat) (w : World) (n : String) (r : Req) (ch : List Nat)
    (m : Mgr) (e : String) (hn : w.nodes.find n = some m) (hok : LbOk m)
    (he : endpointOf lib r = some e) (hreg : m.registry e ≠ []) :
    ∃ u, u ∈ m.registry e ∧
      (routeAt lib (fuel + 1) w n r ch).1 =
        { visited := [n], via := [], outcome := if w.isGone n e u then .gone n e u else .served n e u } := by
  rcases handle_spec lib (w.isGone n) m r with ⟨h0, _⟩ | ⟨e0, he0, ⟨lb, u0, lb', h1, h2, _, _, hg, hh⟩ |
      ⟨lb, u0, lb', h1, h2, _, _, hg, hh⟩ | ⟨lb, h1, _, h3⟩ | ⟨h1, _, _, _⟩ | ⟨h1, _, _⟩⟩
  · rw [he] at h0; simp at h0
  · rw [he] at he0; simp only [Option.some.injEq] at he0; subst he0
    refine ⟨u0, by rw [registry_of_find h1]; exact h2, ?_⟩
    rw [(routeAt_terminal lib fuel w n r ch m _ hn).2.1 _ _ hh, hg]; rfl
  · rw [he] at he0; simp only [Option.some.injEq] at he0; subst he0
    refine ⟨u0, by rw [registry_of_find h1]; exact h2, ?_⟩
    rw [(routeAt_terminal lib fuel w n r ch m _ hn).2.2.2.2 _ _ hh, hg]; rfl
  · exact absurd (hok e0 lb h1) h3
  · rw [he] at he0; simp only [Option.some.injEq] at he0; subst he0
    exact absurd (registry_of_none h1) hreg
  · rw [he] at he0; simp only [Option.some.injEq] at he0; subst he0
    exact absurd (registry_of_none h1) hreg

/-- routing information has settled: every row a node holds about another node is that
node's truth (active, its real listening address, "serves e" exactly when it has an upstream
for e), and every node has a row for every other node -/
structure Settled (w : World) : Prop where
  ids : WId w
  ok : WOk w
  rows_sound : ∀ n m, w.nodes.find n = some m → ∀ c ∈ m.cluster.nodes.vals, c.id ≠ n →
    c.status = .active ∧ w.listen.find c.proxyAddr = some c.id ∧
    ∃ mk, w.nodes.find c.id = some mk ∧ ∀ e, (c.serves e = true ↔ mk.registry e ≠ [])
  rows_complete : ∀ n m k mk, w.nodes.find n = some m → w.nodes.find k = some mk → k ≠ n →
    ∃ c ∈ m.cluster.nodes.vals, c.id = k

theorem mem_lookupCandidates {s : Cluster.State} {e : String} {c : Cluster.Node} :
    c ∈ s.lookupCandidates e ↔ c ∈ s.nodes.vals ∧ c.id ≠ s.localId ∧ c.status = .active ∧ c.serves e = true := by
  unfold Cluster.State.lookupCandidates
  simp only [List.mem_filter, Bool.and_eq_true, Bool.not_eq_true', decide_eq_false_iff_not, decide_eq_true_eq]
  constructor
  · rintro ⟨a, ⟨b, c'⟩, d⟩; exact ⟨a, b, c', d⟩
  · rintro ⟨a, b, c', d⟩; exact ⟨a, ⟨b, c'⟩, d⟩

theorem route_settled (lib : Lib) (w : World) (hs : Settled w) (hng : NoGone w) (fuel : Nat) (n : String) (m : Mgr)
    (hn : w.nodes.find n = some m) (r : Req) (hnf : r.forwarded = false) (e : String)
    (he : endpointOf lib r = some e) (ch : List Nat) :
    ((∃ k, w.reg k e ≠ []) → ∃ k u, (routeAt lib (fuel + 2) w n r ch).1.outcome = .served k e u ∧ u ∈ w.reg k e) ∧
    ((∀ k, w.reg k e = []) → (routeAt lib (fuel + 2) w n r ch).1 = { visited := [n], via := [], outcome := .noUpstream n }) := by
  have hid : m.cluster.localId = n := hs.ids n m hn
  by_cases hreg : m.registry e = []
  swap
  · obtain ⟨u, hu, hr⟩ := routeAt_local lib (fuel + 1) w n r ch m e hn (hs.ok n m hn) he hreg
    rw [hng n e u] at hr
    refine ⟨fun _ => ⟨n, u, by rw [hr]; rfl, by rw [reg_of_find hn]; exact hu⟩, fun h => ?_⟩
    have := h n; rw [reg_of_find hn] at this; exact absurd this hreg
  rcases handle_spec lib (w.isGone n) m r with ⟨h0, _⟩ | ⟨e0, he0, ⟨lb, u0, lb', h1, h2, _, _, _, hh⟩ |
      ⟨lb, u0, lb', h1, h2, _, _, _, hh⟩ | ⟨lb, h1, _, h3⟩ | ⟨h1, _, hc, hh⟩ | ⟨h1, h2, hh⟩⟩
  · rw [he] at h0; simp at h0
  · rw [he] at he0; simp only [Option.some.injEq] at he0; subst he0
    rw [registry_of_find h1] at hreg
    exact absurd hreg (hs.ok n m hn e lb h1).1
  · rw [he] at he0; simp only [Option.some.injEq] at he0; subst he0
    rw [registry_of_find h1] at hreg
    exact absurd hreg (hs.ok n m hn e lb h1).1
  · exact absurd (hs.ok n m hn e0 lb h1) h3
  · rw [he] at he0; simp only [Option.some.injEq] at he0; subst he0
    obtain ⟨c, hpc⟩ := pickCand_some_of_ne hc (ch.headD 0)
    have hcm := mem_lookupCandidates.mp (pickCand_mem hpc)
    rw [hid] at hcm
    obtain ⟨hact, hlis, mk, hk, hsv⟩ := hs.rows_sound n m hn c hcm.1 hcm.2.1
    have hkreg : mk.registry e ≠ [] := (hsv e).mp hcm.2.2.2
    rw [routeAt_forward lib (fuel + 1) w n r ch m m e _ _ hn hh, hpc]
    simp only [hlis]
    have hk' : ({ w with nodes := w.nodes.insert n m } : World).nodes.find c.id = some mk := by
      simp only [AMap.find_insert]
      have : ¬ n = c.id := fun h => hcm.2.1 h.symm
      simp [this, hk]
    obtain ⟨u, hu, hr⟩ := routeAt_local lib fuel { w with nodes := w.nodes.insert n m } c.id (forwardReq r)
      ch.tail mk e hk' (hs.ok c.id mk hk) (by rw [endpointOf_forwardReq]; exact he) hkreg
    have hg : ({ w with nodes := w.nodes.insert n m } : World).isGone c.id e u = false := hng c.id e u
    rw [hg] at hr
    refine ⟨fun _ => ⟨c.id, u, by rw [hr]; rfl, by rw [reg_of_find hk]; exact hu⟩, fun h => ?_⟩
    have := h c.id; rw [reg_of_find hk] at this; exact absurd this hkreg
  · rw [he] at he0; simp only [Option.some.injEq] at he0; subst he0
    have hc : m.cluster.lookupCandidates e = [] := by
      rcases h2 with h2 | h2
      · rw [hnf] at h2; simp at h2
      · exact h2
    rw [(routeAt_terminal lib (fuel + 1) w n r ch m _ hn).2.2.1 hh]
    refine ⟨fun ⟨k, hk⟩ => ?_, fun _ => rfl⟩
    exfalso
    have hkn : k ≠ n := by
      intro h; subst h; rw [reg_of_find hn] at hk; exact hk hreg
    cases hkf : w.nodes.find k with
    | none => simp [World.reg, hkf] at hk
    | some mk =>
      rw [reg_of_find hkf] at hk
      obtain ⟨c, hcv, hcid⟩ := hs.rows_complete n m k mk hn hkf hkn
      have hcn : c.id ≠ n := by rw [hcid]; exact hkn
      obtain ⟨hact, _, mk', hk', hsv⟩ := hs.rows_sound n m hn c hcv hcn
      rw [hcid, hkf] at hk'
      simp only [Option.some.injEq] at hk'; subst hk'
      have : c ∈ m.cluster.lookupCandidates e :=
        mem_lookupCandidates.mpr ⟨hcv, by rw [hid]; exact hcn, hact, (hsv e).mpr hk⟩
      rw [hc] at this; simp at this

/-- a request without an endpoint is answered 400 by the node that receives it -/
theorem routeAt_badRequest (lib : Lib) (fuel : Nat) (w : World) (n : String) (m : Mgr) (r : Req)
    (ch : List Nat) (hn : w.nodes.find n = some m) (he : endpointOf lib r = none) :
    (routeAt lib (fuel + 1) w n r ch).1 = { visited := [n], via := [], outcome := .badRequest n } := by
  rcases handle_spec lib (w.isGone n) m r with ⟨_, hh⟩ | ⟨e0, he0, _⟩
  · rw [(routeAt_terminal lib fuel w n r ch m _ hn).1 hh]
  · rw [he] at he0; simp at he0

/-- one handler invocation on a request that carries the marker -/
theorem handle_forwarded (lib : Lib) (g : String → Nat → Bool) (m : Mgr) (r : Req) (hf : r.forwarded = true) :
    (endpointOf lib r = none ∧ (handle lib g m r).1 = .reply400) ∨
    (∃ e, endpointOf lib r = some e ∧
      ((∃ u, u ∈ m.registry e ∧ g e u = false ∧ (handle lib g m r).1 = .serve e u) ∨
       (∃ u, u ∈ m.registry e ∧ g e u = true ∧ (handle lib g m r).1 = .dialGone e u) ∨
       (m.registry e = [] ∧ (handle lib g m r).1 = .reply502) ∨
       (¬ LbOk m ∧ (handle lib g m r).1 = .fault))) := by
  rcases handle_spec lib g m r with ⟨h0, hh⟩ | ⟨e0, he0, ⟨lb, u0, lb', h1, h2, _, _, hg, hh⟩ |
      ⟨lb, u0, lb', h1, h2, _, _, hg, hh⟩ | ⟨lb, h1, hh, h3⟩ | ⟨_, h2, _, _⟩ | ⟨h1, _, hh⟩⟩
  · left; exact ⟨h0, by rw [hh]⟩
  · right; exact ⟨e0, he0, Or.inl ⟨u0, by rw [registry_of_find h1]; exact h2, hg, by rw [hh]⟩⟩
  · right; exact ⟨e0, he0, Or.inr (Or.inl ⟨u0, by rw [registry_of_find h1]; exact h2, hg, by rw [hh]⟩)⟩
  · right; exact ⟨e0, he0, Or.inr (Or.inr (Or.inr ⟨fun h => h3 (h e0 lb h1), by rw [hh]⟩))⟩
  · rw [hf] at h2; simp at h2
  · right; exact ⟨e0, he0, Or.inr (Or.inr (Or.inl ⟨registry_of_none h1, by rw [hh]⟩))⟩

/-- every manager state reachable from a fresh node by AddConn/RemoveConn/Select, paired with
ANY routing view, satisfies the balancer invariant the routing theorems assume -/
theorem lbOk_reach_view (id proxy admin : String) (ops : List Op) (view : Cluster.State) :
    LbOk { reach id proxy admin ops with cluster := view } :=
  (inv_reach id proxy admin ops).lbs

theorem registry_reach_view (id proxy admin : String) (ops : List Op) (view : Cluster.State) (e : String) :
    ({ reach id proxy admin ops with cluster := view } : Mgr).registry e = refRun ops e :=
  registry_reach id proxy admin ops e

end Piko.Proxy
