import Proofs.View
import Proofs.GossipLocal
/-!
# Owner-side operations preserve `OwnerInv`, every `ViewInv` and every `PktInv`
The ghost history after a local operation is `H ++ O'.entries.vals`.
-/
namespace Piko.Gossip
open Piko

/-- ghost-history update after a local operation -/
def histAfter (H : List Entry) (O' : NodeSt) : List Entry := H ++ O'.entries.vals

theorem mem_histAfter {H : List Entry} {O' : NodeSt} {h : Entry} :
    h ∈ histAfter H O' ↔ h ∈ H ∨ h ∈ O'.entries.vals := by simp [histAfter]

/-! ### a single write (`UpsertLocal`, `DeleteLocal`, `LeaveLocal`) -/

/-- the shape of an effective write -/
structure IsWrite (O O' : NodeSt) (k : String) (e : Entry) : Prop where
  ver : O'.version = O.version + 1
  ents : O'.entries = O.entries.insert k e
  key : e.key = k
  ever : e.version = O.version + 1
  notCompact : k ≠ compactKey
  internal : e.internal = true → k = leftKey

theorem IsWrite.mem_vals {O O' : NodeSt} {k : String} {e : Entry} (w : IsWrite O O' k e)
    {H : List Entry} (ho : OwnerInv H O) {h : Entry} :
    h ∈ histAfter H O' ↔ h ∈ H ∨ h = e := by
  rw [mem_histAfter]
  have hwf : EntWF O'.entries := by rw [w.ents, ← w.key]; exact ho.wf.insert e
  constructor
  · rintro (h1 | h1)
    · exact Or.inl h1
    · obtain ⟨k', hk'⟩ := (AMap.mem_vals_iff hwf.nodup).mp h1
      rw [w.ents, AMap.find_insert] at hk'
      by_cases hkk : k = k'
      · simp only [hkk, if_true, Option.some.injEq] at hk'; exact Or.inr hk'.symm
      · simp only [hkk, if_false] at hk'; exact Or.inl (ho.cur k' h hk')
  · rintro (h1 | h1)
    · exact Or.inl h1
    · right
      apply (AMap.mem_vals_iff hwf.nodup).mpr
      exact ⟨k, by rw [w.ents, h1]; simp⟩

theorem write_ownerInv {H : List Entry} {O O' : NodeSt} {k : String} {e : Entry}
    (ho : OwnerInv H O) (w : IsWrite O O' k e) : OwnerInv (histAfter H O') O' := by
  have hmem := fun {h} => w.mem_vals ho (h := h)
  have hfind : ∀ k' x, O'.entries.find k' = some x → (k' = k ∧ x = e) ∨ (k' ≠ k ∧ O.entries.find k' = some x) := by
    intro k' x hf
    rw [w.ents, AMap.find_insert] at hf
    by_cases hkk : k = k'
    · simp only [hkk, if_true, Option.some.injEq] at hf; exact Or.inl ⟨hkk.symm, hf.symm⟩
    · simp only [hkk, if_false] at hf; exact Or.inr ⟨fun h => hkk h.symm, hf⟩
  refine ⟨by rw [w.ents, ← w.key]; exact ho.wf.insert e, ?_, ?_, ?_, ?_, ?_, ?_, ?_, ?_, ?_⟩
  · intro k' x hf
    rcases hfind k' x hf with ⟨_, rfl⟩ | ⟨_, h⟩
    · exact hmem.mpr (Or.inr rfl)
    · exact hmem.mpr (Or.inl (ho.cur k' x h))
  · intro h hh
    rcases hmem.mp hh with h1 | rfl
    · exact ho.pos h h1
    · rw [w.ever]; omega
  · intro h hh
    rw [w.ver]
    rcases hmem.mp hh with h1 | rfl
    · have := ho.hb h h1; omega
    · rw [w.ever]; omega
  · intro h1 hh1 h2 hh2 hv
    rcases hmem.mp hh1 with a1 | rfl <;> rcases hmem.mp hh2 with a2 | rfl
    · exact ho.inj h1 a1 h2 a2 hv
    · have := ho.hb h1 a1; rw [w.ever] at hv; omega
    · have := ho.hb h2 a2; rw [w.ever] at hv; omega
    · rfl
  · intro h hh x hf
    rcases hfind h.key x hf with ⟨_, rfl⟩ | ⟨hne, hx⟩
    · rcases hmem.mp hh with a | rfl
      · have := ho.hb h a; rw [w.ever]; omega
      · exact Nat.le_refl _
    · rcases hmem.mp hh with a | rfl
      · exact ho.newest h a x hx
      · exact absurd w.key hne
  · intro h hh
    rcases hmem.mp hh with a | rfl
    · exact ho.internalKeys h a
    · constructor
      · intro hi; left; rw [w.key]; exact w.internal hi
      · intro hk; rw [w.key] at hk; exact absurd hk w.notCompact
  · intro c hc hck
    rcases hmem.mp hc with a | rfl
    · obtain ⟨cv, hp, hlt, hall⟩ := ho.markers c a hck
      refine ⟨cv, hp, hlt, ?_⟩
      intro k' x hf
      rcases hfind k' x hf with ⟨_, rfl⟩ | ⟨_, hx⟩
      · have := ho.hb c a; rw [w.ever]; omega
      · exact hall k' x hx
    · rw [w.key] at hck; exact absurd hck w.notCompact
  · intro h hh hfloor
    have hck : O'.entries.find compactKey = O.entries.find compactKey := by
      rw [w.ents, AMap.find_insert_ne _ _ (Ne.symm w.notCompact.symm.symm)]
    rcases hmem.mp hh with a | rfl
    · obtain ⟨x, hx⟩ := ho.aboveFloor h a (by intro c cv hc hp; exact hfloor c cv (hck ▸ hc) hp)
      by_cases hk : h.key = k
      · exact ⟨e, by rw [w.ents, hk]; simp⟩
      · exact ⟨x, by rw [w.ents, AMap.find_insert_ne _ _ hk]; exact hx⟩
    · exact ⟨h, by rw [w.ents, w.key]; simp⟩
  · intro h _
    exact ⟨k, e, by rw [w.ents]; simp, by rw [w.ever, w.ver]⟩

theorem write_viewInv {H : List Entry} {O O' V : NodeSt} {k : String} {e : Entry}
    (hv : ViewInv H O V) (w : IsWrite O O' k e) : ViewInv (histAfter H O') O' V := by
  refine ⟨hv.wf, fun k' x hf => mem_histAfter.mpr (Or.inl (hv.genuine k' x hf)), hv.bounded,
    by have := hv.le; rw [w.ver]; omega, ?_, hv.aboveOwnMarker⟩
  intro k' x hf hle
  rw [w.ents, AMap.find_insert] at hf
  by_cases hkk : k = k'
  · simp only [hkk, if_true, Option.some.injEq] at hf; subst hf
    have := hv.le; rw [w.ever] at hle; omega
  · simp only [hkk, if_false] at hf; exact hv.complete k' x hf hle

theorem write_pktInv {H : List Entry} {O O' : NodeSt} {k : String} {e : Entry} {v0 : Nat} {es : List Entry}
    (ho : OwnerInv H O) (hp : PktInv H O v0 es) (w : IsWrite O O' k e) :
    PktInv (histAfter H O') O' v0 es := by
  refine ⟨hp.sorted, fun x hx => mem_histAfter.mpr (Or.inl (hp.genuine x hx)), hp.base, ?_⟩
  intro k' x hf hlt ⟨l, hl, hle⟩
  rw [w.ents, AMap.find_insert] at hf
  by_cases hkk : k = k'
  · simp only [hkk, if_true, Option.some.injEq] at hf; subst hf
    have := ho.hb l (hp.genuine l hl); rw [w.ever] at hle; omega
  · simp only [hkk, if_false] at hf; exact hp.complete k' x hf hlt ⟨l, hl, hle⟩

/-- everything a local step must deliver to the network invariant -/
structure OwnerStepOK (H : List Entry) (O O' : NodeSt) : Prop where
  owner : OwnerInv (histAfter H O') O'
  view : ∀ V, ViewInv H O V → ViewInv (histAfter H O') O' V
  pkt : ∀ v0 es, PktInv H O v0 es → PktInv (histAfter H O') O' v0 es
  verMono : O.version ≤ O'.version
  same : O'.id = O.id ∧ O'.addr = O.addr

theorem write_ok {H : List Entry} {O O' : NodeSt} {k : String} {e : Entry}
    (ho : OwnerInv H O) (w : IsWrite O O' k e) (hid : O'.id = O.id ∧ O'.addr = O.addr) :
    OwnerStepOK H O O' :=
  ⟨write_ownerInv ho w, fun _ hv => write_viewInv hv w, fun _ _ hp => write_pktInv ho hp w,
   by rw [w.ver]; omega, hid⟩

/-- a step that does not change the owner's node state at all -/
theorem noop_ok {H : List Entry} {O : NodeSt} (ho : OwnerInv H O) : OwnerStepOK H O O := by
  have hsub : ∀ h, h ∈ histAfter H O ↔ h ∈ H := by
    intro h; rw [mem_histAfter]
    constructor
    · rintro (a | a)
      · exact a
      · obtain ⟨k, hk⟩ := (AMap.mem_vals_iff ho.wf.nodup).mp a; exact ho.cur k h hk
    · exact Or.inl
  refine ⟨?_, ?_, ?_, Nat.le_refl _, rfl, rfl⟩
  · exact ⟨ho.wf, fun k e h => (hsub e).mpr (ho.cur k e h), fun h hh => ho.pos h ((hsub h).mp hh),
      fun h hh => ho.hb h ((hsub h).mp hh),
      fun a ha b hb => ho.inj a ((hsub a).mp ha) b ((hsub b).mp hb),
      fun h hh => ho.newest h ((hsub h).mp hh), fun h hh => ho.internalKeys h ((hsub h).mp hh),
      fun c hc => ho.markers c ((hsub c).mp hc), fun h hh => ho.aboveFloor h ((hsub h).mp hh),
      fun h hh => ho.top h ((hsub h).mp hh)⟩
  · intro V hv
    exact ⟨hv.wf, fun k e h => (hsub e).mpr (hv.genuine k e h), hv.bounded, hv.le, hv.complete, hv.aboveOwnMarker⟩
  · intro v0 es hp
    exact ⟨hp.sorted, fun e he => (hsub e).mpr (hp.genuine e he), hp.base, hp.complete⟩

end Piko.Gossip
