import Proofs.FD
import Proofs.C11
import Proofs.Round
import Proofs.Syncer
/-!
# The failure detector composed with the membership state machine and with routing

`clusterState.UpdateLiveness(threshold)` (`pkg/gossip/state.go`) asks, for every remembered node
that is neither the local node nor left, `s.failureDetector.SuspicionLevel(node.ID) > threshold`.
`PikoModel/Gossip/State.lean` takes that verdict as a free parameter `suspected : String → Bool`
and `PikoModel/Gossip/FD.lean` models the detector on its own.  This file ties the two:

* `suspectedBy d θ now id` is exactly the comparison `UpdateLiveness` evaluates: the value
  `SuspicionLevelAt(id, now)` **returns** on detector `d` (for a node without a window: the level
  of a fresh bootstrap window whose only arrival is `now`, i.e. zero), compared with `θ` as the
  exact fraction `num > θ·den` (`Phi.gt`).
* `livenessTick d θ now s = updateLiveness s (suspectedBy d θ now) now`.

**The query is not pure** in Go: `suspicionLevelLocked` stores the bootstrap window of a node it
did not know.  `suspectedBy` is the pure counterpart (every verdict is computed on the detector as
it was when the tick started); `livenessTickD` is the literal loop which threads the detector
through the queries, and `livenessTickD_eq` proves the two give the same state and events for
every well-formed state (each id is queried at most once per tick and a query only touches the
window of the id it names), and says what the detector is afterwards: `d` after the tick's queries
(`tickOps`), which differs from `d` only by the bootstrap windows of the queried nodes it did not
know (`tickDetector_unknown`, `step_find_other`).

**Panics.**  `arrivalWindow.Phi` panics for a window whose mean is not positive; the model's
`suspicionLevelAt` returns `.error` there.  `suspectedBy` maps an error to `false`; every theorem
about a particular node carries hypotheses under which its query does not panic
(`suspectedBy_unknown`: a node without a window never does, for a positive sample size and
bootstrap interval - the production constructor arguments, `C12_facts_guards`).
-/
set_option linter.unusedSimpArgs false
set_option linter.unusedVariables false
namespace Piko.LivenessFD
open Piko Piko.FD Piko.Gossip Piko.C11

/-! ## the verdict and the tick -/

/-- `SuspicionLevelAt(id, now) > θ` on detector `d` (a panic of `Phi` counts as "not suspected") -/
def verdict (θ : Nat) : Except Err Phi → Bool
  | .ok φ => decide (φ.gt θ)
  | .error _ => false

/-- what `UpdateLiveness` evaluates for node `id`: `failureDetector.SuspicionLevel(id) > threshold`
with `time.Now() = now`, on the detector `d` -/
def suspectedBy (d : Detector) (θ : Nat) (now : Nat) (id : String) : Bool :=
  verdict θ (d.suspicionLevelAt id now).2

/-- `UpdateLiveness(θ)` at time `now` with the verdicts of detector `d` -/
def livenessTick (d : Detector) (θ now : Nat) (s : CState) : CState × List Event :=
  updateLiveness s (suspectedBy d θ now) now

/-- for a node the detector has a window `w` for, the verdict is `w.Phi(now) > θ` -/
theorem suspectedBy_of_window {d : Detector} {id : String} {w : ArrivalWindow}
    (h : d.windows.find id = some w) (θ now : Nat) :
    suspectedBy d θ now id = verdict θ (w.phi now) := by
  simp [suspectedBy, Detector.suspicionLevelAt, h]

/-- the verdict for `id` depends on the detector only through `id`'s window (and the two
constructor parameters, used when there is no window) -/
theorem suspectedBy_congr {d d' : Detector} {id : String}
    (hw : d'.windows.find id = d.windows.find id) (hb : d'.bootstrapInterval = d.bootstrapInterval)
    (hs : d'.sampleSize = d.sampleSize) (θ now : Nat) :
    suspectedBy d' θ now id = suspectedBy d θ now id := by
  unfold suspectedBy Detector.suspicionLevelAt
  rw [hw, hb, hs]
  cases d.windows.find id with
  | some w => rfl
  | none =>
    simp only []
    cases h : (newArrivalWindow d.bootstrapInterval d.sampleSize).add now with
    | mk w e => cases e <;> rfl

/-- **First query of a node never heard from** (`suspicionLevelLocked`, the `!ok` branch): the
bootstrap window's last arrival is the query time, the level is `0 / bootstrapInterval`, the
node is not suspected (and the query does not panic). -/
theorem suspectedBy_unknown {d : Detector} {id : String} (h : d.windows.find id = none)
    (hN : 0 < d.sampleSize) (hb : 0 < d.bootstrapInterval) (θ now : Nat) :
    suspectedBy d θ now id = false := by
  unfold suspectedBy
  rw [query_phi hN id d [] rfl rfl (by simpa using h) now]
  simp only [arrivalsStep, and_self, if_true]
  rw [(wrep_windowOf d.bootstrapInterval hN [now]).phi_eq (by simp)]
  split
  · next hpos =>
    simp only [verdict, Phi.gt, List.getLast_singleton, sub_self, zero_mul, decide_eq_false_iff_not, not_lt]
    exact Int.mul_nonneg (Int.natCast_nonneg _) (le_of_lt hpos)
  · rfl

/-! ## the notifications of `UpdateLiveness`, exactly -/

/-- the watcher calls `UpdateLiveness` makes for one node -/
def liveEvents (L : String) (f : String → Bool) (n : NodeSt) : List Event :=
  if n.id = L || n.left then [] else
  if f n.id then (if n.unreachable then [] else [.unreachable n.id])
  else if n.unreachable then [.reachable n.id] else []

theorem livenessStep_snd (L : String) (f : String → Bool) (now : Nat) (acc : CState × List Event)
    (p : String × NodeSt) : (livenessStep L f now acc p).2 = acc.2 ++ liveEvents L f p.2 := by
  unfold livenessStep liveEvents
  dsimp only
  (repeat' split) <;> simp

theorem livenessFold_snd (L : String) (f : String → Bool) (now : Nat) (l : List (String × NodeSt))
    (acc : CState × List Event) :
    (l.foldl (livenessStep L f now) acc).2 = acc.2 ++ l.flatMap (fun p => liveEvents L f p.2) := by
  induction l generalizing acc with
  | nil => simp
  | cons p l ih => simp [List.foldl_cons, ih, livenessStep_snd, List.append_assoc]

/-- the notification list of `UpdateLiveness` is the concatenation, in map order, of the (at most
one) notification of each node -/
theorem updateLiveness_snd (s : CState) (f : String → Bool) (now : Nat) :
    (updateLiveness s f now).2 = s.nodes.flatMap (fun p => liveEvents s.localId f p.2) := by
  unfold updateLiveness
  rw [livenessFold_snd]; rfl

theorem mem_liveEvents_unreachable {L : String} {f : String → Bool} {n : NodeSt} {id : String} :
    Event.unreachable id ∈ liveEvents L f n ↔
      n.id = id ∧ n.id ≠ L ∧ n.left = false ∧ f n.id = true ∧ n.unreachable = false := by
  unfold liveEvents
  by_cases h1 : n.id = L <;> cases h2 : n.left <;> cases h3 : f n.id <;> cases h4 : n.unreachable <;>
    simp [h1, h2, h3, h4, eq_comm]

theorem mem_liveEvents_reachable {L : String} {f : String → Bool} {n : NodeSt} {id : String} :
    Event.reachable id ∈ liveEvents L f n ↔
      n.id = id ∧ n.id ≠ L ∧ n.left = false ∧ f n.id = false ∧ n.unreachable = true := by
  unfold liveEvents
  by_cases h1 : n.id = L <;> cases h2 : n.left <;> cases h3 : f n.id <;> cases h4 : n.unreachable <;>
    simp [h1, h2, h3, h4, eq_comm]

/-- `OnUnreachable(id)` is called exactly when `id` is remembered, remote, not left, suspected and
was not flagged -/
theorem mem_events_unreachable {s : CState} (h : WF s) (f : String → Bool) (now : Nat) (id : String) :
    Event.unreachable id ∈ (updateLiveness s f now).2 ↔
      ∃ n, s.nodes.find id = some n ∧ id ≠ s.localId ∧ n.left = false ∧ f id = true ∧
        n.unreachable = false := by
  rw [updateLiveness_snd, List.mem_flatMap]
  constructor
  · rintro ⟨q, hq, he⟩
    obtain ⟨e1, e2, e3, e4, e5⟩ := mem_liveEvents_unreachable.mp he
    have hk : q.1 = id := (h.ids q hq).symm.trans e1
    have hf := h.find_of_mem hq
    rw [hk] at hf
    rw [e1] at e2 e4
    exact ⟨q.2, hf, e2, e3, e4, e5⟩
  · rintro ⟨n, hf, e2, e3, e4, e5⟩
    have hid := h.find_id hf
    exact ⟨(id, n), AMap.mem_of_find hf,
      mem_liveEvents_unreachable.mpr ⟨hid, by rw [hid]; exact e2, e3, by rw [hid]; exact e4, e5⟩⟩

/-- `OnReachable(id)` is called exactly when `id` is remembered, remote, not left, not suspected
and was flagged -/
theorem mem_events_reachable {s : CState} (h : WF s) (f : String → Bool) (now : Nat) (id : String) :
    Event.reachable id ∈ (updateLiveness s f now).2 ↔
      ∃ n, s.nodes.find id = some n ∧ id ≠ s.localId ∧ n.left = false ∧ f id = false ∧
        n.unreachable = true := by
  rw [updateLiveness_snd, List.mem_flatMap]
  constructor
  · rintro ⟨q, hq, he⟩
    obtain ⟨e1, e2, e3, e4, e5⟩ := mem_liveEvents_reachable.mp he
    have hk : q.1 = id := (h.ids q hq).symm.trans e1
    have hf := h.find_of_mem hq
    rw [hk] at hf
    rw [e1] at e2 e4
    exact ⟨q.2, hf, e2, e3, e4, e5⟩
  · rintro ⟨n, hf, e2, e3, e4, e5⟩
    have hid := h.find_id hf
    exact ⟨(id, n), AMap.mem_of_find hf,
      mem_liveEvents_reachable.mpr ⟨hid, by rw [hid]; exact e2, e3, by rw [hid]; exact e4, e5⟩⟩

/-- every notification of a tick is `reachable`/`unreachable` -/
theorem events_liveness_only (s : CState) (f : String → Bool) (now : Nat) :
    ∀ e ∈ (updateLiveness s f now).2, ∃ q, e = .unreachable q ∨ e = .reachable q := by
  intro e he
  rw [updateLiveness_snd, List.mem_flatMap] at he
  obtain ⟨q, _, he⟩ := he
  unfold liveEvents at he
  (repeat' split at he) <;> simp at he
  · exact ⟨_, Or.inl he⟩
  · exact ⟨_, Or.inr he⟩


/-! ## what a tick does to one node, given its verdict -/

theorem mem_vals_of_find {κ ν : Type} [DecidableEq κ] {m : AMap κ ν} {k : κ} {v : ν}
    (h : m.find k = some v) : v ∈ m.vals :=
  List.mem_map.mpr ⟨(k, v), AMap.mem_of_find h, rfl⟩

/-- in a well-formed state a node is determined by its id -/
theorem eq_of_id {s : CState} (h : WF s) {m n : NodeSt} {p : String} (hm : m ∈ s.nodes.vals)
    (hid : m.id = p) (hf : s.nodes.find p = some n) : m = n := by
  obtain ⟨q, hq, rfl⟩ := List.mem_map.mp hm
  have h1 := h.find_of_mem hq
  rw [← h.ids q hq, hid, hf] at h1
  exact (Option.some.inj h1).symm

theorem liveNode_congr {L : String} {f f' : String → Bool} (now : Nat) {n : NodeSt}
    (h : f n.id = f' n.id) : liveNode L f now n = liveNode L f' now n := by
  unfold liveNode; rw [h]

/-- **per-node isolation of a tick**: the flags of `q` after the tick depend on the verdict for
`q` only -/
theorem tick_isolated {s : CState} (h : WF s) (f f' : String → Bool) (now : Nat) (q : String)
    (hq : f q = f' q) :
    (updateLiveness s f now).1.nodes.find q = (updateLiveness s f' now).1.nodes.find q := by
  rw [find_updateLiveness h, find_updateLiveness h]
  cases hf : s.nodes.find q with
  | none => rfl
  | some n =>
    simp only [Option.map_some]
    have hq' : f n.id = f' n.id := by rw [h.find_id hf]; exact hq
    rw [liveNode_congr now hq']

/-- A tick whose verdict for the remembered, remote, not-left node `p` is **suspected**. -/
theorem tick_flags {s : CState} (h : WF s) (f : String → Bool) (now : Nat) {p : String} {n : NodeSt}
    (hf : s.nodes.find p = some n) (hid : p ≠ s.localId) (hl : n.left = false) (hs : f p = true) :
    ∃ n', (updateLiveness s f now).1.nodes.find p = some n' ∧ n'.id = p ∧ n'.left = false ∧
      n'.entries = n.entries ∧ n'.unreachable = true ∧
      (n.unreachable = false → n'.expiry = some (now + nodeExpiry)) ∧
      (n.unreachable = true → n' = n) ∧
      (Event.unreachable p ∈ (updateLiveness s f now).2 ↔ n.unreachable = false) ∧
      Event.reachable p ∉ (updateLiveness s f now).2 ∧
      (∀ m ∈ liveNodes (updateLiveness s f now).1, m.id ≠ p) ∧
      n' ∈ unreachableNodes (updateLiveness s f now).1 := by
  have hnid : n.id = p := h.find_id hf
  have hne : n.id ≠ s.localId := by rw [hnid]; exact hid
  have hfind : (updateLiveness s f now).1.nodes.find p = some (liveNode s.localId f now n) := by
    rw [find_updateLiveness h, hf]; rfl
  have hwf' := wf_updateLiveness h f now
  have hlid := (updateLiveness_basic h f now).1
  have hu : (liveNode s.localId f now n).unreachable = true := by
    rw [liveNode_unreachable f now hne hl, hnid]; exact hs
  refine ⟨_, hfind, (liveNode_id _ _ _ _).trans hnid, (liveNode_left _ _ _ _).trans hl,
    liveNode_entries _ _ _ _, hu, ?_, ?_, ?_, ?_, ?_, ?_⟩
  · intro hu0
    rw [liveNode_expiry f now hne hl, hnid]; simp [hs, hu0]
  · intro hu1
    unfold liveNode
    have : (decide (n.id = s.localId) || n.left) = false := by simp [hne, hl]
    simp only [this, Bool.false_eq_true, if_false]
    rw [hnid]; simp [hs, hu1]
  · rw [mem_events_unreachable h]
    constructor
    · rintro ⟨m, hm, _, _, _, hm5⟩
      rw [hf] at hm; cases hm; exact hm5
    · intro hu0; exact ⟨n, hf, hid, hl, hs, hu0⟩
  · rw [mem_events_reachable h]
    rintro ⟨m, _, _, _, hm4, _⟩
    rw [hs] at hm4; cases hm4
  · intro m hm hmid
    have hm' := mem_liveNodes.mp hm
    have := eq_of_id hwf' hm'.1 hmid hfind
    rw [this, hu] at hm'
    exact absurd hm'.2.2.1 (by simp)
  · refine mem_unreachableNodes.mpr ⟨mem_vals_of_find hfind, ?_, hu⟩
    rw [liveNode_id, hnid, hlid]; exact hid

/-- A tick whose verdict for the remembered, remote, not-left node `p` is **not suspected**. -/
theorem tick_clears {s : CState} (h : WF s) (f : String → Bool) (now : Nat) {p : String} {n : NodeSt}
    (hf : s.nodes.find p = some n) (hid : p ≠ s.localId) (hl : n.left = false) (hs : f p = false) :
    ∃ n', (updateLiveness s f now).1.nodes.find p = some n' ∧ n'.id = p ∧ n'.left = false ∧
      n'.entries = n.entries ∧ n'.unreachable = false ∧
      (n.unreachable = true → n'.expiry = none) ∧
      (n.unreachable = false → n' = n) ∧
      (Event.reachable p ∈ (updateLiveness s f now).2 ↔ n.unreachable = true) ∧
      Event.unreachable p ∉ (updateLiveness s f now).2 ∧
      n' ∈ liveNodes (updateLiveness s f now).1 ∧
      (∀ m ∈ unreachableNodes (updateLiveness s f now).1, m.id ≠ p) := by
  have hnid : n.id = p := h.find_id hf
  have hne : n.id ≠ s.localId := by rw [hnid]; exact hid
  have hfind : (updateLiveness s f now).1.nodes.find p = some (liveNode s.localId f now n) := by
    rw [find_updateLiveness h, hf]; rfl
  have hwf' := wf_updateLiveness h f now
  have hlid := (updateLiveness_basic h f now).1
  have hu : (liveNode s.localId f now n).unreachable = false := by
    rw [liveNode_unreachable f now hne hl, hnid]; exact hs
  refine ⟨_, hfind, (liveNode_id _ _ _ _).trans hnid, (liveNode_left _ _ _ _).trans hl,
    liveNode_entries _ _ _ _, hu, ?_, ?_, ?_, ?_, ?_, ?_⟩
  · intro hu1
    rw [liveNode_expiry f now hne hl, hnid]; simp [hs, hu1]
  · intro hu0
    unfold liveNode
    have : (decide (n.id = s.localId) || n.left) = false := by simp [hne, hl]
    simp only [this, Bool.false_eq_true, if_false]
    rw [hnid]; simp [hs, hu0]
  · rw [mem_events_reachable h]
    constructor
    · rintro ⟨m, hm, _, _, _, hm5⟩
      rw [hf] at hm; cases hm; exact hm5
    · intro hu1; exact ⟨n, hf, hid, hl, hs, hu1⟩
  · rw [mem_events_unreachable h]
    rintro ⟨m, _, _, _, hm4, _⟩
    rw [hs] at hm4; cases hm4
  · refine mem_liveNodes.mpr ⟨mem_vals_of_find hfind, ?_, hu, (liveNode_left _ _ _ _).trans hl⟩
    rw [liveNode_id, hnid, hlid]; exact hid
  · intro m hm hmid
    have hm' := mem_unreachableNodes.mp hm
    have := eq_of_id hwf' hm'.1 hmid hfind
    rw [this, hu] at hm'
    exact absurd hm'.2.2 (by simp)

/-- a node flagged unreachable is a possible target of every later gossip round (second draw) -/
theorem probed_of_unreachable (s : CState) (n : NodeSt) (h : n ∈ unreachableNodes s) :
    ∃ j, j < (unreachableNodes s).length ∧
      ∀ r₁ r₂, r₂ % (unreachableNodes s).length = j → n ∈ roundTargets s r₁ r₂ := by
  obtain ⟨j, hj, hp⟩ := pickNode_onto h
  refine ⟨j, hj, fun r₁ r₂ hr => mem_roundTargets.mpr (Or.inr ?_)⟩
  rw [← pickNode_mod, hr]; exact hp

/-! ## a flagged peer that stays suspected keeps its expiry -/

/-- later ticks (any detectors, any times) -/
def laterTicks (θ : Nat) (s : CState) (later : List (Detector × Nat)) : CState :=
  later.foldl (fun st x => (livenessTick x.1 θ x.2 st).1) s

theorem laterTicks_keep {θ : Nat} {p : String} (later : List (Detector × Nat))
    (hlater : ∀ x ∈ later, suspectedBy x.1 θ x.2 p = true) :
    ∀ {s : CState} {n : NodeSt}, WF s → s.nodes.find p = some n → p ≠ s.localId → n.left = false →
      n.unreachable = true →
      WF (laterTicks θ s later) ∧ (laterTicks θ s later).localId = s.localId ∧
        (laterTicks θ s later).nodes.find p = some n := by
  induction later with
  | nil => intro s n h hf _ _ _; exact ⟨h, rfl, hf⟩
  | cons x later ih =>
    intro s n h hf hid hl hu
    have hx := hlater x List.mem_cons_self
    obtain ⟨n', hf', _, _, _, _, _, hsame, _⟩ :=
      tick_flags h (suspectedBy x.1 θ x.2) x.2 hf hid hl hx
    have hn' : n' = n := hsame hu
    subst hn'
    have hwf' := wf_updateLiveness h (suspectedBy x.1 θ x.2) x.2
    have hlid := (updateLiveness_basic h (suspectedBy x.1 θ x.2) x.2).1
    obtain ⟨a, b, c⟩ := ih (fun y hy => hlater y (List.mem_cons_of_mem _ hy)) hwf' hf'
      (by rw [hlid]; exact hid) hl hu
    exact ⟨a, b.trans hlid, c⟩

/-! ## routing: the syncer's table under the notifications of a tick -/

open Cluster in
/-- the routing table is a Go map of rows filed under their own id -/
def TableWF (t : Cluster.State) : Prop := t.nodes.NoDupKeys ∧ ∀ q ∈ t.nodes, q.2.id = q.1

/-- `reachable`/`unreachable` notifications -/
def IsLive (e : Event) : Prop := ∃ q, e = .unreachable q ∨ e = .reachable q

open Cluster in
/-- what a liveness notification does to the status of `p`'s row -/
def stepStatus (p : String) (st : Status) (e : Event) : Status :=
  if e = .unreachable p then .unreachable else if e = .reachable p then .active else st

open Cluster in
def lastStatus (p : String) (st : Status) (evs : List Event) : Status := evs.foldl (stepStatus p) st

open Cluster in
theorem lastStatus_none (p : String) (evs : List Event) (st : Status)
    (h1 : Event.unreachable p ∉ evs) (h2 : Event.reachable p ∉ evs) : lastStatus p st evs = st := by
  induction evs generalizing st with
  | nil => rfl
  | cons e es ih =>
    simp only [List.mem_cons, not_or] at h1 h2
    simp only [lastStatus, List.foldl_cons, stepStatus, Ne.symm h1.1, Ne.symm h2.1, if_false]
    exact ih st h1.2 h2.2

open Cluster in
theorem lastStatus_unreachable (p : String) (evs : List Event) (st : Status)
    (h1 : Event.unreachable p ∈ evs) (h2 : Event.reachable p ∉ evs) :
    lastStatus p st evs = .unreachable := by
  induction evs generalizing st with
  | nil => cases h1
  | cons e es ih =>
    simp only [List.mem_cons, not_or] at h2
    by_cases he : e = .unreachable p
    · by_cases hm : Event.unreachable p ∈ es
      · exact ih _ hm h2.2
      · simp only [lastStatus, List.foldl_cons, stepStatus, he, if_true]
        exact lastStatus_none p es _ hm h2.2
    · rcases List.mem_cons.mp h1 with h | h
      · exact absurd h.symm he
      · exact ih _ h h2.2

open Cluster in
theorem lastStatus_reachable (p : String) (evs : List Event) (st : Status)
    (h1 : Event.reachable p ∈ evs) (h2 : Event.unreachable p ∉ evs) :
    lastStatus p st evs = .active := by
  induction evs generalizing st with
  | nil => cases h1
  | cons e es ih =>
    simp only [List.mem_cons, not_or] at h2
    by_cases he : e = .reachable p
    · by_cases hm : Event.reachable p ∈ es
      · exact ih _ hm h2.2
      · have hne : e ≠ .unreachable p := by rw [he]; simp
        simp only [lastStatus, List.foldl_cons, stepStatus, hne, he, if_true, if_false]
        exact lastStatus_none p es _ h2.2 hm
    · rcases List.mem_cons.mp h1 with h | h
      · exact absurd h.symm he
      · exact ih _ h h2.2

open Cluster SyncerSpec in
theorem tableWF_status (s : Sync) (a : String) (st : Status) (h : TableWF s.table) :
    TableWF (s.tableElsePending a (·.updateRemoteStatus a st)
      (fun p n => p.insert a { n with status := st })).table := by
  unfold Sync.tableElsePending State.updateRemoteStatus
  by_cases ha : a = s.table.localId
  · simp only [ha, if_true]; exact h
  · simp only [ha, if_false]
    rw [updateRemote_eq _ _ _ ha]
    cases ht : s.table.nodes.find a with
    | none =>
      simp only []
      cases s.pending.find a <;> exact h
    | some r =>
      simp only []
      refine ⟨h.1.insert _ _, fun q hq => ?_⟩
      rcases mem_insert hq with rfl | hq
      · exact h.2 (a, r) (AMap.mem_of_find ht)
      · exact h.2 q hq

open Cluster in
theorem tableWF_updateRemote (t : Cluster.State) (a : String) (f : Node → Node)
    (hf : ∀ n, (f n).id = n.id) (h : TableWF t) : TableWF (t.updateRemote a f).1 := by
  unfold State.updateRemote
  split
  · exact h
  · split
    · exact h
    · next r ht =>
      refine ⟨h.1.insert _ _, fun q hq => ?_⟩
      rcases mem_insert hq with rfl | hq
      · exact (hf r).trans (h.2 (a, r) (AMap.mem_of_find ht))
      · exact h.2 q hq

open Cluster in
theorem tableWF_removeNode (t : Cluster.State) (a : String) (h : TableWF t) : TableWF (t.removeNode a).1 := by
  unfold State.removeNode
  split
  · exact h
  · split
    · exact h
    · refine ⟨h.1.erase _, fun q hq => h.2 q ?_⟩
      simp only [AMap.erase, List.mem_filter] at hq
      exact hq.1

open Cluster in
theorem tableWF_addNode (t : Cluster.State) (n : Node) (h : TableWF t) : TableWF (t.addNode n) := by
  unfold State.addNode
  split
  · exact h
  · refine ⟨h.1.insert _ _, fun q hq => ?_⟩
    rcases mem_insert hq with rfl | hq
    · rfl
    · exact h.2 q hq

open Cluster in
theorem tableWF_tableElsePending (s : Sync) (a : String) (tbl : Cluster.State → Cluster.State × Bool)
    (pend : AMap String Node → Node → AMap String Node) (h : TableWF s.table)
    (ht : TableWF (tbl s.table).1) : TableWF (s.tableElsePending a tbl pend).table := by
  unfold Sync.tableElsePending
  split
  · exact h
  · split
    · next t heq => rw [heq] at ht; exact ht
    · split <;> exact h

open Cluster in
theorem tableWF_upsertPending (s : Sync) (a k v : String) (h : TableWF s.table) :
    TableWF (s.upsertPending a k v).table := by
  unfold Sync.upsertPending
  split
  · exact h
  · split
    · exact h
    · split
      · exact tableWF_addNode _ _ h
      · exact h

open Cluster in
/-- the routing table stays a map of rows filed under their own id under every watcher callback -/
theorem tableWF_syncStep (s : Sync) (e : Event) (h : TableWF s.table) : TableWF (syncStep s e).table := by
  cases e with
  | join id =>
    simp only [syncStep, Sync.onJoin]
    (repeat' split) <;> exact h
  | leave id => exact tableWF_tableElsePending _ _ _ _ h (tableWF_updateRemote _ _ _ (fun _ => rfl) h)
  | reachable id => exact tableWF_tableElsePending _ _ _ _ h (tableWF_updateRemote _ _ _ (fun _ => rfl) h)
  | unreachable id => exact tableWF_tableElsePending _ _ _ _ h (tableWF_updateRemote _ _ _ (fun _ => rfl) h)
  | expired id => exact tableWF_tableElsePending _ _ _ _ h (tableWF_removeNode _ _ h)
  | upsert id k v =>
    simp only [syncStep, Sync.onUpsertKey]
    by_cases h1 : id = s.table.localId
    · simp only [h1, if_true]; exact h
    · simp only [h1, if_false]
      by_cases h2 : (k = proxyAddrKey ∨ k = adminAddrKey) ∧ (s.table.nodes.find id).isSome
      · simp only [h2, and_self, if_true]; exact h
      · simp only [h2, if_false]
        cases hc : cutPrefix endpointPrefix k with
        | none => simp only []; exact tableWF_upsertPending _ _ _ _ h
        | some eid =>
          simp only []
          cases ha : atoi v with
          | none => simp only []; exact h
          | some l =>
            simp only []
            have := tableWF_updateRemote s.table id (fun n => { n with endpoints := n.endpoints.insert eid l })
              (fun _ => rfl) h
            cases hu : s.table.updateRemoteEndpoint id eid l with
            | mk t b =>
              unfold State.updateRemoteEndpoint at hu
              rw [hu] at this
              cases b
              · simp only []; exact tableWF_upsertPending _ _ _ _ h
              · simp only []; exact this
  | delete id k =>
    simp only [syncStep, Sync.onDeleteKey]
    by_cases h1 : id = s.table.localId
    · simp only [h1, if_true]; exact h
    · simp only [h1, if_false]
      cases hc : cutPrefix endpointPrefix k with
      | none => simp only []; exact h
      | some eid =>
        simp only []
        have := tableWF_updateRemote s.table id (fun n => { n with endpoints := n.endpoints.erase eid })
          (fun _ => rfl) h
        cases hu : s.table.removeRemoteEndpoint id eid with
        | mk t b =>
          unfold State.removeRemoteEndpoint at hu
          rw [hu] at this
          cases b
          · simp only []
            cases s.pending.find id <;> exact h
          · simp only []; exact this

open Cluster in
theorem tableWF_new (l : Node) : TableWF (Sync.new l).table := by
  refine ⟨by simp [Sync.new, State.new, AMap.NoDupKeys, AMap.keys], fun q hq => ?_⟩
  simp [Sync.new, State.new] at hq
  subst hq; rfl

open Cluster in
/-- … hence of the table of a fresh syncer after any notification history whatsoever: the
hypothesis `TableWF` of the routing theorems is always met -/
theorem tableWF_run (evs : List Event) : ∀ s : Sync, TableWF s.table → TableWF (s.run evs).table := by
  induction evs with
  | nil => intro s h; exact h
  | cons e es ih => intro s h; exact ih _ (tableWF_syncStep s e h)

open Cluster SyncerSpec in
/-- one liveness notification: `p`'s row changes in its status only, as `stepStatus` says
(`C04_status_tracks_flags`, plus: notifications about other nodes leave the row alone) -/
theorem syncStep_live_row (sy : Sync) (p : String) (row : Node) (e : Event) (he : IsLive e)
    (hwf : TableWF sy.table) (hrow : sy.table.nodes.find p = some row) (hp : p ≠ sy.table.localId) :
    TableWF (syncStep sy e).table ∧ (syncStep sy e).table.localId = sy.table.localId ∧
      (syncStep sy e).table.nodes.find p = some { row with status := stepStatus p row.status e } := by
  obtain ⟨q, rfl | rfl⟩ := he
  · refine ⟨tableWF_status sy q .unreachable hwf, ?_, ?_⟩
    · by_cases hq : q = sy.table.localId
      · rw [syncStep_local sy _ (by simpa [evNode] using hq)]
      · exact (upd_unreachable sy q hq).lid
    · by_cases hq : q = sy.table.localId
      · rw [syncStep_local sy _ (by simpa [evNode] using hq)]
        have : p ≠ q := by rw [hq]; exact hp
        simp [stepStatus, Ne.symm this, hrow]
      · have := (upd_unreachable sy q hq).tbl p
        simp only [syncStep]
        rw [this]
        by_cases hqp : q = p
        · subst hqp; simp [stepStatus, nsyncStep, tepN, atNode, hrow]
        · simp [stepStatus, hqp, hrow]
  · refine ⟨tableWF_status sy q .active hwf, ?_, ?_⟩
    · by_cases hq : q = sy.table.localId
      · rw [syncStep_local sy _ (by simpa [evNode] using hq)]
      · exact (upd_reachable sy q hq).lid
    · by_cases hq : q = sy.table.localId
      · rw [syncStep_local sy _ (by simpa [evNode] using hq)]
        have : p ≠ q := by rw [hq]; exact hp
        simp [stepStatus, Ne.symm this, hrow]
      · have := (upd_reachable sy q hq).tbl p
        simp only [syncStep]
        rw [this]
        by_cases hqp : q = p
        · subst hqp; simp [stepStatus, nsyncStep, tepN, atNode, hrow]
        · simp [stepStatus, hqp, hrow]

open Cluster SyncerSpec in
/-- a whole batch of liveness notifications -/
theorem run_live_row (p : String) (evs : List Event) :
    ∀ (sy : Sync) (row : Node), (∀ e ∈ evs, IsLive e) → TableWF sy.table →
      sy.table.nodes.find p = some row → p ≠ sy.table.localId →
      TableWF (sy.run evs).table ∧ (sy.run evs).table.localId = sy.table.localId ∧
        (sy.run evs).table.nodes.find p = some { row with status := lastStatus p row.status evs } := by
  induction evs with
  | nil => intro sy row _ hwf hrow _; exact ⟨hwf, rfl, by simpa [Sync.run, lastStatus] using hrow⟩
  | cons e es ih =>
    intro sy row hl hwf hrow hp
    obtain ⟨h1, h2, h3⟩ := syncStep_live_row sy p row e (hl e List.mem_cons_self) hwf hrow hp
    obtain ⟨g1, g2, g3⟩ := ih (syncStep sy e) _ (fun x hx => hl x (List.mem_cons_of_mem _ hx)) h1 h3
      (by rw [h2]; exact hp)
    exact ⟨g1, g2.trans h2, g3⟩

open Cluster in
/-- a row that is not `active` is never a lookup candidate (`C04_lookup_sound`, read for one id) -/
theorem not_candidate {t : Cluster.State} (h : TableWF t) {p : String} {row : Node}
    (hrow : t.nodes.find p = some row) (hst : row.status ≠ .active) (e : String) :
    ∀ m ∈ t.lookupCandidates e, m.id ≠ p := by
  intro m hm hid
  simp only [State.lookupCandidates, List.mem_filter, Bool.and_eq_true, Bool.not_eq_true',
    decide_eq_false_iff_not, decide_eq_true_eq] at hm
  obtain ⟨hv, ⟨_, hact⟩, _⟩ := hm
  obtain ⟨q, hq, rfl⟩ := List.mem_map.mp hv
  have h1 := find_of_mem_nodup h.1 hq
  rw [← h.2 q hq, hid, hrow] at h1
  cases h1
  exact hst hact

open Cluster in
/-- an `active` remote row that lists the endpoint with a positive count is a lookup candidate
(`C04_lookup_complete`, read for one id) -/
theorem candidate {t : Cluster.State} {p : String} {row : Node} (hrow : t.nodes.find p = some row)
    (hid : row.id ≠ t.localId) (hst : row.status = .active) {e : String} {c : Int}
    (hc : row.endpoints.find e = some c) (hpos : c > 0) : row ∈ t.lookupCandidates e := by
  simp only [State.lookupCandidates, List.mem_filter, Bool.and_eq_true, Bool.not_eq_true',
    decide_eq_false_iff_not, decide_eq_true_eq]
  exact ⟨mem_vals_of_find hrow, ⟨hid, hst⟩, by simp [Node.serves, hc, hpos]⟩


/-! ## the detector side: verdicts from the window, reports, isolation -/

/-- the exact decision for a node whose window is the one of the arrivals `ts`: suspected iff
`θ · sum < (now − last) · size` -/
theorem suspectedBy_iff {d : Detector} {p : String} {b : Int} {N : Nat} {ts : List Nat} (hN : 0 < N)
    (hb : 0 < b) (hinc : ts.Pairwise (· < ·)) (hne : ts ≠ [])
    (hwin : d.windows.find p = some (windowOf b N ts)) (θ now : Nat) :
    suspectedBy d θ now p = true ↔
      (θ : Int) * (lastN N (intervalsOf b ts)).sum <
        ((now : Int) - (ts.getLast hne : Nat)) * ((min ts.length N : Nat) : Int) := by
  rw [suspectedBy_of_window hwin, (wrep_windowOf b hN ts).phi_eq hne,
    if_pos (window_sum_pos hb hN hne hinc)]
  simp [verdict, Phi.gt]

/-- completeness, as a verdict: after the silence `T` of `C12_completeness` the node is suspected -/
theorem suspected_of_silent {d : Detector} {p : String} {b : Int} {N : Nat} {ts : List Nat}
    (hN : 0 < N) (hb : 0 < b) (hinc : ts.Pairwise (· < ·)) (hne : ts ≠ [])
    (hwin : d.windows.find p = some (windowOf b N ts)) (θ T : Nat)
    (hT : (T : Int) = (θ : Int) * (lastN N (intervalsOf b ts)).sum / ((min ts.length N : Nat) : Int) + 1)
    (now : Nat) (hnow : ts.getLast hne + T ≤ now) : suspectedBy d θ now p = true := by
  obtain ⟨T', hT', h⟩ := completeness_core b N ts hN hb hinc hne θ
  have hTT : T = T' := by
    have : (T : Int) = (T' : Int) := hT.trans hT'.symm
    exact_mod_cast this
  subst hTT
  obtain ⟨φ, hphi, hgt, _⟩ := h now hnow
  rw [suspectedBy_of_window hwin, hphi]
  simp [verdict, hgt]

/-- accuracy, as a verdict: while the silence is at most `θ` times a lower bound of the window's
samples the node is not suspected -/
theorem not_suspected_of_steady {d : Detector} {p : String} {b : Int} {N : Nat} {ts : List Nat}
    (hN : 0 < N) (hne : ts ≠ []) (hwin : d.windows.find p = some (windowOf b N ts))
    (lo : Int) (θ : Nat) (hlo : 0 < lo) (hsamples : ∀ x ∈ lastN N (intervalsOf b ts), lo ≤ x)
    (now : Nat) (hnow : (now : Int) ≤ (ts.getLast hne : Nat) + (θ : Int) * lo) :
    suspectedBy d θ now p = false := by
  obtain ⟨φ, hphi, _, hngt⟩ :=
    accuracy_core b N ts hN hne lo ((θ : Int) * lo) θ hlo hsamples (le_refl _) now hnow
  rw [suspectedBy_of_window hwin, hphi]
  simp [verdict, hngt]

/-- `Report(p)` at `t` (listener.go, on every received delta): `p`'s window becomes the one of the
arrivals `ts ++ [t]`; nobody else's window and neither parameter changes -/
theorem report_window {d : Detector} {p : String} {b : Int} {N : Nat} {ts : List Nat}
    (hwin : d.windows.find p = some (windowOf b N ts)) (t : Nat) :
    (d.reportWithTimestamp p t).1.windows.find p = some (windowOf b N (ts ++ [t])) ∧
    (∀ q, q ≠ p → (d.reportWithTimestamp p t).1.windows.find q = d.windows.find q) ∧
    (d.reportWithTimestamp p t).1.bootstrapInterval = d.bootstrapInterval ∧
    (d.reportWithTimestamp p t).1.sampleSize = d.sampleSize := by
  refine ⟨?_, fun q hq => ?_, rfl, rfl⟩
  · simp only [Detector.reportWithTimestamp, AMap.find_insert_self, hwin, Option.getD_some]
    rw [windowOf_append]; rfl
  · simp only [Detector.reportWithTimestamp]
    exact AMap.find_insert_ne _ _ hq

/-- the node a detector operation names -/
def opId : FD.Op → String
  | .report i _ => i
  | .query i _ => i
  | .remove i => i

theorem step_find_other (d : Detector) (op : FD.Op) (q : String) (h : q ≠ opId op) :
    (d.step op).windows.find q = d.windows.find q := by
  cases op with
  | report i t => exact AMap.find_insert_ne _ _ h
  | remove i => exact AMap.find_erase_ne _ h
  | query i t =>
    simp only [Detector.step, Detector.suspicionLevelAt]
    split
    · rfl
    · split
      · exact AMap.find_insert_ne _ _ h
      · rfl

/-- **per-node isolation of the detector** (`C12_detector`, for an arbitrary starting detector):
reports, first queries and removals that name other nodes never touch `q`'s window -/
theorem run_find_other (ops : List FD.Op) (q : String) (h : ∀ op ∈ ops, q ≠ opId op) :
    ∀ d : Detector, (d.run ops).windows.find q = d.windows.find q ∧
      (d.run ops).bootstrapInterval = d.bootstrapInterval ∧ (d.run ops).sampleSize = d.sampleSize := by
  induction ops with
  | nil => intro d; exact ⟨rfl, rfl, rfl⟩
  | cons op ops ih =>
    intro d
    obtain ⟨h1, h2, h3⟩ := ih (fun o ho => h o (List.mem_cons_of_mem _ ho)) (d.step op)
    obtain ⟨p1, p2⟩ := step_params d op
    exact ⟨h1.trans (step_find_other d op q (h op List.mem_cons_self)), h2.trans p1, h3.trans p2⟩

/-! ## the literal loop: the detector threaded through the queries -/

/-- one iteration of the loop of `UpdateLiveness` with the detector as part of the state: the
query `SuspicionLevel(node.ID)` returns the level **and** the detector it leaves behind -/
def livenessStepD (L : String) (θ now : Nat) (acc : Detector × CState × List Event)
    (p : String × NodeSt) : Detector × CState × List Event :=
  let n := p.2
  if n.id = L || n.left then acc else
  let q := acc.1.suspicionLevelAt n.id now
  if verdict θ q.2 then
    if n.unreachable then (q.1, acc.2) else
      (q.1, setNode acc.2.1 { n with unreachable := true, expiry := some (now + nodeExpiry) },
        acc.2.2 ++ [.unreachable n.id])
  else if n.unreachable then
    (q.1, setNode acc.2.1 { n with unreachable := false, expiry := none }, acc.2.2 ++ [.reachable n.id])
  else (q.1, acc.2)

/-- `UpdateLiveness(θ)` at `now`, literally: detector, state and notifications afterwards -/
def livenessTickD (d : Detector) (θ now : Nat) (s : CState) : Detector × CState × List Event :=
  s.nodes.foldl (livenessStepD s.localId θ now) (d, s, [])

/-- the queries one tick makes, in map order: every remembered node that is neither local nor left -/
def tickOps (L : String) (now : Nat) (l : List (String × NodeSt)) : List FD.Op :=
  (l.filter (fun p => !(decide (p.2.id = L) || p.2.left))).map (fun p => FD.Op.query p.2.id now)

theorem tickOps_cons_skip {L : String} (now : Nat) {p : String × NodeSt} (l : List (String × NodeSt))
    (h : (decide (p.2.id = L) || p.2.left) = true) : tickOps L now (p :: l) = tickOps L now l := by
  unfold tickOps
  rw [List.filter_cons_of_neg (by rw [h]; simp)]

theorem tickOps_cons_query {L : String} (now : Nat) {p : String × NodeSt} (l : List (String × NodeSt))
    (h : ¬ (decide (p.2.id = L) || p.2.left) = true) :
    tickOps L now (p :: l) = FD.Op.query p.2.id now :: tickOps L now l := by
  unfold tickOps
  have h' : (decide (p.2.id = L) || p.2.left) = false := by simpa using h
  rw [List.filter_cons_of_pos (by rw [h']; rfl), List.map_cons]

theorem livenessStep_congr {L : String} {f f' : String → Bool} (now : Nat) (acc : CState × List Event)
    (p : String × NodeSt) (h : f p.2.id = f' p.2.id) :
    livenessStep L f now acc p = livenessStep L f' now acc p := by
  unfold livenessStep; dsimp only; rw [h]

theorem livenessStepD_eq (L : String) (θ now : Nat) (d : Detector) (acc : CState × List Event)
    (p : String × NodeSt) :
    livenessStepD L θ now (d, acc) p =
      (if (decide (p.2.id = L) || p.2.left) = true then d else (d.suspicionLevelAt p.2.id now).1,
       livenessStep L (suspectedBy d θ now) now acc p) := by
  unfold livenessStepD livenessStep suspectedBy
  dsimp only
  (repeat' split) <;> rfl

theorem tickFold_eq (L : String) (θ now : Nat) (d : Detector) (l : List (String × NodeSt)) :
    ∀ (d' : Detector) (acc : CState × List Event), AMap.NoDupKeys l → (∀ p ∈ l, p.2.id = p.1) →
      (∀ p ∈ l, d'.windows.find p.1 = d.windows.find p.1) →
      d'.bootstrapInterval = d.bootstrapInterval → d'.sampleSize = d.sampleSize →
      l.foldl (livenessStepD L θ now) (d', acc) =
        (d'.run (tickOps L now l), l.foldl (livenessStep L (suspectedBy d θ now) now) acc) := by
  induction l with
  | nil => intro d' acc _ _ _ _ _; rfl
  | cons p l ih =>
    intro d' acc hnd hids hw hb hs
    have hnd' := hnd
    simp only [AMap.NoDupKeys, AMap.keys, List.map_cons, List.nodup_cons] at hnd'
    have hpid : p.2.id = p.1 := hids p List.mem_cons_self
    have hstep : livenessStep L (suspectedBy d' θ now) now acc p =
        livenessStep L (suspectedBy d θ now) now acc p :=
      livenessStep_congr now acc p
        (suspectedBy_congr (by rw [hpid]; exact hw p List.mem_cons_self) hb hs θ now)
    simp only [List.foldl_cons]
    rw [livenessStepD_eq, hstep]
    by_cases hskip : (decide (p.2.id = L) || p.2.left) = true
    · simp only [hskip, if_true]
      rw [ih d' _ hnd'.2 (fun q hq => hids q (List.mem_cons_of_mem _ hq))
        (fun q hq => hw q (List.mem_cons_of_mem _ hq)) hb hs, tickOps_cons_skip now l hskip]
    · simp only [hskip, if_false, Bool.false_eq_true]
      have hpar := step_params d' (FD.Op.query p.2.id now)
      rw [ih (d'.suspicionLevelAt p.2.id now).1 _ hnd'.2
        (fun q hq => hids q (List.mem_cons_of_mem _ hq)) ?_ (hpar.1.trans hb) (hpar.2.trans hs)]
      · rw [tickOps_cons_query now l hskip]; rfl
      · intro q hq
        have hne : q.1 ≠ p.2.id := by
          rw [hpid]; intro e; apply hnd'.1; rw [← e]; exact mem_keys_of_mem hq
        have := step_find_other d' (FD.Op.query p.2.id now) q.1 hne
        simp only [Detector.step] at this
        rw [this]; exact hw q (List.mem_cons_of_mem _ hq)

/-- **The pure tick is the literal loop.**  For a well-formed state, threading the detector
through the queries gives the state and notifications of `livenessTick` (verdicts computed on the
detector as it was before the tick), and the detector afterwards is `d` after the tick's queries -
which (`step_find_other`) only differ from `d` by the bootstrap windows of the queried nodes it
did not know. -/
theorem livenessTickD_eq (d : Detector) (θ now : Nat) {s : CState} (h : WF s) :
    livenessTickD d θ now s = (d.run (tickOps s.localId now s.nodes), livenessTick d θ now s) :=
  tickFold_eq s.localId θ now d s.nodes d (s, []) h.nodup h.ids (fun _ _ => rfl) rfl rfl

/-- arrivals of `p` under a list of first queries, all at time `now` -/
theorem arrivals_tickOps (p : String) (L : String) (now : Nat) (l : List (String × NodeSt)) :
    ∀ ts : List Nat, (tickOps L now l).foldl (arrivalsStep p) ts =
      if ts = [] ∧ FD.Op.query p now ∈ tickOps L now l then [now] else ts := by
  induction l with
  | nil => intro ts; simp [tickOps]
  | cons q l ih =>
    intro ts
    by_cases hskip : (decide (q.2.id = L) || q.2.left) = true
    · rw [tickOps_cons_skip now l hskip]; exact ih ts
    · rw [tickOps_cons_query now l hskip, List.foldl_cons, ih]
      by_cases hq : q.2.id = p
      · by_cases hts : ts = []
        · simp [arrivalsStep, hq, hts]
        · simp [arrivalsStep, hq, hts]
      · have hne : FD.Op.query p now ≠ FD.Op.query q.2.id now := by
          intro e; injection e with e1; exact hq e1.symm
        simp [arrivalsStep, hq, hne]

/-- **The bootstrap window is stored** (`suspicionLevelLocked`, the `!ok` branch): after a tick at
`t0` the detector holds, for a remembered remote not-left node it had no window for, the window
whose only arrival is `t0` and whose only sample is the bootstrap interval. -/
theorem tickDetector_unknown {d : Detector} {s : CState} (h : WF s) {p : String} {n : NodeSt}
    (hf : s.nodes.find p = some n) (hid : p ≠ s.localId) (hl : n.left = false)
    (hnone : d.windows.find p = none) (hN : 0 < d.sampleSize) (t0 : Nat) :
    (d.run (tickOps s.localId t0 s.nodes)).windows.find p =
      some (windowOf d.bootstrapInterval d.sampleSize [t0]) := by
  rw [find_run hN p _ d [] rfl rfl (by simpa using hnone), arrivals_tickOps]
  have hmem : FD.Op.query p t0 ∈ tickOps s.localId t0 s.nodes := by
    simp only [tickOps, List.mem_map, List.mem_filter]
    refine ⟨(p, n), ⟨AMap.mem_of_find hf, ?_⟩, by simp [h.find_id hf]⟩
    simp [h.find_id hf, hid, hl]
  simp [hmem]

end Piko.LivenessFD
