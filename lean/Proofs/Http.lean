import PikoModel.Proxy.Http
/-!
# Lemmas about piko's HTTP transform (`PikoModel/Proxy/Http.lean`) used by `Props/C08`
-/
namespace Piko.Http

/-- the fields of a header list with (canonical) name `k`, in order -/
def fieldsOf (h : Headers) (k : String) : Headers := h.filter fun p => p.1 == k

theorem values_eq (h : Headers) (name : String) :
    h.values name = (fieldsOf h (canon name)).map (·.2) := rfl

theorem fieldsOf_append (a b : Headers) (k : String) :
    fieldsOf (a ++ b) k = fieldsOf a k ++ fieldsOf b k := by
  simp [fieldsOf]

theorem fieldsOf_del_ne (h : Headers) (name k : String) (hk : k ≠ canon name) :
    fieldsOf (h.del name) k = fieldsOf h k := by
  unfold fieldsOf Headers.del
  rw [List.filter_filter]
  apply List.filter_congr
  intro p _
  by_cases hp : p.1 = k
  · subst hp; simp [hk]
  · simp [hp]

theorem fieldsOf_del_eq (h : Headers) (name : String) :
    fieldsOf (h.del name) (canon name) = [] := by
  unfold fieldsOf Headers.del
  rw [List.filter_filter]
  apply List.filter_eq_nil_iff.mpr
  intro p _
  by_cases hp : p.1 = canon name <;> simp [hp]

theorem fieldsOf_map_const (vals : List String) (c k : String) (hk : k ≠ c) :
    fieldsOf (vals.map fun v => (c, v)) k = [] := by
  unfold fieldsOf
  apply List.filter_eq_nil_iff.mpr
  intro p hp
  obtain ⟨v, _, rfl⟩ := List.mem_map.mp hp
  simp [Ne.symm hk]

theorem canon_connection : canon "Connection" = "Connection" := by decide
theorem canon_forward : canon "x-piko-forward" = "X-Piko-Forward" := by decide

theorem fieldsOf_removeConnectionOptions (h : Headers) (k : String) (hk : k ≠ "Connection") :
    fieldsOf (removeConnectionOptions h) k = fieldsOf h k := by
  unfold removeConnectionOptions
  simp only
  rw [fieldsOf_append, fieldsOf_map_const _ _ _ hk, List.append_nil,
    fieldsOf_del_ne _ _ _ (by rw [canon_connection]; exact hk)]

theorem fieldsOf_set_ne (h : Headers) (name value k : String) (hk : k ≠ canon name) :
    fieldsOf (h.set name value) k = fieldsOf h k := by
  unfold Headers.set
  rw [fieldsOf_append, fieldsOf_del_ne _ _ _ hk]
  simp [fieldsOf, Ne.symm hk]

theorem fieldsOf_set_eq (h : Headers) (name value : String) :
    fieldsOf (h.set name value) (canon name) = [(canon name, value)] := by
  unfold Headers.set
  rw [fieldsOf_append, fieldsOf_del_eq]
  simp [fieldsOf]

/-- every field of piko's transform other than `Connection` and the marker is untouched -/
theorem pikoTransform_fields (ep : String) (r : Request) (k : String)
    (h1 : k ≠ "Connection") (h2 : k ≠ "X-Piko-Forward") :
    fieldsOf (pikoTransform ep r).headers k = fieldsOf r.headers k := by
  unfold pikoTransform
  simp only
  rw [fieldsOf_set_ne _ _ _ _ (by rw [canon_forward]; exact h2),
    fieldsOf_removeConnectionOptions _ _ h1]

theorem pikoTransform_marker (ep : String) (r : Request) :
    fieldsOf (pikoTransform ep r).headers "X-Piko-Forward" = [("X-Piko-Forward", "true")] := by
  unfold pikoTransform
  simp only
  have := fieldsOf_set_eq (removeConnectionOptions r.headers) "x-piko-forward" "true"
  rw [canon_forward] at this
  exact this

end Piko.Http
