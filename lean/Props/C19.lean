import Proofs.Rebalance
/-!
# C19 — Rebalancing sheds only when imbalanced and never faster than the shed rate

Model: `PikoModel/Upstream/Rebalance.lean` (`Server.Rebalance`, `shedSessions`, the
`Threshold != 0` guard of the loop in `server/server.go`) over `PikoModel/Cluster/State.lean`
(`AvgConns`).  `Threshold = thrNum/thrDen`, `ShedRate = rateNum/rateDen` are arbitrary
non-negative fractions (`Config.WF`: denominators non-zero), `MinConns`, the number of known
nodes, the number of local connections `l`, the number of open sessions `o` (in the server
`o = l`) and the average `avg` are arbitrary; `avg` ranges over `Option Int` (`none` = the
Go code would have divided by zero) so the theorems cover every routing table, including
tables with negative gossiped counts.  The second half ties `avg` to the routing table:
after any list of `cluster.State` API calls the local row is active (no division by zero)
and rows that are not active do not influence the average.

All comparisons are the cross-multiplied forms of the code's float comparisons
(`(l-avg)/avg < thrNum/thrDen ⇔ (l-avg)·thrDen < thrNum·avg` for `avg > 0`).
-/
namespace Piko
open Piko.Rebalance Piko.Cluster

/-- Connections are shed by a loop iteration only if rebalancing is enabled
(`Threshold ≠ 0`), at least one other node is known, the node holds at least
`max 1 MinConns` connections, the average exists and is not negative, and the local count
exceeds the average by at least `Threshold·avg` — `(l-avg) ≥ (thrNum/thrDen)·avg`. -/
theorem C19_only_when (c : Config) (hwf : c.WF) (nodes l o : Nat) (avg : Option Int)
    (h : 0 < closedOfTick (rebalanceTick c nodes l avg) o) :
    c.enabled = true ∧ 1 < nodes ∧ max 1 c.minConns ≤ l ∧
    ∃ a : Int, avg = some a ∧ 0 ≤ a ∧
      (c.thrNum : Int) * a ≤ ((l : Int) - a) * (c.thrDen : Int) := by
  obtain ⟨he, hpos⟩ := closedOfTick_pos c nodes l avg o h
  obtain ⟨n, hd, _⟩ := closed_pos_iff _ _ hpos
  obtain ⟨h1, h2, h3, a, ha, ha0, hb, _⟩ := rebalance_shed c hwf nodes l avg n hd
  refine ⟨he, h1, by omega, a, ha, ha0, ?_⟩
  by_cases hz : a = 0
  · subst hz
    have : (0 : Int) ≤ (l : Int) * (c.thrDen : Int) := Int.mul_nonneg (by omega) (by omega)
    simpa using this
  · have hp : 0 < a := by omega
    have := (belowThreshold_pos c l hp).not
    rw [hb] at this
    have h' := this.mp (by simp)
    omega

/-- The same for a direct call of `Rebalance()` (which has no `Threshold ≠ 0` test of its
own): everything but "enabled". -/
theorem C19_only_when_direct (c : Config) (hwf : c.WF) (nodes l o : Nat) (avg : Option Int)
    (h : 0 < (rebalance c nodes l avg).closed o) :
    1 < nodes ∧ max 1 c.minConns ≤ l ∧
    ∃ a : Int, avg = some a ∧ 0 ≤ a ∧
      (c.thrNum : Int) * a ≤ ((l : Int) - a) * (c.thrDen : Int) := by
  obtain ⟨n, hd, _⟩ := closed_pos_iff _ _ h
  obtain ⟨h1, h2, h3, a, ha, ha0, hb, _⟩ := rebalance_shed c hwf nodes l avg n hd
  refine ⟨h1, by omega, a, ha, ha0, ?_⟩
  by_cases hz : a = 0
  · subst hz
    have : (0 : Int) ≤ (l : Int) * (c.thrDen : Int) := Int.mul_nonneg (by omega) (by omega)
    simpa using this
  · have hp : 0 < a := by omega
    have := (belowThreshold_pos c l hp).not
    rw [hb] at this
    have h' := this.mp (by simp)
    omega

/-- `ceilRate c a` is `⌈ShedRate·a⌉`: the least integer `k` with `a·rateNum ≤ k·rateDen`. -/
theorem C19_ceil_spec (c : Config) (hwf : c.WF) (a : Int) :
    a * (c.rateNum : Int) ≤ ceilRate c a * (c.rateDen : Int) ∧
    ∀ k : Int, a * (c.rateNum : Int) ≤ k * (c.rateDen : Int) → ceilRate c a ≤ k :=
  ⟨(ceilRate_spec c hwf a).1, fun k hk => ceilRate_least c hwf a k hk⟩

/-- One call of `Rebalance()` (hence one loop iteration) closes at most
`max 1 ⌈ShedRate·avg⌉` sessions, never more than are open, and none when the average does
not exist. -/
theorem C19_cap (c : Config) (hwf : c.WF) (nodes l o : Nat) (avg : Option Int) :
    (rebalance c nodes l avg).closed o ≤ o ∧
    (∀ a : Int, avg = some a → (rebalance c nodes l avg).closed o ≤ max 1 (ceilRate c a).toNat) ∧
    (avg = none → (rebalance c nodes l avg).closed o = 0) ∧
    closedOfTick (rebalanceTick c nodes l avg) o ≤ (rebalance c nodes l avg).closed o := by
  refine ⟨?_, ?_, ?_, closedOfTick_le c nodes l avg o⟩
  · cases hd : rebalance c nodes l avg <;> simp [Decision.closed, shedSessions_le_open]
  · intro a ha
    cases hd : rebalance c nodes l avg with
    | shed n =>
      obtain ⟨_, _, _, a', ha', ha0, hb, hn⟩ := rebalance_shed c hwf nodes l avg n hd
      have : a' = a := by rw [ha] at ha'; injection ha' with e; exact e.symm
      subst this
      simp only [Decision.closed]
      refine Nat.le_trans (shedSessions_le n o) ?_
      have hle : n ≤ max 1 (ceilRate c a') := by
        rw [hn]
        by_cases hz : a' = 0
        · subst hz
          simp [shedding, overCap, ceilRate_zero]
        · exact shedding_le_ceil c hwf l (by omega) hb
      omega
    | _ => simp [Decision.closed]
  · intro hn
    subst hn
    cases hd : rebalance c nodes l none with
    | shed n =>
      obtain ⟨_, _, _, a', ha', _⟩ := rebalance_shed c hwf nodes l none n hd
      simp at ha'
    | _ => simp [Decision.closed]

/-- A node at or below the average sheds nothing (with rebalancing enabled — the loop
exists only then; see the last example for why the guard is needed). -/
theorem C19_at_or_below_avg (c : Config) (nodes l o : Nat) (a : Int) (h : (l : Int) ≤ a) :
    closedOfTick (rebalanceTick c nodes l (some a)) o = 0 := by
  unfold rebalanceTick closedOfTick
  by_cases he : c.enabled = true
  · simp only [he, if_true]
    unfold rebalance
    by_cases h1 : nodes ≤ 1
    · simp [h1, Decision.closed]
    · by_cases h2 : l = 0 ∨ l < c.minConns
      · simp [h1, h2, Decision.closed]
      · have hl : 0 < l := by omega
        have hp : 0 < a := by omega
        have htn : 0 < c.thrNum := by
          simp [Config.enabled] at he; omega
        have hb : belowThreshold c l a = true := by
          rw [belowThreshold_pos c l hp]
          have h3 : ((l : Int) - a) * (c.thrDen : Int) ≤ 0 :=
            Int.mul_nonpos_of_nonpos_of_nonneg (by omega) (by omega)
          have h4 : 0 < (c.thrNum : Int) * a := Int.mul_pos (by omega) hp
          omega
        simp [h1, h2, hb, Decision.closed]
  · simp [he]

/-- After any list of `cluster.State` API calls on a fresh table the local row is present
and active, node ids are unique, so at least one node is active: `AvgConns` never divides
by zero and `Rebalance` never panics. -/
theorem C19_local_always_active (ln : Node) (ops : List COp) :
    (∃ n, (runCOps (State.new ln) ops).nodes.find (runCOps (State.new ln) ops).localId = some n ∧
          n.status = .active) ∧
    0 < (activeNodes (runCOps (State.new ln) ops)).length ∧
    (runCOps (State.new ln) ops).avgConns ≠ none ∧
    ∀ (c : Config) (o : Nat), serverRebalance c (runCOps (State.new ln) ops) o ≠ .panicDivZero := by
  have hinv := cinv_run _ (cinv_new ln) ops
  refine ⟨hinv.loc, activeNodes_pos hinv, avgConns_isSome hinv, ?_⟩
  intro c o
  have hs := avgConns_isSome hinv
  unfold serverRebalance rebalance
  cases havg : (runCOps (State.new ln) ops).avgConns with
  | none => exact absurd havg hs
  | some a =>
    by_cases h1 : nodesKnown (runCOps (State.new ln) ops) ≤ 1
    · simp [h1]
    · by_cases h2 : o = 0 ∨ o < c.minConns
      · simp [h1, h2]
      · by_cases h3 : belowThreshold c o a = true <;> simp [h1, h2, h3]

/-- The average is the truncated quotient of the connections of the **active** rows by
their number, and rows that are not active (unreachable, left, undecided) do not enter it:
on any reachable table, changing the endpoints or the (non-active) status of such a row,
removing it, or adding a new non-active row leaves `AvgConns` unchanged. -/
theorem C19_avg_active_only (ln : Node) (ops : List COp) (id : String)
    (hrow : ∀ n, (runCOps (State.new ln) ops).nodes.find id = some n → n.status ≠ .active) :
    (runCOps (State.new ln) ops).avgConns =
      some (Int.tdiv (((activeNodes (runCOps (State.new ln) ops)).map Node.conns).foldl (· + ·) 0)
        (activeNodes (runCOps (State.new ln) ops)).length) ∧
    (∀ e l, ((runCOps (State.new ln) ops).updateRemoteEndpoint id e l).1.avgConns =
      (runCOps (State.new ln) ops).avgConns) ∧
    (∀ e, ((runCOps (State.new ln) ops).removeRemoteEndpoint id e).1.avgConns =
      (runCOps (State.new ln) ops).avgConns) ∧
    (∀ st, st ≠ Status.active → ((runCOps (State.new ln) ops).updateRemoteStatus id st).1.avgConns =
      (runCOps (State.new ln) ops).avgConns) ∧
    ((runCOps (State.new ln) ops).removeNode id).1.avgConns = (runCOps (State.new ln) ops).avgConns ∧
    (∀ n' : Node, n'.id = id → n'.status ≠ .active →
      ((runCOps (State.new ln) ops).addNode n').avgConns = (runCOps (State.new ln) ops).avgConns) := by
  have hinv := cinv_run _ (cinv_new ln) ops
  generalize runCOps (State.new ln) ops = s at *
  refine ⟨?_, ?_, ?_, ?_, ?_, ?_⟩
  · rw [avgConns_eq]
    have := activeNodes_pos hinv
    have h0 : ¬ (activeNodes s).length = 0 := by omega
    simp [h0]
  · intro e l
    exact avg_updateRemote_inactive hinv id _ hrow (fun n hn => hn)
  · intro e
    exact avg_updateRemote_inactive hinv id _ hrow (fun n hn => hn)
  · intro st hst
    exact avg_updateRemote_inactive hinv id _ hrow (fun n _ => hst)
  · unfold State.removeNode
    by_cases hid : id = s.localId
    · simp [hid]
    · simp only [hid, if_false]
      cases hf : s.nodes.find id with
      | none => rfl
      | some n => exact avgConns_congr (activeNodes_erase_inactive hinv id hrow)
  · intro n' hid' hst'
    unfold State.addNode
    by_cases hid : n'.id = s.localId
    · simp [hid]
    · simp only [hid, if_false]
      subst hid'
      exact avgConns_congr (activeNodes_insert_inactive hinv n'.id n' hrow hst')

/-! ## non-vacuity -/

/-- 3 nodes known, 10 local connections, average 4, threshold 1/5, rate 1/4, min 2:
balance 1.5 ≥ 0.2, shedding 15 > 1 = 4·¼, so exactly `⌈1⌉ = 1` session is closed -/
example : closedOfTick (rebalanceTick ⟨1, 5, 1, 4, 2⟩ 3 10 (some 4)) 10 = 1 := by decide

/-- fractional cap: average 6, rate 1/4: `⌈1.5⌉ = 2` sessions -/
example : closedOfTick (rebalanceTick ⟨1, 5, 1, 4, 2⟩ 3 10 (some 6)) 10 = 2 := by decide

/-- not capped: l = 6, avg = 4, rate 1: shedding = 6·0.5 = 3 ≤ 4, three sessions -/
example : closedOfTick (rebalanceTick ⟨1, 5, 1, 1, 0⟩ 2 6 (some 4)) 6 = 3 := by decide

/-- exactly at the threshold (balance = 1/2 = threshold) sheds; one connection fewer does not -/
example : closedOfTick (rebalanceTick ⟨1, 2, 1, 4, 0⟩ 2 6 (some 4)) 6 = 1 ∧
          closedOfTick (rebalanceTick ⟨1, 2, 1, 4, 0⟩ 2 5 (some 4)) 5 = 0 := by decide

/-- exactly at `MinConns` sheds; one below does not -/
example : closedOfTick (rebalanceTick ⟨1, 2, 1, 4, 6⟩ 2 6 (some 2)) 6 = 1 ∧
          closedOfTick (rebalanceTick ⟨1, 2, 1, 4, 7⟩ 2 6 (some 2)) 6 = 0 := by decide

/-- integer average 0 (e.g. 3 active nodes, 2 connections in total) with local connections:
balance is `+Inf`, the cap is `⌈0⌉ = 0`, and `shedSessions(0)` still closes one session -/
example : rebalance ⟨1, 5, 1, 4, 0⟩ 3 2 (some 0) = .shed 0 ∧
          closedOfTick (rebalanceTick ⟨1, 5, 1, 4, 0⟩ 3 2 (some 0)) 2 = 1 := by decide

/-- a concrete table: local `n0` (2 connections), active `n1` (6), unreachable `n2` (100),
left `n3` (50): the average is (2+6)/2 = 4, not 158/4 -/
example :
    (runCOps (State.new { id := "n0" })
      [.addLocalEndpoint "e", .addLocalEndpoint "e",
       .addNode { id := "n1", status := .active, endpoints := [("e", 6)] },
       .addNode { id := "n2", status := .unreachable, endpoints := [("e", 100)] },
       .addNode { id := "n3", status := .left, endpoints := [("e", 50)] }]).avgConns = some 4 := by
  decide

/-- why the loop guard matters: `Rebalance()` called directly with `Threshold = 0` on a node
exactly at the average (l = avg = 5) closes one session (`0 < 0` is false, shedding = 0,
`shedSessions(0)` closes one) -/
example : (rebalance ⟨0, 1, 1, 4, 0⟩ 2 5 (some 5)).closed 5 = 1 ∧
          closedOfTick (rebalanceTick ⟨0, 1, 1, 4, 0⟩ 2 5 (some 5)) 5 = 0 := by decide

end Piko
