import Proofs.WS
/-!
# C07 — Tunnelled connections are faithful byte streams with close propagation  (**partial**)

Model: `PikoModel/WS/Conn.lean` (`pkg/websocket/conn.go` `Read`/`Write`/`Close`; the `io.Copy`
pairs of `server/proxy/tcpproxy.go`, `client/forwarder.go`, `agent/tcpproxy/server.go`,
`forward/forwarder.go`).  The theorems are about piko's adapter and relay logic for **every**
message list (empty messages included), every sequence of read-buffer sizes, every short-read
choice of the inner reader and every schedule of the two relay goroutines.

Partial: the WebSocket wire format (fragmentation, masking, control frames), gorilla's
buffering, yamux flow control, TCP and goroutine timing are not in the model; they are
exercised by the correspondence engine `ws` (real `pkg/websocket.Conn` over a real gorilla
connection; real server nodes, dialer, listener, forward and agent proxies in the tunnel tier).

Reported difference to the informal statement: `Conn.Read` with `len b = 0` returns `(0, nil)`
while data is pending (allowed by `io.Reader`; see the last examples), and gorilla panics on
the 1000th read after a failure ("every later read repeats it" holds for 999 reads).
-/
namespace Piko
open Piko.WS

/-- Exactly once, in order, unmodified: for every list of binary messages (empty ones
included), every sequence of `Read` calls with any buffer sizes and any inner-reader choices,
the bytes returned so far followed by the bytes still deliverable are the concatenation of
all messages. -/
theorem C07_read_stream (msgs : List Bytes) (rs : List (Nat × Choice)) :
    delivered (run (Conn.ofMsgs msgs) rs).1 ++ (run (Conn.ofMsgs msgs) rs).2.pending
      = msgs.flatten := by
  rw [run_stream, pending_ofMsgs]

/-- The same from any connection state whatsoever (text messages, truncated messages, close
frames and errors queued): a `Read` moves bytes from `pending` to the caller, nothing else. -/
theorem C07_read_stream_any (c : Conn) (rs : List (Nat × Choice)) :
    delivered (run c rs).1 ++ (run c rs).2.pending = c.pending :=
  run_stream c rs

/-- What has been returned is a prefix of the written stream that depends only on how many
bytes were returned, not on buffer sizes or short reads (this is what the correspondence
engine relies on for its `readn` op). -/
theorem C07_read_prefix (msgs : List Bytes) (rs : List (Nat × Choice)) :
    delivered (run (Conn.ofMsgs msgs) rs).1
      = msgs.flatten.take (delivered (run (Conn.ofMsgs msgs) rs).1).length := by
  have h := C07_read_stream msgs rs
  rw [← h, List.take_left']
  rfl

/-- Progress, any state: with a non-empty buffer `Read` never returns `(0, nil)` - an empty
message is skipped, not reported - and returned data is between 1 and `len b` bytes. -/
theorem C07_read_progress (c : Conn) (buf : Nat) (ch : Choice) (hb : 0 < buf) :
    (read c buf ch).1 ≠ .zero ∧
    ∀ bs, (read c buf ch).1 = .data bs → 1 ≤ bs.length ∧ bs.length ≤ buf := by
  have h := read_ok c buf ch
  constructor
  · intro hz; rw [hz] at h; simp only [Res.ok] at h; omega
  · intro bs hd; rw [hd] at h; exact h

/-- Progress on an open connection carrying binary messages: after any reads (non-empty
buffers), a further `Read` returns at least one byte whenever a byte is deliverable, and
blocks (waits for the next message) only when every written byte has been returned. -/
theorem C07_read_progress_open (msgs : List Bytes) (rs : List (Nat × Choice))
    (hrs : ∀ x ∈ rs, 0 < x.1) (buf : Nat) (ch : Choice) (hb : 0 < buf) :
    ((run (Conn.ofMsgs msgs) rs).2.pending ≠ [] →
      ∃ bs, (read (run (Conn.ofMsgs msgs) rs).2 buf ch).1 = .data bs ∧ 1 ≤ bs.length ∧ bs.length ≤ buf) ∧
    ((run (Conn.ofMsgs msgs) rs).2.pending = [] →
      (read (run (Conn.ofMsgs msgs) rs).2 buf ch).1 = .block) := by
  have hclean : ∀ (rs : List (Nat × Choice)) (c : Conn), Clean c → (∀ x ∈ rs, 0 < x.1) →
      Clean (run c rs).2 := by
    intro rs
    induction rs with
    | nil => intro c h _; exact h
    | cons x rs ih =>
      intro c h hx
      obtain ⟨b, ch'⟩ := x
      exact ih _ (read_clean c b ch' (hx (b, ch') (by simp)) h).1 (fun y hy => hx y (by simp [hy]))
  have h0 : Clean (Conn.ofMsgs msgs) := ⟨rfl, (fun _ _ h => by cases h), msgs, rfl⟩
  have hc := hclean rs _ h0 hrs
  have hr := (read_clean _ buf ch hb hc).2
  constructor
  · intro hne
    simp only [hne, if_false] at hr
    obtain ⟨bs, hbs⟩ := hr
    exact ⟨bs, hbs, (C07_read_progress _ buf ch hb).2 bs hbs⟩
  · intro he
    simpa [he] using hr

/-- Close: when a close frame or an abnormal closure follows the messages `msgs` (whatever
comes after it), every `Read` result is data, or `net.ErrClosed` - never another error class,
never a hang; once `net.ErrClosed` has been returned all of `msgs` has been delivered before
it, and every later `Read` returns `net.ErrClosed` again. -/
theorem C07_close (msgs : List Bytes) (junk : List Frame) (rs rs' : List (Nat × Choice)) :
    (∀ r ∈ (run (Conn.ofFrames (binFrames msgs ++ .close :: junk)) rs).1,
        r.isDataOrZero ∨ r = .err .closed) ∧
    (.err .closed ∈ (run (Conn.ofFrames (binFrames msgs ++ .close :: junk)) rs).1 →
      delivered (run (Conn.ofFrames (binFrames msgs ++ .close :: junk)) rs).1 = msgs.flatten ∧
      ∀ r ∈ (run (run (Conn.ofFrames (binFrames msgs ++ .close :: junk)) rs).2 rs').1,
        r = .err .closed) := by
  have h0 : Ahead junk (Conn.ofFrames (binFrames msgs ++ .close :: junk)) :=
    ⟨rfl, (fun _ _ h => by cases h), msgs, rfl⟩
  obtain ⟨_, h2, h3⟩ := run_ahead junk rs _ (Or.inl h0)
  refine ⟨h2, fun hc => ?_⟩
  have hs := h3 hc
  refine ⟨?_, (run_sticky _ rs' _ hs).2⟩
  have hst := run_stream (Conn.ofFrames (binFrames msgs ++ .close :: junk)) rs
  rw [sticky_pending _ _ hs, List.append_nil] at hst
  rw [hst]
  simp [Conn.ofFrames, Conn.pending, payloadOf_binFrames, payloadOf]

/-- Every failure is sticky: once gorilla's read side has failed with class `e` (closed by the
peer, closed locally, network error), every later `Read` returns `e` and no byte. -/
theorem C07_close_sticky (e : Err) (c : Conn) (rs : List (Nat × Choice))
    (h : c.readErr = some e) (hr : c.reader = none) :
    ∀ r ∈ (run c rs).1, r = .err e :=
  (run_sticky e rs c ⟨h, Or.inl hr⟩).2

/-- `Conn.Close()` on this side: the next `Read` on this side fails (no hang) and keeps
failing with the same class: gorilla's earlier sticky error if there was one, otherwise the
"use of closed network connection" class. -/
theorem C07_close_local (c : Conn) (rs : List (Nat × Choice)) :
    ∀ r ∈ (run c.closeLocal rs).1, r = .err (c.readErr.getD .other) :=
  (run_sticky _ rs c.closeLocal ⟨rfl, Or.inl rfl⟩).2

/-- Write: one `Write` is exactly one binary message carrying exactly `p` (also for the empty
slice), reported length `len p`; on an open connection the peer's deliverable stream grows by
exactly `p`. -/
theorem C07_write (peer : Conn) (p : Bytes) :
    (write peer p).1 = p.length ∧
    (write peer p).2.inq = peer.inq ++ [.msg binaryMessage p true] ∧
    (write peer p).2.reader = peer.reader ∧ (write peer p).2.readErr = peer.readErr :=
  ⟨rfl, rfl, rfl, rfl⟩

/-- Write then read: any sequence of writes on a fresh connection, then any reads: returned
bytes followed by deliverable bytes are the concatenation of the written slices. -/
theorem C07_write_read (ps : List Bytes) (rs : List (Nat × Choice)) :
    delivered (run (writes {} ps) rs).1 ++ (run (writes {} ps) rs).2.pending = ps.flatten := by
  have h0 : Clean ({} : Conn) := ⟨rfl, (fun _ _ h => by cases h), [], rfl⟩
  rw [run_stream, (writes_clean {} ps h0).2]
  simp [Conn.pending, payloadOf]

/-- Relay, one hop: `io.Copy(dst, src)` for any number of iterations, any buffer size and any
short reads writes to `dst` exactly the bytes it took from `src`, in order (what `src` still
holds plus what was written is what `src` held); it writes only non-control binary messages,
followed by a close exactly when the goroutine has returned. -/
theorem C07_relay_hop (src : Conn) (rs : List (Nat × Choice)) :
    payloadOf (copy src rs).1 ++ (copy src rs).2.1.pending = src.pending ∧
    ∃ cs, (copy src rs).1 = binFrames cs ++ (if (copy src rs).2.2 then [.close] else []) :=
  ⟨copy_stream src rs, copy_frames src rs⟩

/-- Relay, composition (dialer → node → node → listener): two relays in sequence and then the
reader at the far end, each with its own buffer sizes and short reads: bytes returned at the
far end, followed by what is still in flight at each stage, are the bytes the source held -
nothing lost, duplicated or reordered across hops. -/
theorem C07_relay (src : Conn) (rs1 rs2 rs3 : List (Nat × Choice)) :
    delivered (run (Conn.ofFrames (copy (Conn.ofFrames (copy src rs1).1) rs2).1) rs3).1
      ++ (run (Conn.ofFrames (copy (Conn.ofFrames (copy src rs1).1) rs2).1) rs3).2.pending
      ++ (copy (Conn.ofFrames (copy src rs1).1) rs2).2.1.pending
      ++ (copy src rs1).2.1.pending
      = src.pending := by
  have hof : ∀ fs, (Conn.ofFrames fs).pending = payloadOf fs := by
    intro fs; simp [Conn.ofFrames, Conn.pending]
  rw [run_stream, hof, copy_stream, hof, copy_stream]

/-- Relay, close propagation, for every schedule of arrivals and of the two `io.Copy`
goroutines of a proxy leg: whenever one goroutine has returned, the leg it writes to is closed
and its far end has been sent a close as the last thing after the data; and one more
iteration of the other goroutine makes it return too, closing the other leg and sending a
close to the other far end.  Closing either side therefore closes both legs. -/
theorem C07_relay_close (steps : List RStep) (b : Nat) (ch : Choice) :
    ((Relay.run {} steps).duDone = true →
      (Relay.run {} steps).u.isClosed = true ∧
      (Relay.run {} steps).toU.getLast? = some .close ∧
      ((Relay.run {} steps).step (.copyUD b ch)).udDone = true ∧
      ((Relay.run {} steps).step (.copyUD b ch)).d.isClosed = true ∧
      ((Relay.run {} steps).step (.copyUD b ch)).toD.getLast? = some .close) ∧
    ((Relay.run {} steps).udDone = true →
      (Relay.run {} steps).d.isClosed = true ∧
      (Relay.run {} steps).toD.getLast? = some .close ∧
      ((Relay.run {} steps).step (.copyDU b ch)).duDone = true ∧
      ((Relay.run {} steps).step (.copyDU b ch)).u.isClosed = true ∧
      ((Relay.run {} steps).step (.copyDU b ch)).toU.getLast? = some .close) := by
  have hi := rinv_run {} steps rinv_init
  constructor
  · intro hd
    obtain ⟨cs, hcs⟩ := hi.toU
    obtain ⟨_, h2, h3, _⟩ := relay_close_du _ b ch hi hd
    obtain ⟨cs', hcs'⟩ := (rinv_step _ (.copyUD b ch) hi).toD
    refine ⟨hi.uClosed hd, ?_, h2, h3, ?_⟩
    · rw [hcs, hd]; simp [tailClose]
    · rw [hcs', h2]; simp [tailClose]
  · intro hd
    obtain ⟨cs, hcs⟩ := hi.toD
    obtain ⟨h1, _, _, h4⟩ := relay_close_ud _ b ch hi hd
    obtain ⟨cs', hcs'⟩ := (rinv_step _ (.copyDU b ch) hi).toU
    refine ⟨hi.dClosed hd, ?_, h1, h4, ?_⟩
    · rw [hcs, hd]; simp [tailClose]
    · rw [hcs', h1]; simp [tailClose]

/-- Relay data path under any schedule: one iteration of `io.Copy(upstream, downstream)` moves
bytes from the downstream connection to the upstream leg and changes nothing else. -/
theorem C07_relay_step (steps : List RStep) (b : Nat) (ch : Choice) :
    payloadOf ((Relay.run {} steps).step (.copyDU b ch)).toU
        ++ ((Relay.run {} steps).step (.copyDU b ch)).d.pending
      = payloadOf (Relay.run {} steps).toU ++ (Relay.run {} steps).d.pending :=
  relay_step_stream _ b ch (rinv_run {} steps rinv_init)

/-! ## Non-vacuity -/

/-- an empty message between two data messages, 2-byte buffers, a short read of 1 byte: -/
example : (run (Conn.ofMsgs [[1, 2, 3], [], [4, 5]])
    [(2, ⟨9, false⟩), (2, ⟨1, true⟩), (2, ⟨9, false⟩), (2, ⟨9, true⟩), (2, ⟨9, false⟩)]).1
    = [.data [1, 2], .data [3], .data [4, 5], .block, .block] := by decide

/-- a message straddling three reads -/
example : (run (Conn.ofMsgs [[1, 2, 3, 4, 5, 6, 7]]) [(3, Choice.full), (3, Choice.full), (3, Choice.full)]).1
    = [.data [1, 2, 3], .data [4, 5, 6], .data [7]] := by decide

/-- data, close, sticky; a text message is rejected once and the stream continues -/
example : (run (Conn.ofFrames [.msg 2 [7] true, .msg 1 [65] true, .msg 2 [8] true, .close, .msg 2 [9] true])
    [(4, Choice.full), (4, Choice.full), (4, Choice.full), (4, Choice.full), (4, Choice.full)]).1
    = [.data [7], .err (.badType 1), .data [8], .err .closed, .err .closed] := by decide

/-- faithful model of `len b = 0`: `(0, nil)` while data is pending -/
example : (read (Conn.ofMsgs [[1, 2]]) 0 Choice.full).1 = .zero := by decide

/-- a relay hop re-chunks but keeps the bytes; the close follows the data -/
example : (copy (Conn.ofFrames [.msg 2 [1, 2, 3] true, .msg 2 [] true, .msg 2 [4] true, .close])
    [(2, Choice.full), (2, Choice.full), (2, Choice.full), (2, Choice.full), (2, Choice.full)]).1
    = [.msg 2 [1, 2] true, .msg 2 [3] true, .msg 2 [4] true, .close] := by decide

/-- the downstream peer closes: the upstream leg is closed, then the other goroutine returns -/
example : ((Relay.run {} [.arriveD (.msg 2 [1] true), .arriveD .close, .copyDU 8 Choice.full,
    .copyDU 8 Choice.full, .copyUD 8 Choice.full]).duDone,
    (Relay.run {} [.arriveD (.msg 2 [1] true), .arriveD .close, .copyDU 8 Choice.full,
    .copyDU 8 Choice.full, .copyUD 8 Choice.full]).udDone) = (true, true) := by decide

end Piko
