import Proofs.C14
import PikoModel.Generated.Facts
/-!
# C14 — Watcher notifications, folded in order, always equal the visible cluster state

Model: `PikoModel/Gossip/State.lean` (`ApplyDigest`, `ApplyDelta`/`applyDeltaEntry`,
`UpdateLiveness`, `RemoveExpiredAt` and every `s.watcher.On…` call of `pkg/gossip/state.go`)
and `PikoModel/Gossip/Watch.lean` (`foldEvent` = replay of one `Watcher` callback,
`visible` = what `Node(id)`/`Nodes()` show for the remote nodes: non-internal, non-deleted
entries and the `Left`/`Unreachable` flags).  Views are compared extensionally (`foldOK`:
same node ids present, same value under every key, same flags).

Standing assumptions, both proved invariant here:
* `StWF s` — the state is a Go map of Go maps: distinct node ids, every node stored under
  its own id, every entry stored under its own key, the local node present and never
  expiring.  Preserved by every operation on every input (`C14_wf_step`).
* `KeysOK s` + `Op.ok` — remote entries carry `Internal = true` exactly on the two reserved
  keys.  This is an input restriction and it is necessary: `applyDeltaEntry` stores an
  entry flagged internal under an ordinary key without notifying anything, so a key the
  observer shows silently disappears from `Node(id)` (`C14_hostile_internal_counterexample`;
  reachable without any forged packet when the owner itself writes a reserved key through
  `UpsertLocal` and then leaves, `C14_reserved_key_counterexample`, observation O1).

The other hostile shapes do not need an assumption: unsorted entries, duplicate keys,
duplicate node ids, a delta about the local id (`C14_local_id_delta_discarded`), an
unparsable compaction value (`C14_unparsable_compaction_aborts`) are all covered by the
general theorems.  Node ids that are not valid UTF-8 are skipped by `ApplyDigest` and
`applyDeltaEntry` before any state change or notification (like the local id); Lean strings
are valid UTF-8, so the model ranges over exactly the ids the code acts on.
-/
namespace Piko
open Piko.Gossip Piko.Gossip.C14

/-- The initial state is well-formed, satisfies the key discipline, and the empty fold is
its visible state. -/
theorem C14_wf_init (id addr : String) :
    StWF (init id addr) ∧ KeysOK (init id addr) ∧ foldOK [] (init id addr) :=
  ⟨stWF_init id addr, keysOK_init id addr, foldOK_init id addr⟩

/-- Well-formedness is preserved by every operation — local writes, digests, deltas,
liveness and expiry sweeps — for all arguments, hostile deltas included; the local id never
changes. -/
theorem C14_wf_step (s : CState) (op : Op) (h : StWF s) :
    StWF (op.run s).1 ∧ (op.run s).1.localId = s.localId :=
  run_wf h op

/-- The key discipline (no visible remote entry under a reserved key) is preserved by
every operation whose delta, if any, flags `Internal` exactly on the reserved keys. -/
theorem C14_keys_step (s : CState) (op : Op) (h : StWF s) (hk : KeysOK s) (hok : op.ok = true) :
    KeysOK (op.run s).1 :=
  (run_good h hk op hok).keys hk

/-- Local operations (`UpsertLocal`, `DeleteLocal`, `LeaveLocal`, `CompactLocal`) notify
nothing and leave the visible state literally unchanged, in every state. -/
theorem C14_local_ops_silent (s : CState) (op : Op) (h : op.isLocal = true) :
    (op.run s).2 = [] ∧ visible (op.run s).1 = visible s :=
  run_local s op h

/-- One step: if the folded view is the visible state before an operation, then folding
the notifications the operation emits gives the visible state after it.  Holds for every
operation (`applyDigest d`, `applyDelta now d`, `updateLiveness suspected now`,
`removeExpiredAt t`, and the silent local ones) and all arguments satisfying `Op.ok`. -/
theorem C14_fold_step (s : CState) (w : WView) (op : Op) (hwf : StWF s) (hk : KeysOK s)
    (hok : op.ok = true) (hw : foldOK w s) :
    foldOK (foldEvents w (op.run s).2) (op.run s).1 :=
  ((run_good hwf hk op hok).foldOK hwf hw).1

/-- Histories: after any list of operations from the initial state, the fold of all
notifications emitted so far (starting from the empty view) is the visible state. -/
theorem C14_fold_eq (id addr : String) (ops : List Op) (hok : ∀ op ∈ ops, op.ok = true) :
    foldOK (foldEvents [] (runOps (init id addr) ops).2) (runOps (init id addr) ops).1 :=
  ((runOps_good (stWF_init id addr) (keysOK_init id addr) ops hok).foldOK (stWF_init id addr)
    (foldOK_init id addr)).1

/-- A node is announced before anything else is said about it: in the notifications of one
operation every `join x` is about a node absent from the running fold and every other
notification (`upsert`, `delete`, `leave`, `unreachable`, `reachable`, `expired`) is about a
node present in it — i.e. preceded by `join x` with no `expired x` in between.  The
"ignored" branch of `foldEvent` is never taken and a node is never announced twice. -/
theorem C14_join_first (s : CState) (w : WView) (op : Op) (hwf : StWF s) (hk : KeysOK s)
    (hok : op.ok = true) (hw : foldOK w s) :
    eventsOK w (op.run s).2 = true :=
  ((run_good hwf hk op hok).foldOK hwf hw).2

/-- `C14_join_first` for whole histories from the initial state. -/
theorem C14_join_first_history (id addr : String) (ops : List Op) (hok : ∀ op ∈ ops, op.ok = true) :
    eventsOK [] (runOps (init id addr) ops).2 = true :=
  ((runOps_good (stWF_init id addr) (keysOK_init id addr) ops hok).foldOK (stWF_init id addr)
    (foldOK_init id addr)).2

/-- One delta entry (`applyEntry`, the loop body of `applyDeltaEntry`): every key that was
visible before and is not visible after is the subject of a `delete` notification of that
same call — the explicit tombstone as well as the compaction drop of an entry whose
deletion the observer never saw — and every key whose visible value appeared or changed is
the subject of an `upsert` with the new value.  The hypothesis `hin` excludes exactly the
hostile entry of `C14_hostile_internal_counterexample`. -/
theorem C14_compaction_delete (now : Nat) (st : NodeSt) (e : Entry) (k : String)
    (hwf : EntWF st.entries) (hin : e.internal = true → (visNode st).kv.find e.key = none) :
    ((visNode st).kv.find k ≠ none → (visNode (applyEntry now st e).1).kv.find k = none →
        Event.delete st.id k ∈ (applyEntry now st e).2.1) ∧
      (∀ v, (visNode (applyEntry now st e).1).kv.find k = some v → (visNode st).kv.find k ≠ some v →
        Event.upsert st.id k v ∈ (applyEntry now st e).2.1) := by
  have hs := applyEntry_step now st e hwf
  rw [visNode_find st hwf.1] at hin
  rw [visNode_find st hwf.1, visNode_find _ hs.wf.1]
  exact shape_complete (hs.shape hin) k

/-- Conversely, in one `applyEntry` a `delete` is only sent for a key that is not visible
afterwards, an `upsert` only for a key that then shows exactly that value, and every
notification is about the node being updated. -/
theorem C14_entry_events_sound (now : Nat) (st : NodeSt) (e : Entry) (hwf : EntWF st.entries)
    (hin : e.internal = true → (visNode st).kv.find e.key = none) :
    (∀ k, Event.delete st.id k ∈ (applyEntry now st e).2.1 →
        (visNode (applyEntry now st e).1).kv.find k = none) ∧
      (∀ k v, Event.upsert st.id k v ∈ (applyEntry now st e).2.1 →
        (visNode (applyEntry now st e).1).kv.find k = some v) ∧
      (∀ ev ∈ (applyEntry now st e).2.1, ev.node = st.id) := by
  have hs := applyEntry_step now st e hwf
  rw [visNode_find st hwf.1] at hin
  have := shape_sound (hs.shape hin)
  refine ⟨fun k hk => ?_, fun k v hk => ?_, this.2.2⟩
  · rw [visNode_find _ hs.wf.1]; exact this.1 k hk
  · rw [visNode_find _ hs.wf.1]; exact this.2.1 k v hk

/-- The property is false — of the model and of the Go code alike — without the input
restriction: after `b: k = v` an entry `{key k, internal}` is stored silently, `Node("b")`
no longer shows `k`, the fold of all notifications still does.  The input violates
`Op.ok`; the state stays well-formed. -/
theorem C14_hostile_internal_counterexample :
    hostileInternalOps.all Op.ok = false ∧
      ¬ foldOK (foldEvents [] (runOps (init "a" "A") hostileInternalOps).2)
          (runOps (init "a" "A") hostileInternalOps).1 := by
  refine ⟨by decide, fun h => ?_⟩
  have h1 := h "b"
  have e1 : (foldEvents [] (runOps (init "a" "A") hostileInternalOps).2).find "b" =
      some { kv := [("k", "v")] } := by decide
  have e2 : (visible (runOps (init "a" "A") hostileInternalOps).1).find "b" = some {} := by decide
  rw [e1, e2] at h1
  have := h1.1 "k"
  revert this
  decide

/-- The same failure without a forged packet: the owner writes the reserved key
`_internal:left` through `UpsertLocal` (announced to observers as an ordinary key) and then
calls `LeaveLocal`, whose internal entry overwrites it.  Observers get `leave` but no
`delete`.  (Observation O1: the package does not reject reserved keys.) -/
theorem C14_reserved_key_counterexample :
    reservedKeyOps.all Op.ok = false ∧
      ¬ foldOK (foldEvents [] (runOps (init "a" "A") reservedKeyOps).2)
          (runOps (init "a" "A") reservedKeyOps).1 := by
  refine ⟨by decide, fun h => ?_⟩
  have h1 := h "b"
  have e1 : (foldEvents [] (runOps (init "a" "A") reservedKeyOps).2).find "b" =
      some { kv := [(leftKey, "x")], left := true } := by decide
  have e2 : (visible (runOps (init "a" "A") reservedKeyOps).1).find "b" =
      some { left := true } := by decide
  rw [e1, e2] at h1
  have := h1.1 leftKey
  revert this
  decide

/-- A delta entry that re-uses the local id is discarded whole: no state change, no
notification (so it cannot break the fold). -/
theorem C14_local_id_delta_discarded (now : Nat) (s : CState) (de : DeltaEntry)
    (h : de.id = s.localId) : applyDeltaEntry now s de = (s, []) := by
  simp [applyDeltaEntry, h]

/-- An unparsable compaction value: the marker is stored, nothing is notified, and the
remaining entries of that node are not applied (the Go code `return`s from
`applyDeltaEntry`).  Nothing visible changed, so the fold is unaffected; the general
theorems cover this input. -/
theorem C14_unparsable_compaction_aborts (now : Nat) (st : NodeSt) (e : Entry) (es : List Entry)
    (hver : st.version < e.version) (hint : e.internal = true) (hkey : e.key = compactKey)
    (hp : parseUint64 e.value = none) :
    applyEntries now st (e :: es) =
      ({ st with entries := st.entries.insert e.key e, version := e.version }, []) :=
  applyEntries_unparsable now st e es hver hint hkey hp

/-! Non-vacuity: a two-node history with a digest, upserts, a tombstone, a compaction drop
of a key whose deletion was never seen, liveness flapping and the owner leaving. -/

example : sampleOps.all Op.ok = true := by decide

example : (runOps (init "a" "A") sampleOps).2 =
    [.join "b", .upsert "b" "k1" "v1", .upsert "b" "k2" "v2", .delete "b" "k1",
     .delete "b" "k2", .upsert "b" "k3" "v3", .unreachable "b", .reachable "b", .leave "b"] := by
  decide

example : (visible (runOps (init "a" "A") sampleOps).1).find "b" =
    some { kv := [("k3", "v3")], left := true } := by decide

example : ((foldEvents [] (runOps (init "a" "A") sampleOps).2).find "b").map
      (fun n => (n.kv.find "k1", n.kv.find "k2", n.kv.find "k3", n.left, n.unreachable)) =
    some (none, none, some "v3", true, false) := by decide

example : eventsOK [] (runOps (init "a" "A") sampleOps).2 = true := by decide

/-- expiry: the node disappears from the state and from the fold -/
example : (runOps (init "a" "A") (sampleOps ++ [.removeExpiredAt (13 + nodeExpiry)])).2.getLast? =
    some (.expired "b") ∧
    (visible (runOps (init "a" "A") (sampleOps ++ [.removeExpiredAt (13 + nodeExpiry)])).1) = [] := by
  decide

/-- the hostile shapes that need no assumption: a delta about the local id, an unparsable
compaction value followed by more entries, duplicate keys in one delta -/
example : (runOps (init "a" "A")
    [.applyDelta 0 [{ id := "a", addr := "X", entries := [{ key := "k", value := "v", version := 1 }] },
                    { id := "b", addr := "B",
                      entries := [{ key := "k", value := "v", version := 2 },
                                  { key := "k", value := "w", version := 1 },
                                  { key := compactKey, value := "zz", version := 3, internal := true },
                                  { key := "k", value := "lost", version := 4 }] }]]).2 =
    [.join "b", .upsert "b" "k" "v"] := by decide

/-- **State change and notification are one atomic step** (regenerated fact, lock analysis of
`pkg/gossip`): every `….watcher.On…(…)` call of the gossip state is made while the state mutex is
held - lexically, or at every call site of the unexported function that makes it - and all seven
callbacks are among them.  This is what lets the theorems above speak about the notifications "in
order": the order in which a concurrent node delivers them is the order of its state changes
(a sweep that removed a node and announced it only after releasing the mutex could be overtaken by a
digest re-adding that node: `join` before `expired`, seed C14c; op `pexpire` of engine `gossip`
looks for exactly that). -/
theorem C14_facts_notifications_atomic :
    Facts.watcherNotifyUnlocked = some [] ∧
    Facts.watcherCallbacksLocked =
      some ["OnDeleteKey", "OnExpired", "OnJoin", "OnLeave", "OnReachable", "OnUnreachable", "OnUpsertKey"] := by
  decide

end Piko
