import Proofs.Route
import PikoModel.Generated.Facts
import Proofs.SysSettle
import Props.C03
import Props.C04
/-!
# C01 — Requests reach only upstreams of the addressed endpoint, from any node

Model: `PikoModel/Proxy/Route.lean` (see `Props/C06.lean` for the quantifiers).  `endpointOf`
is `EndpointIDFromRequest` for the HTTP route (header first, else the first `Host` label;
`net.SplitHostPort`/`net.ParseIP` are the `Lib` parameters) and the URL path parameter for the
TCP route.  `World.reg w k e` are the upstreams registered at node `k` for endpoint `e`.

**Partial** with respect to the property statement: these are per-request statements over
the registries at the moment of `Select`.  The clause "for every interleaving of upstream
connects/disconnects with in-flight requests" is the runtime part (the manager mutex
serialises `Select` with `AddConn/RemoveConn`; a stream opened on a session that then closes
fails and is answered 502) and is not modelled here.
-/
namespace Piko
open Piko.Proxy Piko.Upstream

/-- The request emitted by the forwarding step names the same endpoint as the original, for
both routes and whatever the client put into `Connection`: `Host`, the path and the
`x-piko-endpoint` header are untouched (`removeConnectionOptions`, 1c64d44, keeps the header
out of the reverse proxy's hop-by-hop removal). -/
theorem C01_same_endpoint (lib : Lib) (r : Req) :
    endpointOf lib (forwardReq r) = endpointOf lib r ∧ (forwardReq r).host = r.host ∧
    (forwardReq r).kind = r.kind :=
  ⟨endpointOf_forwardReq lib r, rfl, rfl⟩

/-- For every view combination, placement, entry node, addressing mode and route: if the
request is delivered to upstream `u` on node `k` for endpoint `e`, then `e` is the endpoint the
request addresses, `u` is registered for exactly `e` on `k`, and `k` is the last node that
handled it; a request that addresses no endpoint is answered 400 by the entry node. -/
theorem C01_only_addressed (lib : Lib) (fuel : Nat) (w : World) (entry : String) (r : Req)
    (choices : List Nat) :
    (∀ k e u, (routeAt lib fuel w entry r choices).1.outcome = .served k e u →
        endpointOf lib r = some e ∧ u ∈ w.reg k e ∧
        (routeAt lib fuel w entry r choices).1.visited.getLast? = some k ∧ w.isGone k e u = false) ∧
    (∀ m, w.nodes.find entry = some m → endpointOf lib r = none → 1 ≤ fuel →
        (routeAt lib fuel w entry r choices).1 = { visited := [entry], via := [], outcome := .badRequest entry }) := by
  constructor
  · intro k e u h
    obtain ⟨h1, h2, h3, h4⟩ := routeAt_served lib fuel w entry r choices k e u h
    exact ⟨h2, h1, h3, h4⟩
  · intro m hn he hf
    obtain ⟨f, rfl⟩ : ∃ f, fuel = f + 1 := ⟨fuel - 1, by omega⟩
    exact routeAt_badRequest lib f w entry m r choices hn he

/-- Routing changes registrations in one way only: an upstream that answered `ErrGone` when it
was dialled is removed (`RemoveConn`) from the node that dialled it (`regAfter`); after any
other request the same upstreams are registered for the same endpoints on the same nodes (only
round-robin cursors moved).  In particular nothing is ever added, and nothing is removed
from any other node or endpoint. -/
theorem C01_registry_stable (lib : Lib) (fuel : Nat) (w : World) (entry : String) (r : Req)
    (choices : List Nat) (k e : String) :
    (routeAt lib fuel w entry r choices).2.reg k e =
      regAfter (routeAt lib fuel w entry r choices).1.outcome w k e ∧
    ((∀ k0 e0 u, (routeAt lib fuel w entry r choices).1.outcome ≠ .gone k0 e0 u) →
      (routeAt lib fuel w entry r choices).2.reg k e = w.reg k e) ∧
    (∀ x, x ∈ (routeAt lib fuel w entry r choices).2.reg k e → x ∈ w.reg k e) := by
  have h := (routeAt_world lib fuel w entry r choices).1 k e
  refine ⟨h, fun hn => ?_, fun x hx => ?_⟩
  · rw [h]; unfold regAfter
    split
    · rename_i k0 e0 u ho; exact absurd ho (hn k0 e0 u)
    · rfl
  · rw [h] at hx; unfold regAfter at hx
    split at hx
    · split at hx
      · exact List.mem_of_mem_erase hx
      · exact hx
    · exact hx

/-- Once routing information has settled (`Settled`: every row about another node is that
node's truth - active, its real address, serving `e` exactly when it has an upstream for `e` -
and every node knows every other), a client request for endpoint `e` entering at ANY node is
delivered to an upstream of `e` if some node has one, and answered 502 by the entry node if
none has (`NoGone`: no registered upstream has stopped accepting - one that has is removed by
the first request that dials it, which is answered 502). -/
theorem C01_settled (lib : Lib) (w : World) (hs : Settled w) (hng : NoGone w) (entry : String) (m : Mgr)
    (hn : w.nodes.find entry = some m) (r : Req) (hnf : r.forwarded = false) (e : String)
    (he : endpointOf lib r = some e) (choices : List Nat) :
    ((∃ k, w.reg k e ≠ []) →
        ∃ k u, (route lib w entry r choices).1.outcome = .served k e u ∧ u ∈ w.reg k e) ∧
    ((∀ k, w.reg k e = []) →
        (route lib w entry r choices).1 = { visited := [entry], via := [], outcome := .noUpstream entry }) :=
  route_settled lib w hs hng 1 entry m hn r hnf e he choices

/-- obligations on the two library-independent steps of `EndpointIDFromRequest`: the header
wins over `Host`; without a header an IP, a single label and an empty host give nothing. -/
theorem C01_endpoint_header_first (lib : Lib) (host h : String) (hne : h ≠ "") :
    endpointIDFromRequest lib host (some h) = h := by
  simp [endpointIDFromRequest, hdrGet, hne]

theorem C01_endpoint_host_rules (lib : Lib) (host : String) :
    (lib.parseIP ((lib.splitHostPort host).getD host) = true → endpointIDFromRequest lib host none = "") ∧
    (hasDot ((lib.splitHostPort host).getD host) = false → endpointIDFromRequest lib host none = "") ∧
    (endpointIDFromRequest lib host (some "") = endpointIDFromRequest lib host none) := by
  refine ⟨?_, ?_, ?_⟩
  · intro h; simp [endpointIDFromRequest, hdrGet, h]
  · intro h; simp [endpointIDFromRequest, hdrGet, h]
  · simp [endpointIDFromRequest, hdrGet]

/-- Obligation over the regenerated facts: `proxy.NewServer` registers exactly one route,
`GET /_piko/v1/tcp/:endpointID` (the `Kind.tcp` of the model, endpoint = the `endpointID` path
parameter), and sends everything else to `proxyHTTPRoute` (`Kind.http`). -/
theorem C01_facts_routes :
    (Facts.routes_proxy.map fun l => l.filter (fun ev => ev.kind == "route" || ev.kind == "noroute" || ev.kind == "group")) =
      some [⟨"group", "engine", "g1", "/_piko", ""⟩, ⟨"group", "g1", "g2", "/v1", ""⟩,
            ⟨"route", "g2", "GET", "/tcp/:endpointID", ""⟩, ⟨"noroute", "engine", "s.proxyHTTPRoute", "", ""⟩] := by decide

/-! ### non-vacuity -/
namespace C01Ex

def lib0 : Lib := { splitHostPort := fun _ => none, parseIP := fun _ => false }

def row (id addr : String) (eps : AMap String Int) (st : Cluster.Status := .active) : Cluster.Node :=
  { id := id, status := st, proxyAddr := addr, endpoints := eps }

def node (id : String) (rows : List Cluster.Node) (lbs : AMap String LB := []) : Mgr :=
  { lbs := lbs,
    cluster := { localId := id, nodes := (id, { id := id, status := .active }) :: rows.map (fun c => (c.id, c)) },
    gossip := default }

/-- three nodes, two endpoints: n1 has upstreams 3,4 of `foo` and 5 of `bar`; n2 has 6 of `bar`;
n0 has nothing.  n0's view is right about n1 and n2; n2 wrongly believes n0 serves `foo`. -/
def w : World :=
  { nodes := [("n0", node "n0" [row "n1" "a1" [("foo", 2), ("bar", 1)], row "n2" "a2" [("bar", 1)]]),
              ("n1", node "n1" [] [("foo", { ups := [3, 4] }), ("bar", { ups := [5] })]),
              ("n2", node "n2" [row "n0" "a0" [("foo", 1)]] [("bar", { ups := [6] })])],
    listen := [("a0", "n0"), ("a1", "n1"), ("a2", "n2")] }

/-- Host addressing: first label -/
example : (route lib0 w "n0" { host := "foo.piko.example.com" } []).1 =
    { visited := ["n0", "n1"], via := [("n0", "n1")], outcome := .served "n1" "foo" 3 } := by decide
/-- conflicting header and Host: the header wins, on the entry node and on the receiver; the
candidate chosen decides between n1 and n2, both deliver to a `bar` upstream -/
example : (route lib0 w "n0" { host := "foo.piko.example.com", epHeader := some "bar" } [0]).1 =
    { visited := ["n0", "n1"], via := [("n0", "n1")], outcome := .served "n1" "bar" 5 } := by decide
example : (route lib0 w "n0" { host := "foo.piko.example.com", epHeader := some "bar" } [1]).1 =
    { visited := ["n0", "n2"], via := [("n0", "n2")], outcome := .served "n2" "bar" 6 } := by decide
/-- `Connection: x-piko-endpoint` (regression of 1c64d44): still `bar` on the receiver -/
example : (route lib0 w "n0" { host := "foo.piko.example.com", epHeader := some "bar", conn := [epName] } [1]).1 =
    { visited := ["n0", "n2"], via := [("n0", "n2")], outcome := .served "n2" "bar" 6 } := by decide
/-- a wrong view: n2 forwards `foo` to n0, which has no upstream: 502, never another endpoint's upstream -/
example : (route lib0 w "n2" { host := "x", kind := .tcp "foo" } []).1 =
    { visited := ["n2", "n0"], via := [("n2", "n0")], outcome := .noUpstream "n0" } := by decide
/-- an IP literal as Host (the library says so) names no endpoint -/
example : (route { lib0 with parseIP := fun _ => true } w "n1" { host := "10.0.0.1" } []).1 =
    { visited := ["n1"], via := [], outcome := .badRequest "n1" } := by decide

/-- a settled two-node cluster: n1 has upstream 5 of `bar`, n0 knows it; n1 knows n0 has none -/
def settled2 : World :=
  { nodes := [("n0", node "n0" [row "n1" "a1" [("bar", 1)]]),
              ("n1", node "n1" [row "n0" "a0" []] [("bar", { ups := [5] })])],
    listen := [("a0", "n0"), ("a1", "n1")] }

private theorem find2 {n : String} {m : Mgr} (h : settled2.nodes.find n = some m) :
    (n = "n0" ∧ m = node "n0" [row "n1" "a1" [("bar", 1)]]) ∨
    (n = "n1" ∧ m = node "n1" [row "n0" "a0" []] [("bar", { ups := [5] })]) := by
  simp only [settled2, AMap.find_cons, AMap.find_nil] at h
  by_cases h0 : "n0" = n
  · subst h0; simp only [if_true, Option.some.injEq] at h; exact Or.inl ⟨rfl, h.symm⟩
  · simp only [h0, if_false] at h
    by_cases h1 : "n1" = n
    · subst h1; simp only [if_true, Option.some.injEq] at h; exact Or.inr ⟨rfl, h.symm⟩
    · simp [h1] at h

private theorem settled2_ok : Settled settled2 := by
  refine ⟨?_, ?_, ?_, ?_⟩
  · intro n m h
    rcases find2 h with ⟨rfl, rfl⟩ | ⟨rfl, rfl⟩ <;> rfl
  · intro n m h e lb hl
    rcases find2 h with ⟨rfl, rfl⟩ | ⟨rfl, rfl⟩
    · simp [node] at hl
    · simp only [node, AMap.find_cons, AMap.find_nil] at hl
      by_cases he : "bar" = e
      · simp only [he, if_true, Option.some.injEq] at hl; subst hl; simp [LB.Inv]
      · simp [he] at hl
  · intro n m h c hc hne
    rcases find2 h with ⟨rfl, rfl⟩ | ⟨rfl, rfl⟩
    · simp only [node, AMap.vals, List.map_cons, List.map_nil, List.mem_cons, List.not_mem_nil, or_false] at hc
      rcases hc with rfl | rfl
      · exact absurd rfl hne
      · refine ⟨rfl, by decide, node "n1" [row "n0" "a0" []] [("bar", { ups := [5] })], rfl, ?_⟩
        intro e
        simp only [row, Cluster.Node.serves, node, Mgr.registry, AMap.find_cons, AMap.find_nil]
        by_cases he : "bar" = e <;> simp [he]
    · simp only [node, AMap.vals, List.map_cons, List.map_nil, List.mem_cons, List.not_mem_nil, or_false] at hc
      rcases hc with rfl | rfl
      · exact absurd rfl hne
      · refine ⟨rfl, by decide, node "n0" [row "n1" "a1" [("bar", 1)]], rfl, ?_⟩
        intro e
        simp [row, Cluster.Node.serves, node, Mgr.registry]
  · intro n m k mk h hk hkn
    rcases find2 h with ⟨rfl, rfl⟩ | ⟨rfl, rfl⟩ <;> rcases find2 hk with ⟨rfl, rfl⟩ | ⟨rfl, rfl⟩
    · exact absurd rfl hkn
    · exact ⟨row "n1" "a1" [("bar", 1)], by simp [node, AMap.vals], rfl⟩
    · exact ⟨row "n0" "a0" [], by simp [node, AMap.vals], rfl⟩
    · exact absurd rfl hkn

example : Settled settled2 ∧ NoGone settled2 ∧
    (route lib0 settled2 "n0" { host := "bar.example.com" } []).1.outcome = .served "n1" "bar" 5 ∧
    (route lib0 settled2 "n1" { host := "foo.example.com" } []).1.outcome = .noUpstream "n1" :=
  ⟨settled2_ok, fun _ _ _ => rfl, by decide, by decide⟩

end C01Ex
/-! ## The whole system: "once routing information has settled" is a theorem, not a hypothesis

`PikoModel/Sys/System.lean` wires gossip, syncer and upstream manager of every node into one state
`Sys`; `Sys.world s` (`Proofs/SysSettle.lean`) is the `World` of the routing model whose managers and
routing views are the ones of `s`.  A *settle schedule* is any list of receive-side steps
(`SysOp.quiet`: digests, deliveries of any pooled packet at any truncation, stream joins with or
without reply, leave streams, failure-detector rounds) - no `addConn`/`removeConn`, no boot, leave
or compaction - that contains the full exchange `join r a` for every ordered pair of nodes.  After
it, `C03_converges_all` makes every view caught up, `C04_mirror_system` makes every routing-table row
the owner's truth, and that is the hypothesis `Settled` of `C01_settled`. -/

/-- what `C01_settled_system` assumes about the configuration and the failure detectors at the end
of the settle schedule: nobody has left or is suspected, every node advertises non-empty addresses,
proxy addresses are pairwise distinct, and no endpoint has 2^63 upstreams on one node -/
structure SysHealthy (s : Sys) : Prop where
  notLeft : ∀ n x, s.node n = some x → (Gossip.own x.mgr.gossip).left = false
  reachable : ∀ n x a V, s.node n = some x → x.mgr.gossip.nodes.find a = some V → a ≠ n → V.unreachable = false
  addrs : ∀ n x, s.node n = some x →
    x.mgr.cluster.localNode.proxyAddr ≠ "" ∧ x.mgr.cluster.localNode.adminAddr ≠ ""
  small : ∀ n x e, s.node n = some x → (x.mgr.registry e).length < 2 ^ 63
  distinct : ∀ a b xa xb, s.node a = some xa → s.node b = some xb →
    xa.mgr.cluster.localNode.proxyAddr = xb.mgr.cluster.localNode.proxyAddr → a = b

open Piko.Gossip Piko.Cluster in
/-- **The system settles**: after a settle schedule on a healthy cluster the routing world of the
resulting state satisfies the hypothesis `Settled` of `C01_settled` ("views = truth"). -/
theorem C01_system_settles (ops sched : List SysOp) (hall : SysAllowed (sched ++ ops))
    (hq : ∀ op ∈ sched, op.quiet.isSome = true)
    (hjoins : ∀ r a, r ≠ a → ((Sys.runRev ops).node r).isSome = true → ((Sys.runRev ops).node a).isSome = true →
      ∃ now, SysOp.join r a true now ∈ sched)
    (hh : SysHealthy (Sys.runRev (sched ++ ops))) :
    Settled (Sys.runRev (sched ++ ops)).world ∧ NoGone (Sys.runRev (sched ++ ops)).world := by
  have hinv := sysInv_runRev _ hall
  have hcaught := C04_caught_up_after_settle ops sched hall hq hjoins
  -- the mirror, for every ordered pair of nodes of the final state
  have hmirror : ∀ n k xn xk, n ≠ k → (Sys.runRev (sched ++ ops)).node n = some xn →
      (Sys.runRev (sched ++ ops)).node k = some xk →
      ∃ row, xn.mgr.cluster.nodes.find k = some row ∧ row.id = k ∧ row.status = .active ∧
        row.proxyAddr = xk.mgr.cluster.localNode.proxyAddr ∧
        ∀ e, row.endpoints.find e =
          if (xk.mgr.registry e).length = 0 then none else some ((xk.mgr.registry e).length : Int) := by
    intro n k xn xk hnk hn hk
    obtain ⟨V, hV, hver⟩ := hcaught n k hnk xn xk hn hk
    obtain ⟨_, row, hrow, _, hid, hp, _, hes, hst⟩ := C04_mirror_system _ hall n k hnk xn xk hn hk V hV hver
      (hh.notLeft k xk hk) (hh.addrs k xk hk).1 (hh.addrs k xk hk).2 (fun e => hh.small k xk e hk)
    refine ⟨row, hrow, hid, ?_, hp, hes⟩
    rw [hst, hh.reachable n xn k V hn hV (fun e => hnk e.symm)]; rfl
  refine ⟨⟨?_, ?_, ?_, ?_⟩, fun _ _ _ => rfl⟩
  · -- every manager carries its own id
    intro n m hm
    rw [Sys.world_find hinv] at hm
    cases hx : (Sys.runRev (sched ++ ops)).node n with
    | none => rw [hx] at hm; cases hm
    | some x =>
      rw [hx] at hm; simp only [Option.map_some, Option.some.injEq] at hm; subst hm
      obtain ⟨sd, g, hsd, hg, rfl⟩ := Sys.node_eq hx
      exact (hinv.node n sd g hsd hg).tlid
  · intro n m hm
    rw [Sys.world_find hinv] at hm
    cases hx : (Sys.runRev (sched ++ ops)).node n with
    | none => rw [hx] at hm; cases hm
    | some x =>
      rw [hx] at hm; simp only [Option.map_some, Option.some.injEq] at hm; subst hm
      obtain ⟨sd, g, hsd, hg, rfl⟩ := Sys.node_eq hx
      exact (hinv.node n sd g hsd hg).minv.lbs
  · -- every remote row is the truth about a real node
    intro n m hm c hc hcid
    rw [Sys.world_find hinv] at hm
    cases hx : (Sys.runRev (sched ++ ops)).node n with
    | none => rw [hx] at hm; cases hm
    | some x =>
      rw [hx] at hm; simp only [Option.map_some, Option.some.injEq] at hm; subst hm
      obtain ⟨sd, g, hsd, hg, rfl⟩ := Sys.node_eq hx
      have hni := hinv.node n sd g hsd hg
      simp only [] at hc
      obtain ⟨k, hkc⟩ := AMap.mem_vals.mp hc
      have hfind : sd.table.nodes.find k = some c := AMap.find_of_mem hni.tnd hkc
      have hkn : k ≠ n := by
        intro e
        subst e
        obtain ⟨row, hrow, hid⟩ := hni.tloc
        rw [hfind] at hrow; cases hrow
        exact hcid hid
      -- `k` is remembered by gossip, hence a node of the network
      obtain ⟨V, hV⟩ := hni.row_known hkn hfind
      have hnet := netInv_sys _ hall
      have hgN : (runRev (Sys.netHist (sched ++ ops))).net.nodes.find n = some g := by
        rw [← Sys.runRev_net]; exact hg
      obtain ⟨H, O, hW⟩ := (hnet.node n g hgN).recv.known k V hV
      have hkNet : ∃ gk, (Sys.runRev (sched ++ ops)).net.nodes.find k = some gk := by
        rw [Sys.runRev_net]
        unfold GNet.world at hW
        cases hf : (runRev (Sys.netHist (sched ++ ops))).net.nodes.find k with
        | none => simp [hf] at hW
        | some gk => exact ⟨gk, rfl⟩
      obtain ⟨gk, hgk⟩ := hkNet
      obtain ⟨sdk, hsdk⟩ := hinv.side_of_net hgk
      have hxk : (Sys.runRev (sched ++ ops)).node k =
          some { mgr := { lbs := sdk.lbs, cluster := sdk.table, gossip := gk }, sync := sdk.sync, evs := sdk.evs } := by
        simp [Sys.node, hsdk, hgk]
      obtain ⟨row, hrow, hid, hst, hp, hes⟩ := hmirror n k _ _ (fun e => hkn e.symm) hx hxk
      simp only [] at hrow hp hes
      rw [hfind] at hrow; cases hrow
      refine ⟨hst, ?_, _, by rw [Sys.world_find hinv, hid, hxk]; rfl, fun e => ?_⟩
      · rw [hp, hid]
        refine Sys.world_listen hinv ?_ hsdk
        intro a b sda sdb hsa hsb hab
        obtain ⟨ga', hga'⟩ := hinv.net_of_side hsa
        obtain ⟨gb', hgb'⟩ := hinv.net_of_side hsb
        exact hh.distinct a b _ _ (by simp [Sys.node, hsa, hga']; rfl) (by simp [Sys.node, hsb, hgb']; rfl) hab
      · simp only [Cluster.Node.serves, hes e]
        by_cases h0 : (Upstream.Mgr.registry { lbs := sdk.lbs, cluster := sdk.table, gossip := gk } e).length = 0
        · simp [List.length_eq_zero_iff.mp h0]
        · have hne : Upstream.Mgr.registry { lbs := sdk.lbs, cluster := sdk.table, gossip := gk } e ≠ [] :=
            fun e0 => h0 (by rw [e0]; rfl)
          simp only [h0, if_false, hne, ne_eq, not_false_eq_true, iff_true, decide_eq_true_eq]
          omega
  · -- every node has a row for every other node
    intro n m k mk hm hk hkn
    rw [Sys.world_find hinv] at hm hk
    cases hx : (Sys.runRev (sched ++ ops)).node n with
    | none => rw [hx] at hm; cases hm
    | some x =>
      cases hxk : (Sys.runRev (sched ++ ops)).node k with
      | none => rw [hxk] at hk; cases hk
      | some xk =>
        rw [hx] at hm; simp only [Option.map_some, Option.some.injEq] at hm; subst hm
        obtain ⟨row, hrow, hid, _⟩ := hmirror n k x xk (fun e => hkn e.symm) hx hxk
        exact ⟨row, AMap.mem_vals.mpr ⟨k, AMap.mem_of_find hrow⟩, hid⟩

/-- **C01, second sentence, about the one system model.**  Let `ops` be any allowed history of the
whole system (boots, upstream connects and disconnects, gossip traffic with loss, duplication,
reordering and truncation, compactions, …) and `sched` a settle schedule: receive-side steps only,
containing the exchange `join r a` for every ordered pair of nodes, on a healthy cluster
(`SysHealthy`).  Then in the resulting state a client request for endpoint `e` entering at ANY node
is delivered to an upstream registered for `e` on some node if some node has one, and is answered
502 by the entry node if none has. -/
theorem C01_settled_system (ops sched : List SysOp) (hall : SysAllowed (sched ++ ops))
    (hq : ∀ op ∈ sched, op.quiet.isSome = true)
    (hjoins : ∀ r a, r ≠ a → ((Sys.runRev ops).node r).isSome = true → ((Sys.runRev ops).node a).isSome = true →
      ∃ now, SysOp.join r a true now ∈ sched)
    (hh : SysHealthy (Sys.runRev (sched ++ ops)))
    (lib : Lib) (entry : String) (x : SysNode) (hentry : (Sys.runRev (sched ++ ops)).node entry = some x)
    (r : Req) (hnf : r.forwarded = false) (e : String) (he : endpointOf lib r = some e) (choices : List Nat) :
    ((∃ k xk, (Sys.runRev (sched ++ ops)).node k = some xk ∧ xk.mgr.registry e ≠ []) →
        ∃ k xk u, (Sys.runRev (sched ++ ops)).node k = some xk ∧ u ∈ xk.mgr.registry e ∧
          (route lib (Sys.runRev (sched ++ ops)).world entry r choices).1.outcome = .served k e u) ∧
    ((∀ k xk, (Sys.runRev (sched ++ ops)).node k = some xk → xk.mgr.registry e = []) →
        (route lib (Sys.runRev (sched ++ ops)).world entry r choices).1 =
          { visited := [entry], via := [], outcome := .noUpstream entry }) := by
  have hinv := sysInv_runRev _ hall
  obtain ⟨hs, hng⟩ := C01_system_settles ops sched hall hq hjoins hh
  have hm : (Sys.runRev (sched ++ ops)).world.nodes.find entry = some x.mgr := by
    rw [Sys.world_find hinv, hentry]; rfl
  have hset := C01_settled lib _ hs hng entry x.mgr hm r hnf e he choices
  constructor
  · rintro ⟨k, xk, hk, hreg⟩
    obtain ⟨k', u, hout, hu⟩ := hset.1 ⟨k, by rw [Sys.world_reg hinv, hk]; exact hreg⟩
    rw [Sys.world_reg hinv] at hu
    cases hxk' : (Sys.runRev (sched ++ ops)).node k' with
    | none => rw [hxk'] at hu; simp at hu
    | some xk' =>
      rw [hxk'] at hu
      exact ⟨k', xk', u, hxk', hu, hout⟩
  · intro hnone
    apply hset.2
    intro k
    rw [Sys.world_reg hinv]
    cases hxk : (Sys.runRev (sched ++ ops)).node k with
    | none => rfl
    | some xk => exact hnone k xk hxk

/-! ### Non-vacuity on the concrete run of `Props/C04.lean` (`SysEx.hist`, `SysEx.sched`) -/

section SysExample
open Piko.Gossip Piko.SysEx

namespace SysEx

theorem registry_final {k : String} {x : SysNode} (h : (Sys.runRev (sched ++ hist)).node k = some x) (e : String) :
    x.mgr.registry e = if k = "n1" ∧ e = "foo" then [3] else if k = "n2" ∧ e = "foo" then [5] else [] := by
  rcases final_node h with ⟨rfl, hl, _, _⟩ | ⟨rfl, hl, _, _⟩ | ⟨rfl, hl, _, _⟩ <;>
    simp only [Upstream.Mgr.registry, hl, AMap.find_cons, AMap.find_nil] <;>
    (by_cases he : "foo" = e
     · subst he; simp
     · have he' : ¬ e = "foo" := fun h => he h.symm
       simp [he, he'])

theorem healthy : SysHealthy (Sys.runRev (sched ++ hist)) where
  notLeft := by
    intro n x h
    rcases final_node h with ⟨_, _, _, hl⟩ | ⟨_, _, _, hl⟩ | ⟨_, _, _, hl⟩ <;> exact hl
  reachable := fun n x a V h hV hne =>
    no_unreachable_of_noLiveEvs (sysInv_runRev _ allowed) (noLiveEvs_runRev _ allowed noLiveness) h hV hne
  addrs := by
    intro n x h
    rcases final_node h with ⟨_, _, hl, _⟩ | ⟨_, _, hl, _⟩ | ⟨_, _, hl, _⟩ <;> rw [hl] <;> decide
  small := by
    intro n x e h
    rw [registry_final h]
    split
    · simp
    · split <;> simp
  distinct := by
    intro a b xa xb ha hb hab
    rcases final_node ha with ⟨rfl, _, hla, _⟩ | ⟨rfl, _, hla, _⟩ | ⟨rfl, _, hla, _⟩ <;>
      rcases final_node hb with ⟨rfl, _, hlb, _⟩ | ⟨rfl, _, hlb, _⟩ | ⟨rfl, _, hlb, _⟩ <;>
      first
      | rfl
      | (rw [hla, hlb] at hab; revert hab; decide)

end SysEx

/-- **Non-vacuity of `C01_settled_system`** on the concrete run, for every choice `LookupEndpoint`
makes: a request for `foo` entering at `n0` (no upstream of its own) is delivered to upstream 3 on
`n1` or to upstream 5 on `n2`; a request for `bar` - registered on `n1` and withdrawn again - is
answered 502 by `n0`. -/
example (choices : List Nat) :
    (∃ k u, (route C01Ex.lib0 (Sys.runRev (sched ++ hist)).world "n0" { host := "foo.example.com" } choices).1.outcome =
        .served k "foo" u ∧ ((k = "n1" ∧ u = 3) ∨ (k = "n2" ∧ u = 5))) ∧
    (route C01Ex.lib0 (Sys.runRev (sched ++ hist)).world "n0" { host := "bar.example.com" } choices).1 =
      { visited := ["n0"], via := [], outcome := .noUpstream "n0" } := by
  obtain ⟨x0, h0⟩ := final_exists "n0" (Or.inl rfl)
  obtain ⟨x1, h1⟩ := final_exists "n1" (Or.inr (Or.inl rfl))
  constructor
  · have h := (C01_settled_system hist sched allowed quiet joins healthy C01Ex.lib0 "n0" x0 h0
      { host := "foo.example.com" } rfl "foo" (by decide) choices).1
      ⟨"n1", x1, h1, by rw [registry_final h1]; simp⟩
    obtain ⟨k, xk, u, hk, hu, hout⟩ := h
    refine ⟨k, u, hout, ?_⟩
    rw [registry_final hk] at hu
    split at hu
    · next hc => exact Or.inl ⟨hc.1, by simpa using hu⟩
    · split at hu
      · next hc => exact Or.inr ⟨hc.1, by simpa using hu⟩
      · simp at hu
  · refine (C01_settled_system hist sched allowed quiet joins healthy C01Ex.lib0 "n0" x0 h0
      { host := "bar.example.com" } rfl "bar" (by decide) choices).2 ?_
    intro k xk hk
    rw [registry_final hk]
    simp

end SysExample

end Piko
