import Proofs.Route
import PikoModel.Generated.Facts
/-!
# C01 — Requests reach only upstreams of the addressed endpoint, from any node

Model: `PikoModel/Proxy/Route.lean` (see `Props/C06.lean` for the quantifiers).  `endpointOf`
is `EndpointIDFromRequest` for the HTTP route (header first, else the first `Host` label;
`net.SplitHostPort`/`net.ParseIP` are the `Lib` parameters) and the URL path parameter for the
TCP route.  `World.reg w k e` are the upstreams registered at node `k` for endpoint `e`.

**Partial** with respect to the property statement: these are per-request statements over
the registries at the moment of `Select`.  The clause "for every interleaving of upstream
connects/disconnects with in-flight requests" is the runtime part (the manager mutex
serialises `Select` with `AddConn/RemoveConn`; a stream opened on a session that then closes
fails and is answered 502) and is not modelled here.
-/
namespace Piko
open Piko.Proxy Piko.Upstream

/-- The request emitted by the forwarding step names the same endpoint as the original, for
both routes and whatever the client put into `Connection`: `Host`, the path and the
`x-piko-endpoint` header are untouched (`removeConnectionOptions`, 1c64d44, keeps the header
out of the reverse proxy's hop-by-hop removal). -/
theorem C01_same_endpoint (lib : Lib) (r : Req) :
    endpointOf lib (forwardReq r) = endpointOf lib r ∧ (forwardReq r).host = r.host ∧
    (forwardReq r).kind = r.kind :=
  ⟨endpointOf_forwardReq lib r, rfl, rfl⟩

/-- For every view combination, placement, entry node, addressing mode and route: if the
request is delivered to upstream `u` on node `k` for endpoint `e`, then `e` is the endpoint the
request addresses, `u` is registered for exactly `e` on `k`, and `k` is the last node that
handled it; a request that addresses no endpoint is answered 400 by the entry node. -/
theorem C01_only_addressed (lib : Lib) (fuel : Nat) (w : World) (entry : String) (r : Req)
    (choices : List Nat) :
    (∀ k e u, (routeAt lib fuel w entry r choices).1.outcome = .served k e u →
        endpointOf lib r = some e ∧ u ∈ w.reg k e ∧
        (routeAt lib fuel w entry r choices).1.visited.getLast? = some k ∧ w.isGone k e u = false) ∧
    (∀ m, w.nodes.find entry = some m → endpointOf lib r = none → 1 ≤ fuel →
        (routeAt lib fuel w entry r choices).1 = { visited := [entry], via := [], outcome := .badRequest entry }) := by
  constructor
  · intro k e u h
    obtain ⟨h1, h2, h3, h4⟩ := routeAt_served lib fuel w entry r choices k e u h
    exact ⟨h2, h1, h3, h4⟩
  · intro m hn he hf
    obtain ⟨f, rfl⟩ : ∃ f, fuel = f + 1 := ⟨fuel - 1, by omega⟩
    exact routeAt_badRequest lib f w entry m r choices hn he

/-- Routing changes registrations in one way only: an upstream that answered `ErrGone` when it
was dialled is removed (`RemoveConn`) from the node that dialled it (`regAfter`); after any
other request the same upstreams are registered for the same endpoints on the same nodes (only
round-robin cursors moved).  In particular nothing is ever added, and nothing is removed
from any other node or endpoint. -/
theorem C01_registry_stable (lib : Lib) (fuel : Nat) (w : World) (entry : String) (r : Req)
    (choices : List Nat) (k e : String) :
    (routeAt lib fuel w entry r choices).2.reg k e =
      regAfter (routeAt lib fuel w entry r choices).1.outcome w k e ∧
    ((∀ k0 e0 u, (routeAt lib fuel w entry r choices).1.outcome ≠ .gone k0 e0 u) →
      (routeAt lib fuel w entry r choices).2.reg k e = w.reg k e) ∧
    (∀ x, x ∈ (routeAt lib fuel w entry r choices).2.reg k e → x ∈ w.reg k e) := by
  have h := (routeAt_world lib fuel w entry r choices).1 k e
  refine ⟨h, fun hn => ?_, fun x hx => ?_⟩
  · rw [h]; unfold regAfter
    split
    · rename_i k0 e0 u ho; exact absurd ho (hn k0 e0 u)
    · rfl
  · rw [h] at hx; unfold regAfter at hx
    split at hx
    · split at hx
      · exact List.mem_of_mem_erase hx
      · exact hx
    · exact hx

/-- Once routing information has settled (`Settled`: every row about another node is that
node's truth - active, its real address, serving `e` exactly when it has an upstream for `e` -
and every node knows every other), a client request for endpoint `e` entering at ANY node is
delivered to an upstream of `e` if some node has one, and answered 502 by the entry node if
none has (`NoGone`: no registered upstream has stopped accepting - one that has is removed by
the first request that dials it, which is answered 502). -/
theorem C01_settled (lib : Lib) (w : World) (hs : Settled w) (hng : NoGone w) (entry : String) (m : Mgr)
    (hn : w.nodes.find entry = some m) (r : Req) (hnf : r.forwarded = false) (e : String)
    (he : endpointOf lib r = some e) (choices : List Nat) :
    ((∃ k, w.reg k e ≠ []) →
        ∃ k u, (route lib w entry r choices).1.outcome = .served k e u ∧ u ∈ w.reg k e) ∧
    ((∀ k, w.reg k e = []) →
        (route lib w entry r choices).1 = { visited := [entry], via := [], outcome := .noUpstream entry }) :=
  route_settled lib w hs hng 1 entry m hn r hnf e he choices

/-- obligations on the two library-independent steps of `EndpointIDFromRequest`: the header
wins over `Host`; without a header an IP, a single label and an empty host give nothing. -/
theorem C01_endpoint_header_first (lib : Lib) (host h : String) (hne : h ≠ "") :
    endpointIDFromRequest lib host (some h) = h := by
  simp [endpointIDFromRequest, hdrGet, hne]

theorem C01_endpoint_host_rules (lib : Lib) (host : String) :
    (lib.parseIP ((lib.splitHostPort host).getD host) = true → endpointIDFromRequest lib host none = "") ∧
    (hasDot ((lib.splitHostPort host).getD host) = false → endpointIDFromRequest lib host none = "") ∧
    (endpointIDFromRequest lib host (some "") = endpointIDFromRequest lib host none) := by
  refine ⟨?_, ?_, ?_⟩
  · intro h; simp [endpointIDFromRequest, hdrGet, h]
  · intro h; simp [endpointIDFromRequest, hdrGet, h]
  · simp [endpointIDFromRequest, hdrGet]

/-- Obligation over the regenerated facts: `proxy.NewServer` registers exactly one route,
`GET /_piko/v1/tcp/:endpointID` (the `Kind.tcp` of the model, endpoint = the `endpointID` path
parameter), and sends everything else to `proxyHTTPRoute` (`Kind.http`). -/
theorem C01_facts_routes :
    (Facts.routes_proxy.map fun l => l.filter (fun ev => ev.kind == "route" || ev.kind == "noroute" || ev.kind == "group")) =
      some [⟨"group", "engine", "g1", "/_piko", ""⟩, ⟨"group", "g1", "g2", "/v1", ""⟩,
            ⟨"route", "g2", "GET", "/tcp/:endpointID", ""⟩, ⟨"noroute", "engine", "s.proxyHTTPRoute", "", ""⟩] := by decide

/-! ### non-vacuity -/
namespace C01Ex

def lib0 : Lib := { splitHostPort := fun _ => none, parseIP := fun _ => false }

def row (id addr : String) (eps : AMap String Int) (st : Cluster.Status := .active) : Cluster.Node :=
  { id := id, status := st, proxyAddr := addr, endpoints := eps }

def node (id : String) (rows : List Cluster.Node) (lbs : AMap String LB := []) : Mgr :=
  { lbs := lbs,
    cluster := { localId := id, nodes := (id, { id := id, status := .active }) :: rows.map (fun c => (c.id, c)) },
    gossip := default }

/-- three nodes, two endpoints: n1 has upstreams 3,4 of `foo` and 5 of `bar`; n2 has 6 of `bar`;
n0 has nothing.  n0's view is right about n1 and n2; n2 wrongly believes n0 serves `foo`. -/
def w : World :=
  { nodes := [("n0", node "n0" [row "n1" "a1" [("foo", 2), ("bar", 1)], row "n2" "a2" [("bar", 1)]]),
              ("n1", node "n1" [] [("foo", { ups := [3, 4] }), ("bar", { ups := [5] })]),
              ("n2", node "n2" [row "n0" "a0" [("foo", 1)]] [("bar", { ups := [6] })])],
    listen := [("a0", "n0"), ("a1", "n1"), ("a2", "n2")] }

/-- Host addressing: first label -/
example : (route lib0 w "n0" { host := "foo.piko.example.com" } []).1 =
    { visited := ["n0", "n1"], via := [("n0", "n1")], outcome := .served "n1" "foo" 3 } := by decide
/-- conflicting header and Host: the header wins, on the entry node and on the receiver; the
candidate chosen decides between n1 and n2, both deliver to a `bar` upstream -/
example : (route lib0 w "n0" { host := "foo.piko.example.com", epHeader := some "bar" } [0]).1 =
    { visited := ["n0", "n1"], via := [("n0", "n1")], outcome := .served "n1" "bar" 5 } := by decide
example : (route lib0 w "n0" { host := "foo.piko.example.com", epHeader := some "bar" } [1]).1 =
    { visited := ["n0", "n2"], via := [("n0", "n2")], outcome := .served "n2" "bar" 6 } := by decide
/-- `Connection: x-piko-endpoint` (regression of 1c64d44): still `bar` on the receiver -/
example : (route lib0 w "n0" { host := "foo.piko.example.com", epHeader := some "bar", conn := [epName] } [1]).1 =
    { visited := ["n0", "n2"], via := [("n0", "n2")], outcome := .served "n2" "bar" 6 } := by decide
/-- a wrong view: n2 forwards `foo` to n0, which has no upstream: 502, never another endpoint's upstream -/
example : (route lib0 w "n2" { host := "x", kind := .tcp "foo" } []).1 =
    { visited := ["n2", "n0"], via := [("n2", "n0")], outcome := .noUpstream "n0" } := by decide
/-- an IP literal as Host (the library says so) names no endpoint -/
example : (route { lib0 with parseIP := fun _ => true } w "n1" { host := "10.0.0.1" } []).1 =
    { visited := ["n1"], via := [], outcome := .badRequest "n1" } := by decide

/-- a settled two-node cluster: n1 has upstream 5 of `bar`, n0 knows it; n1 knows n0 has none -/
def settled2 : World :=
  { nodes := [("n0", node "n0" [row "n1" "a1" [("bar", 1)]]),
              ("n1", node "n1" [row "n0" "a0" []] [("bar", { ups := [5] })])],
    listen := [("a0", "n0"), ("a1", "n1")] }

private theorem find2 {n : String} {m : Mgr} (h : settled2.nodes.find n = some m) :
    (n = "n0" ∧ m = node "n0" [row "n1" "a1" [("bar", 1)]]) ∨
    (n = "n1" ∧ m = node "n1" [row "n0" "a0" []] [("bar", { ups := [5] })]) := by
  simp only [settled2, AMap.find_cons, AMap.find_nil] at h
  by_cases h0 : "n0" = n
  · subst h0; simp only [if_true, Option.some.injEq] at h; exact Or.inl ⟨rfl, h.symm⟩
  · simp only [h0, if_false] at h
    by_cases h1 : "n1" = n
    · subst h1; simp only [if_true, Option.some.injEq] at h; exact Or.inr ⟨rfl, h.symm⟩
    · simp [h1] at h

private theorem settled2_ok : Settled settled2 := by
  refine ⟨?_, ?_, ?_, ?_⟩
  · intro n m h
    rcases find2 h with ⟨rfl, rfl⟩ | ⟨rfl, rfl⟩ <;> rfl
  · intro n m h e lb hl
    rcases find2 h with ⟨rfl, rfl⟩ | ⟨rfl, rfl⟩
    · simp [node] at hl
    · simp only [node, AMap.find_cons, AMap.find_nil] at hl
      by_cases he : "bar" = e
      · simp only [he, if_true, Option.some.injEq] at hl; subst hl; simp [LB.Inv]
      · simp [he] at hl
  · intro n m h c hc hne
    rcases find2 h with ⟨rfl, rfl⟩ | ⟨rfl, rfl⟩
    · simp only [node, AMap.vals, List.map_cons, List.map_nil, List.mem_cons, List.not_mem_nil, or_false] at hc
      rcases hc with rfl | rfl
      · exact absurd rfl hne
      · refine ⟨rfl, by decide, node "n1" [row "n0" "a0" []] [("bar", { ups := [5] })], rfl, ?_⟩
        intro e
        simp only [row, Cluster.Node.serves, node, Mgr.registry, AMap.find_cons, AMap.find_nil]
        by_cases he : "bar" = e <;> simp [he]
    · simp only [node, AMap.vals, List.map_cons, List.map_nil, List.mem_cons, List.not_mem_nil, or_false] at hc
      rcases hc with rfl | rfl
      · exact absurd rfl hne
      · refine ⟨rfl, by decide, node "n0" [row "n1" "a1" [("bar", 1)]], rfl, ?_⟩
        intro e
        simp [row, Cluster.Node.serves, node, Mgr.registry]
  · intro n m k mk h hk hkn
    rcases find2 h with ⟨rfl, rfl⟩ | ⟨rfl, rfl⟩ <;> rcases find2 hk with ⟨rfl, rfl⟩ | ⟨rfl, rfl⟩
    · exact absurd rfl hkn
    · exact ⟨row "n1" "a1" [("bar", 1)], by simp [node, AMap.vals], rfl⟩
    · exact ⟨row "n0" "a0" [], by simp [node, AMap.vals], rfl⟩
    · exact absurd rfl hkn

example : Settled settled2 ∧ NoGone settled2 ∧
    (route lib0 settled2 "n0" { host := "bar.example.com" } []).1.outcome = .served "n1" "bar" 5 ∧
    (route lib0 settled2 "n1" { host := "foo.example.com" } []).1.outcome = .noUpstream "n1" :=
  ⟨settled2_ok, fun _ _ _ => rfl, by decide, by decide⟩

end C01Ex
end Piko
