import Proofs.Auth
/-!
# C09 — Protected ports run no route without a valid, unexpired, correctly signed token

Models: `PikoModel/Auth/Verifier.lean` (`JWTVerifier.Verify`, `MultiTenantVerifier.Verify`),
`PikoModel/Auth/Middleware.lean` (`middleware.Auth.Verify`, `parseToken`),
`PikoModel/Auth/Chain.lean` (gin chain construction and dispatch, the regenerated route
tables of `proxy.NewServer`, `upstream.NewServer`, `admin.NewServer` + `AddStatus`).
Cryptography and golang-jwt's parsing are parameters: `facts` gives the ground truth of
every token string (`TokenFacts`).
-/
namespace Piko
open Piko.Auth

/-- Soundness of acceptance.  If the middleware lets a request through (`c.Next()` with
token `t` in the context) then: the header it read — `x-piko-authorization` when present,
else `Authorization` — is literally `Bearer <token>`; the verifier that was asked is the
default one (no tenant header, no tenants configured) or the one of the named tenant; the
token parses; its signature was produced by the holder of a key `k` of **that** verifier,
the Go type of `k` is the one the token's `alg` family verifies with, and `k` is a key the
verifier is configured with (a static key only without JWKS, else a JWK of the set); it is
not expired, not before `nbf`, and matches the configured audience and issuer; and the
token handed to the routes carries exactly the signed `endpoints` claim and the tenant. -/
theorem C09_accept_sound (facts : String → TokenFacts) (m : MTCfg) (hwf : m.wf) (now : Int)
    (r : Req) (t : Token) (h : authorize facts m now r = .accept t) :
    ∃ ts owner c k kt,
      chosenHeader r = "Bearer " ++ ts ∧
      ((owner = "" ∧ r.tenant = "" ∧ m.tenants = [] ∧ c = m.dflt) ∨
        (owner = r.tenant ∧ r.tenant ≠ "" ∧ m.find r.tenant = some c)) ∧
      (facts ts).wellFormed = true ∧
      (facts ts).signer = .key owner k ∧ (algFam (facts ts).alg).accepts kt = true ∧ c.hasKey k kt ∧
      notExpired now (facts ts) = true ∧ nbfOk now (facts ts) = true ∧
      audOk c.audience (facts ts).aud = true ∧ issOk c.issuer (facts ts).iss = true ∧
      t.endpoints = (facts ts).endpoints ∧ t.tenant = r.tenant :=
  authorize_accept_sound facts m hwf now r t h

/-- The hypothesis `MTCfg.wf` of the soundness theorems is what production establishes:
`server/server.go` builds a port's verifiers with `Config.Load` + `NewJWTVerifier`, only when
the port's auth is `Enabled()` or it has tenants, and `Validate` requires every tenant's auth
to be enabled.  `Load` turns the secret string into an empty-but-non-nil byte slice when no
secret is given and `NewJWTVerifier` asks for `len > 0`: the HMAC key (and with it the HS*
methods) is configured exactly when a non-empty secret is, likewise RSA/ECDSA/JWKS. -/
theorem C09_wiring_wf (dflt : RawCfg) (tenants : List (String × RawCfg)) (m : MTCfg)
    (hval : ∀ p ∈ tenants, p.2.enabled = true) (h : wire dflt tenants = some (some m)) :
    m.wf ∧ (∀ (raw : RawCfg) (c : Cfg), raw.load = some c →
      c.hmac = raw.hmacSecret ∧ c.rsa = raw.rsaPEM ∧ c.ecdsa = raw.ecdsaPEM ∧ c.jwks = raw.jwksEndpoint) := by
  refine ⟨wire_wf hval h, ?_⟩
  intro raw c hl
  unfold RawCfg.load at hl
  split at hl
  · cases hl
  · simp only [Option.some.injEq] at hl
    subst hl
    exact ⟨rfl, rfl, rfl, rfl⟩

/-- what the four claim checks say, in plain arithmetic: `now < exp` when `exp` is present,
`nbf ≤ now` when `nbf` is present, the configured audience (if any) is one of a non-empty
`aud` list, the configured issuer (if any) equals `iss`. -/
theorem C09_claims_meaning (c : Cfg) (now : Int) (tok : TokenFacts) :
    (notExpired now tok = true ↔ ∀ e, tok.exp = some e → now < e) ∧
    (nbfOk now tok = true ↔ ∀ n, tok.nbf = some n → n ≤ now) ∧
    (audOk c.audience tok.aud = true ↔ c.audience = "" ∨ (tok.aud ≠ [] ∧ tok.aud ≠ [""] ∧ c.audience ∈ tok.aud)) ∧
    (issOk c.issuer tok.iss = true ↔ c.issuer = "" ∨ (tok.iss ≠ "" ∧ tok.iss = c.issuer)) := by
  refine ⟨?_, ?_, ?_, ?_⟩
  · unfold notExpired
    cases tok.exp <;> simp
  · unfold nbfOk
    cases tok.nbf <;> simp
  · unfold audOk
    simp [List.contains_iff_mem, and_assoc]
  · unfold issOk
    simp

/-- Middleware level (server level: `C09_reject_401_partial`).  Every request that reaches
the middleware and is not accepted is answered `401` by the middleware itself and the
rest of the chain (`c.Next()`) does not run — for the verifiers `server.go` can build
(`MTCfg.wf`: a verifier without any key is never consulted). -/
theorem C09_reject_401 (facts : String → TokenFacts) (m : MTCfg) (hwf : m.wf) (now : Int) (r : Req) :
    (∃ t, authorize facts m now r = .accept t) ∨
    (∃ reason, authorize facts m now r = .reject 401 reason ∧
      (authorize facts m now r).nextCalled = false) := by
  unfold authorize
  cases hp : parseToken r with
  | error e => exact Or.inr ⟨_, rfl, rfl⟩
  | ok ts =>
    simp only
    cases hv : verifyMT m now (facts ts) r.tenant with
    | ok t => exact Or.inl ⟨t, rfl⟩
    | panic => exact absurd hv (verifyMT_no_panic hwf now (facts ts) r.tenant)
    | err e =>
      right
      have hne := verifyMT_err_set m now (facts ts) r.tenant e hv
      cases e with
      | invalid => exact ⟨_, rfl, rfl⟩
      | expired => exact ⟨_, rfl, rfl⟩
      | unknownTenant => exact ⟨_, rfl, rfl⟩
      | other => exact absurd rfl hne

/-- The `500` branch of `Auth.Verify`.  (1) For **any** verifier result that is not a
token — also an error value the ladder does not know, from some other `auth.Verifier`
implementation — the middleware aborts: `Next` is not called; only the status differs
(`500` exactly for the unknown error).  (2) With piko's own verifiers the unknown error
cannot occur: `JWTVerifier.Verify` returns only `ErrInvalidToken`/`ErrExpiredToken` and
`MultiTenantVerifier.Verify` adds only `ErrUnknownTenant`, so the branch is unreachable. -/
theorem C09_500_unreachable :
    (∀ v : VResult, (∀ t, v ≠ .ok t) → (outcomeOf v).nextCalled = false) ∧
    (∀ v : VResult, (∃ reason, outcomeOf v = .reject 500 reason) ↔ v = .err .other) ∧
    (∀ (m : MTCfg) (now : Int) (tok : TokenFacts) (tenant : String),
      verifyMT m now tok tenant ≠ .err .other) ∧
    (∀ (facts : String → TokenFacts) (m : MTCfg) (now : Int) (r : Req) (reason : String),
      authorize facts m now r ≠ .reject 500 reason) := by
  refine ⟨?_, ?_, ?_, ?_⟩
  · intro v hv
    cases v with
    | ok t => exact absurd rfl (hv t)
    | err e => rfl
    | panic => rfl
  · intro v
    cases v with
    | ok t => simp [outcomeOf]
    | panic => simp [outcomeOf]
    | err e => cases e <;> simp [outcomeOf, statusOfErr]
  · intro m now tok tenant h
    exact verifyMT_err_set m now tok tenant .other h rfl
  · intro facts m now r reason h
    unfold authorize at h
    cases hp : parseToken r with
    | error e => simp [hp] at h
    | ok ts =>
      simp only [hp] at h
      cases hv : verifyMT m now (facts ts) r.tenant with
      | ok t => simp [hv, outcomeOf] at h
      | panic => simp [hv, outcomeOf] at h
      | err e =>
        have hne := verifyMT_err_set m now (facts ts) r.tenant e hv
        cases e with
        | other => exact hne rfl
        | invalid => simp [hv, outcomeOf, statusOfErr] at h
        | expired => simp [hv, outcomeOf, statusOfErr] at h
        | unknownTenant => simp [hv, outcomeOf, statusOfErr] at h

/-- Header precedence: when `x-piko-authorization` is present (non-empty) the decision is
the one for that header alone, whatever `Authorization` carries — a valid `Authorization`
does not rescue a bad `x-piko-authorization` and a bad one does not spoil a good one;
when it is absent the decision is the one for `Authorization`. -/
theorem C09_precedence (facts : String → TokenFacts) (m : MTCfg) (now : Int) (r : Req) :
    (r.xPikoAuth ≠ "" →
      authorize facts m now r = authorize facts m now { r with authorization := "" }) ∧
    (r.xPikoAuth = "" →
      authorize facts m now r =
        authorize facts m now { xPikoAuth := r.authorization, authorization := "", tenant := r.tenant }) := by
  constructor
  · intro hx
    unfold authorize parseToken chosenHeader
    simp [hx]
  · intro hx
    unfold authorize parseToken chosenHeader
    by_cases ha : r.authorization = "" <;> simp [hx, ha]

/-- gin's chain construction (`Use` appends to the engine/group handlers, `Group` copies
them, a route captures them at registration, `NoRoute`/`Use` rebuild the no-route chain
from the engine handlers): if, in a constructor's registration table, only engine-level
`Use` calls **of the observing middleware `Gin.passiveHandlers` (panic recovery)** precede
`Use(auth)` on the engine and `Use(auth)` sits under the guard `ga` alone, then whenever `ga` holds — for every valuation of all other guards — there is a fixed
list `P` of handlers (those `Use`d before it: the panic recovery) such that **every** route's
chain is `P ++ [auth] ++ … ++ [handler]` and the no-route chain is
`P ++ [auth] ++ … ++ noRoute handlers`: nothing but `P` ever runs ahead of the middleware. -/
theorem C09_chain (auth : Gin.H) (ga : String) (tbl : List Gin.GEv) (on : String → Bool)
    (hshape : Gin.authFirstG auth ga tbl = true) (hon : on ga = true) :
    ∃ P : List Gin.H,
      (∀ x ∈ P, x ∈ Gin.passiveHandlers) ∧
      (∀ r ∈ (Gin.build (Gin.enabled on tbl)).routes, ∃ mid h, r.chain = P ++ [auth] ++ mid ++ [h]) ∧
      (∃ rest, (Gin.build (Gin.enabled on tbl)).allNoRoute =
        P ++ [auth] ++ rest ++ (Gin.build (Gin.enabled on tbl)).noRoute) := by
  have h1 := Gin.authFirst_of_G auth ga on hon tbl hshape
  obtain ⟨P, hP, hi⟩ := Gin.authFirst_inv auth (Gin.enabled on tbl) {} rfl rfl rfl h1
  have hpass : ∀ x ∈ P, x ∈ Gin.passiveHandlers := by
    rw [hP]; simpa using Gin.preAuth_passive_of_G auth ga on hon tbl hshape
  refine ⟨P, hpass, hi.rts, ?_⟩
  obtain ⟨rest, hr⟩ := hi.eng
  exact ⟨rest, by unfold Gin.build; rw [hi.nor, ← hr]⟩

/-- the regenerated table of `proxy.NewServer` (+ `registerRoutes`) has that shape -/
theorem C09_chain_proxy :
    Gin.proxyTable.map (Gin.authFirstG Gin.authHandler Gin.authGuard) = some true := by decide

/-- the regenerated table of `upstream.NewServer` (+ `registerRoutes`) has that shape -/
theorem C09_chain_upstream :
    Gin.upstreamTable.map (Gin.authFirstG Gin.authHandler Gin.authGuard) = some true := by decide

/-- the regenerated table of `admin.NewServer` (+ `registerRoutes`: health, ready, metrics,
pprof) followed by every `AddStatus` call of `server/server.go` (each handler's
`Register` inlined) has that shape -/
theorem C09_chain_admin :
    Gin.adminFullTable.map (Gin.authFirstG Gin.authHandler Gin.authGuard) = some true := by decide

/-- every group/route event of the three tables names an existing router (the extractor
understood every registration) -/
theorem C09_tables_understood :
    (Gin.proxyTable.map fun t => (Gin.build (Gin.enabled (fun _ => true) t)).bad) = some false ∧
    (Gin.upstreamTable.map fun t => (Gin.build (Gin.enabled (fun _ => true) t)).bad) = some false ∧
    (Gin.adminFullTable.map fun t => (Gin.build (Gin.enabled (fun _ => true) t)).bad) = some false := by
  decide

/-- Hence on each of the three real servers, built with a verifier (`verifier != nil`), for
every setting of the other constructor guards (registry, cluster state): every registered
route and the no-route chain run the auth middleware before the route's handler. -/
theorem C09_chain_servers (tbl : List Gin.GEv)
    (htbl : Gin.proxyTable = some tbl ∨ Gin.upstreamTable = some tbl ∨ Gin.adminFullTable = some tbl)
    (on : String → Bool) (hon : on Gin.authGuard = true) :
    ∃ P : List Gin.H,
      (∀ x ∈ P, x ∈ Gin.passiveHandlers) ∧
      (∀ r ∈ (Gin.build (Gin.enabled on tbl)).routes,
        ∃ mid h, r.chain = P ++ [Gin.authHandler] ++ mid ++ [h]) ∧
      (∃ rest, (Gin.build (Gin.enabled on tbl)).allNoRoute =
        P ++ [Gin.authHandler] ++ rest ++ (Gin.build (Gin.enabled on tbl)).noRoute) := by
  apply C09_chain Gin.authHandler Gin.authGuard tbl on _ hon
  rcases htbl with h | h | h
  · have := C09_chain_proxy; rw [h] at this; simpa using this
  · have := C09_chain_upstream; rw [h] at this; simpa using this
  · have := C09_chain_admin; rw [h] at this; simpa using this

/-
FULL STATEMENT (does NOT hold for the code, see `C09_tsr_redirect_counterexample` and
KNOWN_FINDINGS F7 `redirect-before-auth`):

  on each of the three servers built with a verifier, for every method and path, a request
  that the middleware does not accept is answered `401` and no handler runs:
    ∀ method path, (∀ t, authorize facts m now r ≠ .accept t) →
      ∃ reason, respond engine authHandler (denyOf (authorize facts m now r)) method path = .aborted 401 reason

What is missing: gin's `RedirectTrailingSlash` (on by default, `gin.New()`) answers a path that
matches no route but whose trailing-slash sibling does with 301/307 inside
`handleHTTPRequest`, before any handler of any chain — so before the auth middleware.  No
handler runs, but the answer is not 401 and it tells an unauthenticated client that the
sibling path is routed.  The proved part below carries exactly that hypothesis.
-/

/-- Server level, partial.  On each of the three real servers built with a verifier (for
every setting of the other constructor guards) and for the verifiers `server.go` builds: a
request the middleware does not accept, **whose path is not answered by gin's
trailing-slash redirect**, is answered `401` by the middleware and nothing after the
middleware runs — whether the path is a registered route (any method) or falls to the
no-route chain (the proxy's HTTP route, the default 404). -/
theorem C09_reject_401_partial (tbl : List Gin.GEv)
    (htbl : Gin.proxyTable = some tbl ∨ Gin.upstreamTable = some tbl ∨ Gin.adminFullTable = some tbl)
    (on : String → Bool) (hon : on Gin.authGuard = true)
    (facts : String → TokenFacts) (m : MTCfg) (hwf : m.wf) (now : Int) (r : Req)
    (hrej : ∀ t, authorize facts m now r ≠ .accept t) (method path : String)
    (hnotsr : ∀ c, Gin.dispatch (Gin.build (Gin.enabled on tbl)) method path ≠ .redirect c) :
    ∃ reason, Gin.respond (Gin.build (Gin.enabled on tbl)) Gin.authHandler
      (denyOf (authorize facts m now r)) method path = .aborted 401 reason := by
  obtain ⟨P, _, hroutes, rest, hnr⟩ := C09_chain_servers tbl htbl on hon
  rcases C09_reject_401 facts m hwf now r with ⟨t, ht⟩ | ⟨reason, hr, _⟩
  · exact absurd ht (hrej t)
  · refine ⟨reason, ?_⟩
    have hmem : ∀ chain : List Gin.H, (∃ a b, chain = P ++ [Gin.authHandler] ++ a ++ b) →
        Gin.runChain Gin.authHandler (denyOf (authorize facts m now r)) chain = .aborted 401 reason := by
      intro chain hex
      obtain ⟨a, b, hc⟩ := hex
      have hm : Gin.authHandler ∈ chain := by
        rw [hc]; simp
      simp [Gin.runChain, hm, hr, denyOf]
    unfold Gin.respond
    cases hd : Gin.dispatch (Gin.build (Gin.enabled on tbl)) method path with
    | redirect c => exact absurd hd (hnotsr c)
    | route rt ps =>
      obtain ⟨mid, h, hc⟩ := hroutes rt (Gin.dispatch_route hd)
      exact hmem _ ⟨mid, [h], hc⟩
    | noRoute chain =>
      rw [Gin.dispatch_noRoute hd]
      exact hmem _ ⟨rest, _, hnr⟩

/-- The hypothesis of `C09_reject_401_partial` cannot be dropped: on the **regenerated**
tables of `admin.NewServer` and `upstream.NewServer`, with the verifier configured and a
request without any token (the middleware would answer 401 "missing authorization"),
`GET /debug/pprof` and `GET /piko/v1/upstream/ep/` are answered by the trailing-slash redirect
(301), not by the middleware.  (Witness on the real servers: corpus/auth/routes.ops.) -/
theorem C09_tsr_redirect_counterexample :
    ((Gin.adminTableFor []).map fun t =>
      Gin.respond (Gin.build (Gin.enabled (fun g => g = Gin.authGuard) t)) Gin.authHandler
        (some (401, "missing authorization")) "GET" "/debug/pprof") = some (.redirect 301) ∧
    (Gin.upstreamTable.map fun t =>
      Gin.respond (Gin.build (Gin.enabled (fun g => g = Gin.authGuard) t)) Gin.authHandler
        (some (401, "missing authorization")) "GET" "/piko/v1/upstream/ep/") = some (.redirect 301) := by
  decide

/-! ## Non-vacuity -/

section Examples

def exCfg : Cfg := { hmac := true, rsa := true, audience := "piko" }
def exM : MTCfg := { dflt := exCfg }

/-- "T1": RS256, signed by the default verifier's RSA key, exp in an hour, right audience -/
def exFacts (s : String) : TokenFacts :=
  if s = "T1" then
    { wellFormed := true, alg := "RS256", signer := .key "" .rsa, exp := some 3600, aud := ["piko"],
      endpoints := ["my-endpoint"] }
  else if s = "T2" then
    -- HS256 "signed" with the RSA public key bytes: no configured key verifies it
    { wellFormed := true, alg := "HS256", signer := .other, exp := some 3600, aud := ["piko"] }
  else if s = "T3" then
    { wellFormed := true, alg := "RS256", signer := .key "" .rsa, exp := some (-5), aud := ["piko"] }
  else {}

example : authorize exFacts exM 0 { xPikoAuth := "Bearer T1", authorization := "Bearer T2" } =
    .accept { expiry := some 3600, endpoints := ["my-endpoint"], tenant := "" } := by decide
example : authorize exFacts exM 0 { authorization := "Bearer T2" } = .reject 401 "invalid token" := by decide
example : authorize exFacts exM 0 { authorization := "Bearer T3" } = .reject 401 "expired token" := by decide
example : authorize exFacts exM 0 { authorization := "bearer T1" } = .reject 401 "unsupported auth type" := by decide
example : authorize exFacts exM 0 { authorization := "BearerT1" } = .reject 401 "invalid authorization" := by decide
example : authorize exFacts exM 0 { xPikoAuth := "Bearer T2", authorization := "Bearer T1" } =
    .reject 401 "invalid token" := by decide
example : exM.wf := by
  constructor
  · intro _; decide
  · intro p hp; cases hp
/-- a keyless verifier (never built by `server.go`) dereferences a nil RSA key -/
example : verify "" {} 0 (exFacts "T1") = .panic := by decide
/-- the proxy table is present and its single route and its no-route chain are protected -/
example : (Gin.proxyTable.map fun t =>
    ((Gin.build (Gin.enabled (fun _ => true) t)).routes.map (·.chain.take 2),
     (Gin.build (Gin.enabled (fun _ => true) t)).allNoRoute.take 2)) =
    some ([["gin.CustomRecoveryWithWriter()", "middleware.NewAuth().Verify"]],
          ["gin.CustomRecoveryWithWriter()", "middleware.NewAuth().Verify"]) := by decide

end Examples

end Piko
