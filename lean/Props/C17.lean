import Proofs.GossipLocal
/-!
# C17 — Own state is a last-write-wins map; compaction preserves live keys

Model: `PikoModel/Gossip/State.lean` (`UpsertLocal`, `DeleteLocal`, `LeaveLocal`,
`CompactLocal`).  The model is of the repaired `UpsertLocal` (D2).
-/
namespace Piko
open Piko.Gossip

/-- `UpsertLocal(k, v)` makes `k` show `v` (also when `v` is empty and `k` was deleted — the
D2 shape) and changes no other key. -/
theorem C17_upsert (s : CState) (k v k' : String) :
    liveValue (upsertLocal s k v) k' = if k = k' then some v else liveValue s k' :=
  liveValue_upsertLocal s k v k'

/-- `DeleteLocal(k)` hides `k` and changes no other key. -/
theorem C17_delete (s : CState) (k k' : String) :
    liveValue (deleteLocal s k) k' = if k = k' then none else liveValue s k' :=
  liveValue_deleteLocal s k k'

/-- non-vacuity (D2): upsert, delete, upsert of the empty value recreates the key -/
example : liveValue (upsertLocal (deleteLocal (upsertLocal (init "n" "a") "k" "v") "k") "k" "") "k" = some "" := by
  decide

end Piko
