import Proofs.C17
import PikoModel.Generated.Facts
/-!
# C17 — Own state is a last-write-wins map; compaction preserves live keys

Model: `PikoModel/Gossip/State.lean` (`UpsertLocal`, `DeleteLocal`, `LeaveLocal`,
`CompactLocal`).  The model is of the repaired `UpsertLocal` (D2).  Definitions used below
live in `Proofs/C17.lean`:

* `LocalOp` = `upsert k v | delete k | compact thr | leave`; `stepLocal`/`runLocal` run one
  operation / a history (`compactLocal = none`, the Go panic, is "unchanged" there and is shown
  impossible for a positive threshold by `C17_compact_no_panic`); `op.key` is the key whose
  entry the operation writes (`leftKey` for leave).
* `refMap ops` = the reference last-write-wins map of a history (upsert ↦ `some v`,
  delete ↦ `none`, compact/leave ↦ unchanged); `refRun m ops` the same from a start map `m`.
* `liveValue s k` = the value `k` shows in the node's own state (`none` = absent or tombstone).
* `OwnWF s` = the invariant of the own entry map that compaction relies on; `C17_wf_find`
  spells it out, `C17_wf_reach` shows it for every history.
* `deletedCount s` = the number of tombstones `CompactLocal` compares with its threshold.

Every theorem is over all states (where needed: all well-formed states, which includes
every reachable one), all keys, values, thresholds and operation lists.  Reserved keys:
the package does not reject `_internal:left` / `_internal:compact` as user keys; the
theorems say exactly which key must differ from which reserved key, and nothing is
assumed about the keys the history *writes* — only the key that is *read* is restricted.

"Observers that synchronise afterwards end up with the same live state" is
`C03_caught_up_is_exact` (an observer that has caught up with the owner's version holds
exactly the owner's entries) composed with `C17_compact` (those entries show the same live
values as before the compaction); it is not restated here.
-/
namespace Piko
open Piko.Gossip

/-! ## single operations on the live map -/

/-- `UpsertLocal(k, v)` makes `k` show `v` (also when `v` is empty and `k` was deleted — the
D2 shape) and changes no other key. -/
theorem C17_upsert (s : CState) (k v k' : String) :
    liveValue (upsertLocal s k v) k' = if k = k' then some v else liveValue s k' :=
  liveValue_upsertLocal s k v k'

/-- `DeleteLocal(k)` hides `k` and changes no other key. -/
theorem C17_delete (s : CState) (k k' : String) :
    liveValue (deleteLocal s k) k' = if k = k' then none else liveValue s k' :=
  liveValue_deleteLocal s k k'

/-- `LeaveLocal` changes the live value of no key other than `_internal:left`. -/
theorem C17_leave (s : CState) (k : String) (hk : k ≠ leftKey) :
    liveValue (leaveLocal s) k = liveValue s k :=
  liveValue_leaveLocal s hk

/-- `CompactLocal` (whenever it returns, i.e. does not panic) changes the live value of no
key other than `_internal:compact`: live keys keep their value, tombstones and absent keys
stay hidden. -/
theorem C17_compact (s : CState) (hwf : OwnWF s) (thr : Nat) (s' : CState)
    (hc : compactLocal s thr = some s') (k : String) (hk : k ≠ compactKey) :
    liveValue s' k = liveValue s k :=
  liveValue_compactLocal hwf hc hk

/-! ## the invariant -/

/-- `OwnWF` in terms of `find`: map keys are distinct; every entry is stored under its own
key and is not newer than the node version; versions are pairwise distinct; a non-empty map
has an entry carrying the node version. -/
theorem C17_wf_find (s : CState) (hwf : OwnWF s) :
    (own s).entries.NoDupKeys ∧
    (∀ k e, (own s).entries.find k = some e → e.key = k ∧ e.version ≤ (own s).version) ∧
    (∀ k1 k2 e1 e2, (own s).entries.find k1 = some e1 → (own s).entries.find k2 = some e2 →
      e1.version = e2.version → k1 = k2) ∧
    ((own s).entries ≠ [] → ∃ k e, (own s).entries.find k = some e ∧ e.version = (own s).version) := by
  refine ⟨hwf.nodup, fun k e hf => ⟨hwf.find_key hf, hwf.find_le hf⟩, ?_, ?_⟩
  · intro k1 k2 e1 e2 h1 h2 hv
    have := hwf.inj (k1, e1) (AMap.mem_of_find h1) (k2, e2) (AMap.mem_of_find h2) hv
    exact congrArg Prod.fst this
  · intro hne
    obtain ⟨p, hp, hv⟩ := hwf.top hne
    exact ⟨p.1, p.2, AMap.find_of_mem hwf.nodup hp, hv⟩

/-- The invariant holds in the initial state. -/
theorem C17_wf_init (id addr : String) : OwnWF (init id addr) := ownWF_init id addr

/-- Every operation preserves the invariant. -/
theorem C17_wf_step (s : CState) (hwf : OwnWF s) (op : LocalOp) : OwnWF (stepLocal s op) :=
  ownWF_stepLocal hwf op

/-- The invariant holds after every history. -/
theorem C17_wf_reach (id addr : String) (ops : List LocalOp) :
    OwnWF (runLocal (init id addr) ops) :=
  ownWF_runLocal (ownWF_init id addr) ops

/-! ## last write wins -/

/-- From any well-formed state, after any history (upserts, deletes, compactions at any
thresholds, leaves, in any order, with any keys and values) every non-reserved key shows what
the reference map started at the state's live values shows. -/
theorem C17_lww_from (s : CState) (hwf : OwnWF s) (ops : List LocalOp) (k : String)
    (hk : k ≠ leftKey ∧ k ≠ compactKey) :
    liveValue (runLocal s ops) k = refRun (liveValue s) ops k :=
  liveValue_runLocal hwf ops hk

/-- After any history from a fresh node every non-reserved key shows its most recent
upserted value, or nothing if it was never written or its most recent write is a delete. -/
theorem C17_lww (id addr : String) (ops : List LocalOp) (k : String)
    (hk : k ≠ leftKey ∧ k ≠ compactKey) :
    liveValue (runLocal (init id addr) ops) k = refMap ops k := by
  rw [liveValue_runLocal (ownWF_init id addr) ops hk]
  exact refRun_congr ops (fun k' _ => liveValue_init id addr k') k hk

/-- The left flag is set by `LeaveLocal` only and never cleared. -/
theorem C17_left (id addr : String) (ops : List LocalOp) :
    (own (runLocal (init id addr) ops)).left = decide (LocalOp.leave ∈ ops) := by
  have : own (init id addr) = { id := id, addr := addr } := by simp [own, init]
  rw [left_runLocal, this]
  simp

/-! ## version discipline -/

/-- An upsert, delete or leave that changes the live value of some key or the left flag
consumes exactly one version: the node version goes up by one, the entry the operation
writes carries the new node version, that version is the maximum over the map, and every
other entry (value, flags and version) is untouched. -/
theorem C17_fresh_version (s : CState) (hwf : OwnWF s) (op : LocalOp)
    (hop : ∀ thr, op ≠ .compact thr)
    (hch : (∃ k, liveValue (stepLocal s op) k ≠ liveValue s k) ∨
           (own (stepLocal s op)).left ≠ (own s).left) :
    (own (stepLocal s op)).version = (own s).version + 1 ∧
    (∃ e, (own (stepLocal s op)).entries.find op.key = some e ∧
          e.version = (own (stepLocal s op)).version) ∧
    (∀ k e, (own (stepLocal s op)).entries.find k = some e →
          e.version ≤ (own (stepLocal s op)).version) ∧
    (∀ k, k ≠ op.key → (own (stepLocal s op)).entries.find k = (own s).entries.find k) := by
  have hwf' := ownWF_stepLocal hwf op
  rcases stepLocal_cases s op hop with he | ⟨hf, _⟩
  · rw [he] at hch
    exact absurd hch (not_changed_self s)
  · obtain ⟨e, h1, h2⟩ := hf.touched
    exact ⟨hf.version, ⟨e, h1, by rw [h2, hf.version]⟩, fun k e hf' => hwf'.find_le hf', hf.others⟩

/-- An upsert, delete or leave that changes no live value and not the left flag leaves the
whole cluster state untouched (no version is consumed, nothing to gossip). -/
theorem C17_noop (s : CState) (op : LocalOp) (hop : ∀ thr, op ≠ .compact thr)
    (hsame : (∀ k, liveValue (stepLocal s op) k = liveValue s k) ∧
             (own (stepLocal s op)).left = (own s).left) :
    stepLocal s op = s := by
  rcases stepLocal_cases s op hop with he | ⟨_, hch⟩
  · exact he
  · rcases hch with ⟨k, hk⟩ | hl
    · exact absurd (hsame.1 k) hk
    · exact absurd hsame.2 hl

/-- Upsert of the value the key already shows: unchanged. -/
theorem C17_noop_upsert (s : CState) (k v : String) (h : liveValue s k = some v) :
    upsertLocal s k v = s := by
  rcases upsertLocal_cases s k v with ⟨_, e⟩ | ⟨hne, _⟩
  · exact e
  · exact absurd h hne

/-- Delete of an absent or already deleted key: unchanged. -/
theorem C17_noop_delete (s : CState) (k : String) (h : liveValue s k = none) :
    deleteLocal s k = s := by
  rcases deleteLocal_cases s k with ⟨_, e⟩ | ⟨e0, hf, hd, _⟩
  · exact e
  · simp [liveValue, hf, hd] at h

/-- A second leave: unchanged. -/
theorem C17_noop_leave (s : CState) (h : (own s).left = true) : leaveLocal s = s := by
  rcases leaveLocal_cases s with ⟨_, e⟩ | ⟨hl, _⟩
  · exact e
  · rw [h] at hl; cases hl

/-- Compaction with fewer tombstones than the threshold: unchanged. -/
theorem C17_noop_compact (s : CState) (thr : Nat) (h : deletedCount s < thr) :
    compactLocal s thr = some s :=
  compactLocal_below h

/-! ## what an effective compaction does -/

/-- After an effective compaction (tombstone count ≥ threshold, map non-empty) of a
well-formed state:
1. no entry is a tombstone;
2. the compaction marker is present, internal, carries the new node version, and its value
   is the decimal pre-compaction node version — which by `C17_wf_find` is the maximum entry
   version before the compaction (what the Go code reads from the last sorted entry);
3. every surviving entry has a version above the pre-compaction node version (so an
   observer that applies the marker drops exactly the old generation) and at most the new
   node version, which is strictly larger than the old one;
4. every live entry of a key other than the marker key survives, identical up to its version
   (in particular the `_internal:left` entry survives a compaction after leave);
5. the relative version order of live keys is preserved;
6. the left flag is untouched. -/
theorem C17_compact_effects (s : CState) (hwf : OwnWF s) (thr : Nat) (s' : CState)
    (hc : compactLocal s thr = some s') (hthr : thr ≤ deletedCount s)
    (hne : (own s).entries ≠ []) :
    (∀ k e, (own s').entries.find k = some e → e.deleted = false) ∧
    (∃ m, (own s').entries.find compactKey = some m ∧ m.value = toString (own s).version ∧
          m.internal = true ∧ m.version = (own s').version) ∧
    ((own s).version < (own s').version ∧
      ∀ k e, (own s').entries.find k = some e →
        (own s).version < e.version ∧ e.version ≤ (own s').version) ∧
    (∀ k e, k ≠ compactKey → (own s).entries.find k = some e → e.deleted = false →
      ∃ e', (own s').entries.find k = some e' ∧ e' = { e with version := e'.version }) ∧
    (∀ k1 k2 e1 e2 e1' e2', k1 ≠ compactKey → k2 ≠ compactKey →
      (own s).entries.find k1 = some e1 → (own s).entries.find k2 = some e2 →
      e1.deleted = false → e2.deleted = false → e1.version < e2.version →
      (own s').entries.find k1 = some e1' → (own s').entries.find k2 = some e2' →
      e1'.version < e2'.version) ∧
    (own s').left = (own s).left := by
  rw [compactLocal_effective hwf hthr hne] at hc
  have hs' : s' = setOwn s (compactedNode s (own s).version) := (Option.some.inj hc).symm
  subst hs'
  simp only [own_setOwn]
  refine ⟨?_, ?_, ⟨?_, ?_⟩, ?_, ?_, rfl⟩
  · intro k e hf
    rcases mem_compacted (AMap.mem_of_find hf) with h | ⟨_, e0, he0, h3, _, _⟩
    · cases h; rfl
    · have := (mem_compactKept.mp he0).2
      simp only [compactKeeps, Bool.and_eq_true, Bool.not_eq_true'] at this
      have h3' : e = { e0 with version := e.version } := h3
      rw [h3']; exact this.1
  · exact ⟨_, AMap.find_insert_self _ _ _, rfl, rfl, rfl⟩
  · show (own s).version < (own s).version + (compactKept s).length + 1
    omega
  · intro k e hf
    show _ ∧ e.version ≤ (own s).version + (compactKept s).length + 1
    rcases mem_compacted (AMap.mem_of_find hf) with h | ⟨_, _, _, _, h4, h5⟩
    · cases h; simp only; omega
    · simp only at h4 h5; omega
  · intro k e hk hf hd
    obtain ⟨v, _, _, h3⟩ := find_compacted_live hwf (own s).version hk hf hd
    exact ⟨_, h3, rfl⟩
  · intro k1 k2 e1 e2 e1' e2' hk1 hk2 hf1 hf2 hd1 hd2 hlt hf1' hf2'
    exact compacted_order hwf _ hk1 hk2 hf1 hf2 hd1 hd2 hlt hf1' hf2'

/-- The model reads the own map in list order and sorts it with a stable merge sort; the Go
code reads a `map` in random order and sorts with the unstable `sort.Slice`.  On a
well-formed state that makes no difference: **every** arrangement of the map's entries that
is sorted by version (`r` below: whatever Go produced) is the list the model compacts,
because versions are pairwise distinct. -/
theorem C17_compact_order_independent (s : CState) (hwf : OwnWF s) (r : List Entry)
    (hperm : r.Perm (own s).entries.vals)
    (hsorted : r.Pairwise (fun a b => a.version ≤ b.version)) :
    r = sortByVersion (own s).entries.vals :=
  eq_sortByVersion_of_sorted (fun _ ha _ hb hv => hwf.vals_inj ha hb hv) hperm hsorted

/-! ## `CompactLocal` does not panic in production -/

/-- `CompactLocal` panics (`entries[len(entries)-1]` on an empty slice — `none` in the
model) only when the own map is empty **and** the threshold is 0. -/
theorem C17_compact_no_panic (s : CState) (thr : Nat) (h : compactLocal s thr = none) :
    (own s).entries = [] ∧ thr = 0 :=
  compactLocal_eq_none h

/-- The production compaction threshold (`gossip.go: compactThreshold`), regenerated from
the Go source on every check, is a positive constant (100 on the pinned tree; its value is a
tuning knob no clause of the property depends on, its being non-zero is what excludes the
panic). -/
theorem C17_facts_compactThreshold : ∃ thr, Facts.compactThreshold = some thr ∧ 0 < thr := by decide

/-- With the production threshold `CompactLocal` returns in every state. -/
theorem C17_compact_no_panic_production (s : CState) (thr : Nat)
    (hthr : Facts.compactThreshold = some thr) : (compactLocal s thr).isSome = true := by
  obtain ⟨t, ht, hpos⟩ := C17_facts_compactThreshold
  rw [ht] at hthr
  have hEq : t = thr := Option.some.inj hthr
  subst hEq
  cases h : compactLocal s t with
  | some _ => rfl
  | none => have := (compactLocal_eq_none h).2; omega

/-! ## non-vacuity -/

/-- D2: upsert, delete, upsert of the empty value recreates the key -/
example : liveValue (upsertLocal (deleteLocal (upsertLocal (init "n" "a") "k" "v") "k") "k" "") "k" = some "" := by
  decide

/-- the same history through `runLocal`/`refMap`, with a leave in between; a reserved key
is written too (allowed by `C17_lww`, only the key read must be non-reserved) -/
example :
    liveValue (runLocal (init "n" "a")
      [.upsert "k" "v", .delete "k", .leave, .upsert leftKey "x", .upsert "k" ""]) "k" = some "" ∧
    refMap [.upsert "k" "v", .delete "k", .leave, .upsert leftKey "x", .upsert "k" ""] "k" = some "" ∧
    ("k" ≠ leftKey ∧ "k" ≠ compactKey) := by
  decide

/-- versions: the effective ops of `upsert k v; upsert k v; delete k; delete k; upsert k ""`
consume versions 1, 2, 3 and the two no-ops none -/
example :
    (own (runLocal (init "n" "a")
      [.upsert "k" "v", .upsert "k" "v", .delete "k", .delete "k", .upsert "k" ""])).version = 3 ∧
    (own (runLocal (init "n" "a")
      [.upsert "k" "v", .upsert "k" "v", .delete "k", .delete "k", .upsert "k" ""])).entries =
      [("k", { key := "k", value := "", version := 3 })] := by
  decide

/-- compaction: a state meeting the hypotheses of `C17_compact_effects` (one tombstone,
threshold 1, non-empty map; well-formed by `C17_wf_reach`) … -/
example :
    1 ≤ deletedCount (runLocal (init "n" "a") [.upsert "k" "v", .upsert "j" "w", .delete "k", .leave]) ∧
    (own (runLocal (init "n" "a") [.upsert "k" "v", .upsert "j" "w", .delete "k", .leave])).entries ≠ [] ∧
    (own (runLocal (init "n" "a") [.upsert "k" "v", .upsert "j" "w", .delete "k", .leave])).version = 4 := by
  decide

/-- … and what the model computes there: `j` (old version 2) and the left marker (old
version 4) are re-versioned 5, 6 in order, the tombstone of `k` is gone, the marker carries
"4" at version 7.  (`simp` rather than `decide`: `List.mergeSort` is defined by well-founded
recursion, which `decide` does not unfold.) -/
example :
    (compactLocal (runLocal (init "n" "a") [.upsert "k" "v", .upsert "j" "w", .delete "k", .leave]) 1).map
        (fun s => ((own s).version, (own s).entries)) =
      some (7, [(compactKey, { key := compactKey, value := "4", version := 7, internal := true }),
                ("j", { key := "j", value := "w", version := 5 }),
                (leftKey, { key := leftKey, value := "", version := 6, internal := true })]) := by
  have h : (own (runLocal (init "n" "a") [.upsert "k" "v", .upsert "j" "w", .delete "k", .leave])) =
      { id := "n", addr := "a", version := 4, left := true,
        entries := [(leftKey, { key := leftKey, value := "", version := 4, internal := true }),
                    ("k", { key := "k", value := "", version := 3, deleted := true }),
                    ("j", { key := "j", value := "w", version := 2 })] } := by decide
  rw [compactLocal_eq]
  simp only [deletedCount, compactedNode, compactKept, h]
  simp [AMap.vals, sortByVersion, List.mergeSort, List.MergeSort.Internal.splitInTwo,
    compactKeeps, rmap, reversion, AMap.insert, AMap.erase, leftKey, compactKey]
  decide

end Piko
