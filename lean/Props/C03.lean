import Props.C02
import Props.C13
import Proofs.JoinConv
/-!
# C03 — Gossip converges

What is proved (pull level, for every reachable owner/observer pair and every truncation):
a pull from a source that holds newer entries strictly advances the observer's version
whenever at least one entry fits (`C03_pull_progress`), never past the owner; a full pull
from the owner reaches the owner's version (`C03_full_pull_catches_up`); a caught-up view
is exactly the owner's state (`C03_caught_up_is_exact`, from C02's invariant); hence the
number of effective pulls is bounded by the version distance (`C03_bounded_partial`).
Fair random peer choice and digest shuffling are not modelled: "the schedule contains
pulls whose digest carries the node" is the hypothesis.  When the first outstanding entry
does not fit the packet no pull ever advances (`C03_oversize_blocks`) - known finding F3.
-/
namespace Piko
open Piko.Gossip

/-- one pull of observer view `V` from source node state `N` (the owner's own node or a third
party's view), keeping the first `m` entries of the delta (`m` = what fits the packet) -/
def pull (now : Nat) (N V : NodeSt) (m : Nat) : NodeSt :=
  (applyEntries now V ((deltaEntry N V.version).entries.take m)).1

/-- A caught-up view equals the owner's state: same keys, values, deletion markers and
versions. -/
theorem C03_caught_up_is_exact {ops : List Op} (h : AllowedRev ops) {r a : String} {V O : NodeSt}
    (ho : Observes (runRev ops) r a V O) (heq : V.version = O.version) (k : String) :
    V.entries.find k = O.entries.find k :=
  C02_caught_up_exact h ho heq k

/-- applying a non-empty, strictly version-sorted list of entries all newer than the view
(none of which aborts) ends at the last entry's version -/
theorem applyEntries_version_last (now : Nat) : ∀ (es : List Entry) (V : NodeSt) (H : List Entry) (O : NodeSt),
    OwnerInv H O → ViewInv H O V → ∀ v0, PktInv H O v0 es → v0 ≤ V.version → es ≠ [] →
    (∀ e ∈ es, V.version < e.version) →
    ∀ l, es.getLast? = some l → (applyEntries now V es).1.version = l.version := by
  intro es
  induction es with
  | nil => intro V H O _ _ v0 _ _ hne; exact absurd rfl hne
  | cons e es ih =>
    intro V H O ho hv v0 hp hb _ hnew l hl
    have he : e ∈ H := hp.genuine e (List.mem_cons_self ..)
    have hs := List.pairwise_cons.mp hp.sorted
    have hbetween : V.version < e.version → ∀ k e', O.entries.find k = some e' →
        V.version < e'.version → e'.version ≤ e.version → e' = e := by
      intro _ k e' hf h1 h2
      have := hp.complete k e' hf (by omega) ⟨e, List.mem_cons_self .., h2⟩
      rcases List.mem_cons.mp this with rfl | hmem
      · rfl
      · have := hs.1 e' hmem; omega
    obtain ⟨hv', hstop⟩ := applyEntry_viewInv now e ho hv he hbetween
    have hlt := hnew e (List.mem_cons_self ..)
    have hver : (applyEntry now V e).1.version = e.version := by
      unfold applyEntry
      have : ¬ e.version ≤ V.version := by omega
      simp only [this, if_false]
      repeat' split
      all_goals simp
    unfold applyEntries
    generalize hr : applyEntry now V e = r at hv' hstop hver
    obtain ⟨st', ev, stop⟩ := r
    simp only at hv' hstop hver
    subst hstop
    simp only [Bool.false_eq_true, if_false]
    cases es with
    | nil =>
      simp only [List.getLast?_singleton, Option.some.injEq] at hl
      subst hl
      simpa [applyEntries] using hver
    | cons e2 es2 =>
      have hl' : (e2 :: es2).getLast? = some l := by simpa [List.getLast?_cons_cons] using hl
      exact ih st' H O ho hv' e.version hp.tail (by omega) (by simp)
        (fun x hx => by rw [hver]; exact hs.1 x hx) l hl'

/-- **Progress.**  If the source holds at least one entry newer than the observer's version
and at least one entry fits (`m ≥ 1`), the pull strictly advances the observer's version of
that node - for every truncation point - and never beyond the source's newest entry. -/
theorem C03_pull_progress {H : List Entry} {O N V : NodeSt} (now : Nat) (ho : OwnerInv H O)
    (hv : ViewInv H O V) (hn : SrcOK H O N) (m : Nat) (hm : 1 ≤ m)
    (hnew : (deltaEntry N V.version).entries ≠ []) :
    V.version < (pull now N V m).version ∧ ViewInv H O (pull now N V m) := by
  have hp := (deltaEntry_pktInv ho hn V.version).take m
  have hne : (deltaEntry N V.version).entries.take m ≠ [] := by
    intro h
    rcases List.take_eq_nil_iff.mp h with h | h
    · omega
    · exact hnew h
  obtain ⟨l, hl⟩ : ∃ l, ((deltaEntry N V.version).entries.take m).getLast? = some l := by
    cases hh : ((deltaEntry N V.version).entries.take m).getLast? with
    | none => exact absurd (List.getLast?_eq_none_iff.mp hh) hne
    | some l => exact ⟨l, rfl⟩
  have hver := applyEntries_version_last now _ V H O ho hv V.version hp (Nat.le_refl _) hne hp.base l hl
  refine ⟨?_, applyEntries_viewInv now ho _ V V.version hv hp (Nat.le_refl _)⟩
  unfold pull
  rw [hver]
  exact hp.base l (List.mem_of_getLast? hl)

/-- **A full pull from the owner catches up**: if everything fits, the observer's version
becomes the owner's, hence (by `C03_caught_up_is_exact`) its view the owner's state. -/
theorem C03_full_pull_catches_up {H : List Entry} {O V : NodeSt} (now : Nat) (ho : OwnerInv H O)
    (hv : ViewInv H O V) (hlt : V.version < O.version) (m : Nat)
    (hm : (deltaEntry O V.version).entries.length ≤ m) (hH : H ≠ []) :
    (pull now O V m).version = O.version := by
  have hsrc := SrcOK.ofOwner ho
  have hp := deltaEntry_pktInv ho hsrc V.version
  obtain ⟨h0, hh0⟩ := List.exists_mem_of_ne_nil H hH
  obtain ⟨k, e, hk, hev⟩ := ho.top h0 hh0
  have hmem : e ∈ (deltaEntry O V.version).entries := by
    simp only [deltaEntry, mem_sortByVersion, List.mem_filter, decide_eq_true_eq]
    exact ⟨(AMap.mem_vals_iff ho.wf.nodup).mpr ⟨k, hk⟩, by omega⟩
  have hne : (deltaEntry O V.version).entries ≠ [] := List.ne_nil_of_mem hmem
  have htake : (deltaEntry O V.version).entries.take m = (deltaEntry O V.version).entries :=
    List.take_of_length_le hm
  obtain ⟨l, hl⟩ : ∃ l, (deltaEntry O V.version).entries.getLast? = some l := by
    cases hh : (deltaEntry O V.version).entries.getLast? with
    | none => exact absurd (List.getLast?_eq_none_iff.mp hh) hne
    | some l => exact ⟨l, rfl⟩
  unfold pull
  rw [htake, applyEntries_version_last now _ V H O ho hv V.version hp (Nat.le_refl _) hne hp.base l hl]
  -- the last entry of a sorted list is the maximum; e has the owner's version
  have hlmem := List.mem_of_getLast? hl
  have hle : l.version ≤ O.version := ho.hb l (hp.genuine l hlmem)
  have hge : e.version ≤ l.version := by
    rcases List.mem_iff_append.mp hmem with ⟨pre, post, hsplit⟩
    cases post with
    | nil =>
      rw [hsplit] at hl
      simp at hl
      rw [← hl]; exact Nat.le_refl _
    | cons p ps =>
      have hs := hp.sorted
      rw [hsplit] at hs hl
      have hlin : l ∈ p :: ps := by
        rw [List.getLast?_append_cons, List.getLast?_cons_cons] at hl
        · exact List.mem_of_getLast? (l := p :: ps) (by simpa using hl)
      have := (List.pairwise_append.mp hs).2.1
      have h2 := (List.pairwise_cons.mp this).1 l hlin
      omega
  omega

/-- **Bounded.**  Pulls never move a view past the owner and each effective pull advances it by
at least one version, so at most `O.version - V.version` effective pulls can happen before
the view is caught up (the "bounded number of exchanges"; partial: fairness of the schedule
is the hypothesis "the pulls happen", and each must carry at least one entry). -/
theorem C03_bounded_partial {H : List Entry} {O N V : NodeSt} (now : Nat) (ho : OwnerInv H O)
    (hv : ViewInv H O V) (hn : SrcOK H O N) (m : Nat) (hm : 1 ≤ m)
    (hnew : (deltaEntry N V.version).entries ≠ []) :
    O.version - (pull now N V m).version < O.version - V.version := by
  obtain ⟨h1, h2⟩ := C03_pull_progress now ho hv hn m hm hnew
  have := h2.le
  have := hv.le
  omega

/-- **Known finding F3.**  If not even the first outstanding entry fits the packet (`m = 0`:
only the node header fits), the pull changes nothing - for every later pull as well, since
the delta is recomputed from the same version: the oversize entry starves every later
update of that node. -/
theorem C03_oversize_blocks (now : Nat) (N V : NodeSt) : pull now N V 0 = V := by
  simp [pull, applyEntries]

/-- **One full stream exchange with the owner catches up (network level).**  In every state
reachable by an allowed history, if node `r` joins (full stream exchange, reply delivered) the
owner `a`, whose own state holds at least one entry, then afterwards `r`'s view of `a` is at the
owner's version - hence, by `C03_caught_up_is_exact` applied to the extended history, exactly
the owner's state.  Whatever `r` knew before (nothing, a stale view, a view learned through third
parties), and whatever else the reply carries. -/
theorem C03_join_catches_up {ops : List Op} (h : AllowedRev ops) {r a : String} {sr sa : CState}
    (hr : (runRev ops).net.nodes.find r = some sr) (ha : (runRev ops).net.nodes.find a = some sa)
    (hne : r ≠ a) (hent : (own sa).entries ≠ []) (now : Nat) :
    ∃ sr' V, ((runRev ops).step (.join r a true now)).net.nodes.find r = some sr' ∧
      sr'.nodes.find a = some V ∧ V.version = (own sa).version := by
  have hinv := netInv_runRev ops h
  obtain ⟨hG2, _⟩ := hinv.joinStep true now hr ha hne
  have hnodeR := hinv.node r sr hr
  have hnodeA := hinv.node a sa ha
  -- the state of `a` after the request half, and the reply
  generalize hdg : sortDigest (digest sr) = dg at hG2
  generalize hsa2 : (applyDigest (applyDelta now sa (localDelta sr)).1 dg).1 = sa2 at hG2
  have hnet : ((runRev ops).step (.join r a true now)).net.nodes =
      ((runRev ops).net.nodes.insert a sa2).insert r (applyDelta now sr (sortDelta (delta sa2 dg true))).1 := by
    simp [GNet.step, Net.step, hr, ha, hne, Net.setNode, hdg, hsa2]
  refine ⟨(applyDelta now sr (sortDelta (delta sa2 dg true))).1, ?_⟩
  have hfr : ((runRev ops).step (.join r a true now)).net.nodes.find r =
      some (applyDelta now sr (sortDelta (delta sa2 dg true))).1 := by rw [hnet]; simp
  -- facts about sa2
  have hf2 : (mkG (runRev ops) (withNodes (runRev ops).net ((runRev ops).net.nodes.insert a sa2))).net.nodes.find a = some sa2 := by
    simp [mkG]
  have hnode2 := hG2.node a sa2 hf2
  have hpres : OwnPresent sa := hnodeA.recv.ownPresent
  obtain ⟨ho1, hp1, _⟩ := C13_own_state_untouched now sa (localDelta sr) [] hpres
  obtain ⟨_, _, ho2, _, _⟩ := C13_own_state_untouched now (applyDelta now sa (localDelta sr)).1 [] dg hp1
  have hown2 : own sa2 = own sa := by rw [← hsa2, ho2, ho1]
  have hfind2 : sa2.nodes.find a = some (own sa) := by
    obtain ⟨n, hn⟩ := hnode2.recv.ownPresent
    rw [hnode2.lid] at hn
    have : own sa2 = n := by simp [own, hnode2.lid, hn]
    rw [hn, ← this, hown2]
  have howner : OwnerInv ((runRev ops).hist a) (own sa) := hnodeA.owner
  have hOid : (own sa).id = a := hnodeA.ownId
  -- the digest r sent
  obtain ⟨hdnd, hdcl, hdall⟩ := digest_spec hnodeR.nd hnodeR.recv.ids
  have hperm : dg.Perm (digest sr) := hdg ▸ List.mergeSort_perm _ _
  have hdgnd : (dg.map (·.id)).Nodup := (hperm.map _).nodup_iff.mpr hdnd
  have hmemdg : ∀ x, x ∈ dg ↔ x ∈ digest sr := fun x => hperm.mem_iff
  -- ids of the reply
  have hrnd : ((delta sa2 dg true).map (·.id)).Nodup := delta_ids_nodup hnode2.nd hnode2.recv.ids dg hdgnd
  have hrpw : (sortDelta (delta sa2 dg true)).Pairwise (fun x y => x.id ≠ y.id) := by
    have hp : (sortDelta (delta sa2 dg true)).Perm (delta sa2 dg true) := List.mergeSort_perm _ _
    have : ((sortDelta (delta sa2 dg true)).map (·.id)).Nodup := (hp.map _).nodup_iff.mpr hrnd
    exact (List.pairwise_map.mp this)
  have hrlid : sr.localId = r := hnodeR.lid
  -- top entry of the owner
  obtain ⟨p0, hp0⟩ := List.exists_mem_of_ne_nil _ hent
  have hf0 := AMap.findOfMem howner.wf.nodup (k := p0.1) (v := p0.2) hp0
  have hH : (runRev ops).hist a ≠ [] := List.ne_nil_of_mem (howner.cur _ _ hf0)
  obtain ⟨kt, et, hkt, hvt⟩ := howner.top _ (howner.cur _ _ hf0)
  have hetpos := howner.pos et (howner.cur _ _ hkt)
  cases hV : sr.nodes.find a with
  | some V =>
    have hview : ViewInv ((runRev ops).hist a) (own sa) V :=
      hnodeR.recv.views a V _ _ hV (by rw [hrlid]; exact fun e => hne e.symm) (by simp [GNet.world, ha])
    obtain ⟨de, hde, hdeid, hdever⟩ := hdall a V hV
    have hdedg : de ∈ dg := (hmemdg de).mpr hde
    by_cases hempty : (deltaEntry (own sa) V.version).entries.isEmpty = true
    · -- nothing newer: the reply has no entry about `a`, and the view is already caught up
      have hnone : ∀ y ∈ sortDelta (delta sa2 dg true), y.id ≠ a := by
        intro y hy hya
        have hy' : y ∈ delta sa2 dg true := mem_sortDelta.mp hy
        unfold delta at hy'
        rcases List.mem_append.mp hy' with h1 | h2
        · obtain ⟨de', hde', hsome⟩ := List.mem_filterMap.mp h1
          cases hf : sa2.nodes.find de'.id with
          | none => simp [hf] at hsome
          | some n =>
            simp only [hf] at hsome
            split at hsome
            · cases hsome
            · rename_i hne'
              simp only [Option.some.injEq] at hsome
              have hyid : y.id = de'.id := by rw [← hsome]; exact hnode2.recv.ids _ _ hf
              have hde'a : de'.id = a := hyid ▸ hya
              have : de' = de := by
                have h1 := List.inj_on_of_nodup_map hdgnd hde' hdedg (by rw [hde'a, hdeid])
                exact h1
              subst this
              rw [hde'a, hfind2] at hf; cases hf
              rw [hdever] at hne'
              exact hne' hempty
        · simp only [if_true, List.mem_map, List.mem_filter, Bool.not_eq_true', List.any_eq_false,
            decide_eq_true_eq] at h2
          obtain ⟨n, ⟨_, hn⟩, rfl⟩ := h2
          exact hn de hdedg (by rw [hdeid]; exact hya.symm)
      refine ⟨V, hfr, ?_, ?_⟩
      · rw [applyDelta_find_untouched now a _ sr hnone]; exact hV
      · have hle := hview.le
        have : (own sa).version ≤ V.version := by
          by_cases hlt : V.version < et.version
          · exfalso
            have : et ∈ (deltaEntry (own sa) V.version).entries := by
              simp only [deltaEntry, mem_sortByVersion, List.mem_filter, decide_eq_true_eq]
              exact ⟨(AMap.mem_vals_iff howner.wf.nodup).mpr ⟨kt, hkt⟩, hlt⟩
            rw [List.isEmpty_iff] at hempty
            rw [hempty] at this; cases this
          · omega
        omega
    · -- the reply carries the owner's outstanding entries, all of them
      have hx : deltaEntry (own sa) V.version ∈ sortDelta (delta sa2 dg true) := by
        apply mem_sortDelta.mpr
        unfold delta
        apply List.mem_append_left
        apply List.mem_filterMap.mpr
        refine ⟨de, hdedg, ?_⟩
        rw [hdeid, hfind2, hdever]
        simp [hempty]
      have hxid : (deltaEntry (own sa) V.version).id = a := hOid
      have := applyDelta_find_of_unique now _ sr _ hrpw hx (by rw [hxid, hrlid]; exact fun e => hne e.symm)
      rw [hxid, hV] at this
      simp only [Option.getD_some] at this
      refine ⟨_, hfr, this, ?_⟩
      have hne' : (deltaEntry (own sa) V.version).entries ≠ [] := by
        intro e; rw [e] at hempty; exact hempty rfl
      obtain ⟨e1, he1⟩ := List.exists_mem_of_ne_nil _ hne'
      have hp := deltaEntry_pktInv howner (SrcOK.ofOwner howner) V.version
      have hlt : V.version < (own sa).version := by
        have := hp.base e1 he1; have := howner.hb e1 (hp.genuine e1 he1); omega
      have := C03_full_pull_catches_up now howner hview hlt _ (Nat.le_refl _) hH
      simpa [pull] using this
  | none =>
    -- r did not know `a`: the reply carries the owner's full state
    have hnot : ∀ de ∈ dg, de.id ≠ a := by
      intro de hde hid
      obtain ⟨n, hn, _⟩ := hdcl de ((hmemdg de).mp hde)
      rw [hid, hV] at hn; cases hn
    have hx : deltaEntry (own sa) 0 ∈ sortDelta (delta sa2 dg true) := by
      apply mem_sortDelta.mpr
      unfold delta
      apply List.mem_append_right
      simp only [if_true, List.mem_map, List.mem_filter, Bool.not_eq_true', List.any_eq_false, decide_eq_true_eq]
      refine ⟨own sa, ⟨(AMap.mem_vals_iff hnode2.nd).mpr ⟨a, hfind2⟩, ?_⟩, rfl⟩
      intro de hde; rw [hOid]; exact hnot de hde
    have hxid : (deltaEntry (own sa) 0).id = a := hOid
    have := applyDelta_find_of_unique now _ sr _ hrpw hx (by rw [hxid, hrlid]; exact fun e => hne e.symm)
    rw [hxid, hV] at this
    simp only [Option.getD_none] at this
    refine ⟨_, hfr, this, ?_⟩
    have hfresh : ViewInv ((runRev ops).hist a) (own sa) ({ id := a, addr := (deltaEntry (own sa) 0).addr } : NodeSt) :=
      ViewInv.fresh howner _ _
    have hlt : ({ id := a, addr := (deltaEntry (own sa) 0).addr } : NodeSt).version < (own sa).version := by
      show 0 < (own sa).version
      omega
    have := C03_full_pull_catches_up now howner hfresh hlt _ (Nat.le_refl _) hH
    simpa [pull] using this

/-- ... and therefore exactly the owner's state: same keys, values, deletion markers and
versions (this is also "observers that synchronise afterwards end up with the same live state" of
C17: the owner may have compacted any number of times before). -/
theorem C03_join_exact {ops : List Op} (h : AllowedRev ops) {r a : String} {sr sa : CState}
    (hr : (runRev ops).net.nodes.find r = some sr) (ha : (runRev ops).net.nodes.find a = some sa)
    (hne : r ≠ a) (hent : (own sa).entries ≠ []) (now : Nat) :
    ∃ sr' sa' V, (runRev (.join r a true now :: ops)).net.nodes.find r = some sr' ∧
      (runRev (.join r a true now :: ops)).net.nodes.find a = some sa' ∧ own sa' = own sa ∧
      sr'.nodes.find a = some V ∧ ∀ k, V.entries.find k = (own sa).entries.find k := by
  obtain ⟨sr', V, h1, h2, h3⟩ := C03_join_catches_up h hr ha hne hent now
  have hall : AllowedRev (.join r a true now :: ops) := ⟨h, trivial⟩
  have hinv' := netInv_runRev _ hall
  -- the owner's node after the step
  have hinv := netInv_runRev ops h
  have hpres : OwnPresent sa := (hinv.node a sa ha).recv.ownPresent
  obtain ⟨ho1, hp1, _⟩ := C13_own_state_untouched now sa (localDelta sr) [] hpres
  obtain ⟨_, _, ho2, _, _⟩ := C13_own_state_untouched now (applyDelta now sa (localDelta sr)).1 []
    (sortDigest (digest sr)) hp1
  have hfa : (runRev (.join r a true now :: ops)).net.nodes.find a =
      some (applyDigest (applyDelta now sa (localDelta sr)).1 (sortDigest (digest sr))).1 := by
    have hne' : ¬ r = a := hne
    simp [runRev, GNet.step, Net.step, hr, ha, hne', Net.setNode, AMap.find_insert]
  refine ⟨sr', _, V, h1, hfa, by rw [ho2, ho1], h2, ?_⟩
  intro k
  have hobs : Observes (runRev (.join r a true now :: ops)) r a V (own sa) :=
    ⟨fun e => hne e.symm, ⟨sr', h1, h2⟩, ⟨_, hfa, by rw [ho2, ho1]⟩⟩
  exact C02_caught_up_exact hall hobs h3 k

end Piko
