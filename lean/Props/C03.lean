import Props.C02
import Props.C13
import Proofs.JoinConv
import Proofs.Converge
import Proofs.Round
/-!
# C03 — Gossip converges

What is proved (pull level, for every reachable owner/observer pair and every truncation):
a pull from a source that holds newer entries strictly advances the observer's version
whenever at least one entry fits (`C03_pull_progress`), never past the owner; a full pull
from the owner reaches the owner's version (`C03_full_pull_catches_up`); a caught-up view
is exactly the owner's state (`C03_caught_up_is_exact`, from C02's invariant); hence the
number of effective pulls is bounded by the version distance (`C03_bounded_partial`).
Fair random peer choice and digest shuffling are not modelled: "the schedule contains
pulls whose digest carries the node" is the hypothesis.  When the first outstanding entry
does not fit the packet no pull ever advances (`C03_oversize_blocks`) - known finding F3.
-/
namespace Piko
open Piko.Gossip

/-- one pull of observer view `V` from source node state `N` (the owner's own node or a third
party's view), keeping the first `m` entries of the delta (`m` = what fits the packet) -/
def pull (now : Nat) (N V : NodeSt) (m : Nat) : NodeSt :=
  (applyEntries now V ((deltaEntry N V.version).entries.take m)).1

/-- A caught-up view equals the owner's state: same keys, values, deletion markers and
versions. -/
theorem C03_caught_up_is_exact {ops : List Op} (h : AllowedRev ops) {r a : String} {V O : NodeSt}
    (ho : Observes (runRev ops) r a V O) (heq : V.version = O.version) (k : String) :
    V.entries.find k = O.entries.find k :=
  C02_caught_up_exact h ho heq k

/-- applying a non-empty, strictly version-sorted list of entries all newer than the view
(none of which aborts) ends at the last entry's version -/
theorem applyEntries_version_last (now : Nat) : ∀ (es : List Entry) (V : NodeSt) (H : List Entry) (O : NodeSt),
    OwnerInv H O → ViewInv H O V → ∀ v0, PktInv H O v0 es → v0 ≤ V.version → es ≠ [] →
    (∀ e ∈ es, V.version < e.version) →
    ∀ l, es.getLast? = some l → (applyEntries now V es).1.version = l.version := by
  intro es
  induction es with
  | nil => intro V H O _ _ v0 _ _ hne; exact absurd rfl hne
  | cons e es ih =>
    intro V H O ho hv v0 hp hb _ hnew l hl
    have he : e ∈ H := hp.genuine e (List.mem_cons_self ..)
    have hs := List.pairwise_cons.mp hp.sorted
    have hbetween : V.version < e.version → ∀ k e', O.entries.find k = some e' →
        V.version < e'.version → e'.version ≤ e.version → e' = e := by
      intro _ k e' hf h1 h2
      have := hp.complete k e' hf (by omega) ⟨e, List.mem_cons_self .., h2⟩
      rcases List.mem_cons.mp this with rfl | hmem
      · rfl
      · have := hs.1 e' hmem; omega
    obtain ⟨hv', hstop⟩ := applyEntry_viewInv now e ho hv he hbetween
    have hlt := hnew e (List.mem_cons_self ..)
    have hver : (applyEntry now V e).1.version = e.version := by
      unfold applyEntry
      have : ¬ e.version ≤ V.version := by omega
      simp only [this, if_false]
      repeat' split
      all_goals simp
    unfold applyEntries
    generalize hr : applyEntry now V e = r at hv' hstop hver
    obtain ⟨st', ev, stop⟩ := r
    simp only at hv' hstop hver
    subst hstop
    simp only [Bool.false_eq_true, if_false]
    cases es with
    | nil =>
      simp only [List.getLast?_singleton, Option.some.injEq] at hl
      subst hl
      simpa [applyEntries] using hver
    | cons e2 es2 =>
      have hl' : (e2 :: es2).getLast? = some l := by simpa [List.getLast?_cons_cons] using hl
      exact ih st' H O ho hv' e.version hp.tail (by omega) (by simp)
        (fun x hx => by rw [hver]; exact hs.1 x hx) l hl'

/-- **Progress.**  If the source holds at least one entry newer than the observer's version
and at least one entry fits (`m ≥ 1`), the pull strictly advances the observer's version of
that node - for every truncation point - and never beyond the source's newest entry. -/
theorem C03_pull_progress {H : List Entry} {O N V : NodeSt} (now : Nat) (ho : OwnerInv H O)
    (hv : ViewInv H O V) (hn : SrcOK H O N) (m : Nat) (hm : 1 ≤ m)
    (hnew : (deltaEntry N V.version).entries ≠ []) :
    V.version < (pull now N V m).version ∧ ViewInv H O (pull now N V m) := by
  have hp := (deltaEntry_pktInv ho hn V.version).take m
  have hne : (deltaEntry N V.version).entries.take m ≠ [] := by
    intro h
    rcases List.take_eq_nil_iff.mp h with h | h
    · omega
    · exact hnew h
  obtain ⟨l, hl⟩ : ∃ l, ((deltaEntry N V.version).entries.take m).getLast? = some l := by
    cases hh : ((deltaEntry N V.version).entries.take m).getLast? with
    | none => exact absurd (List.getLast?_eq_none_iff.mp hh) hne
    | some l => exact ⟨l, rfl⟩
  have hver := applyEntries_version_last now _ V H O ho hv V.version hp (Nat.le_refl _) hne hp.base l hl
  refine ⟨?_, applyEntries_viewInv now ho _ V V.version hv hp (Nat.le_refl _)⟩
  unfold pull
  rw [hver]
  exact hp.base l (List.mem_of_getLast? hl)

/-- **A full pull from the owner catches up**: if everything fits, the observer's version
becomes the owner's, hence (by `C03_caught_up_is_exact`) its view the owner's state. -/
theorem C03_full_pull_catches_up {H : List Entry} {O V : NodeSt} (now : Nat) (ho : OwnerInv H O)
    (hv : ViewInv H O V) (hlt : V.version < O.version) (m : Nat)
    (hm : (deltaEntry O V.version).entries.length ≤ m) (hH : H ≠ []) :
    (pull now O V m).version = O.version := by
  have hsrc := SrcOK.ofOwner ho
  have hp := deltaEntry_pktInv ho hsrc V.version
  obtain ⟨h0, hh0⟩ := List.exists_mem_of_ne_nil H hH
  obtain ⟨k, e, hk, hev⟩ := ho.top h0 hh0
  have hmem : e ∈ (deltaEntry O V.version).entries := by
    simp only [deltaEntry, mem_sortByVersion, List.mem_filter, decide_eq_true_eq]
    exact ⟨(AMap.mem_vals_iff ho.wf.nodup).mpr ⟨k, hk⟩, by omega⟩
  have hne : (deltaEntry O V.version).entries ≠ [] := List.ne_nil_of_mem hmem
  have htake : (deltaEntry O V.version).entries.take m = (deltaEntry O V.version).entries :=
    List.take_of_length_le hm
  obtain ⟨l, hl⟩ : ∃ l, (deltaEntry O V.version).entries.getLast? = some l := by
    cases hh : (deltaEntry O V.version).entries.getLast? with
    | none => exact absurd (List.getLast?_eq_none_iff.mp hh) hne
    | some l => exact ⟨l, rfl⟩
  unfold pull
  rw [htake, applyEntries_version_last now _ V H O ho hv V.version hp (Nat.le_refl _) hne hp.base l hl]
  -- the last entry of a sorted list is the maximum; e has the owner's version
  have hlmem := List.mem_of_getLast? hl
  have hle : l.version ≤ O.version := ho.hb l (hp.genuine l hlmem)
  have hge : e.version ≤ l.version := by
    rcases List.mem_iff_append.mp hmem with ⟨pre, post, hsplit⟩
    cases post with
    | nil =>
      rw [hsplit] at hl
      simp at hl
      rw [← hl]; exact Nat.le_refl _
    | cons p ps =>
      have hs := hp.sorted
      rw [hsplit] at hs hl
      have hlin : l ∈ p :: ps := by
        rw [List.getLast?_append_cons, List.getLast?_cons_cons] at hl
        · exact List.mem_of_getLast? (l := p :: ps) (by simpa using hl)
      have := (List.pairwise_append.mp hs).2.1
      have h2 := (List.pairwise_cons.mp this).1 l hlin
      omega
  omega

/-- **Bounded.**  Pulls never move a view past the owner and each effective pull advances it by
at least one version, so at most `O.version - V.version` effective pulls can happen before
the view is caught up (the "bounded number of exchanges"; partial: fairness of the schedule
is the hypothesis "the pulls happen", and each must carry at least one entry). -/
theorem C03_bounded_partial {H : List Entry} {O N V : NodeSt} (now : Nat) (ho : OwnerInv H O)
    (hv : ViewInv H O V) (hn : SrcOK H O N) (m : Nat) (hm : 1 ≤ m)
    (hnew : (deltaEntry N V.version).entries ≠ []) :
    O.version - (pull now N V m).version < O.version - V.version := by
  obtain ⟨h1, h2⟩ := C03_pull_progress now ho hv hn m hm hnew
  have := h2.le
  have := hv.le
  omega

/-- **Known finding F3.**  If not even the first outstanding entry fits the packet (`m = 0`:
only the node header fits), the pull changes nothing - for every later pull as well, since
the delta is recomputed from the same version: the oversize entry starves every later
update of that node. -/
theorem C03_oversize_blocks (now : Nat) (N V : NodeSt) : pull now N V 0 = V := by
  simp [pull, applyEntries]

/-- **One full stream exchange with the owner catches up (network level).**  In every state
reachable by an allowed history, if node `r` joins (full stream exchange, reply delivered) the
owner `a`, whose own state holds at least one entry, then afterwards `r`'s view of `a` is at the
owner's version - hence, by `C03_caught_up_is_exact` applied to the extended history, exactly
the owner's state.  Whatever `r` knew before (nothing, a stale view, a view learned through third
parties), and whatever else the reply carries. -/
theorem C03_join_catches_up {ops : List Op} (h : AllowedRev ops) {r a : String} {sr sa : CState}
    (hr : (runRev ops).net.nodes.find r = some sr) (ha : (runRev ops).net.nodes.find a = some sa)
    (hne : r ≠ a) (hent : (own sa).entries ≠ []) (now : Nat) :
    ∃ sr' V, ((runRev ops).step (.join r a true now)).net.nodes.find r = some sr' ∧
      sr'.nodes.find a = some V ∧ V.version = (own sa).version := by
  have hinv := netInv_runRev ops h
  obtain ⟨hG2, _⟩ := hinv.joinStep true now hr ha hne
  have hnodeR := hinv.node r sr hr
  have hnodeA := hinv.node a sa ha
  -- the state of `a` after the request half, and the reply
  generalize hdg : sortDigest (digest sr) = dg at hG2
  generalize hsa2 : (applyDigest (applyDelta now sa (localDelta sr)).1 dg).1 = sa2 at hG2
  have hnet : ((runRev ops).step (.join r a true now)).net.nodes =
      ((runRev ops).net.nodes.insert a sa2).insert r (applyDelta now sr (sortDelta (delta sa2 dg true))).1 := by
    simp [GNet.step, Net.step, hr, ha, hne, Net.setNode, hdg, hsa2]
  refine ⟨(applyDelta now sr (sortDelta (delta sa2 dg true))).1, ?_⟩
  have hfr : ((runRev ops).step (.join r a true now)).net.nodes.find r =
      some (applyDelta now sr (sortDelta (delta sa2 dg true))).1 := by rw [hnet]; simp
  -- facts about sa2
  have hf2 : (mkG (runRev ops) (withNodes (runRev ops).net ((runRev ops).net.nodes.insert a sa2))).net.nodes.find a = some sa2 := by
    simp [mkG]
  have hnode2 := hG2.node a sa2 hf2
  have hpres : OwnPresent sa := hnodeA.recv.ownPresent
  obtain ⟨ho1, hp1, _⟩ := C13_own_state_untouched now sa (localDelta sr) [] hpres
  obtain ⟨_, _, ho2, _, _⟩ := C13_own_state_untouched now (applyDelta now sa (localDelta sr)).1 [] dg hp1
  have hown2 : own sa2 = own sa := by rw [← hsa2, ho2, ho1]
  have hfind2 : sa2.nodes.find a = some (own sa) := by
    obtain ⟨n, hn⟩ := hnode2.recv.ownPresent
    rw [hnode2.lid] at hn
    have : own sa2 = n := by simp [own, hnode2.lid, hn]
    rw [hn, ← this, hown2]
  have howner : OwnerInv ((runRev ops).hist a) (own sa) := hnodeA.owner
  have hOid : (own sa).id = a := hnodeA.ownId
  -- the digest r sent
  obtain ⟨hdnd, hdcl, hdall⟩ := digest_spec hnodeR.nd hnodeR.recv.ids
  have hperm : dg.Perm (digest sr) := hdg ▸ List.mergeSort_perm _ _
  have hdgnd : (dg.map (·.id)).Nodup := (hperm.map _).nodup_iff.mpr hdnd
  have hmemdg : ∀ x, x ∈ dg ↔ x ∈ digest sr := fun x => hperm.mem_iff
  -- ids of the reply
  have hrnd : ((delta sa2 dg true).map (·.id)).Nodup := delta_ids_nodup hnode2.nd hnode2.recv.ids dg hdgnd
  have hrpw : (sortDelta (delta sa2 dg true)).Pairwise (fun x y => x.id ≠ y.id) := by
    have hp : (sortDelta (delta sa2 dg true)).Perm (delta sa2 dg true) := List.mergeSort_perm _ _
    have : ((sortDelta (delta sa2 dg true)).map (·.id)).Nodup := (hp.map _).nodup_iff.mpr hrnd
    exact (List.pairwise_map.mp this)
  have hrlid : sr.localId = r := hnodeR.lid
  -- top entry of the owner
  obtain ⟨p0, hp0⟩ := List.exists_mem_of_ne_nil _ hent
  have hf0 := AMap.findOfMem howner.wf.nodup (k := p0.1) (v := p0.2) hp0
  have hH : (runRev ops).hist a ≠ [] := List.ne_nil_of_mem (howner.cur _ _ hf0)
  obtain ⟨kt, et, hkt, hvt⟩ := howner.top _ (howner.cur _ _ hf0)
  have hetpos := howner.pos et (howner.cur _ _ hkt)
  cases hV : sr.nodes.find a with
  | some V =>
    have hview : ViewInv ((runRev ops).hist a) (own sa) V :=
      hnodeR.recv.views a V _ _ hV (by rw [hrlid]; exact fun e => hne e.symm) (by simp [GNet.world, ha])
    obtain ⟨de, hde, hdeid, hdever⟩ := hdall a V hV
    have hdedg : de ∈ dg := (hmemdg de).mpr hde
    by_cases hempty : (deltaEntry (own sa) V.version).entries.isEmpty = true
    · -- nothing newer: the reply has no entry about `a`, and the view is already caught up
      have hnone : ∀ y ∈ sortDelta (delta sa2 dg true), y.id ≠ a := by
        intro y hy hya
        have hy' : y ∈ delta sa2 dg true := mem_sortDelta.mp hy
        unfold delta at hy'
        rcases List.mem_append.mp hy' with h1 | h2
        · obtain ⟨de', hde', hsome⟩ := List.mem_filterMap.mp h1
          cases hf : sa2.nodes.find de'.id with
          | none => simp [hf] at hsome
          | some n =>
            simp only [hf] at hsome
            split at hsome
            · cases hsome
            · rename_i hne'
              simp only [Option.some.injEq] at hsome
              have hyid : y.id = de'.id := by rw [← hsome]; exact hnode2.recv.ids _ _ hf
              have hde'a : de'.id = a := hyid ▸ hya
              have : de' = de := by
                have h1 := List.inj_on_of_nodup_map hdgnd hde' hdedg (by rw [hde'a, hdeid])
                exact h1
              subst this
              rw [hde'a, hfind2] at hf; cases hf
              rw [hdever] at hne'
              exact hne' hempty
        · simp only [if_true, List.mem_map, List.mem_filter, Bool.not_eq_true', List.any_eq_false,
            decide_eq_true_eq] at h2
          obtain ⟨n, ⟨_, hn⟩, rfl⟩ := h2
          exact hn de hdedg (by rw [hdeid]; exact hya.symm)
      refine ⟨V, hfr, ?_, ?_⟩
      · rw [applyDelta_find_untouched now a _ sr hnone]; exact hV
      · have hle := hview.le
        have : (own sa).version ≤ V.version := by
          by_cases hlt : V.version < et.version
          · exfalso
            have : et ∈ (deltaEntry (own sa) V.version).entries := by
              simp only [deltaEntry, mem_sortByVersion, List.mem_filter, decide_eq_true_eq]
              exact ⟨(AMap.mem_vals_iff howner.wf.nodup).mpr ⟨kt, hkt⟩, hlt⟩
            rw [List.isEmpty_iff] at hempty
            rw [hempty] at this; cases this
          · omega
        omega
    · -- the reply carries the owner's outstanding entries, all of them
      have hx : deltaEntry (own sa) V.version ∈ sortDelta (delta sa2 dg true) := by
        apply mem_sortDelta.mpr
        unfold delta
        apply List.mem_append_left
        apply List.mem_filterMap.mpr
        refine ⟨de, hdedg, ?_⟩
        rw [hdeid, hfind2, hdever]
        simp [hempty]
      have hxid : (deltaEntry (own sa) V.version).id = a := hOid
      have := applyDelta_find_of_unique now _ sr _ hrpw hx (by rw [hxid, hrlid]; exact fun e => hne e.symm)
      rw [hxid, hV] at this
      simp only [Option.getD_some] at this
      refine ⟨_, hfr, this, ?_⟩
      have hne' : (deltaEntry (own sa) V.version).entries ≠ [] := by
        intro e; rw [e] at hempty; exact hempty rfl
      obtain ⟨e1, he1⟩ := List.exists_mem_of_ne_nil _ hne'
      have hp := deltaEntry_pktInv howner (SrcOK.ofOwner howner) V.version
      have hlt : V.version < (own sa).version := by
        have := hp.base e1 he1; have := howner.hb e1 (hp.genuine e1 he1); omega
      have := C03_full_pull_catches_up now howner hview hlt _ (Nat.le_refl _) hH
      simpa [pull] using this
  | none =>
    -- r did not know `a`: the reply carries the owner's full state
    have hnot : ∀ de ∈ dg, de.id ≠ a := by
      intro de hde hid
      obtain ⟨n, hn, _⟩ := hdcl de ((hmemdg de).mp hde)
      rw [hid, hV] at hn; cases hn
    have hx : deltaEntry (own sa) 0 ∈ sortDelta (delta sa2 dg true) := by
      apply mem_sortDelta.mpr
      unfold delta
      apply List.mem_append_right
      simp only [if_true, List.mem_map, List.mem_filter, Bool.not_eq_true', List.any_eq_false, decide_eq_true_eq]
      refine ⟨own sa, ⟨(AMap.mem_vals_iff hnode2.nd).mpr ⟨a, hfind2⟩, ?_⟩, rfl⟩
      intro de hde; rw [hOid]; exact hnot de hde
    have hxid : (deltaEntry (own sa) 0).id = a := hOid
    have := applyDelta_find_of_unique now _ sr _ hrpw hx (by rw [hxid, hrlid]; exact fun e => hne e.symm)
    rw [hxid, hV] at this
    simp only [Option.getD_none] at this
    refine ⟨_, hfr, this, ?_⟩
    have hfresh : ViewInv ((runRev ops).hist a) (own sa) ({ id := a, addr := (deltaEntry (own sa) 0).addr } : NodeSt) :=
      ViewInv.fresh howner _ _
    have hlt : ({ id := a, addr := (deltaEntry (own sa) 0).addr } : NodeSt).version < (own sa).version := by
      show 0 < (own sa).version
      omega
    have := C03_full_pull_catches_up now howner hfresh hlt _ (Nat.le_refl _) hH
    simpa [pull] using this

/-- ... and therefore exactly the owner's state: same keys, values, deletion markers and
versions (this is also "observers that synchronise afterwards end up with the same live state" of
C17: the owner may have compacted any number of times before). -/
theorem C03_join_exact {ops : List Op} (h : AllowedRev ops) {r a : String} {sr sa : CState}
    (hr : (runRev ops).net.nodes.find r = some sr) (ha : (runRev ops).net.nodes.find a = some sa)
    (hne : r ≠ a) (hent : (own sa).entries ≠ []) (now : Nat) :
    ∃ sr' sa' V, (runRev (.join r a true now :: ops)).net.nodes.find r = some sr' ∧
      (runRev (.join r a true now :: ops)).net.nodes.find a = some sa' ∧ own sa' = own sa ∧
      sr'.nodes.find a = some V ∧ ∀ k, V.entries.find k = (own sa).entries.find k := by
  obtain ⟨sr', V, h1, h2, h3⟩ := C03_join_catches_up h hr ha hne hent now
  have hall : AllowedRev (.join r a true now :: ops) := ⟨h, trivial⟩
  have hinv' := netInv_runRev _ hall
  -- the owner's node after the step
  have hinv := netInv_runRev ops h
  have hpres : OwnPresent sa := (hinv.node a sa ha).recv.ownPresent
  obtain ⟨ho1, hp1, _⟩ := C13_own_state_untouched now sa (localDelta sr) [] hpres
  obtain ⟨_, _, ho2, _, _⟩ := C13_own_state_untouched now (applyDelta now sa (localDelta sr)).1 []
    (sortDigest (digest sr)) hp1
  have hfa : (runRev (.join r a true now :: ops)).net.nodes.find a =
      some (applyDigest (applyDelta now sa (localDelta sr)).1 (sortDigest (digest sr))).1 := by
    have hne' : ¬ r = a := hne
    simp [runRev, GNet.step, Net.step, hr, ha, hne', Net.setNode, AMap.find_insert]
  refine ⟨sr', _, V, h1, hfa, by rw [ho2, ho1], h2, ?_⟩
  intro k
  have hobs : Observes (runRev (.join r a true now :: ops)) r a V (own sa) :=
    ⟨fun e => hne e.symm, ⟨sr', h1, h2⟩, ⟨_, hfa, by rw [ho2, ho1]⟩⟩
  exact C02_caught_up_exact hall hobs h3 k

/-! ## Network-level convergence: the closure over the whole network and a whole schedule

`Quiet op` (`Proofs/Converge.lean`): the operation is not a local write (`upsert`, `delete`,
`leave`, `compact`; `expire` is excluded by `StepAllowed` anyway).  `Op.writer op` is the node whose
own state a local write changes (`none` for quiet operations).  Everything below is over the same
quantifier as C02: any allowed history, then any allowed continuation (digests, deliveries of any
pooled packet at any truncation, stream joins/leaves with or without reply, liveness rounds, new
nodes) - **the schedule is a hypothesis** (which joins happen), fairness of the random peer choice
is not modelled. -/

/-- **A caught-up view stays caught up** over every allowed step that is not a local write of the
owner `a` itself (quiet steps, and local writes of every other node, the observer included): the
owner's own state `O` is untouched, the observer still remembers `a`, and its version of `a` is
still the owner's. -/
theorem C03_caught_up_stable {ops : List Op} (h : AllowedRev ops) {r a : String} {V O : NodeSt}
    (ho : Observes (runRev ops) r a V O) (heq : V.version = O.version)
    (op : Op) (hop : StepAllowed (runRev ops) op) (hq : op.writer ≠ some a) :
    ∃ V', Observes (runRev (op :: ops)) r a V' O ∧ V'.version = O.version := by
  have hinv := netInv_runRev ops h
  obtain ⟨sr, hsr, hV⟩ := ho.obs
  obtain ⟨sa, hsa, hO⟩ := ho.own
  obtain ⟨sr', hsr', hk, _⟩ := step_keeps hinv op hop hsr
  obtain ⟨sa', hsa', _, hown⟩ := step_keeps hinv op hop hsa
  obtain ⟨V', hV', hle⟩ := hk.mono a V hV
  have hobs : Observes (runRev (op :: ops)) r a V' O :=
    ⟨ho.ne, ⟨sr', hsr', hV'⟩, ⟨sa', hsa', by rw [hown hq]; exact hO⟩⟩
  refine ⟨V', hobs, ?_⟩
  have := (C02_version_bounds (ops := op :: ops) ⟨h, hop⟩ hobs).1
  omega

/-- ... in particular over every quiet step. -/
theorem C03_caught_up_stable_quiet {ops : List Op} (h : AllowedRev ops) {r a : String} {V O : NodeSt}
    (ho : Observes (runRev ops) r a V O) (heq : V.version = O.version)
    (op : Op) (hop : StepAllowed (runRev ops) op) (hq : Quiet op) :
    ∃ V', Observes (runRev (op :: ops)) r a V' O ∧ V'.version = O.version :=
  C03_caught_up_stable h ho heq op hop (hq.writer_ne a)

/-- ... and over a whole allowed continuation `sched` without a local write of the owner: the view
is then again exactly the owner's state. -/
theorem C03_caught_up_stable_run : ∀ (sched : List Op) {ops : List Op} {r a : String} {V O : NodeSt},
    AllowedRev (sched ++ ops) → (∀ op ∈ sched, op.writer ≠ some a) →
    Observes (runRev ops) r a V O → V.version = O.version →
    ∃ V', Observes (runRev (sched ++ ops)) r a V' O ∧ V'.version = O.version ∧
      ∀ k, V'.entries.find k = O.entries.find k
  | [], _, _, _, V, _, hall, _, ho, heq => ⟨V, ho, heq, C02_caught_up_exact hall ho heq⟩
  | op :: sched, _, _, _, _, _, hall, hq, ho, heq => by
    obtain ⟨V1, ho1, heq1, _⟩ := C03_caught_up_stable_run sched hall.1
      (fun o hm => hq o (List.mem_cons_of_mem _ hm)) ho heq
    obtain ⟨V2, ho2, heq2⟩ := C03_caught_up_stable hall.1 ho1 heq1 op hall.2 (hq op (List.mem_cons_self ..))
    exact ⟨V2, ho2, heq2, C02_caught_up_exact (ops := op :: (sched ++ _)) hall ho2 heq2⟩

/-- the induction behind `C03_converges`: once the schedule has contained the exchange
`join r a` (reply delivered), `r` observes `a` at `a`'s version, and `a`'s own state is the one it
had when the local writes of `a` stopped -/
theorem C03_converges_version : ∀ (sched : List Op) {ops : List Op} {r a : String} {sr sa : CState},
    AllowedRev (sched ++ ops) → (∀ op ∈ sched, op.writer ≠ some a) →
    (runRev ops).net.nodes.find r = some sr → (runRev ops).net.nodes.find a = some sa → r ≠ a →
    (own sa).entries ≠ [] → (∃ now, Op.join r a true now ∈ sched) →
    ∃ V, Observes (runRev (sched ++ ops)) r a V (own sa) ∧ V.version = (own sa).version
  | [], _, _, _, _, _, _, _, _, _, _, _, hj => by obtain ⟨_, hj⟩ := hj; cases hj
  | op :: sched, ops, r, a, sr, sa, hall, hq, hr, ha, hne, hent, hj => by
    obtain ⟨now, hj⟩ := hj
    have hq' : ∀ o ∈ sched, o.writer ≠ some a := fun o hm => hq o (List.mem_cons_of_mem _ hm)
    rcases List.mem_cons.mp hj with hop | hmem
    · -- this step is the exchange
      subst hop
      obtain ⟨sr1, hr1, _, _⟩ := run_keeps sched ops hall.1 hr
      obtain ⟨sa1, ha1, _, hown1⟩ := run_keeps sched ops hall.1 ha
      have hown1 := hown1 hq'
      obtain ⟨sr', V, h1, h2, h3⟩ := C03_join_catches_up hall.1 hr1 ha1 hne (by rw [hown1]; exact hent) now
      obtain ⟨sa', hsa', _, hown'⟩ := step_keeps (netInv_runRev _ hall.1) (.join r a true now) hall.2 ha1
      have hown' := hown' (by simp [Op.writer])
      exact ⟨V, ⟨fun e => hne e.symm, ⟨sr', h1, h2⟩, ⟨sa', hsa', by rw [hown', hown1]⟩⟩, by rw [h3, hown1]⟩
    · -- the exchange happened earlier; the view stays caught up
      obtain ⟨V1, ho1, heq1⟩ := C03_converges_version sched hall.1 hq' hr ha hne hent ⟨now, hmem⟩
      exact C03_caught_up_stable hall.1 ho1 heq1 op hall.2 (hq op (List.mem_cons_self ..))

/-- **Convergence of one ordered pair, owner quiet.**  `ops` is any allowed history, `sched` any
allowed continuation (latest first; the full history is `sched ++ ops`) that contains no local write
of `a` - other nodes, the observer included, may keep writing - and somewhere the full stream
exchange `join r a` with the reply delivered.  Then at the end `r`'s view of `a` is exactly `a`'s own
state (which is still the one `a` had after `ops`): same version, and key by key the same entry -
value, deletion marker, version - or the same absence. -/
theorem C03_converges_owner_quiet {ops sched : List Op} (hall : AllowedRev (sched ++ ops))
    {r a : String} {sr sa : CState} (hq : ∀ op ∈ sched, op.writer ≠ some a)
    (hr : (runRev ops).net.nodes.find r = some sr) (ha : (runRev ops).net.nodes.find a = some sa)
    (hne : r ≠ a) (hent : (own sa).entries ≠ []) {now : Nat} (hj : Op.join r a true now ∈ sched) :
    ∃ sr' sa' V, (runRev (sched ++ ops)).net.nodes.find r = some sr' ∧
      (runRev (sched ++ ops)).net.nodes.find a = some sa' ∧ own sa' = own sa ∧
      sr'.nodes.find a = some V ∧ V.version = (own sa).version ∧
      ∀ k, V.entries.find k = (own sa).entries.find k := by
  obtain ⟨V, hobs, heq⟩ := C03_converges_version sched hall hq hr ha hne hent ⟨now, hj⟩
  obtain ⟨sr', h1, h2⟩ := hobs.obs
  obtain ⟨sa', h3, h4⟩ := hobs.own
  exact ⟨sr', sa', V, h1, h3, h4, h2, heq, C02_caught_up_exact hall hobs heq⟩

/-- **Convergence of one ordered pair** after the local updates stopped: every operation of the
continuation `sched` is quiet (no `upsert/delete/leave/compact` anywhere), and `sched` contains
`join r a` with the reply delivered. -/
theorem C03_converges {ops sched : List Op} (hall : AllowedRev (sched ++ ops))
    (hq : ∀ op ∈ sched, Quiet op) {r a : String} {sr sa : CState}
    (hr : (runRev ops).net.nodes.find r = some sr) (ha : (runRev ops).net.nodes.find a = some sa)
    (hne : r ≠ a) (hent : (own sa).entries ≠ []) {now : Nat} (hj : Op.join r a true now ∈ sched) :
    ∃ sr' sa' V, (runRev (sched ++ ops)).net.nodes.find r = some sr' ∧
      (runRev (sched ++ ops)).net.nodes.find a = some sa' ∧ own sa' = own sa ∧
      sr'.nodes.find a = some V ∧ V.version = (own sa).version ∧
      ∀ k, V.entries.find k = (own sa).entries.find k :=
  C03_converges_owner_quiet hall (fun op hm => (hq op hm).writer_ne a) hr ha hne hent hj

/-- **The whole network converges.**  After the local updates stopped (`sched` is quiet), if the
schedule contains a full exchange for every ordered pair of distinct nodes that existed when the
updates stopped (and whose owner holds at least one entry), then at the end - simultaneously, in the
one final state `runRev (sched ++ ops)` - every such node's view of every other such node is exactly
that node's own state, and every own state is the one it was when the updates stopped.  Nodes
created by `node` operations inside `sched` are not quantified over. -/
theorem C03_converges_all {ops sched : List Op} (hall : AllowedRev (sched ++ ops))
    (hq : ∀ op ∈ sched, Quiet op)
    (hsched : ∀ r a sr sa, r ≠ a → (runRev ops).net.nodes.find r = some sr →
      (runRev ops).net.nodes.find a = some sa → (own sa).entries ≠ [] →
      ∃ now, Op.join r a true now ∈ sched) :
    ∀ r a sr sa, r ≠ a → (runRev ops).net.nodes.find r = some sr →
      (runRev ops).net.nodes.find a = some sa → (own sa).entries ≠ [] →
      ∃ sr' sa' V, (runRev (sched ++ ops)).net.nodes.find r = some sr' ∧
        (runRev (sched ++ ops)).net.nodes.find a = some sa' ∧ own sa' = own sa ∧
        sr'.nodes.find a = some V ∧ V.version = (own sa).version ∧
        ∀ k, V.entries.find k = (own sa).entries.find k := by
  intro r a sr sa hne hr ha hent
  obtain ⟨now, hj⟩ := hsched r a sr sa hne hr ha hent
  exact C03_converges hall hq hr ha hne hent hj

/-! ### non-vacuity: three nodes, writes, a delete and a compaction, then six joins

`c03Hist` (latest first): `n0` writes `k` and `j`, `n1` and `n2` write one key each, `n0` deletes
`k` and compacts (threshold 1): its own state is then the marker at version 5 and `j` re-versioned
4.  `c03Sched`: one full exchange for each of the six ordered pairs, nothing else. -/

def c03Hist : List Op :=
  [Op.compact "n0" 1, Op.delete "n0" "k", Op.upsert "n2" "y" "2", Op.upsert "n1" "x" "1",
   Op.upsert "n0" "j" "w", Op.upsert "n0" "k" "v",
   Op.node "n2" "a2", Op.node "n1" "a1", Op.node "n0" "a0"]
def c03Sched : List Op :=
  [Op.join "n2" "n1" true 6, Op.join "n2" "n0" true 5, Op.join "n1" "n2" true 4,
   Op.join "n1" "n0" true 3, Op.join "n0" "n2" true 2, Op.join "n0" "n1" true 1]

def c03N0 : NodeSt :=
  { id := "n0", addr := "a0", version := 5, entries :=
      [(compactKey, { key := compactKey, value := "3", version := 5, internal := true }),
       ("j", { key := "j", value := "w", version := 4 })] }
def c03N1 : NodeSt :=
  { id := "n1", addr := "a1", version := 1, entries := [("x", { key := "x", value := "1", version := 1 })] }
def c03N2 : NodeSt :=
  { id := "n2", addr := "a2", version := 1, entries := [("y", { key := "y", value := "2", version := 1 })] }

theorem c03Sched_quiet : ∀ op ∈ c03Sched, Quiet op := by decide

set_option maxRecDepth 8000 in
theorem c03Hist_nodes : (runRev c03Hist).net.nodes =
    [("n0", { localId := "n0", nodes := [("n0", c03N0)] }),
     ("n2", { localId := "n2", nodes := [("n2", c03N2)] }),
     ("n1", { localId := "n1", nodes := [("n1", c03N1)] })] := by
  simp [c03Hist, c03N0, c03N1, c03N2, runRev, GNet.step, Net.step, Net.setNode, Net.nodeByAddr, localOp, init, own,
    upsertLocal, deleteLocal, compactLocal, writeOwn, setOwn, sortByVersion, List.mergeSort,
    List.MergeSort.Internal.splitInTwo, compactKeeps, reversion, AMap.find, AMap.insert, AMap.erase, AMap.vals,
    compactKey]
  decide

set_option maxRecDepth 8000 in
theorem c03Allowed : AllowedRev (c03Sched ++ c03Hist) := by
  simp [c03Sched, c03Hist, AllowedRev, StepAllowed, leftKey, compactKey, runRev, GNet.step, Net.step, Net.setNode,
    Net.nodeByAddr, localOp, init, own, upsertLocal, deleteLocal, writeOwn, setOwn, AMap.find, AMap.insert, AMap.erase]

theorem c03Sched_complete : ∀ r a sr sa, r ≠ a → (runRev c03Hist).net.nodes.find r = some sr →
    (runRev c03Hist).net.nodes.find a = some sa → (own sa).entries ≠ [] →
    ∃ now, Op.join r a true now ∈ c03Sched := by
  intro r a sr sa hne hr ha _
  rw [c03Hist_nodes] at hr ha
  have hr' : r = "n0" ∨ r = "n2" ∨ r = "n1" := by
    simp only [AMap.find_cons, AMap.find_nil] at hr
    by_cases h0 : "n0" = r; · exact Or.inl h0.symm
    by_cases h2 : "n2" = r; · exact Or.inr (Or.inl h2.symm)
    by_cases h1 : "n1" = r; · exact Or.inr (Or.inr h1.symm)
    simp [h0, h1, h2] at hr
  have ha' : a = "n0" ∨ a = "n2" ∨ a = "n1" := by
    simp only [AMap.find_cons, AMap.find_nil] at ha
    by_cases h0 : "n0" = a; · exact Or.inl h0.symm
    by_cases h2 : "n2" = a; · exact Or.inr (Or.inl h2.symm)
    by_cases h1 : "n1" = a; · exact Or.inr (Or.inr h1.symm)
    simp [h0, h1, h2] at ha
  rcases hr' with rfl | rfl | rfl <;> rcases ha' with rfl | rfl | rfl <;>
    first
    | exact absurd rfl hne
    | exact ⟨_, by simp [c03Sched]; rfl⟩

/-- the concrete conclusion, obtained from `C03_converges_all`: at the end `n2` (which never talked to
`n0` before the updates stopped) sees `n0` at version 5, without the compacted key `k`, with `j` as
re-versioned by the compaction -/
example : ∃ sr V, (runRev (c03Sched ++ c03Hist)).net.nodes.find "n2" = some sr ∧
    sr.nodes.find "n0" = some V ∧ V.version = 5 ∧ V.entries.find "k" = none ∧
    V.entries.find "j" = some { key := "j", value := "w", version := 4 } := by
  obtain ⟨sr', _, V, h1, _, _, h2, h3, h4⟩ :=
    C03_converges_all c03Allowed c03Sched_quiet c03Sched_complete "n2" "n0"
      { localId := "n2", nodes := [("n2", c03N2)] } { localId := "n0", nodes := [("n0", c03N0)] }
      (by decide) (by rw [c03Hist_nodes]; simp [AMap.find]) (by rw [c03Hist_nodes]; simp [AMap.find])
      (by simp [own, c03N0, AMap.find])
  refine ⟨sr', V, h1, h2, ?_, ?_, ?_⟩
  · rw [h3]; simp [own, c03N0, AMap.find]
  · rw [h4]; simp [own, c03N0, AMap.find, compactKey]
  · rw [h4]; simp [own, c03N0, AMap.find, compactKey]

/-! ## Whom a gossip round talks to (`Gossip.gossipRound`, `pkg/gossip/gossip.go`)

The convergence theorems above take "the pulls happen" as their schedule.  The code's part of
that schedule is peer selection: one uniformly drawn live peer and one uniformly drawn unreachable
peer per round (`nodes[rand.Int() % len(nodes)]`; the draws are the parameters `r₁ r₂`). -/

/-- A round sends exactly one digest request to a live peer if there is any, and one to an
unreachable peer if there is any; every target is a remembered remote node, and a node that has
left is targeted only while it is (also) flagged unreachable. -/
theorem C03_round_targets (s : CState) (r₁ r₂ : Nat) :
    (roundTargets s r₁ r₂).length =
      (if liveNodes s = [] then 0 else 1) + (if unreachableNodes s = [] then 0 else 1) ∧
    ∀ n ∈ roundTargets s r₁ r₂, n ∈ s.nodes.vals ∧ n.id ≠ s.localId ∧ (n.left = true → n.unreachable = true) := by
  refine ⟨length_roundTargets s r₁ r₂, ?_⟩
  intro n hn
  rcases mem_roundTargets.mp hn with h | h
  · obtain ⟨h1, h2, _, h4⟩ := mem_liveNodes.mp (pickNode_mem h)
    exact ⟨h1, h2, fun hl => by rw [h4] at hl; cases hl⟩
  · obtain ⟨h1, h2, h3⟩ := mem_unreachableNodes.mp (pickNode_mem h)
    exact ⟨h1, h2, fun _ => h3⟩

/-- **No live peer is excluded by the selection**: for every live peer there is a value of the
first draw (its index; likewise every number congruent to it modulo the number of live peers)
for which the round contacts it, whatever the second draw is.  With a uniform `rand.Int()` every
live peer is therefore contacted with probability `1 / #live` per round: the fairness the
convergence theorems assume is the scheduler's, not a restriction of the selection. -/
theorem C03_round_fair (s : CState) (n : NodeSt) (h : n ∈ liveNodes s) :
    ∃ i, i < (liveNodes s).length ∧ ∀ r₁ r₂, r₁ % (liveNodes s).length = i → n ∈ roundTargets s r₁ r₂ := by
  obtain ⟨i, hi, hp⟩ := pickNode_onto h
  refine ⟨i, hi, fun r₁ r₂ hr => mem_roundTargets.mpr (Or.inl ?_)⟩
  rw [← pickNode_mod, hr]; exact hp

/-- **Unreachable peers keep being probed**: a node flagged unreachable (two healthy nodes that
suspect each other, say) is still contacted - by the second draw - so that it can be heard from
again (C11: "restored if it is heard from again"). -/
theorem C03_round_probes_unreachable (s : CState) (n : NodeSt) (h : n ∈ unreachableNodes s) :
    ∃ j, j < (unreachableNodes s).length ∧
      ∀ r₁ r₂, r₂ % (unreachableNodes s).length = j → n ∈ roundTargets s r₁ r₂ := by
  obtain ⟨j, hj, hp⟩ := pickNode_onto h
  refine ⟨j, hj, fun r₁ r₂ hr => mem_roundTargets.mpr (Or.inr ?_)⟩
  rw [← pickNode_mod, hr]; exact hp

/-- non-vacuity: three remote nodes, one of them unreachable - the round contacts one of the two
live ones (both draws occur) and the unreachable one -/
example :
    let s := (updateLiveness (applyDigest (init "n" "a")
      [⟨"x", "ax", 0, false⟩, ⟨"y", "ay", 0, false⟩, ⟨"z", "az", 0, false⟩]).1 (fun id => id = "y") 7).1
    (roundTargets s 0 0).map (·.id) = ["z", "y"] ∧ (roundTargets s 1 5).map (·.id) = ["x", "y"] := by
  decide

end Piko
