import Props.C02
import Props.C13
import Proofs.JoinConv
import Proofs.Converge
import Proofs.Round
import Proofs.RoundConv
/-!
# C03 — Gossip converges

What is proved (pull level, for every reachable owner/observer pair and every truncation):
a pull from a source that holds newer entries strictly advances the observer's version
whenever at least one entry fits (`C03_pull_progress`), never past the owner; a full pull
from the owner reaches the owner's version (`C03_full_pull_catches_up`); a caught-up view
is exactly the owner's state (`C03_caught_up_is_exact`, from C02's invariant); hence the
number of effective pulls is bounded by the version distance (`C03_bounded_partial`).
Fair random peer choice and digest shuffling are not modelled: "the schedule contains
pulls whose digest carries the node" is the hypothesis.  When the first outstanding entry
does not fit the packet no pull ever advances (`C03_oversize_blocks`) - known finding F3.
-/
namespace Piko
open Piko.Gossip

/-- one pull of observer view `V` from source node state `N` (the owner's own node or a third
party's view), keeping the first `m` entries of the delta (`m` = what fits the packet) -/
def pull (now : Nat) (N V : NodeSt) (m : Nat) : NodeSt :=
  (applyEntries now V ((deltaEntry N V.version).entries.take m)).1

/-- A caught-up view equals the owner's state: same keys, values, deletion markers and
versions. -/
theorem C03_caught_up_is_exact {ops : List Op} (h : AllowedRev ops) {r a : String} {V O : NodeSt}
    (ho : Observes (runRev ops) r a V O) (heq : V.version = O.version) (k : String) :
    V.entries.find k = O.entries.find k :=
  C02_caught_up_exact h ho heq k

/-- applying a non-empty, strictly version-sorted list of entries all newer than the view
(none of which aborts) ends at the last entry's version -/
theorem applyEntries_version_last (now : Nat) : ∀ (es : List Entry) (V : NodeSt) (H : List Entry) (O : NodeSt),
    OwnerInv H O → ViewInv H O V → ∀ v0, PktInv H O v0 es → v0 ≤ V.version → es ≠ [] →
    (∀ e ∈ es, V.version < e.version) →
    ∀ l, es.getLast? = some l → (applyEntries now V es).1.version = l.version := by
  intro es
  induction es with
  | nil => intro V H O _ _ v0 _ _ hne; exact absurd rfl hne
  | cons e es ih =>
    intro V H O ho hv v0 hp hb _ hnew l hl
    have he : e ∈ H := hp.genuine e (List.mem_cons_self ..)
    have hs := List.pairwise_cons.mp hp.sorted
    have hbetween : V.version < e.version → ∀ k e', O.entries.find k = some e' →
        V.version < e'.version → e'.version ≤ e.version → e' = e := by
      intro _ k e' hf h1 h2
      have := hp.complete k e' hf (by omega) ⟨e, List.mem_cons_self .., h2⟩
      rcases List.mem_cons.mp this with rfl | hmem
      · rfl
      · have := hs.1 e' hmem; omega
    obtain ⟨hv', hstop⟩ := applyEntry_viewInv now e ho hv he hbetween
    have hlt := hnew e (List.mem_cons_self ..)
    have hver : (applyEntry now V e).1.version = e.version := by
      unfold applyEntry
      have : ¬ e.version ≤ V.version := by omega
      simp only [this, if_false]
      repeat' split
      all_goals simp
    unfold applyEntries
    generalize hr : applyEntry now V e = r at hv' hstop hver
    obtain ⟨st', ev, stop⟩ := r
    simp only at hv' hstop hver
    subst hstop
    simp only [Bool.false_eq_true, if_false]
    cases es with
    | nil =>
      simp only [List.getLast?_singleton, Option.some.injEq] at hl
      subst hl
      simpa [applyEntries] using hver
    | cons e2 es2 =>
      have hl' : (e2 :: es2).getLast? = some l := by simpa [List.getLast?_cons_cons] using hl
      exact ih st' H O ho hv' e.version hp.tail (by omega) (by simp)
        (fun x hx => by rw [hver]; exact hs.1 x hx) l hl'

/-- **Progress.**  If the source holds at least one entry newer than the observer's version
and at least one entry fits (`m ≥ 1`), the pull strictly advances the observer's version of
that node - for every truncation point - and never beyond the source's newest entry. -/
theorem C03_pull_progress {H : List Entry} {O N V : NodeSt} (now : Nat) (ho : OwnerInv H O)
    (hv : ViewInv H O V) (hn : SrcOK H O N) (m : Nat) (hm : 1 ≤ m)
    (hnew : (deltaEntry N V.version).entries ≠ []) :
    V.version < (pull now N V m).version ∧ ViewInv H O (pull now N V m) := by
  have hp := (deltaEntry_pktInv ho hn V.version).take m
  have hne : (deltaEntry N V.version).entries.take m ≠ [] := by
    intro h
    rcases List.take_eq_nil_iff.mp h with h | h
    · omega
    · exact hnew h
  obtain ⟨l, hl⟩ : ∃ l, ((deltaEntry N V.version).entries.take m).getLast? = some l := by
    cases hh : ((deltaEntry N V.version).entries.take m).getLast? with
    | none => exact absurd (List.getLast?_eq_none_iff.mp hh) hne
    | some l => exact ⟨l, rfl⟩
  have hver := applyEntries_version_last now _ V H O ho hv V.version hp (Nat.le_refl _) hne hp.base l hl
  refine ⟨?_, applyEntries_viewInv now ho _ V V.version hv hp (Nat.le_refl _)⟩
  unfold pull
  rw [hver]
  exact hp.base l (List.mem_of_getLast? hl)

/-- **A full pull from the owner catches up**: if everything fits, the observer's version
becomes the owner's, hence (by `C03_caught_up_is_exact`) its view the owner's state. -/
theorem C03_full_pull_catches_up {H : List Entry} {O V : NodeSt} (now : Nat) (ho : OwnerInv H O)
    (hv : ViewInv H O V) (hlt : V.version < O.version) (m : Nat)
    (hm : (deltaEntry O V.version).entries.length ≤ m) (hH : H ≠ []) :
    (pull now O V m).version = O.version := by
  have hsrc := SrcOK.ofOwner ho
  have hp := deltaEntry_pktInv ho hsrc V.version
  obtain ⟨h0, hh0⟩ := List.exists_mem_of_ne_nil H hH
  obtain ⟨k, e, hk, hev⟩ := ho.top h0 hh0
  have hmem : e ∈ (deltaEntry O V.version).entries := by
    simp only [deltaEntry, mem_sortByVersion, List.mem_filter, decide_eq_true_eq]
    exact ⟨(AMap.mem_vals_iff ho.wf.nodup).mpr ⟨k, hk⟩, by omega⟩
  have hne : (deltaEntry O V.version).entries ≠ [] := List.ne_nil_of_mem hmem
  have htake : (deltaEntry O V.version).entries.take m = (deltaEntry O V.version).entries :=
    List.take_of_length_le hm
  obtain ⟨l, hl⟩ : ∃ l, (deltaEntry O V.version).entries.getLast? = some l := by
    cases hh : (deltaEntry O V.version).entries.getLast? with
    | none => exact absurd (List.getLast?_eq_none_iff.mp hh) hne
    | some l => exact ⟨l, rfl⟩
  unfold pull
  rw [htake, applyEntries_version_last now _ V H O ho hv V.version hp (Nat.le_refl _) hne hp.base l hl]
  -- the last entry of a sorted list is the maximum; e has the owner's version
  have hlmem := List.mem_of_getLast? hl
  have hle : l.version ≤ O.version := ho.hb l (hp.genuine l hlmem)
  have hge : e.version ≤ l.version := by
    rcases List.mem_iff_append.mp hmem with ⟨pre, post, hsplit⟩
    cases post with
    | nil =>
      rw [hsplit] at hl
      simp at hl
      rw [← hl]; exact Nat.le_refl _
    | cons p ps =>
      have hs := hp.sorted
      rw [hsplit] at hs hl
      have hlin : l ∈ p :: ps := by
        rw [List.getLast?_append_cons, List.getLast?_cons_cons] at hl
        · exact List.mem_of_getLast? (l := p :: ps) (by simpa using hl)
      have := (List.pairwise_append.mp hs).2.1
      have h2 := (List.pairwise_cons.mp this).1 l hlin
      omega
  omega

/-- **Bounded.**  Pulls never move a view past the owner and each effective pull advances it by
at least one version, so at most `O.version - V.version` effective pulls can happen before
the view is caught up (the "bounded number of exchanges"; partial: fairness of the schedule
is the hypothesis "the pulls happen", and each must carry at least one entry). -/
theorem C03_bounded_partial {H : List Entry} {O N V : NodeSt} (now : Nat) (ho : OwnerInv H O)
    (hv : ViewInv H O V) (hn : SrcOK H O N) (m : Nat) (hm : 1 ≤ m)
    (hnew : (deltaEntry N V.version).entries ≠ []) :
    O.version - (pull now N V m).version < O.version - V.version := by
  obtain ⟨h1, h2⟩ := C03_pull_progress now ho hv hn m hm hnew
  have := h2.le
  have := hv.le
  omega

/-- **Known finding F3.**  If not even the first outstanding entry fits the packet (`m = 0`:
only the node header fits), the pull changes nothing - for every later pull as well, since
the delta is recomputed from the same version: the oversize entry starves every later
update of that node. -/
theorem C03_oversize_blocks (now : Nat) (N V : NodeSt) : pull now N V 0 = V := by
  simp [pull, applyEntries]

/-- **One full stream exchange with the owner catches up (network level).**  In every state
reachable by an allowed history, if node `r` joins (full stream exchange, reply delivered) the
owner `a`, whose own state holds at least one entry, then afterwards `r`'s view of `a` is at the
owner's version - hence, by `C03_caught_up_is_exact` applied to the extended history, exactly
the owner's state.  Whatever `r` knew before (nothing, a stale view, a view learned through third
parties), and whatever else the reply carries. -/
theorem C03_join_catches_up {ops : List Op} (h : AllowedRev ops) {r a : String} {sr sa : CState}
    (hr : (runRev ops).net.nodes.find r = some sr) (ha : (runRev ops).net.nodes.find a = some sa)
    (hne : r ≠ a) (hent : (own sa).entries ≠ []) (now : Nat) :
    ∃ sr' V, ((runRev ops).step (.join r a true now)).net.nodes.find r = some sr' ∧
      sr'.nodes.find a = some V ∧ V.version = (own sa).version := by
  have hinv := netInv_runRev ops h
  obtain ⟨hG2, _⟩ := hinv.joinStep true now hr ha hne
  have hnodeR := hinv.node r sr hr
  have hnodeA := hinv.node a sa ha
  -- the state of `a` after the request half, and the reply
  generalize hdg : sortDigest (digest sr) = dg at hG2
  generalize hsa2 : (applyDigest (applyDelta now sa (localDelta sr)).1 dg).1 = sa2 at hG2
  have hnet : ((runRev ops).step (.join r a true now)).net.nodes =
      ((runRev ops).net.nodes.insert a sa2).insert r (applyDelta now sr (sortDelta (delta sa2 dg true))).1 := by
    simp [GNet.step, Net.step, hr, ha, hne, Net.setNode, hdg, hsa2]
  refine ⟨(applyDelta now sr (sortDelta (delta sa2 dg true))).1, ?_⟩
  have hfr : ((runRev ops).step (.join r a true now)).net.nodes.find r =
      some (applyDelta now sr (sortDelta (delta sa2 dg true))).1 := by rw [hnet]; simp
  -- facts about sa2
  have hf2 : (mkG (runRev ops) (withNodes (runRev ops).net ((runRev ops).net.nodes.insert a sa2))).net.nodes.find a = some sa2 := by
    simp [mkG]
  have hnode2 := hG2.node a sa2 hf2
  have hpres : OwnPresent sa := hnodeA.recv.ownPresent
  obtain ⟨ho1, hp1, _⟩ := C13_own_state_untouched now sa (localDelta sr) [] hpres
  obtain ⟨_, _, ho2, _, _⟩ := C13_own_state_untouched now (applyDelta now sa (localDelta sr)).1 [] dg hp1
  have hown2 : own sa2 = own sa := by rw [← hsa2, ho2, ho1]
  have hfind2 : sa2.nodes.find a = some (own sa) := by
    obtain ⟨n, hn⟩ := hnode2.recv.ownPresent
    rw [hnode2.lid] at hn
    have : own sa2 = n := by simp [own, hnode2.lid, hn]
    rw [hn, ← this, hown2]
  have howner : OwnerInv ((runRev ops).hist a) (own sa) := hnodeA.owner
  have hOid : (own sa).id = a := hnodeA.ownId
  -- the digest r sent
  obtain ⟨hdnd, hdcl, hdall⟩ := digest_spec hnodeR.nd hnodeR.recv.ids
  have hperm : dg.Perm (digest sr) := hdg ▸ List.mergeSort_perm _ _
  have hdgnd : (dg.map (·.id)).Nodup := (hperm.map _).nodup_iff.mpr hdnd
  have hmemdg : ∀ x, x ∈ dg ↔ x ∈ digest sr := fun x => hperm.mem_iff
  -- ids of the reply
  have hrnd : ((delta sa2 dg true).map (·.id)).Nodup := delta_ids_nodup hnode2.nd hnode2.recv.ids dg hdgnd
  have hrpw : (sortDelta (delta sa2 dg true)).Pairwise (fun x y => x.id ≠ y.id) := by
    have hp : (sortDelta (delta sa2 dg true)).Perm (delta sa2 dg true) := List.mergeSort_perm _ _
    have : ((sortDelta (delta sa2 dg true)).map (·.id)).Nodup := (hp.map _).nodup_iff.mpr hrnd
    exact (List.pairwise_map.mp this)
  have hrlid : sr.localId = r := hnodeR.lid
  -- top entry of the owner
  obtain ⟨p0, hp0⟩ := List.exists_mem_of_ne_nil _ hent
  have hf0 := AMap.findOfMem howner.wf.nodup (k := p0.1) (v := p0.2) hp0
  have hH : (runRev ops).hist a ≠ [] := List.ne_nil_of_mem (howner.cur _ _ hf0)
  obtain ⟨kt, et, hkt, hvt⟩ := howner.top _ (howner.cur _ _ hf0)
  have hetpos := howner.pos et (howner.cur _ _ hkt)
  cases hV : sr.nodes.find a with
  | some V =>
    have hview : ViewInv ((runRev ops).hist a) (own sa) V :=
      hnodeR.recv.views a V _ _ hV (by rw [hrlid]; exact fun e => hne e.symm) (by simp [GNet.world, ha])
    obtain ⟨de, hde, hdeid, hdever⟩ := hdall a V hV
    have hdedg : de ∈ dg := (hmemdg de).mpr hde
    by_cases hempty : (deltaEntry (own sa) V.version).entries.isEmpty = true
    · -- nothing newer: the reply has no entry about `a`, and the view is already caught up
      have hnone : ∀ y ∈ sortDelta (delta sa2 dg true), y.id ≠ a := by
        intro y hy hya
        have hy' : y ∈ delta sa2 dg true := mem_sortDelta.mp hy
        unfold delta at hy'
        rcases List.mem_append.mp hy' with h1 | h2
        · obtain ⟨de', hde', hsome⟩ := List.mem_filterMap.mp h1
          cases hf : sa2.nodes.find de'.id with
          | none => simp [hf] at hsome
          | some n =>
            simp only [hf] at hsome
            split at hsome
            · cases hsome
            · rename_i hne'
              simp only [Option.some.injEq] at hsome
              have hyid : y.id = de'.id := by rw [← hsome]; exact hnode2.recv.ids _ _ hf
              have hde'a : de'.id = a := hyid ▸ hya
              have : de' = de := by
                have h1 := List.inj_on_of_nodup_map hdgnd hde' hdedg (by rw [hde'a, hdeid])
                exact h1
              subst this
              rw [hde'a, hfind2] at hf; cases hf
              rw [hdever] at hne'
              exact hne' hempty
        · simp only [if_true, List.mem_map, List.mem_filter, Bool.not_eq_true', List.any_eq_false,
            decide_eq_true_eq] at h2
          obtain ⟨n, ⟨_, hn⟩, rfl⟩ := h2
          exact hn de hdedg (by rw [hdeid]; exact hya.symm)
      refine ⟨V, hfr, ?_, ?_⟩
      · rw [applyDelta_find_untouched now a _ sr hnone]; exact hV
      · have hle := hview.le
        have : (own sa).version ≤ V.version := by
          by_cases hlt : V.version < et.version
          · exfalso
            have : et ∈ (deltaEntry (own sa) V.version).entries := by
              simp only [deltaEntry, mem_sortByVersion, List.mem_filter, decide_eq_true_eq]
              exact ⟨(AMap.mem_vals_iff howner.wf.nodup).mpr ⟨kt, hkt⟩, hlt⟩
            rw [List.isEmpty_iff] at hempty
            rw [hempty] at this; cases this
          · omega
        omega
    · -- the reply carries the owner's outstanding entries, all of them
      have hx : deltaEntry (own sa) V.version ∈ sortDelta (delta sa2 dg true) := by
        apply mem_sortDelta.mpr
        unfold delta
        apply List.mem_append_left
        apply List.mem_filterMap.mpr
        refine ⟨de, hdedg, ?_⟩
        rw [hdeid, hfind2, hdever]
        simp [hempty]
      have hxid : (deltaEntry (own sa) V.version).id = a := hOid
      have := applyDelta_find_of_unique now _ sr _ hrpw hx (by rw [hxid, hrlid]; exact fun e => hne e.symm)
      rw [hxid, hV] at this
      simp only [Option.getD_some] at this
      refine ⟨_, hfr, this, ?_⟩
      have hne' : (deltaEntry (own sa) V.version).entries ≠ [] := by
        intro e; rw [e] at hempty; exact hempty rfl
      obtain ⟨e1, he1⟩ := List.exists_mem_of_ne_nil _ hne'
      have hp := deltaEntry_pktInv howner (SrcOK.ofOwner howner) V.version
      have hlt : V.version < (own sa).version := by
        have := hp.base e1 he1; have := howner.hb e1 (hp.genuine e1 he1); omega
      have := C03_full_pull_catches_up now howner hview hlt _ (Nat.le_refl _) hH
      simpa [pull] using this
  | none =>
    -- r did not know `a`: the reply carries the owner's full state
    have hnot : ∀ de ∈ dg, de.id ≠ a := by
      intro de hde hid
      obtain ⟨n, hn, _⟩ := hdcl de ((hmemdg de).mp hde)
      rw [hid, hV] at hn; cases hn
    have hx : deltaEntry (own sa) 0 ∈ sortDelta (delta sa2 dg true) := by
      apply mem_sortDelta.mpr
      unfold delta
      apply List.mem_append_right
      simp only [if_true, List.mem_map, List.mem_filter, Bool.not_eq_true', List.any_eq_false, decide_eq_true_eq]
      refine ⟨own sa, ⟨(AMap.mem_vals_iff hnode2.nd).mpr ⟨a, hfind2⟩, ?_⟩, rfl⟩
      intro de hde; rw [hOid]; exact hnot de hde
    have hxid : (deltaEntry (own sa) 0).id = a := hOid
    have := applyDelta_find_of_unique now _ sr _ hrpw hx (by rw [hxid, hrlid]; exact fun e => hne e.symm)
    rw [hxid, hV] at this
    simp only [Option.getD_none] at this
    refine ⟨_, hfr, this, ?_⟩
    have hfresh : ViewInv ((runRev ops).hist a) (own sa) ({ id := a, addr := (deltaEntry (own sa) 0).addr } : NodeSt) :=
      ViewInv.fresh howner _ _
    have hlt : ({ id := a, addr := (deltaEntry (own sa) 0).addr } : NodeSt).version < (own sa).version := by
      show 0 < (own sa).version
      omega
    have := C03_full_pull_catches_up now howner hfresh hlt _ (Nat.le_refl _) hH
    simpa [pull] using this

/-- ... and therefore exactly the owner's state: same keys, values, deletion markers and
versions (this is also "observers that synchronise afterwards end up with the same live state" of
C17: the owner may have compacted any number of times before). -/
theorem C03_join_exact {ops : List Op} (h : AllowedRev ops) {r a : String} {sr sa : CState}
    (hr : (runRev ops).net.nodes.find r = some sr) (ha : (runRev ops).net.nodes.find a = some sa)
    (hne : r ≠ a) (hent : (own sa).entries ≠ []) (now : Nat) :
    ∃ sr' sa' V, (runRev (.join r a true now :: ops)).net.nodes.find r = some sr' ∧
      (runRev (.join r a true now :: ops)).net.nodes.find a = some sa' ∧ own sa' = own sa ∧
      sr'.nodes.find a = some V ∧ ∀ k, V.entries.find k = (own sa).entries.find k := by
  obtain ⟨sr', V, h1, h2, h3⟩ := C03_join_catches_up h hr ha hne hent now
  have hall : AllowedRev (.join r a true now :: ops) := ⟨h, trivial⟩
  have hinv' := netInv_runRev _ hall
  -- the owner's node after the step
  have hinv := netInv_runRev ops h
  have hpres : OwnPresent sa := (hinv.node a sa ha).recv.ownPresent
  obtain ⟨ho1, hp1, _⟩ := C13_own_state_untouched now sa (localDelta sr) [] hpres
  obtain ⟨_, _, ho2, _, _⟩ := C13_own_state_untouched now (applyDelta now sa (localDelta sr)).1 []
    (sortDigest (digest sr)) hp1
  have hfa : (runRev (.join r a true now :: ops)).net.nodes.find a =
      some (applyDigest (applyDelta now sa (localDelta sr)).1 (sortDigest (digest sr))).1 := by
    have hne' : ¬ r = a := hne
    simp [runRev, GNet.step, Net.step, hr, ha, hne', Net.setNode, AMap.find_insert]
  refine ⟨sr', _, V, h1, hfa, by rw [ho2, ho1], h2, ?_⟩
  intro k
  have hobs : Observes (runRev (.join r a true now :: ops)) r a V (own sa) :=
    ⟨fun e => hne e.symm, ⟨sr', h1, h2⟩, ⟨_, hfa, by rw [ho2, ho1]⟩⟩
  exact C02_caught_up_exact hall hobs h3 k

/-! ## Network-level convergence: the closure over the whole network and a whole schedule

`Quiet op` (`Proofs/Converge.lean`): the operation is not a local write (`upsert`, `delete`,
`leave`, `compact`; `expire` is excluded by `StepAllowed` anyway).  `Op.writer op` is the node whose
own state a local write changes (`none` for quiet operations).  Everything below is over the same
quantifier as C02: any allowed history, then any allowed continuation (digests, deliveries of any
pooled packet at any truncation, stream joins/leaves with or without reply, liveness rounds, new
nodes) - **the schedule is a hypothesis** (which joins happen), fairness of the random peer choice
is not modelled. -/

/-- **A caught-up view stays caught up** over every allowed step that is not a local write of the
owner `a` itself (quiet steps, and local writes of every other node, the observer included): the
owner's own state `O` is untouched, the observer still remembers `a`, and its version of `a` is
still the owner's. -/
theorem C03_caught_up_stable {ops : List Op} (h : AllowedRev ops) {r a : String} {V O : NodeSt}
    (ho : Observes (runRev ops) r a V O) (heq : V.version = O.version)
    (op : Op) (hop : StepAllowed (runRev ops) op) (hq : op.writer ≠ some a) :
    ∃ V', Observes (runRev (op :: ops)) r a V' O ∧ V'.version = O.version := by
  have hinv := netInv_runRev ops h
  obtain ⟨sr, hsr, hV⟩ := ho.obs
  obtain ⟨sa, hsa, hO⟩ := ho.own
  obtain ⟨sr', hsr', hk, _⟩ := step_keeps hinv op hop hsr
  obtain ⟨sa', hsa', _, hown⟩ := step_keeps hinv op hop hsa
  obtain ⟨V', hV', hle⟩ := hk.mono a V hV
  have hobs : Observes (runRev (op :: ops)) r a V' O :=
    ⟨ho.ne, ⟨sr', hsr', hV'⟩, ⟨sa', hsa', by rw [hown hq]; exact hO⟩⟩
  refine ⟨V', hobs, ?_⟩
  have := (C02_version_bounds (ops := op :: ops) ⟨h, hop⟩ hobs).1
  omega

/-- ... in particular over every quiet step. -/
theorem C03_caught_up_stable_quiet {ops : List Op} (h : AllowedRev ops) {r a : String} {V O : NodeSt}
    (ho : Observes (runRev ops) r a V O) (heq : V.version = O.version)
    (op : Op) (hop : StepAllowed (runRev ops) op) (hq : Quiet op) :
    ∃ V', Observes (runRev (op :: ops)) r a V' O ∧ V'.version = O.version :=
  C03_caught_up_stable h ho heq op hop (hq.writer_ne a)

/-- ... and over a whole allowed continuation `sched` without a local write of the owner: the view
is then again exactly the owner's state. -/
theorem C03_caught_up_stable_run : ∀ (sched : List Op) {ops : List Op} {r a : String} {V O : NodeSt},
    AllowedRev (sched ++ ops) → (∀ op ∈ sched, op.writer ≠ some a) →
    Observes (runRev ops) r a V O → V.version = O.version →
    ∃ V', Observes (runRev (sched ++ ops)) r a V' O ∧ V'.version = O.version ∧
      ∀ k, V'.entries.find k = O.entries.find k
  | [], _, _, _, V, _, hall, _, ho, heq => ⟨V, ho, heq, C02_caught_up_exact hall ho heq⟩
  | op :: sched, _, _, _, _, _, hall, hq, ho, heq => by
    obtain ⟨V1, ho1, heq1, _⟩ := C03_caught_up_stable_run sched hall.1
      (fun o hm => hq o (List.mem_cons_of_mem _ hm)) ho heq
    obtain ⟨V2, ho2, heq2⟩ := C03_caught_up_stable hall.1 ho1 heq1 op hall.2 (hq op (List.mem_cons_self ..))
    exact ⟨V2, ho2, heq2, C02_caught_up_exact (ops := op :: (sched ++ _)) hall ho2 heq2⟩

/-- the induction behind `C03_converges`: once the schedule has contained the exchange
`join r a` (reply delivered), `r` observes `a` at `a`'s version, and `a`'s own state is the one it
had when the local writes of `a` stopped -/
theorem C03_converges_version : ∀ (sched : List Op) {ops : List Op} {r a : String} {sr sa : CState},
    AllowedRev (sched ++ ops) → (∀ op ∈ sched, op.writer ≠ some a) →
    (runRev ops).net.nodes.find r = some sr → (runRev ops).net.nodes.find a = some sa → r ≠ a →
    (own sa).entries ≠ [] → (∃ now, Op.join r a true now ∈ sched) →
    ∃ V, Observes (runRev (sched ++ ops)) r a V (own sa) ∧ V.version = (own sa).version
  | [], _, _, _, _, _, _, _, _, _, _, _, hj => by obtain ⟨_, hj⟩ := hj; cases hj
  | op :: sched, ops, r, a, sr, sa, hall, hq, hr, ha, hne, hent, hj => by
    obtain ⟨now, hj⟩ := hj
    have hq' : ∀ o ∈ sched, o.writer ≠ some a := fun o hm => hq o (List.mem_cons_of_mem _ hm)
    rcases List.mem_cons.mp hj with hop | hmem
    · -- this step is the exchange
      subst hop
      obtain ⟨sr1, hr1, _, _⟩ := run_keeps sched ops hall.1 hr
      obtain ⟨sa1, ha1, _, hown1⟩ := run_keeps sched ops hall.1 ha
      have hown1 := hown1 hq'
      obtain ⟨sr', V, h1, h2, h3⟩ := C03_join_catches_up hall.1 hr1 ha1 hne (by rw [hown1]; exact hent) now
      obtain ⟨sa', hsa', _, hown'⟩ := step_keeps (netInv_runRev _ hall.1) (.join r a true now) hall.2 ha1
      have hown' := hown' (by simp [Op.writer])
      exact ⟨V, ⟨fun e => hne e.symm, ⟨sr', h1, h2⟩, ⟨sa', hsa', by rw [hown', hown1]⟩⟩, by rw [h3, hown1]⟩
    · -- the exchange happened earlier; the view stays caught up
      obtain ⟨V1, ho1, heq1⟩ := C03_converges_version sched hall.1 hq' hr ha hne hent ⟨now, hmem⟩
      exact C03_caught_up_stable hall.1 ho1 heq1 op hall.2 (hq op (List.mem_cons_self ..))

/-- **Convergence of one ordered pair, owner quiet.**  `ops` is any allowed history, `sched` any
allowed continuation (latest first; the full history is `sched ++ ops`) that contains no local write
of `a` - other nodes, the observer included, may keep writing - and somewhere the full stream
exchange `join r a` with the reply delivered.  Then at the end `r`'s view of `a` is exactly `a`'s own
state (which is still the one `a` had after `ops`): same version, and key by key the same entry -
value, deletion marker, version - or the same absence. -/
theorem C03_converges_owner_quiet {ops sched : List Op} (hall : AllowedRev (sched ++ ops))
    {r a : String} {sr sa : CState} (hq : ∀ op ∈ sched, op.writer ≠ some a)
    (hr : (runRev ops).net.nodes.find r = some sr) (ha : (runRev ops).net.nodes.find a = some sa)
    (hne : r ≠ a) (hent : (own sa).entries ≠ []) {now : Nat} (hj : Op.join r a true now ∈ sched) :
    ∃ sr' sa' V, (runRev (sched ++ ops)).net.nodes.find r = some sr' ∧
      (runRev (sched ++ ops)).net.nodes.find a = some sa' ∧ own sa' = own sa ∧
      sr'.nodes.find a = some V ∧ V.version = (own sa).version ∧
      ∀ k, V.entries.find k = (own sa).entries.find k := by
  obtain ⟨V, hobs, heq⟩ := C03_converges_version sched hall hq hr ha hne hent ⟨now, hj⟩
  obtain ⟨sr', h1, h2⟩ := hobs.obs
  obtain ⟨sa', h3, h4⟩ := hobs.own
  exact ⟨sr', sa', V, h1, h3, h4, h2, heq, C02_caught_up_exact hall hobs heq⟩

/-- **Convergence of one ordered pair** after the local updates stopped: every operation of the
continuation `sched` is quiet (no `upsert/delete/leave/compact` anywhere), and `sched` contains
`join r a` with the reply delivered. -/
theorem C03_converges {ops sched : List Op} (hall : AllowedRev (sched ++ ops))
    (hq : ∀ op ∈ sched, Quiet op) {r a : String} {sr sa : CState}
    (hr : (runRev ops).net.nodes.find r = some sr) (ha : (runRev ops).net.nodes.find a = some sa)
    (hne : r ≠ a) (hent : (own sa).entries ≠ []) {now : Nat} (hj : Op.join r a true now ∈ sched) :
    ∃ sr' sa' V, (runRev (sched ++ ops)).net.nodes.find r = some sr' ∧
      (runRev (sched ++ ops)).net.nodes.find a = some sa' ∧ own sa' = own sa ∧
      sr'.nodes.find a = some V ∧ V.version = (own sa).version ∧
      ∀ k, V.entries.find k = (own sa).entries.find k :=
  C03_converges_owner_quiet hall (fun op hm => (hq op hm).writer_ne a) hr ha hne hent hj

/-- **The whole network converges.**  After the local updates stopped (`sched` is quiet), if the
schedule contains a full exchange for every ordered pair of distinct nodes that existed when the
updates stopped (and whose owner holds at least one entry), then at the end - simultaneously, in the
one final state `runRev (sched ++ ops)` - every such node's view of every other such node is exactly
that node's own state, and every own state is the one it was when the updates stopped.  Nodes
created by `node` operations inside `sched` are not quantified over. -/
theorem C03_converges_all {ops sched : List Op} (hall : AllowedRev (sched ++ ops))
    (hq : ∀ op ∈ sched, Quiet op)
    (hsched : ∀ r a sr sa, r ≠ a → (runRev ops).net.nodes.find r = some sr →
      (runRev ops).net.nodes.find a = some sa → (own sa).entries ≠ [] →
      ∃ now, Op.join r a true now ∈ sched) :
    ∀ r a sr sa, r ≠ a → (runRev ops).net.nodes.find r = some sr →
      (runRev ops).net.nodes.find a = some sa → (own sa).entries ≠ [] →
      ∃ sr' sa' V, (runRev (sched ++ ops)).net.nodes.find r = some sr' ∧
        (runRev (sched ++ ops)).net.nodes.find a = some sa' ∧ own sa' = own sa ∧
        sr'.nodes.find a = some V ∧ V.version = (own sa).version ∧
        ∀ k, V.entries.find k = (own sa).entries.find k := by
  intro r a sr sa hne hr ha hent
  obtain ⟨now, hj⟩ := hsched r a sr sa hne hr ha hent
  exact C03_converges hall hq hr ha hne hent hj

/-! ### non-vacuity: three nodes, writes, a delete and a compaction, then six joins

`c03Hist` (latest first): `n0` writes `k` and `j`, `n1` and `n2` write one key each, `n0` deletes
`k` and compacts (threshold 1): its own state is then the marker at version 5 and `j` re-versioned
4.  `c03Sched`: one full exchange for each of the six ordered pairs, nothing else. -/

def c03Hist : List Op :=
  [Op.compact "n0" 1, Op.delete "n0" "k", Op.upsert "n2" "y" "2", Op.upsert "n1" "x" "1",
   Op.upsert "n0" "j" "w", Op.upsert "n0" "k" "v",
   Op.node "n2" "a2", Op.node "n1" "a1", Op.node "n0" "a0"]
def c03Sched : List Op :=
  [Op.join "n2" "n1" true 6, Op.join "n2" "n0" true 5, Op.join "n1" "n2" true 4,
   Op.join "n1" "n0" true 3, Op.join "n0" "n2" true 2, Op.join "n0" "n1" true 1]

def c03N0 : NodeSt :=
  { id := "n0", addr := "a0", version := 5, entries :=
      [(compactKey, { key := compactKey, value := "3", version := 5, internal := true }),
       ("j", { key := "j", value := "w", version := 4 })] }
def c03N1 : NodeSt :=
  { id := "n1", addr := "a1", version := 1, entries := [("x", { key := "x", value := "1", version := 1 })] }
def c03N2 : NodeSt :=
  { id := "n2", addr := "a2", version := 1, entries := [("y", { key := "y", value := "2", version := 1 })] }

theorem c03Sched_quiet : ∀ op ∈ c03Sched, Quiet op := by decide

set_option maxRecDepth 8000 in
theorem c03Hist_nodes : (runRev c03Hist).net.nodes =
    [("n0", { localId := "n0", nodes := [("n0", c03N0)] }),
     ("n2", { localId := "n2", nodes := [("n2", c03N2)] }),
     ("n1", { localId := "n1", nodes := [("n1", c03N1)] })] := by
  simp [c03Hist, c03N0, c03N1, c03N2, runRev, GNet.step, Net.step, Net.setNode, Net.nodeByAddr, localOp, init, own,
    upsertLocal, deleteLocal, compactLocal, writeOwn, setOwn, sortByVersion, List.mergeSort,
    List.MergeSort.Internal.splitInTwo, compactKeeps, reversion, AMap.find, AMap.insert, AMap.erase, AMap.vals,
    compactKey]
  decide

set_option maxRecDepth 8000 in
theorem c03Allowed : AllowedRev (c03Sched ++ c03Hist) := by
  simp [c03Sched, c03Hist, AllowedRev, StepAllowed, leftKey, compactKey, runRev, GNet.step, Net.step, Net.setNode,
    Net.nodeByAddr, localOp, init, own, upsertLocal, deleteLocal, writeOwn, setOwn, AMap.find, AMap.insert, AMap.erase]

theorem c03Sched_complete : ∀ r a sr sa, r ≠ a → (runRev c03Hist).net.nodes.find r = some sr →
    (runRev c03Hist).net.nodes.find a = some sa → (own sa).entries ≠ [] →
    ∃ now, Op.join r a true now ∈ c03Sched := by
  intro r a sr sa hne hr ha _
  rw [c03Hist_nodes] at hr ha
  have hr' : r = "n0" ∨ r = "n2" ∨ r = "n1" := by
    simp only [AMap.find_cons, AMap.find_nil] at hr
    by_cases h0 : "n0" = r; · exact Or.inl h0.symm
    by_cases h2 : "n2" = r; · exact Or.inr (Or.inl h2.symm)
    by_cases h1 : "n1" = r; · exact Or.inr (Or.inr h1.symm)
    simp [h0, h1, h2] at hr
  have ha' : a = "n0" ∨ a = "n2" ∨ a = "n1" := by
    simp only [AMap.find_cons, AMap.find_nil] at ha
    by_cases h0 : "n0" = a; · exact Or.inl h0.symm
    by_cases h2 : "n2" = a; · exact Or.inr (Or.inl h2.symm)
    by_cases h1 : "n1" = a; · exact Or.inr (Or.inr h1.symm)
    simp [h0, h1, h2] at ha
  rcases hr' with rfl | rfl | rfl <;> rcases ha' with rfl | rfl | rfl <;>
    first
    | exact absurd rfl hne
    | exact ⟨_, by simp [c03Sched]; rfl⟩

/-- the concrete conclusion, obtained from `C03_converges_all`: at the end `n2` (which never talked to
`n0` before the updates stopped) sees `n0` at version 5, without the compacted key `k`, with `j` as
re-versioned by the compaction -/
example : ∃ sr V, (runRev (c03Sched ++ c03Hist)).net.nodes.find "n2" = some sr ∧
    sr.nodes.find "n0" = some V ∧ V.version = 5 ∧ V.entries.find "k" = none ∧
    V.entries.find "j" = some { key := "j", value := "w", version := 4 } := by
  obtain ⟨sr', _, V, h1, _, _, h2, h3, h4⟩ :=
    C03_converges_all c03Allowed c03Sched_quiet c03Sched_complete "n2" "n0"
      { localId := "n2", nodes := [("n2", c03N2)] } { localId := "n0", nodes := [("n0", c03N0)] }
      (by decide) (by rw [c03Hist_nodes]; simp [AMap.find]) (by rw [c03Hist_nodes]; simp [AMap.find])
      (by simp [own, c03N0, AMap.find])
  refine ⟨sr', V, h1, h2, ?_, ?_, ?_⟩
  · rw [h3]; simp [own, c03N0, AMap.find]
  · rw [h4]; simp [own, c03N0, AMap.find, compactKey]
  · rw [h4]; simp [own, c03N0, AMap.find, compactKey]

/-! ## Whom a gossip round talks to (`Gossip.gossipRound`, `pkg/gossip/gossip.go`)

The convergence theorems above take "the pulls happen" as their schedule.  The code's part of
that schedule is peer selection: one uniformly drawn live peer and one uniformly drawn unreachable
peer per round (`nodes[rand.Int() % len(nodes)]`; the draws are the parameters `r₁ r₂`). -/

/-- A round sends exactly one digest request to a live peer if there is any, and one to an
unreachable peer if there is any; every target is a remembered remote node, and a node that has
left is targeted only while it is (also) flagged unreachable. -/
theorem C03_round_targets (s : CState) (r₁ r₂ : Nat) :
    (roundTargets s r₁ r₂).length =
      (if liveNodes s = [] then 0 else 1) + (if unreachableNodes s = [] then 0 else 1) ∧
    ∀ n ∈ roundTargets s r₁ r₂, n ∈ s.nodes.vals ∧ n.id ≠ s.localId ∧ (n.left = true → n.unreachable = true) := by
  refine ⟨length_roundTargets s r₁ r₂, ?_⟩
  intro n hn
  rcases mem_roundTargets.mp hn with h | h
  · obtain ⟨h1, h2, _, h4⟩ := mem_liveNodes.mp (pickNode_mem h)
    exact ⟨h1, h2, fun hl => by rw [h4] at hl; cases hl⟩
  · obtain ⟨h1, h2, h3⟩ := mem_unreachableNodes.mp (pickNode_mem h)
    exact ⟨h1, h2, fun _ => h3⟩

/-- **No live peer is excluded by the selection**: for every live peer there is a value of the
first draw (its index; likewise every number congruent to it modulo the number of live peers)
for which the round contacts it, whatever the second draw is.  With a uniform `rand.Int()` every
live peer is therefore contacted with probability `1 / #live` per round: the fairness the
convergence theorems assume is the scheduler's, not a restriction of the selection. -/
theorem C03_round_fair (s : CState) (n : NodeSt) (h : n ∈ liveNodes s) :
    ∃ i, i < (liveNodes s).length ∧ ∀ r₁ r₂, r₁ % (liveNodes s).length = i → n ∈ roundTargets s r₁ r₂ := by
  obtain ⟨i, hi, hp⟩ := pickNode_onto h
  refine ⟨i, hi, fun r₁ r₂ hr => mem_roundTargets.mpr (Or.inl ?_)⟩
  rw [← pickNode_mod, hr]; exact hp

/-- **Unreachable peers keep being probed**: a node flagged unreachable (two healthy nodes that
suspect each other, say) is still contacted - by the second draw - so that it can be heard from
again (C11: "restored if it is heard from again"). -/
theorem C03_round_probes_unreachable (s : CState) (n : NodeSt) (h : n ∈ unreachableNodes s) :
    ∃ j, j < (unreachableNodes s).length ∧
      ∀ r₁ r₂, r₂ % (unreachableNodes s).length = j → n ∈ roundTargets s r₁ r₂ := by
  obtain ⟨j, hj, hp⟩ := pickNode_onto h
  refine ⟨j, hj, fun r₁ r₂ hr => mem_roundTargets.mpr (Or.inr ?_)⟩
  rw [← pickNode_mod, hr]; exact hp

/-- non-vacuity: three remote nodes, one of them unreachable - the round contacts one of the two
live ones (both draws occur) and the unreachable one -/
example :
    let s := (updateLiveness (applyDigest (init "n" "a")
      [⟨"x", "ax", 0, false⟩, ⟨"y", "ay", 0, false⟩, ⟨"z", "az", 0, false⟩]).1 (fun id => id = "y") 7).1
    (roundTargets s 0 0).map (·.id) = ["z", "y"] ∧ (roundTargets s 1 5).map (·.id) = ["x", "y"] := by
  decide

/-! ## The datagram push-pull round converges (network level)

`gossipRound` sends a digest request by UDP (`Op.sendDigest … request = true`), the receiver's
`packetListener.handlePacket` applies it and answers with a delta - cut at the packet limit - and its
own digest (`Op.deliver` of the request), and the requester applies the delta (`Op.deliver` of the
reply).  `pullRound i r dst …` (`Proofs/RoundConv.lean`) is these three steps as a history fragment.
The theorems below are the datagram analogue of `C03_join_catches_up … C03_converges_all`: **when the
packets fit** - the request digest carries the requester's entry about the owner (`roundDigest`) and the
reply is not cut before the end of the owner's entry - one round catches the requester up with the
owner, whatever else the packets carry (duplicated or third-party entries included) and whatever the
requester knew before. -/

/-- applying the owner's delta entry computed for **any** base the view has reached (not only the
view's own version) catches the view up: entries at or below the view's version are skipped, the
rest is the outstanding suffix -/
theorem applyEntries_catches_up {H : List Entry} {O V : NodeSt} (now : Nat) (ho : OwnerInv H O)
    (hv : ViewInv H O V) (v0 : Nat) (hb : v0 ≤ V.version) (hH : H ≠ []) :
    (applyEntries now V (deltaEntry O v0).entries).1.version = O.version := by
  have hp := deltaEntry_pktInv ho (SrcOK.ofOwner ho) v0
  rw [applyEntries_skip now _ V hp.sorted]
  have hp' := hp.dropLE V.version hb
  have hmono := (applyEntries_version_mono now
    ((deltaEntry O v0).entries.filter (fun e => decide (V.version < e.version))) V).1
  have hle := (applyEntries_viewInv now ho _ V V.version hv hp' (Nat.le_refl _)).le
  have hVle := hv.le
  by_cases hlt : V.version < O.version
  · obtain ⟨h0, hh0⟩ := List.exists_mem_of_ne_nil H hH
    obtain ⟨k, e, hk, hev⟩ := ho.top h0 hh0
    have hmem : e ∈ (deltaEntry O v0).entries.filter (fun e => decide (V.version < e.version)) := by
      apply List.mem_filter.mpr
      refine ⟨?_, by simp; omega⟩
      simp only [deltaEntry, mem_sortByVersion, List.mem_filter, decide_eq_true_eq]
      exact ⟨(AMap.mem_vals_iff ho.wf.nodup).mpr ⟨k, hk⟩, by omega⟩
    have hne := List.ne_nil_of_mem hmem
    obtain ⟨l, hl⟩ : ∃ l, ((deltaEntry O v0).entries.filter
        (fun e => decide (V.version < e.version))).getLast? = some l := by
      cases hh : ((deltaEntry O v0).entries.filter (fun e => decide (V.version < e.version))).getLast? with
      | none => exact absurd (List.getLast?_eq_none_iff.mp hh) hne
      | some l => exact ⟨l, rfl⟩
    rw [applyEntries_version_last now _ V H O ho hv V.version hp' (Nat.le_refl _) hne hp'.base l hl]
    have h1 := le_getLast_of_sorted hp'.sorted hmem hl
    have h2 := ho.hb l (hp'.genuine l (List.mem_of_getLast? hl))
    omega
  · omega

/-- **A delta that carries the owner's entry for the receiver's version catches the receiver up**,
wherever in the delta that entry stands and whatever else the delta carries (other nodes, older or
duplicated entries about the same owner), provided every entry is acceptable (`DeOK`: what `NetInv`
guarantees for every pooled delta). -/
theorem applyDelta_reaches_owner {W : World} {s : CState} (now : Nat) (d : Delta) (hs : RecvInv W s)
    (hd : ∀ de ∈ d, DeOK W s de) {a : String} {H : List Entry} {O V : NodeSt}
    (hW : W a = some (H, O)) (ho : OwnerInv H O) (hOid : O.id = a) (hal : a ≠ s.localId)
    (hV : s.nodes.find a = some V) (hx : deltaEntry O V.version ∈ d) (hH : H ≠ []) :
    ∃ V', (applyDelta now s d).1.nodes.find a = some V' ∧ O.version ≤ V'.version := by
  obtain ⟨pre, post, hsplit⟩ := List.mem_iff_append.mp hx
  rw [hsplit, applyDelta_append, applyDelta_cons_fst]
  obtain ⟨hs1, _, hlid1, _⟩ := applyDelta_recv now pre s hs
    (fun de hde => hd de (by rw [hsplit]; exact List.mem_append_left _ hde))
  obtain ⟨V1, hV1, hle1⟩ := (keeps_applyDelta now pre s).mono a V hV
  have hview : ViewInv H O V1 := hs1.views a V1 H O hV1 (by rw [hlid1]; exact hal) hW
  have hfind2 : (applyDeltaEntry now (applyDelta now s pre).1 (deltaEntry O V.version)).1.nodes.find a =
      some (applyEntries now V1 (deltaEntry O V.version).entries).1 := by
    rw [applyDeltaEntry_find]
    have h1 : ¬ a = (applyDelta now s pre).1.localId := by rw [hlid1]; exact hal
    have h2 : (deltaEntry O V.version).id = a := hOid
    simp only [h2, h1, if_false, if_true, hV1, Option.getD_some]
  obtain ⟨V', hV', hle'⟩ := (keeps_applyDelta now post _).mono a _ hfind2
  refine ⟨V', hV', ?_⟩
  rw [applyEntries_catches_up now ho hview V.version hle1 hH] at hle'
  exact hle'

/-- **One datagram round with the owner catches up (network level).**  In every state reachable by
an allowed history, let `r` remember `a` (view `V`), `a` hold at least one entry, and let the three
steps of a round `r → a` follow: `r` emits a digest request to `a`'s address whose (selected, cut)
digest still carries `r`'s entry about `a` (`hdig`); the request is delivered at `a`, the delta reply
being cut at `cut2` whole items in such a way that `a`'s own entry in it survives (`hfit`; see
`C03_round_fits_of_full` for "everything fits"); the reply is delivered at `r`.  Then `r`'s view of
`a` is at `a`'s version and agrees with `a`'s own entries on every key, and `a`'s own state is
unchanged.  `perm`, `perm2`, `dcut2` (what the digest reply carries) and the clocks are arbitrary. -/
theorem C03_pull_round_catches_up {ops : List Op} (h : AllowedRev ops) {r a : String} {sr sa : CState}
    {V : NodeSt} (hr : (runRev ops).net.nodes.find r = some sr)
    (ha : (runRev ops).net.nodes.find a = some sa) (hne : r ≠ a) (hent : (own sa).entries ≠ [])
    (hV : sr.nodes.find a = some V)
    (perm : List Nat) (cut cut2 : Nat) (perm2 : List Nat) (dcut2 now2 now3 : Nat)
    (hdig : ∃ de ∈ roundDigest sr perm cut, de.id = a)
    (hfit : ∀ x ∈ roundReply sa (roundDigest sr perm cut), x.id = a →
      x ∈ cutDelta cut2 (roundReply sa (roundDigest sr perm cut))) :
    ∃ sr' sa' V',
      (runRev (pullRound (runRev ops).net.pool.length r (own sa).addr perm cut cut2 perm2 dcut2 now2 now3
        ++ ops)).net.nodes.find r = some sr' ∧
      (runRev (pullRound (runRev ops).net.pool.length r (own sa).addr perm cut cut2 perm2 dcut2 now2 now3
        ++ ops)).net.nodes.find a = some sa' ∧ own sa' = own sa ∧
      sr'.nodes.find a = some V' ∧ V'.version = (own sa).version ∧
      ∀ k, V'.entries.find k = (own sa).entries.find k := by
  simp only [pullRound, List.cons_append, List.nil_append]
  have hinv := netInv_runRev ops h
  have hnodeR := hinv.node r sr hr
  have hnodeA := hinv.node a sa ha
  have hrlid : sr.localId = r := hnodeR.lid
  generalize hD : roundDigest sr perm cut = D at hdig hfit
  generalize hi : (runRev ops).net.pool.length = i
  -- step 1: the request is pooled
  have hall1 : AllowedRev (.sendDigest r (own sa).addr true perm cut :: ops) := ⟨h, trivial⟩
  have e1 : (runRev (.sendDigest r (own sa).addr true perm cut :: ops)).net =
      { nodes := (runRev ops).net.nodes,
        pool := (runRev ops).net.pool ++ [Packet.digest (own sr).id (own sr).addr (own sa).addr true D] } := by
    rw [runRev_net_cons, step_sendDigest hr, hD]
  have hinv1 := netInv_runRev _ hall1
  have ha1 : (runRev (.sendDigest r (own sa).addr true perm cut :: ops)).net.nodes.find a = some sa := by
    rw [e1]; exact ha
  have hb1 := nodeByAddr_of_find hinv1 ha1
  have hp1 : (runRev (.sendDigest r (own sa).addr true perm cut :: ops)).net.pool[i]? =
      some (Packet.digest (own sr).id (own sr).addr (own sa).addr true D) := by
    rw [e1, ← hi]; simp
  -- step 2: `a` handles it
  have hall2 : AllowedRev (.deliver i cut2 perm2 dcut2 now2 :: .sendDigest r (own sa).addr true perm cut :: ops) :=
    ⟨hall1, trivial⟩
  have e2 := step_deliver_digest hp1 hb1 cut2 perm2 dcut2 now2
  rw [← runRev_net_cons, e1] at e2
  simp only [if_true] at e2
  have hinv2 := netInv_runRev _ hall2
  have hpresA : OwnPresent sa := hnodeA.recv.ownPresent
  have hown1 : own (applyDigest sa D).1 = own sa := own_applyDigest D sa hpresA
  have ha2 : (runRev (.deliver i cut2 perm2 dcut2 now2 :: .sendDigest r (own sa).addr true perm cut :: ops)).net.nodes.find a =
      some (applyDigest sa D).1 := by rw [e2]; simp
  have hr2 : (runRev (.deliver i cut2 perm2 dcut2 now2 :: .sendDigest r (own sa).addr true perm cut :: ops)).net.nodes.find r =
      some sr := by
    rw [e2]; simp only; rw [AMap.find_insert_ne _ _ hne]; exact hr
  have hb2 := nodeByAddr_of_find hinv2 hr2
  have hp2 : (runRev (.deliver i cut2 perm2 dcut2 now2 :: .sendDigest r (own sa).addr true perm cut :: ops)).net.pool[i + 1]? =
      some (Packet.delta (own (applyDigest sa D).1).id (own (applyDigest sa D).1).addr (own sr).addr
        (cutDelta cut2 (delta (applyDigest sa D).1 D false))) := by
    rw [e2, ← hi]; exact getElem?_pool_snd _ _ _ _
  -- step 3: `r` applies the reply
  have hall3 : AllowedRev (.deliver (i + 1) 0 [] 0 now3 :: .deliver i cut2 perm2 dcut2 now2 ::
      .sendDigest r (own sa).addr true perm cut :: ops) := ⟨hall2, trivial⟩
  have e3 := step_deliver_delta hp2 hb2 0 [] 0 now3
  rw [← runRev_net_cons] at e3
  have hr3 : (runRev (.deliver (i + 1) 0 [] 0 now3 :: .deliver i cut2 perm2 dcut2 now2 ::
      .sendDigest r (own sa).addr true perm cut :: ops)).net.nodes.find r =
      some (applyDelta now3 sr (cutDelta cut2 (delta (applyDigest sa D).1 D false))).1 := by
    rw [e3]; simp
  have ha3 : (runRev (.deliver (i + 1) 0 [] 0 now3 :: .deliver i cut2 perm2 dcut2 now2 ::
      .sendDigest r (own sa).addr true perm cut :: ops)).net.nodes.find a = some (applyDigest sa D).1 := by
    rw [e3]; simp only; rw [AMap.find_insert_ne _ _ (fun e => hne e.symm)]; exact ha2
  -- the owner, as the world of the state before step 3 sees it
  have hnodeA2 := hinv2.node a _ ha2
  have howner : OwnerInv ((runRev (.deliver i cut2 perm2 dcut2 now2 ::
      .sendDigest r (own sa).addr true perm cut :: ops)).hist a) (own sa) := hown1 ▸ hnodeA2.owner
  have hOid : (own sa).id = a := hnodeA.ownId
  have hW : (runRev (.deliver i cut2 perm2 dcut2 now2 :: .sendDigest r (own sa).addr true perm cut :: ops)).world a =
      some ((runRev (.deliver i cut2 perm2 dcut2 now2 :: .sendDigest r (own sa).addr true perm cut :: ops)).hist a,
        own sa) := by
    simp [GNet.world, ha2, hown1]
  obtain ⟨p0, hp0⟩ := List.exists_mem_of_ne_nil _ hent
  have hf0 := AMap.findOfMem howner.wf.nodup (k := p0.1) (v := p0.2) hp0
  have hH : (runRev (.deliver i cut2 perm2 dcut2 now2 :: .sendDigest r (own sa).addr true perm cut :: ops)).hist a ≠ [] :=
    List.ne_nil_of_mem (howner.cur _ _ hf0)
  have hnodeR2 := hinv2.node r sr hr2
  have hal : a ≠ sr.localId := by rw [hrlid]; exact fun e => hne e.symm
  have hview : ViewInv _ (own sa) V := hnodeR2.recv.views a V _ _ hV hal hW
  -- r's view of `a` after the round is at least at the owner's version
  have hreach : ∃ V', (applyDelta now3 sr (cutDelta cut2 (delta (applyDigest sa D).1 D false))).1.nodes.find a = some V' ∧
      (own sa).version ≤ V'.version := by
    by_cases hlt : V.version < (own sa).version
    · -- outstanding entries: the reply carries them
      obtain ⟨de, hde, hdeid⟩ := hdig
      have hdever : de.version = V.version :=
        roundDigest_version hnodeR.nd hnodeR.recv.ids (hD ▸ hde) (hdeid ▸ hV)
      have hfind1 : (applyDigest sa D).1.nodes.find a = some (own sa) := by
        obtain ⟨n, hn⟩ := hnodeA2.recv.ownPresent
        rw [hnodeA2.lid] at hn
        have : own (applyDigest sa D).1 = n := by simp [own, hnodeA2.lid, hn]
        rw [hn, ← this, hown1]
      obtain ⟨kt, et, hkt, hvt⟩ := howner.top _ (howner.cur _ _ hf0)
      have het : et ∈ (deltaEntry (own sa) V.version).entries := by
        simp only [deltaEntry, mem_sortByVersion, List.mem_filter, decide_eq_true_eq]
        exact ⟨(AMap.mem_vals_iff howner.wf.nodup).mpr ⟨kt, hkt⟩, by omega⟩
      have hnempty : ¬ (deltaEntry (own sa) V.version).entries.isEmpty = true := by
        intro he; rw [List.isEmpty_iff] at he; rw [he] at het; cases het
      have hx : deltaEntry (own sa) V.version ∈ roundReply sa D := by
        unfold roundReply delta
        apply List.mem_append_left
        apply List.mem_filterMap.mpr
        refine ⟨de, hde, ?_⟩
        rw [hdeid, hfind1, hdever]
        simp [hnempty]
      have hx' := hfit _ hx hOid
      have hdeOK : ∀ x ∈ cutDelta cut2 (delta (applyDigest sa D).1 D false), DeOK _ sr x :=
        hinv2.deltas _ _ _ _ (List.mem_of_getElem? hp2) r sr hr2 rfl
      exact applyDelta_reaches_owner now3 _ hnodeR2.recv hdeOK hW howner hOid hal hV hx' hH
    · -- nothing newer: the view already is at the owner's version, and versions never go down
      obtain ⟨V', hV', hle'⟩ := (keeps_applyDelta now3 (cutDelta cut2 (delta (applyDigest sa D).1 D false)) sr).mono a V hV
      have := hview.le
      exact ⟨V', hV', by omega⟩
  obtain ⟨V', hV', hge⟩ := hreach
  have hobs : Observes (runRev (.deliver (i + 1) 0 [] 0 now3 :: .deliver i cut2 perm2 dcut2 now2 ::
      .sendDigest r (own sa).addr true perm cut :: ops)) r a V' (own sa) :=
    ⟨fun e => hne e.symm, ⟨_, hr3, hV'⟩, ⟨_, ha3, hown1⟩⟩
  have hle := (C02_version_bounds hall3 hobs).1
  have heq : V'.version = (own sa).version := by omega
  exact ⟨_, _, V', hr3, ha3, hown1, hV', heq, C02_caught_up_exact hall3 hobs heq⟩

/-- "everything fits" is a special case of the fit hypotheses of `C03_pull_round_catches_up`: the
full digest (`perm = List.range n`, `cut = n ≥` the number of nodes `r` remembers) carries `r`'s entry
about `a`, and a reply cut at or beyond its item count is not cut at all. -/
theorem C03_round_fits_of_full {ops : List Op} (h : AllowedRev ops) {r a : String} {sr sa : CState}
    {V : NodeSt} (hr : (runRev ops).net.nodes.find r = some sr)
    (ha : (runRev ops).net.nodes.find a = some sa) (hV : sr.nodes.find a = some V) {n cut2 : Nat}
    (hn : (digest sr).length ≤ n)
    (hc : deltaItems (roundReply sa (roundDigest sr (List.range n) n)) ≤ cut2) :
    RoundFits (runRev ops) r a (List.range n) n cut2 :=
  roundFits_of_full (netInv_runRev ops h) hr ha hV hn hc

/-- **Discovery by a datagram round.**  If `r` does not know `a` (it only has `a`'s address - the
situation after `Gossip.JoinOnBoot` resolved a seed address but the stream join failed, or of a
peer learned out of band), the delta reply of the round tells `r` nothing about `a` (it answers
`r`'s digest, which does not list `a`), but the **digest reply** does: `a` has not left, its digest
reply (selection `perm2`, cut `dcut2`) carries its entry about itself (`hdig2`), and delivering it at
`r` (`step4`, pooled packet `i + 2`) makes `r` `ApplyDigest` it.  Afterwards `r` remembers `a` at
version 0 with `a`'s gossip address, no entries; the watcher of `r` was told `join a`; `a`'s own state
is unchanged.  (`r` also answers with a delta, and the next round catches up:
`C03_pull_round_discovers_then_catches_up`.) -/
theorem C03_pull_round_discovers {ops : List Op} (h : AllowedRev ops) {r a : String} {sr sa : CState}
    (hr : (runRev ops).net.nodes.find r = some sr) (ha : (runRev ops).net.nodes.find a = some sa)
    (hne : r ≠ a) (hV : sr.nodes.find a = none) (hleft : (own sa).left = false)
    (perm : List Nat) (cut cut2 : Nat) (perm2 : List Nat) (dcut2 now2 now3 : Nat)
    (cut4 : Nat) (perm4 : List Nat) (dcut4 now4 : Nat)
    (hdig2 : ∃ de ∈ roundDigest (applyDigest sa (roundDigest sr perm cut)).1 perm2 dcut2, de.id = a) :
    ∃ sr' sa',
      (runRev (.deliver ((runRev ops).net.pool.length + 2) cut4 perm4 dcut4 now4 ::
        (pullRound (runRev ops).net.pool.length r (own sa).addr perm cut cut2 perm2 dcut2 now2 now3
          ++ ops))).net.nodes.find r = some sr' ∧
      (runRev (.deliver ((runRev ops).net.pool.length + 2) cut4 perm4 dcut4 now4 ::
        (pullRound (runRev ops).net.pool.length r (own sa).addr perm cut cut2 perm2 dcut2 now2 now3
          ++ ops))).net.nodes.find a = some sa' ∧ own sa' = own sa ∧
      sr'.nodes.find a = some { id := a, addr := (own sa).addr } ∧
      Event.join a ∈ ((runRev (pullRound (runRev ops).net.pool.length r (own sa).addr perm cut cut2 perm2
          dcut2 now2 now3 ++ ops)).net.step
        (.deliver ((runRev ops).net.pool.length + 2) cut4 perm4 dcut4 now4)).events ∧
      ((runRev (pullRound (runRev ops).net.pool.length r (own sa).addr perm cut cut2 perm2
          dcut2 now2 now3 ++ ops)).net.step
        (.deliver ((runRev ops).net.pool.length + 2) cut4 perm4 dcut4 now4)).who = r := by
  have hinv := netInv_runRev ops h
  have hnodeR := hinv.node r sr hr
  have hnodeA := hinv.node a sa ha
  have e3 := pullRound_net h hr ha hne perm cut cut2 perm2 dcut2 now2 now3
  have hall3 : AllowedRev (pullRound (runRev ops).net.pool.length r (own sa).addr perm cut cut2 perm2 dcut2
      now2 now3 ++ ops) := ⟨⟨⟨h, trivial⟩, trivial⟩, trivial⟩
  have hinv3 := netInv_runRev _ hall3
  generalize hhist : pullRound (runRev ops).net.pool.length r (own sa).addr perm cut cut2 perm2 dcut2
      now2 now3 ++ ops = hist3 at e3 hall3 hinv3 ⊢
  generalize hD : roundDigest sr perm cut = D at e3 hdig2
  generalize hi : (runRev ops).net.pool.length = i at e3 ⊢
  have hpresA : OwnPresent sa := hnodeA.recv.ownPresent
  have hown1 : own (applyDigest sa D).1 = own sa := own_applyDigest D sa hpresA
  -- the states after the three steps
  have hr3 : (runRev hist3).net.nodes.find r = some (applyDelta now3 sr (cutDelta cut2 (roundReply sa D))).1 := by
    rw [e3]; simp
  have ha3 : (runRev hist3).net.nodes.find a = some (applyDigest sa D).1 := by
    rw [e3]; simp only; rw [AMap.find_insert_ne _ _ (fun e => hne e.symm)]; simp
  have hnodeA3 := hinv3.node a _ ha3
  have hfindA : (applyDigest sa D).1.nodes.find a = some (own sa) := by
    obtain ⟨n, hn⟩ := hnodeA3.recv.ownPresent
    rw [hnodeA3.lid] at hn
    have : own (applyDigest sa D).1 = n := by simp [own, hnodeA3.lid, hn]
    rw [hn, ← this, hown1]
  -- the delta reply says nothing about `a`
  have hnoA : ∀ y ∈ cutDelta cut2 (roundReply sa D), y.id ≠ a := by
    intro y hy hya
    obtain ⟨y0, hy0, hid, _⟩ := cutDelta_spec cut2 _ y hy
    unfold roundReply delta at hy0
    simp only [Bool.false_eq_true, if_false, List.append_nil] at hy0
    obtain ⟨de', hde', hsome⟩ := List.mem_filterMap.mp hy0
    cases hf : (applyDigest sa D).1.nodes.find de'.id with
    | none => simp [hf] at hsome
    | some n =>
      simp only [hf] at hsome
      split at hsome
      · cases hsome
      · simp only [Option.some.injEq] at hsome
        have hy0id : y0.id = de'.id := by rw [← hsome]; exact hnodeA3.recv.ids _ _ hf
        obtain ⟨_, hcl, _⟩ := digest_spec hnodeR.nd hnodeR.recv.ids
        obtain ⟨m, hm, _⟩ := hcl de' (mem_roundDigest (hD ▸ hde'))
        rw [← hy0id, ← hid, hya, hV] at hm; cases hm
  have hV3 : (applyDelta now3 sr (cutDelta cut2 (roundReply sa D))).1.nodes.find a = none := by
    rw [applyDelta_find_untouched now3 a _ sr hnoA]; exact hV
  -- step 4: the digest reply reaches `r`
  have hown3 : own (applyDelta now3 sr (cutDelta cut2 (roundReply sa D))).1 = own sr := own_applyDelta now3 _ sr
  have hb3 := nodeByAddr_of_find hinv3 hr3
  rw [hown3] at hb3
  have hp3 : (runRev hist3).net.pool[i + 2]? = some (Packet.digest (own sa).id (own sa).addr (own sr).addr false
      (roundDigest (applyDigest sa D).1 perm2 dcut2)) := by
    rw [e3, ← hi]; exact getElem?_pool_third _ _ _ _ _
  have e4 := step_deliver_digest hp3 hb3 cut4 perm4 dcut4 now4
  rw [← runRev_net_cons] at e4
  obtain ⟨hev, hwho⟩ := step_deliver_digest_events hp3 hb3 cut4 perm4 dcut4 now4
  -- what the digest reply says about `a`
  obtain ⟨de, hde, hdeid⟩ := hdig2
  have hdeq := mem_digest_eq hnodeA3.nd hnodeA3.recv.ids (mem_roundDigest hde) (hdeid ▸ hfindA)
  have hdel : de.left = false := by rw [hdeq]; exact hleft
  obtain ⟨de', hde', hde'id, hfind4, hjoin⟩ := applyDigest_discovers
    (roundDigest (applyDigest sa D).1 perm2 dcut2) _ hde hdel (by rw [hdeid]; exact hV3)
  have hde'q := mem_digest_eq hnodeA3.nd hnodeA3.recv.ids (mem_roundDigest hde')
    (by rw [hde'id, hdeid]; exact hfindA)
  have hde'addr : de'.addr = (own sa).addr := by rw [hde'q]
  rw [hdeid, hde'addr] at hfind4
  rw [hdeid] at hjoin
  refine ⟨_, _, ?_, ?_, hown1, hfind4, by rw [hev]; exact hjoin, hwho⟩
  · rw [e4]; simp
  · rw [e4]; simp only; rw [AMap.find_insert_ne _ _ (fun e => hne e.symm)]; exact ha3

/-- ... **and the next round catches up**: after the discovery (four steps), any further datagram
round `r → a` whose packets fit brings `r`'s view of `a` - the version-0 view the digest reply
created - to `a`'s own state. -/
theorem C03_pull_round_discovers_then_catches_up {ops : List Op} (h : AllowedRev ops) {r a : String}
    {sr sa : CState} (hr : (runRev ops).net.nodes.find r = some sr)
    (ha : (runRev ops).net.nodes.find a = some sa) (hne : r ≠ a) (hent : (own sa).entries ≠ [])
    (hV : sr.nodes.find a = none) (hleft : (own sa).left = false)
    (perm : List Nat) (cut cut2 : Nat) (perm2 : List Nat) (dcut2 now2 now3 : Nat)
    (cut4 : Nat) (perm4 : List Nat) (dcut4 now4 : Nat)
    (hdig2 : ∃ de ∈ roundDigest (applyDigest sa (roundDigest sr perm cut)).1 perm2 dcut2, de.id = a)
    (perm' : List Nat) (cut' cut2' : Nat) (perm2' : List Nat) (dcut2' now2' now3' : Nat)
    {hist4 : List Op}
    (hhist : hist4 = .deliver ((runRev ops).net.pool.length + 2) cut4 perm4 dcut4 now4 ::
      (pullRound (runRev ops).net.pool.length r (own sa).addr perm cut cut2 perm2 dcut2 now2 now3 ++ ops))
    (hfits : RoundFits (runRev hist4) r a perm' cut' cut2') :
    ∃ sr' sa' V',
      (runRev (pullRound (runRev hist4).net.pool.length r (own sa).addr perm' cut' cut2' perm2' dcut2' now2' now3'
        ++ hist4)).net.nodes.find r = some sr' ∧
      (runRev (pullRound (runRev hist4).net.pool.length r (own sa).addr perm' cut' cut2' perm2' dcut2' now2' now3'
        ++ hist4)).net.nodes.find a = some sa' ∧ own sa' = own sa ∧
      sr'.nodes.find a = some V' ∧ V'.version = (own sa).version ∧
      ∀ k, V'.entries.find k = (own sa).entries.find k := by
  obtain ⟨sr4, sa4, hr4, ha4, hown4, hV4, _, _⟩ := C03_pull_round_discovers h hr ha hne hV hleft
    perm cut cut2 perm2 dcut2 now2 now3 cut4 perm4 dcut4 now4 hdig2
  rw [← hhist] at hr4 ha4
  have hall4 : AllowedRev hist4 := by rw [hhist]; exact ⟨⟨⟨⟨h, trivial⟩, trivial⟩, trivial⟩, trivial⟩
  obtain ⟨hdig, hfit⟩ := hfits sr4 sa4 hr4 ha4
  have := C03_pull_round_catches_up hall4 hr4 ha4 hne (by rw [hown4]; exact hent) hV4
    perm' cut' cut2' perm2' dcut2' now2' now3' hdig hfit
  rw [hown4] at this
  exact this

/-- the induction-free core of `C03_converges_rounds`: history `ops`, then `pre`, then the round,
then `post`; the owner `a` does not write during `pre` and `post` -/
theorem C03_converges_rounds_owner_quiet {ops sched : List Op} (hall : AllowedRev (sched ++ ops))
    {r a : String} {sr sa : CState} {V : NodeSt} (hq : ∀ op ∈ sched, op.writer ≠ some a)
    (hr : (runRev ops).net.nodes.find r = some sr) (ha : (runRev ops).net.nodes.find a = some sa)
    (hne : r ≠ a) (hent : (own sa).entries ≠ []) (hV : sr.nodes.find a = some V)
    (hround : HasFittingRound ops sched r a (own sa).addr) :
    ∃ sr' sa' V', (runRev (sched ++ ops)).net.nodes.find r = some sr' ∧
      (runRev (sched ++ ops)).net.nodes.find a = some sa' ∧ own sa' = own sa ∧
      sr'.nodes.find a = some V' ∧ V'.version = (own sa).version ∧
      ∀ k, V'.entries.find k = (own sa).entries.find k := by
  obtain ⟨pre, post, perm, cut, cut2, perm2, dcut2, now2, now3, hs, hfits⟩ := hround
  subst hs
  simp only [List.append_assoc] at hall ⊢
  have hallR := allowedRev_append post _ hall
  have hallP := allowedRev_append _ _ hallR
  have hqpre : ∀ op ∈ pre, op.writer ≠ some a := fun op hm =>
    hq op (List.mem_append_right _ (List.mem_append_right _ hm))
  have hqpost : ∀ op ∈ post, op.writer ≠ some a := fun op hm => hq op (List.mem_append_left _ hm)
  -- up to the round: `r` still remembers `a`, `a`'s own state is the same
  obtain ⟨sr1, hr1, hk1, _⟩ := run_keeps pre ops hallP hr
  obtain ⟨sa1, ha1, _, hown1⟩ := run_keeps pre ops hallP ha
  have hown1 := hown1 hqpre
  obtain ⟨V1, hV1, _⟩ := hk1.mono a V hV
  obtain ⟨hdig, hfit⟩ := hfits sr1 sa1 hr1 ha1
  -- the round
  obtain ⟨sr2, sa2, V2, hr2, ha2, hown2, hV2, heq2, _⟩ :=
    C03_pull_round_catches_up hallP hr1 ha1 hne (by rw [hown1]; exact hent) hV1
      perm cut cut2 perm2 dcut2 now2 now3 hdig hfit
  rw [hown1] at hr2 ha2 hown2 heq2
  have hobs2 : Observes (runRev (pullRound (runRev (pre ++ ops)).net.pool.length r (own sa).addr perm cut cut2
      perm2 dcut2 now2 now3 ++ (pre ++ ops))) r a V2 (own sa) :=
    ⟨fun e => hne e.symm, ⟨sr2, hr2, hV2⟩, ⟨sa2, ha2, hown2⟩⟩
  -- after the round
  obtain ⟨V3, hobs3, heq3, hex3⟩ := C03_caught_up_stable_run post hall hqpost hobs2 heq2
  obtain ⟨sr3, h1, h2⟩ := hobs3.obs
  obtain ⟨sa3, h3, h4⟩ := hobs3.own
  exact ⟨sr3, sa3, V3, h1, h3, h4, h2, heq3, hex3⟩

/-- **Convergence of one ordered pair by a datagram round** after the local updates stopped: `ops` is
any allowed history after which `r` remembers `a`; every operation of the continuation `sched` is
quiet, and `sched` contains - contiguously, in order, anywhere - the three steps of one round `r → a`
whose packets fit (`HasFittingRound`).  Then at the end `r`'s view of `a` is exactly `a`'s own state:
same version, key by key the same entry or the same absence.  The datagram analogue of
`C03_converges`. -/
theorem C03_converges_rounds {ops sched : List Op} (hall : AllowedRev (sched ++ ops))
    (hq : ∀ op ∈ sched, Quiet op) {r a : String} {sr sa : CState} {V : NodeSt}
    (hr : (runRev ops).net.nodes.find r = some sr) (ha : (runRev ops).net.nodes.find a = some sa)
    (hne : r ≠ a) (hent : (own sa).entries ≠ []) (hV : sr.nodes.find a = some V)
    (hround : HasFittingRound ops sched r a (own sa).addr) :
    ∃ sr' sa' V', (runRev (sched ++ ops)).net.nodes.find r = some sr' ∧
      (runRev (sched ++ ops)).net.nodes.find a = some sa' ∧ own sa' = own sa ∧
      sr'.nodes.find a = some V' ∧ V'.version = (own sa).version ∧
      ∀ k, V'.entries.find k = (own sa).entries.find k :=
  C03_converges_rounds_owner_quiet hall (fun op hm => (hq op hm).writer_ne a) hr ha hne hent hV hround

/-- **The whole network converges by datagram rounds.**  After the local updates stopped (`sched` is
quiet), if the schedule contains a fitting round for every ordered pair `(r, a)` of distinct nodes
such that `r` remembered `a` when the updates stopped (and `a` holds at least one entry), then at the
end - simultaneously, in the one final state - every such `r`'s view of `a` is exactly `a`'s own
state, and every own state is the one it was when the updates stopped.  (Pairs that do not know each
other yet need a discovery first: `C03_pull_round_discovers`, or a stream join.) -/
theorem C03_converges_all_rounds {ops sched : List Op} (hall : AllowedRev (sched ++ ops))
    (hq : ∀ op ∈ sched, Quiet op)
    (hsched : ∀ r a sr sa V, r ≠ a → (runRev ops).net.nodes.find r = some sr →
      (runRev ops).net.nodes.find a = some sa → (own sa).entries ≠ [] → sr.nodes.find a = some V →
      HasFittingRound ops sched r a (own sa).addr) :
    ∀ r a sr sa V, r ≠ a → (runRev ops).net.nodes.find r = some sr →
      (runRev ops).net.nodes.find a = some sa → (own sa).entries ≠ [] → sr.nodes.find a = some V →
      ∃ sr' sa' V', (runRev (sched ++ ops)).net.nodes.find r = some sr' ∧
        (runRev (sched ++ ops)).net.nodes.find a = some sa' ∧ own sa' = own sa ∧
        sr'.nodes.find a = some V' ∧ V'.version = (own sa).version ∧
        ∀ k, V'.entries.find k = (own sa).entries.find k := by
  intro r a sr sa V hne hr ha hent hV
  exact C03_converges_rounds hall hq hr ha hne hent hV (hsched r a sr sa V hne hr ha hent hV)

/-! ### non-vacuity: three nodes, two joins, then writes, a delete and a compaction, then datagram rounds

`c03rHist` (latest first): `n0` writes `k` and `j`, `n1` writes `x`; `n1` and then `n2` join `n0` (full
stream exchange: `n0` knows both, `n2` knows both, `n1` knows only `n0`); then `n2` writes `y`, `n0`
deletes `k` and compacts (threshold 1) - its own state is the marker at version 5 and `j` re-versioned
4, while `n1` and `n2` still hold `n0` at version 2 with `k`.  `c03rSched`: three datagram rounds and
nothing else - `n1 → n0` (full digest, ample limit), `n2 → n0` (digest cut down to the one entry about
`n0`, reply cut at exactly its three items), `n0 → n2` (digest = the one entry about `n2`, no digest
entries in the reply leg). -/
def c03rHist : List Op :=
  [Op.compact "n0" 1, Op.delete "n0" "k", Op.upsert "n2" "y" "2",
   Op.join "n2" "n0" true 2, Op.join "n1" "n0" true 1,
   Op.upsert "n1" "x" "1", Op.upsert "n0" "j" "w", Op.upsert "n0" "k" "v",
   Op.node "n2" "a2", Op.node "n1" "a1", Op.node "n0" "a0"]

def c03rR1 : List Op := pullRound 0 "n1" "a0" [0, 1, 2] 3 10 [0, 1, 2] 3 7 8
def c03rR2 : List Op := pullRound 3 "n2" "a0" [0] 1 3 [2, 0] 1 9 10
def c03rR3 : List Op := pullRound 6 "n0" "a2" [2] 1 2 [] 0 11 12

/-- `n0` as `n1` and `n2` saw it at their join (before the delete and the compaction) -/
def c03rOld0 : NodeSt :=
  { id := "n0", addr := "a0", version := 2, entries :=
      [("j", { key := "j", value := "w", version := 2 }), ("k", { key := "k", value := "v", version := 1 })] }
def c03rS0 : CState :=
  { localId := "n0", nodes := [("n0", c03N0), ("n2", { id := "n2", addr := "a2" }), ("n1", c03N1)] }
def c03rS1 : CState := { localId := "n1", nodes := [("n0", c03rOld0), ("n1", c03N1)] }
def c03rS1' : CState := { localId := "n1", nodes := [("n0", c03N0), ("n1", c03N1)] }
def c03rS2 : CState := { localId := "n2", nodes := [("n2", c03N2), ("n1", c03N1), ("n0", c03rOld0)] }

set_option maxRecDepth 8000 in
theorem c03rHist_net : (runRev c03rHist).net =
    { nodes := [("n0", c03rS0), ("n2", c03rS2), ("n1", c03rS1)], pool := [] } := by
  simp [c03rHist, c03rS0, c03rS1, c03rS2, c03rOld0, c03N0, c03N1, c03N2, runRev, GNet.step, Net.step,
    Net.setNode, Net.nodeByAddr, localOp, init, own,
    upsertLocal, deleteLocal, compactLocal, writeOwn, setOwn, sortByVersion, List.mergeSort,
    List.MergeSort.Internal.splitInTwo, compactKeeps, reversion, AMap.find, AMap.insert, AMap.erase, AMap.vals,
    compactKey, applyDelta, applyDeltaEntry, applyEntries, applyEntry, applyDigest, applyDigestEntry,
    localDelta, deltaEntry, delta, digest, sortDigest, sortDelta]
  decide


def c03rP1 : Packet := .digest "n1" "a1" "a0" true
  [⟨"n0", "a0", 2, false⟩, ⟨"n1", "a1", 1, false⟩]
def c03rP2 : Packet := .delta "n0" "a0" "a1"
  [{ id := "n0", addr := "a0", entries := [{ key := "j", value := "w", version := 4 },
      { key := compactKey, value := "3", version := 5, internal := true }] }]
def c03rP3 : Packet := .digest "n0" "a0" "a1" false
  [⟨"n0", "a0", 5, false⟩, ⟨"n1", "a1", 1, false⟩, ⟨"n2", "a2", 0, false⟩]

set_option maxRecDepth 8000 in
theorem c03rNet1 : (runRev (c03rR1 ++ c03rHist)).net =
    { nodes := [("n1", c03rS1'), ("n0", c03rS0), ("n2", c03rS2)], pool := [c03rP1, c03rP2, c03rP3] } := by
  simp only [c03rR1, pullRound, List.cons_append, List.nil_append, runRev_net_cons, c03rHist_net]
  simp [c03rP1, c03rP2, c03rP3, c03rS0, c03rS1, c03rS1', c03rS2, c03rOld0, c03N0, c03N1, c03N2, Net.step,
    Net.setNode, Net.nodeByAddr, own, handleDigest, cutDelta, selectIdx,
    sortByVersion, List.mergeSort,
    List.MergeSort.Internal.splitInTwo, AMap.find, AMap.insert, AMap.erase, AMap.vals,
    compactKey, applyDelta, applyDeltaEntry, applyEntries, applyEntry, applyDigest, applyDigestEntry,
    deltaEntry, delta, digest, sortDigest, parseUint64, AMap.filterV, leftKey]
  all_goals decide
def c03rS2' : CState := { localId := "n2", nodes := [("n0", c03N0), ("n2", c03N2), ("n1", c03N1)] }
def c03rP4 : Packet := .digest "n2" "a2" "a0" true [⟨"n0", "a0", 2, false⟩]
def c03rP5 : Packet := .delta "n0" "a0" "a2"
  [{ id := "n0", addr := "a0", entries := [{ key := "j", value := "w", version := 4 },
      { key := compactKey, value := "3", version := 5, internal := true }] }]
def c03rP6 : Packet := .digest "n0" "a0" "a2" false [⟨"n2", "a2", 0, false⟩]

set_option maxRecDepth 8000 in
theorem c03rNet2 : (runRev (c03rR2 ++ (c03rR1 ++ c03rHist))).net =
    { nodes := [("n2", c03rS2'), ("n0", c03rS0), ("n1", c03rS1')],
      pool := [c03rP1, c03rP2, c03rP3, c03rP4, c03rP5, c03rP6] } := by
  simp only [c03rR2, pullRound, List.cons_append, List.nil_append, runRev_net_cons, c03rNet1]
  simp [c03rP1, c03rP2, c03rP3, c03rP4, c03rP5, c03rP6, c03rS0, c03rS1', c03rS2, c03rS2', c03rOld0, c03N0, c03N1,
    c03N2, Net.step, Net.setNode, Net.nodeByAddr, own, handleDigest, cutDelta, selectIdx,
    sortByVersion, List.mergeSort,
    List.MergeSort.Internal.splitInTwo, AMap.find, AMap.insert, AMap.erase, AMap.vals,
    compactKey, applyDelta, applyDeltaEntry, applyEntries, applyEntry, applyDigest, applyDigestEntry,
    deltaEntry, delta, digest, sortDigest, parseUint64, AMap.filterV, leftKey]
  all_goals decide

def c03rSched : List Op := c03rR3 ++ (c03rR2 ++ c03rR1)

theorem c03rSched_quiet : ∀ op ∈ c03rSched, Quiet op := by decide

set_option maxRecDepth 8000 in
theorem c03rAllowed : AllowedRev (c03rSched ++ c03rHist) := by
  simp [c03rSched, c03rR1, c03rR2, c03rR3, pullRound, c03rHist, AllowedRev, StepAllowed, leftKey, compactKey, runRev,
    GNet.step, Net.step, Net.setNode,
    Net.nodeByAddr, localOp, init, own, upsertLocal, deleteLocal, writeOwn, setOwn, AMap.find, AMap.insert, AMap.erase,
    AMap.vals, sortByVersion, List.mergeSort, List.MergeSort.Internal.splitInTwo,
    applyDelta, applyDeltaEntry, applyEntries, applyEntry, applyDigest, applyDigestEntry,
    localDelta, deltaEntry, delta, digest, sortDigest, sortDelta]

/-- the round `n2 → n0` (second in the schedule; partial digest: only the entry about `n0`; reply cut
at exactly its three items) fits in the state it starts from -/
theorem c03rFits2 : RoundFits (runRev (c03rR1 ++ c03rHist)) "n2" "n0" [0] 1 3 := by
  intro sr sa hr ha
  rw [c03rNet1] at hr ha
  simp [AMap.find] at hr ha
  subst hr; subst ha
  have hD : roundDigest c03rS2 [0] 1 = [⟨"n0", "a0", 2, false⟩] := by
    simp [roundDigest, selectIdx, sortDigest, digest, c03rS2, c03rOld0, c03N1, c03N2, AMap.vals, List.mergeSort,
      List.MergeSort.Internal.splitInTwo]
  have hR : roundReply c03rS0 [⟨"n0", "a0", 2, false⟩] =
      [{ id := "n0", addr := "a0", entries := [{ key := "j", value := "w", version := 4 },
        { key := compactKey, value := "3", version := 5, internal := true }] }] := by
    simp [roundReply, delta, deltaEntry, applyDigest, applyDigestEntry, c03rS0, c03N0, c03N1, AMap.find, AMap.vals,
      sortByVersion, List.mergeSort, List.MergeSort.Internal.splitInTwo, compactKey]
  rw [hD, hR]
  exact ⟨⟨_, List.mem_cons_self .., rfl⟩, fun x hx _ => by simpa [cutDelta] using hx⟩

/-- the round `n0 → n2` (third; digest cut down to the single entry about `n2`) fits -/
theorem c03rFits3 : RoundFits (runRev (c03rR2 ++ (c03rR1 ++ c03rHist))) "n0" "n2" [2] 1 2 := by
  intro sr sa hr ha
  rw [c03rNet2] at hr ha
  simp [AMap.find] at hr ha
  subst hr; subst ha
  have hD : roundDigest c03rS0 [2] 1 = [⟨"n2", "a2", 0, false⟩] := by
    simp [roundDigest, selectIdx, sortDigest, digest, c03rS0, c03N0, c03N1, AMap.vals, List.mergeSort,
      List.MergeSort.Internal.splitInTwo]
  have hR : roundReply c03rS2' [⟨"n2", "a2", 0, false⟩] =
      [{ id := "n2", addr := "a2", entries := [{ key := "y", value := "2", version := 1 }] }] := by
    simp [roundReply, delta, deltaEntry, applyDigest, applyDigestEntry, c03rS2', c03N2, AMap.find, AMap.vals,
      sortByVersion]
  rw [hD, hR]
  exact ⟨⟨_, List.mem_cons_self .., rfl⟩, fun x hx _ => by simpa [cutDelta] using hx⟩

theorem c03rRound2 : HasFittingRound c03rHist c03rSched "n2" "n0" "a0" :=
  ⟨c03rR1, c03rR3, [0], 1, 3, [2, 0], 1, 9, 10, by rw [c03rNet1]; rfl, c03rFits2⟩

theorem c03rRound3 : HasFittingRound c03rHist c03rSched "n0" "n2" "a2" :=
  ⟨c03rR2 ++ c03rR1, [], [2], 1, 2, [], 0, 11, 12, by
    rw [List.append_assoc, c03rNet2]; rfl, by rw [List.append_assoc]; exact c03rFits3⟩

/-- the concrete conclusion, obtained from `C03_converges_rounds` twice, in the one final state: `n2`,
which saw `n0` at version 2 with the key `k` when it joined, sees it after its datagram round at
version 5, without the deleted and compacted key `k`, with `j` as re-versioned by the compaction;
and `n0`, which knew `n2` at version 0, has `n2`'s entry `y` -/
example : ∃ s2 s0 V0 V2, (runRev (c03rSched ++ c03rHist)).net.nodes.find "n2" = some s2 ∧
    (runRev (c03rSched ++ c03rHist)).net.nodes.find "n0" = some s0 ∧
    s2.nodes.find "n0" = some V0 ∧ V0.version = 5 ∧ V0.entries.find "k" = none ∧
    V0.entries.find "j" = some { key := "j", value := "w", version := 4 } ∧
    s0.nodes.find "n2" = some V2 ∧ V2.version = 1 ∧
    V2.entries.find "y" = some { key := "y", value := "2", version := 1 } := by
  have h2 : (runRev c03rHist).net.nodes.find "n2" = some c03rS2 := by rw [c03rHist_net]; simp [AMap.find]
  have h0 : (runRev c03rHist).net.nodes.find "n0" = some c03rS0 := by rw [c03rHist_net]; simp [AMap.find]
  have ho0 : own c03rS0 = c03N0 := by simp [own, c03rS0]
  have ho2 : own c03rS2 = c03N2 := by simp [own, c03rS2]
  obtain ⟨s2, _, V0, a1, _, _, a2, a3, a4⟩ :=
    C03_converges_rounds c03rAllowed c03rSched_quiet h2 h0 (by decide) (by rw [ho0]; simp [c03N0])
      (V := c03rOld0) (by simp [c03rS2, AMap.find]) (by rw [ho0]; exact c03rRound2)
  obtain ⟨s0, _, V2, b1, _, _, b2, b3, b4⟩ :=
    C03_converges_rounds c03rAllowed c03rSched_quiet h0 h2 (by decide) (by rw [ho2]; simp [c03N2])
      (V := { id := "n2", addr := "a2" }) (by simp [c03rS0, AMap.find]) (by rw [ho2]; exact c03rRound3)
  rw [ho0] at a3 a4
  rw [ho2] at b3 b4
  refine ⟨s2, s0, V0, V2, a1, b1, a2, ?_, ?_, ?_, b2, ?_, ?_⟩
  · rw [a3]; rfl
  · rw [a4]; simp [c03N0, AMap.find, compactKey]
  · rw [a4]; simp [c03N0, AMap.find, compactKey]
  · rw [b3]; rfl
  · rw [b4]; simp [c03N2]

/-- non-vacuity of `C03_pull_round_discovers`: after `c03rHist` node `n1` does not know `n2` (it joined
`n0` before `n2` did); one round `n1 → n2` plus the delivery of `n2`'s digest reply, and it does -/
example : ∃ sr', (runRev (.deliver 2 0 [] 0 13 ::
      (pullRound 0 "n1" "a2" [0, 1] 2 10 [0, 1, 2] 3 7 8 ++ c03rHist))).net.nodes.find "n1" = some sr' ∧
    sr'.nodes.find "n2" = some { id := "n2", addr := "a2" } := by
  have h1 : (runRev c03rHist).net.nodes.find "n1" = some c03rS1 := by rw [c03rHist_net]; simp [AMap.find]
  have h2 : (runRev c03rHist).net.nodes.find "n2" = some c03rS2 := by rw [c03rHist_net]; simp [AMap.find]
  have ho2 : own c03rS2 = c03N2 := by simp [own, c03rS2]
  have hlen : (runRev c03rHist).net.pool.length = 0 := by rw [c03rHist_net]; rfl
  obtain ⟨sr', _, e1, _, _, e2, _, _⟩ := C03_pull_round_discovers (allowedRev_append c03rSched _ c03rAllowed)
    h1 h2 (by decide) (by simp [c03rS1, AMap.find]) (by rw [ho2]; rfl)
    [0, 1] 2 10 [0, 1, 2] 3 7 8 0 [] 0 13
    (by
      refine ⟨⟨"n2", "a2", 1, false⟩, ?_, rfl⟩
      simp [roundDigest, selectIdx, sortDigest, digest, applyDigest, applyDigestEntry, c03rS1, c03rS2, c03rOld0,
        c03N1, c03N2, AMap.vals, AMap.find, List.mergeSort, List.MergeSort.Internal.splitInTwo])
  rw [ho2, hlen] at e1
  rw [ho2] at e2
  exact ⟨sr', e1, e2⟩

end Piko
