import Proofs.Codec
import PikoModel.Gossip.Net
import PikoModel.Generated.Facts
/-!
# C13 — Gossip packets fit the size limit, decode to prefixes, survive hostile input

Model: `PikoModel/Gossip/Codec.lean` (`pkg/gossip/protocol.go`, msgpack byte exact) and
`PikoModel/Gossip/State.lean` (`ApplyDelta` / `ApplyDigest`).  Lemmas: `Proofs/Codec.lean`.

`encodeDelta h d max = none` is the Go error "max packet size too small for header";
`deltaPrefix h` / `digestPrefix h` are the two leading bytes (message type, version) followed
by the encoded header — "the bare header".  `sentDelta h d max` is the number of items of the
flattening `items d = [node₁, e₁₁, e₁₂, …, node₂, …]` that the encoder sends, `sentDigest` the
number of digest entries.

Well-formedness guards (`…Ok`, all decidable) state what the Go types guarantee: versions are
`uint64` (`< 2^64`), entry counts are non-negative `int`s (`< 2^63`), strings have a byte length
`< 2^32` (msgpack str32).  Model strings are valid UTF-8; the Go code passes arbitrary bytes.

Totality of the Lean decoders is the model-level "cannot crash or hang".  For the real handlers
(`handlePacket`, `handleConn`, the ugorji decoder on arbitrary bytes) that clause is a runtime
fact checked by the malformed/hostile stream of engine `codec` — **partial**, not a theorem.
-/
namespace Piko
open Piko.Gossip Piko.Gossip.Codec

/-- Every packet the encoders return fits the maximum packet size, and the encoders fail exactly
when the bare header (type byte, version byte, encoded header) alone exceeds it — then nothing is
emitted.  For all headers, all contents (any strings, any numbers), all `max`. -/
theorem C13_fits (hd : DeltaHeader) (d : Delta) (hg : DigestHeader) (g : Digest) (max : Nat) :
    (∀ bs, encodeDelta hd d max = some bs → bs.length ≤ max) ∧
    (encodeDelta hd d max = none ↔ (deltaPrefix hd).length > max) ∧
    (∀ bs, encodeDigest hg g max = some bs → bs.length ≤ max) ∧
    (encodeDigest hg g max = none ↔ (digestPrefix hg).length > max) := by
  refine ⟨?_, ?_, ?_, ?_⟩
  · intro bs h
    rw [encodeDelta_eq] at h
    by_cases hx : (deltaPrefix hd).length > max
    · simp [hx] at h
    · simp only [hx, if_false, Option.some.injEq] at h
      subst h
      rw [List.length_append]
      exact fitCount_fits max _ _ (Nat.le_of_not_gt hx)
  · rw [encodeDelta_eq]
    by_cases hx : (deltaPrefix hd).length > max <;> simp [hx]
  · intro bs h
    rw [encodeDigest_eq] at h
    by_cases hx : (digestPrefix hg).length > max
    · simp [hx] at h
    · simp only [hx, if_false, Option.some.injEq] at h
      subst h
      rw [List.length_append, List.map_take]
      exact fitCount_fits max _ _ (Nat.le_of_not_gt hx)
  · rw [encodeDigest_eq]
    by_cases hx : (digestPrefix hg).length > max <;> simp [hx]

/-- What the receiver decodes from a delta packet is the header and exactly the first
`sentDelta h d max` items of the flattening `[node₁, e₁₁, e₁₂, …, node₂, …]`: whole entries only,
per node in the sender's order; the last node may carry fewer entries than its header announced
and is accepted as a short node. -/
theorem C13_prefix (h : DeltaHeader) (d : Delta) (max : Nat) (bs : Bytes)
    (hh : DeltaHeaderOk h) (hd : DeltaOk d) (he : encodeDelta h d max = some bs) :
    decodeDelta bs = .ok (h, takeItems (sentDelta h d max) d) := by
  rw [encodeDelta_eq] at he
  by_cases hx : (deltaPrefix h).length > max
  · simp [hx] at he
  · simp only [hx, if_false, Option.some.injEq] at he
    subst he
    exact decodeDelta_packet h d _ hh hd

/-- The whole-item prefix of the byte level is the `cutDelta` of the network model
(`PikoModel/Gossip/Net.lean`), whose theorems (C02, C03, C11) quantify over every cut. -/
theorem C13_takeItems_eq_cutDelta (n : Nat) (d : Delta) : takeItems n d = cutDelta n d := by
  induction d generalizing n with
  | nil => cases n <;> rfl
  | cons de ds ih =>
    cases n with
    | zero => rfl
    | succ n =>
      unfold takeItems cutDelta
      by_cases hlt : n < de.entries.length
      · have h0 : n - de.entries.length = 0 := by omega
        simp only [hlt, if_true, h0]
        cases ds <;> rfl
      · have : de.entries.take n = de.entries := List.take_of_length_le (by omega)
        simp only [hlt, if_false, this, ih]

/-- Hence: what a receiver decodes from a real delta datagram of any `maxPacketSize` is a step
of the network model - `cutDelta` at the number of items the encoder fitted. -/
theorem C13_prefix_is_net_cut (h : DeltaHeader) (d : Delta) (max : Nat) (bs : Bytes)
    (hh : DeltaHeaderOk h) (hd : DeltaOk d) (he : encodeDelta h d max = some bs) :
    decodeDelta bs = .ok (h, cutDelta (sentDelta h d max) d) := by
  rw [← C13_takeItems_eq_cutDelta]; exact C13_prefix h d max bs hh hd he

/-- Same for digests: the decoded digest is the first `sentDigest h g max` entries. -/
theorem C13_prefix_digest (h : DigestHeader) (g : Digest) (max : Nat) (bs : Bytes)
    (hh : DigestHeaderOk h) (hg : DigestOk g) (he : encodeDigest h g max = some bs) :
    decodeDigest bs = .ok (h, g.take (sentDigest h g max)) := by
  rw [encodeDigest_eq] at he
  by_cases hx : (digestPrefix h).length > max
  · simp [hx] at he
  · simp only [hx, if_false, Option.some.injEq] at he
    subst he
    exact decodeDigest_packet h _ hh (digestOk_take g _ hg)

/-- Shape of a whole-item prefix: the `i`-th decoded node is the sender's `i`-th node (same id and
address) with a prefix of its entries — nothing reordered, nothing invented, no partial entry. -/
theorem C13_prefix_shape (n : Nat) (d : Delta) (i : Nat) (a : DeltaEntry)
    (h : (takeItems n d)[i]? = some a) :
    ∃ b, d[i]? = some b ∧ a.id = b.id ∧ a.addr = b.addr ∧ a.entries <+: b.entries :=
  takeItems_prefix n d i a h

/-- The encoder is greedy: the number of items sent is maximal.  If an item is left out, appending
it to what was sent would exceed `max` ("at least one entry whenever the next one fits"); and the
packet is exactly the bare header followed by the encodings of the items sent. -/
theorem C13_greedy (h : DeltaHeader) (d : Delta) (max : Nat) (bs : Bytes)
    (he : encodeDelta h d max = some bs) :
    sentDelta h d max ≤ (items d).length ∧
    bs = deltaPrefix h ++ (((items d).take (sentDelta h d max)).map encItem).flatten ∧
    ∀ it, (items d)[sentDelta h d max]? = some it → bs.length + (encItem it).length > max := by
  rw [encodeDelta_eq] at he
  by_cases hx : (deltaPrefix h).length > max
  · simp [hx] at he
  · simp only [hx, if_false, Option.some.injEq] at he
    subst he
    refine ⟨by unfold sentDelta; simpa using fitCount_le max ((items d).map encItem) (deltaPrefix h).length, ?_, ?_⟩
    · simp [body, List.map_take]
    · intro it hit
      have := fitCount_greedy max ((items d).map encItem) (deltaPrefix h).length (encItem it)
        (by simp only [List.getElem?_map]; unfold sentDelta at hit; rw [hit]; rfl)
      rw [List.length_append]
      exact this

/-- Same for digests. -/
theorem C13_greedy_digest (h : DigestHeader) (g : Digest) (max : Nat) (bs : Bytes)
    (he : encodeDigest h g max = some bs) :
    sentDigest h g max ≤ g.length ∧
    bs = digestPrefix h ++ ((g.take (sentDigest h g max)).map encDigestEntry).flatten ∧
    ∀ e, g[sentDigest h g max]? = some e → bs.length + (encDigestEntry e).length > max := by
  rw [encodeDigest_eq] at he
  by_cases hx : (digestPrefix h).length > max
  · simp [hx] at he
  · simp only [hx, if_false, Option.some.injEq] at he
    subst he
    refine ⟨by unfold sentDigest; simpa using fitCount_le max (g.map encDigestEntry) (digestPrefix h).length, rfl, ?_⟩
    intro e hit
    have := fitCount_greedy max (g.map encDigestEntry) (digestPrefix h).length (encDigestEntry e)
      (by simp only [List.getElem?_map]; unfold sentDigest at hit; rw [hit]; rfl)
    rw [List.length_append, List.map_take]
    exact this

/-- In particular: when the bare header and the first item fit, at least one item is sent, and when
everything fits everything is sent. -/
theorem C13_greedy_nonempty (h : DeltaHeader) (d : Delta) (max : Nat) :
    (∀ it, (items d)[0]? = some it → (deltaPrefix h).length + (encItem it).length ≤ max →
      1 ≤ sentDelta h d max) ∧
    ((deltaPrefix h).length + (body (items d).length d).length ≤ max →
      sentDelta h d max = (items d).length) := by
  constructor
  · intro it h0 hfit
    unfold sentDelta
    cases hi : items d with
    | nil => simp [hi] at h0
    | cons x xs =>
      simp only [hi, List.getElem?_cons_zero, Option.some.injEq] at h0
      subst h0
      simp only [List.map_cons, fitCount]
      rw [if_neg (by omega)]
      omega
  · intro hfit
    unfold sentDelta
    have e : ((items d).map encItem).take (items d).length = (items d).map encItem :=
      List.take_of_length_le (by simp)
    unfold body at hfit
    rw [e] at hfit
    simpa using fitCount_all max ((items d).map encItem) (deltaPrefix h).length hfit

/-- Round trips, for any strings (empty, unicode, any length below 2^32 bytes) and any number in
range: each item type decodes to itself leaving the rest of the input untouched, and a packet
large enough for everything decodes to exactly the header and contents that were encoded. -/
theorem C13_roundtrip :
    (∀ (e : Entry) (rest : Bytes), EntryOk e → parseEntry (encEntry e ++ rest) = some (e, rest)) ∧
    (∀ (e : DigestEntry) (rest : Bytes), DigestEntryOk e →
      parseDigestEntry (encDigestEntry e ++ rest) = some (e, rest)) ∧
    (∀ (h : DigestHeader) (rest : Bytes), DigestHeaderOk h →
      parseDigestHeader (encDigestHeader h ++ rest) = some (h, rest)) ∧
    (∀ (h : DeltaHeader) (rest : Bytes), DeltaHeaderOk h →
      parseDeltaHeader (encDeltaHeader h ++ rest) = some (h, rest)) ∧
    (∀ (h : DeltaHeader) (d : Delta) (max : Nat), DeltaHeaderOk h → DeltaOk d →
      (deltaPrefix h).length + (body (items d).length d).length ≤ max →
      ∃ bs, encodeDelta h d max = some bs ∧ decodeDelta bs = .ok (h, d)) ∧
    (∀ (h : DigestHeader) (g : Digest) (max : Nat), DigestHeaderOk h → DigestOk g →
      (digestPrefix h).length + ((g.map encDigestEntry).flatten).length ≤ max →
      ∃ bs, encodeDigest h g max = some bs ∧ decodeDigest bs = .ok (h, g)) := by
  refine ⟨fun e r h => parseEntry_append e r h, fun e r h => parseDigestEntry_append e r h,
    fun h r hh => parseDigestHeader_append h r hh, fun h r hh => parseDeltaHeader_append h r hh, ?_, ?_⟩
  · intro h d max hh hd hfit
    have hx : ¬ (deltaPrefix h).length > max := by omega
    have hs := (C13_greedy_nonempty h d max).2 hfit
    refine ⟨_, by rw [encodeDelta_eq, if_neg hx], ?_⟩
    rw [decodeDelta_packet h d _ hh hd, hs, takeItems_all]
  · intro h g max hh hg hfit
    have hx : ¬ (digestPrefix h).length > max := by omega
    have hs : sentDigest h g max = g.length := by
      unfold sentDigest
      simpa using fitCount_all max (g.map encDigestEntry) (digestPrefix h).length hfit
    refine ⟨_, by rw [encodeDigest_eq, if_neg hx], ?_⟩
    rw [hs, List.take_length]
    exact decodeDigest_packet h g hh hg

/-- Whatever a received delta or digest decodes to — unsorted, duplicate keys, entries about the
local id, garbage compaction values, anything — applying it leaves the node's own published state
exactly as it was, and the local node stays present in the node map. -/
theorem C13_own_state_untouched (now : Nat) (s : CState) (d : Delta) (g : Digest)
    (hp : OwnPresent s) :
    own (applyDelta now s d).1 = own s ∧ OwnPresent (applyDelta now s d).1 ∧
    own (applyDigest s g).1 = own s ∧ OwnPresent (applyDigest s g).1 ∧
    (applyDelta now s d).1.localId = s.localId ∧ (applyDigest s g).1.localId = s.localId := by
  obtain ⟨a1, a2⟩ := applyDelta_local now d s
  obtain ⟨b1, b2⟩ := applyDigest_local g s hp
  exact ⟨own_eq_of_local a1 a2, ownPresent_of_local a1 a2 hp, own_eq_of_local b1 b2,
    ownPresent_of_local b1 b2 hp, a1, b1⟩

/-- ... and the same through a whole exchange: a digest then a delta, in any number and order. -/
theorem C13_own_state_untouched_seq (now : Nat) (s : CState) (msgs : List (Delta ⊕ Digest))
    (hp : OwnPresent s) :
    own (msgs.foldl (fun st m => match m with
      | .inl d => (applyDelta now st d).1
      | .inr g => (applyDigest st g).1) s) = own s := by
  induction msgs generalizing s with
  | nil => rfl
  | cons m ms ih =>
    simp only [List.foldl_cons]
    cases m with
    | inl d =>
      obtain ⟨h1, h2, _⟩ := C13_own_state_untouched now s d [] hp
      rw [ih _ h2, h1]
    | inr g =>
      obtain ⟨_, _, h3, h4, _⟩ := C13_own_state_untouched now s [] g hp
      rw [ih _ h4, h3]

/-! ## obligations over the regenerated facts (`Generated/Facts.lean`): the wire schema and the
constants that `Codec.lean` hard-codes are the ones of the Go source -/

theorem C13_facts_tags_Entry : Facts.tags_Entry = some tagsEntry := by decide
theorem C13_facts_tags_digestEntry : Facts.tags_digestEntry = some tagsDigestEntry := by decide
theorem C13_facts_tags_digestHeader : Facts.tags_digestHeader = some tagsDigestHeader := by decide
theorem C13_facts_tags_deltaHeader : Facts.tags_deltaHeader = some tagsDeltaHeader := by decide
theorem C13_facts_messageTypes :
    Facts.messageTypeDigest = some messageTypeDigest ∧ Facts.messageTypeDelta = some messageTypeDelta ∧
    Facts.supportedVersion = some supportedVersion := by decide
theorem C13_facts_keys :
    Facts.leftKey = some Gossip.leftKey ∧ Facts.compactKey = some Gossip.compactKey := by decide

/-! ## non-vacuity -/

/-- a header and a two-node delta meeting every guard -/
def exHeader : DeltaHeader := { nodeId := "n1", addr := "10.0.0.1:7000", entries := 0 }
def exDelta : Delta :=
  [{ id := "n2", addr := "a", entries :=
      [{ key := "k", value := "é✓", version := 300, internal := true },
       { key := "k2", value := "", version := 301 }] },
   { id := "n3", addr := "", entries := [{ key := "x", value := "y", version := 70000, deleted := true }] }]

example : DeltaHeaderOk exHeader ∧ DeltaOk exDelta := by decide
/-- 5 items; at 150 bytes the header, node n2 and its first entry fit, the second entry does not -/
example : (items exDelta).length = 5 := by decide
example : sentDelta exHeader exDelta 150 = 2 := by decide
example : takeItems 2 exDelta =
    [{ id := "n2", addr := "a", entries := [{ key := "k", value := "é✓", version := 300, internal := true }] }] := by
  decide
set_option maxRecDepth 20000 in
example : (encodeDelta exHeader exDelta 150).map List.length = some 119 := by decide
set_option maxRecDepth 20000 in
example : encodeDelta exHeader exDelta 41 = none ∧ (encodeDelta exHeader exDelta 42).isSome := by decide
/-- hostile delta about the local id -/
example : own (applyDelta 0 (Gossip.init "me" "addr")
    [{ id := "me", addr := "evil", entries := [{ key := "k", value := "v", version := 99 }] },
     { id := "other", addr := "x", entries := [{ key := "_internal:compact", value := "zz", version := 5, internal := true }] }]).1
    = own (Gossip.init "me" "addr") := by decide

end Piko
