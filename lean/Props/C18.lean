import Proofs.Lifecycle
import Proofs.Backoff
import PikoModel.Generated.Facts
import Proofs.SysLeave
/-!
# C18 — Losing a node: traffic is withdrawn from it and recovers on the survivors

Models: `PikoModel/Node/Lifecycle.lean` (`Server.Shutdown` as the ordered action list
`shutdownActions`, interleaved with the upstream handlers' events; `acceptDecision` =
`client/listener.go AcceptWithContext` with the D4 repair), composed with the upstream session
model of C16, the manager model of C05, the gossip state model (`leaveLocal`, `localDelta`,
`applyDelta`) and the syncer/routing-table model.

A *shutdown schedule* is any step list whose `Action`s, in order, are `shutdownActions reached`
(`reached` = the peers `Leave` gets through to) with upstream-handler / client / proxy events
interleaved anywhere: `Server.Shutdown` cancels the handlers' context but does **not** wait
for the handler goroutines (hijacked websocket connections are invisible to
`http.Server.Shutdown`), so their deferred `RemoveConn` races with `Leave`.  On the real code
the left marker is in fact usually written *before* the endpoint entries are withdrawn
(witness and counts in `evidence/C18.json`, histogram `leave-order:*`).  The theorems therefore
separate what holds for **every** schedule from what needs "the handlers have drained".

**Partial**: process kill, TCP behaviour, failure-detector timing, the grace-period bound and
backoff timing are runtime behaviour; the correspondence engine `node` exercises them on real
nodes (in-process quick tier, real processes + SIGKILL in the thorough tier).
-/
namespace Piko
open Piko.Gossip Piko.Upstream Piko.Upstream.Session Piko.Node

/-- **Shutdown order.**  For a node whose upstream server is in any reachable state, and any
shutdown schedule split at the `LeaveLocal` action:

1. (every schedule) when the left marker is written the upstream server has already been shut
   down: its listener is closed and every handler's context cancelled (`cancelled`), and the
   actions that ran before are exactly `stopJWKS, notReady, upstreamShutdown, proxyShutdown`;
2. (every schedule) every delta `Leave` pushes afterwards is a `LeaveDelta`: one entry list for
   this node, sorted by version, containing the left marker, nothing else internal;
3. (handlers drained: all connections released when `Leave` starts) every such delta is the
   same list `leaveEntries`, it contains **no live endpoint entry**, and it **ends with the left
   marker**, which has the strictly greatest version. -/
theorem C18_shutdown_order (id proxy admin : String) (evs0 : List Ev) (n : St)
    (hn : n.srv = reachS id proxy admin evs0) (reached : List String) (pre post : List Step)
    (hsched : (pre ++ Step.act .leaveLocal :: post).filterMap Step.action? = shutdownActions reached) :
    ((n.run pre).srv.cancelled = true ∧
      pre.filterMap Step.action? = [.stopJWKS, .notReady, .upstreamShutdown, .proxyShutdown]) ∧
    (∀ pd ∈ (n.run (pre ++ Step.act .leaveLocal :: post)).pushed,
      pd ∈ n.pushed ∨
      LeaveDelta (own (n.run pre).gossip).id pd.2 (marker (n.run pre).gossip)) ∧
    ((n.run pre).srv.allReleased →
      (∀ pd ∈ (n.run (pre ++ Step.act .leaveLocal :: post)).pushed,
        pd ∈ n.pushed ∨ pd.2 = localDelta (leaveLocal (n.run pre).gossip)) ∧
      (leaveEntries (n.run pre).gossip).getLast? = some (marker (n.run pre).gossip) ∧
      (∀ x ∈ leaveEntries (n.run pre).gossip,
        x = marker (n.run pre).gossip ∨ x.version < (marker (n.run pre).gossip).version) ∧
      (∀ x ∈ leaveEntries (n.run pre).gossip, ∀ e, x.key = epKey e → x.deleted = true)) := by
  obtain ⟨hcanc, hP⟩ := cancelled_before_leave reached n pre post hsched
  have hsinv0 : SInv n.srv := by rw [hn]; exact sinv_reach id proxy admin evs0
  have hginv0 : GInv n.gossip := by
    show GInv n.srv.mgr.gossip; rw [hn]; exact ginv_reach id proxy admin evs0
  have hpre_ne : ∀ a ∈ pre.filterMap Step.action?, a ≠ Action.leaveLocal := by
    intro a ha; rw [hP] at ha; exact ne_leaveLocal_of_mem_first ha
  have hginv : GInv (n.run pre).gossip := ginv_st_run pre hginv0 hpre_ne
  have hsinv : SInv (n.run pre).srv := sinv_st_run pre hsinv0
  -- pushes before `leaveLocal`: none (the first four actions push nothing)
  have hpush_pre : (n.run pre).pushed = n.pushed := by
    have : ∀ (steps : List Step) (m : St), (∀ a ∈ steps.filterMap Step.action?, ∀ p, a ≠ Action.pushLeave p) →
        (m.run steps).pushed = m.pushed := by
      intro steps
      induction steps with
      | nil => intro m _; rfl
      | cons st steps ih =>
        intro m hne
        have h1 : (m.step st).pushed = m.pushed := by
          cases st with
          | ev e => rfl
          | act a =>
            cases a with
            | pushLeave p => exact absurd rfl (hne (.pushLeave p) (by simp [Step.action?]) p)
            | _ => rfl
        have := ih (m.step st) (by
          intro a ha p
          apply hne
          cases hs : st.action? with
          | none => simpa [List.filterMap_cons, hs] using ha
          | some b => simp [List.filterMap_cons, hs, ha])
        exact this.trans h1
    apply this
    intro a ha p hap
    rw [hP] at ha; subst hap; simp at ha
  have hrun : n.run (pre ++ Step.act .leaveLocal :: post) = (((n.run pre).act .leaveLocal).run post) := by
    simp [St.run, List.foldl_append, St.step]
  have hL : GInvL ((n.run pre).act .leaveLocal).gossip (marker (n.run pre).gossip) :=
    ginvL_leaveLocal hginv
  have hidL : (own ((n.run pre).act .leaveLocal).gossip).id = (own (n.run pre).gossip).id := by
    show (own (leaveLocal (n.run pre).gossip)).id = _
    rw [own_leaveLocal hginv.notLeft]; rfl
  refine ⟨⟨hcanc, hP⟩, ?_, ?_⟩
  · intro pd hpd
    rw [hrun] at hpd
    rcases (ginvL_st_run post hL).2 pd hpd with hin | hd
    · left
      have : ((n.run pre).act .leaveLocal).pushed = (n.run pre).pushed := rfl
      rw [this, hpush_pre] at hin; exact hin
    · right; rw [← hidL]; exact hd
  · intro hrel
    have hq : Quiet ((n.run pre).act .leaveLocal) :=
      { cancelled := hcanc
        released := hrel
        empty := fun e => by
          show (n.run pre).srv.mgr.registry e = []
          exact registry_nil_of_released hsinv hrel e
        left := by
          show (own (leaveLocal (n.run pre).gossip)).left = true
          rw [own_leaveLocal hginv.notLeft]; rfl }
    have hadv : ∀ e, liveValue (n.run pre).gossip (epKey e) = none :=
      (empty_of_registry_nil hsinv.mgr (registry_nil_of_released hsinv hrel)).2.2
    refine ⟨?_, leaveEntries_getLast hginv, fun x hx => leaveEntries_lt_marker hginv hx,
      fun x hx e hk => leaveEntries_no_live_endpoint hginv hadv hx e hk⟩
    intro pd hpd
    rw [hrun] at hpd
    rcases (quiet_run post hq).2.2 pd hpd with hin | heq
    · left
      have : ((n.run pre).act .leaveLocal).pushed = (n.run pre).pushed := rfl
      rw [this, hpush_pre] at hin; exact hin
    · right; exact heq

/-- **Upstreams are withdrawn before the node stops taking proxy traffic.**  In every shutdown
schedule, when the proxy server is shut down (stops accepting, drains in-flight requests - which
may take up to the grace period) the upstream server has already been shut down: its listener
is closed and every handler's context is cancelled, so the listeners are already being sent
away to reconnect elsewhere and the endpoint entries are already being withdrawn while the
proxy still drains; the proxy was still up until then. -/
theorem C18_upstream_before_proxy (n : St) (reached : List String) (pre post : List Step)
    (hsched : (pre ++ Step.act .proxyShutdown :: post).filterMap Step.action? = shutdownActions reached) :
    (n.run pre).srv.cancelled = true ∧ (n.run pre).proxyUp = n.proxyUp :=
  cancelled_before_proxy reached n pre post hsched

/-- **A notified peer stops routing to the node in the same step.**  A receiver `r` (any
gossip state) that is not ahead of the marker applies a `LeaveDelta` for node `id ≠` itself:
the node's view is flagged `left`, set to expire after `nodeExpiry`, and the watcher is told
`leave id` — whatever else the delta carries (live endpoint entries written before the
handlers drained, tombstones written after the marker).  The syncer's `OnLeave` then gives the
node's row status `left`, and a row whose status is not `active` is in no `LookupEndpoint`
candidate set (also covers `unreachable`, the status a killed node gets). -/
theorem C18_left_stops_routing :
    (∀ (now : Nat) (r : CState) (id : String) (d : Delta) (mk : Entry),
      LeaveDelta id d mk → id ≠ r.localId →
      (∀ nv, r.nodes.find id = some nv → nv.id = id ∧ nv.version < mk.version) →
      ∃ nv', (applyDelta now r d).1.nodes.find id = some nv' ∧ nv'.left = true ∧
        nv'.expiry = some (now + nodeExpiry) ∧ Event.leave id ∈ (applyDelta now r d).2) ∧
    (∀ (sy : Cluster.Sync) (id : String), id ≠ sy.table.localId → TableOK sy.table →
      (∀ nd, (sy.onLeave id).table.nodes.find id = some nd → nd.status = .left) ∧
      TableOK (sy.onLeave id).table ∧
      ∀ e, ∀ c ∈ (sy.onLeave id).table.lookupCandidates e, c.id ≠ id) ∧
    (∀ (t : Cluster.State) (id : String), TableOK t →
      (∀ nd, t.nodes.find id = some nd → nd.status ≠ .active) →
      ∀ e, ∀ c ∈ t.lookupCandidates e, c.id ≠ id) := by
  refine ⟨?_, ?_, ?_⟩
  · intro now r id d mk hd hid hver
    obtain ⟨addr, es, rfl, hsorted, hmem, hall⟩ := hd.shape
    have hview : (C11.viewOf r { id := id, addr := addr, entries := es }).version < mk.version ∧
        (C11.viewOf r { id := id, addr := addr, entries := es }).id = id := by
      cases hf : r.nodes.find id with
      | some nv =>
        rw [C11.viewOf_of_find (de := { id := id, addr := addr, entries := es }) hf]
        exact ⟨(hver nv hf).2, (hver nv hf).1⟩
      | none =>
        rw [C11.viewOf_of_none (de := { id := id, addr := addr, entries := es }) hf]
        exact ⟨hd.pos, rfl⟩
    obtain ⟨hleft, hev⟩ := applyEntries_reaches_marker' now mk hd.isMarker es _ hsorted hall hmem hview.1
    rw [hview.2] at hev
    have h1 : (applyDelta now r [{ id := id, addr := addr, entries := es }]).1 =
        (applyDeltaEntry now r { id := id, addr := addr, entries := es }).1 := rfl
    have h2 : (applyDelta now r [{ id := id, addr := addr, entries := es }]).2 =
        [] ++ (applyDeltaEntry now r { id := id, addr := addr, entries := es }).2 := rfl
    rw [h1, h2, C11.applyDeltaEntry_fst, C11.applyDeltaEntry_snd]
    simp only [hid, if_false, List.nil_append]
    refine ⟨_, AMap.find_insert_self _ _ _, hleft.1, hleft.2, ?_⟩
    exact List.mem_append_right _ hev
  · intro sy id hid ht
    have h1 := onLeave_table sy id hid
    have h2 := tableOK_onLeave ht id
    refine ⟨h1, h2, ?_⟩
    intro e
    apply not_candidate_of_status h2 id
    intro nd hf hact
    rw [h1 nd hf] at hact; cases hact
  · intro t id ht h e
    exact not_candidate_of_status ht id h e

/-- **The model's phase order is the source's call order** (regenerated on every run by
`harness/cmd/facts/facts_shutdown.go` from `server/server.go`): the calls `Server.Shutdown`
makes on its receiver, in source order, are, as far as the model depends on their order (`orderRelevant`), exactly the phases of
`shutdownActions`; in
particular the upstream server is shut down - endpoints start being withdrawn, listeners are
sent away - **before** the node stops accepting proxy traffic and before `Leave`, and `Leave`
runs before the gossip sockets are closed.  `upstream.Server.Shutdown` closes the listener
and then cancels the handlers' context.  A reordering of these calls breaks this theorem. -/
theorem C18_facts_shutdown_order :
    Facts.shutdownCalls.map (·.filter orderRelevant) =
      some (((shutdownActions []).filterMap Action.callName).filter orderRelevant) ∧
    (∀ l, Facts.shutdownCalls = some l →
      callPrecedes "shutdownUpstreamServer" "shutdownProxyServer" l = true ∧
      callPrecedes "shutdownUpstreamServer" "gossiper.Leave" l = true ∧
      callPrecedes "shutdownProxyServer" "gossiper.Leave" l = true ∧
      callPrecedes "gossiper.Leave" "gossiper.Close" l = true ∧
      callPrecedes "adminServer.SetReady" "shutdownUpstreamServer" l = true) ∧
    Facts.shutdownUpstreamServerCalls = some ["rebalanceCancel", "upstreamServer.Shutdown"] ∧
    Facts.upstreamShutdownCalls = some ["httpServer.Shutdown", "cancel"] := by
  refine ⟨by decide, ?_, by decide, by decide⟩
  intro l hl
  have h : (Facts.shutdownCalls.all fun l =>
      callPrecedes "shutdownUpstreamServer" "shutdownProxyServer" l &&
      callPrecedes "shutdownUpstreamServer" "gossiper.Leave" l &&
      callPrecedes "shutdownProxyServer" "gossiper.Leave" l &&
      callPrecedes "gossiper.Leave" "gossiper.Close" l &&
      callPrecedes "adminServer.SetReady" "shutdownUpstreamServer" l) = true := by decide
  rw [hl] at h
  simpa [Bool.and_eq_true, and_assoc] using h

/-- **The race is real in the model too** (as on the code): there is a shutdown schedule in
which, at the moment `Leave` pushes `LocalDelta` to a peer, the node's own state is flagged
left and still holds a **live** endpoint entry - the cancelled handler has not deregistered
yet.  (The peer marks the node `left` all the same: `C18_left_stops_routing` does not need the
drain.) -/
theorem C18_leave_races_handlers :
    ∃ (n : St) (pre post : List Step) (peer : String) (reached : List String),
      (pre ++ Step.act (.pushLeave peer) :: post).filterMap Step.action? = shutdownActions reached ∧
      (own (n.run pre).gossip).left = true ∧
      liveValue (n.run pre).gossip (epKey "e") = some "1" ∧
      (n.run (pre ++ Step.act (.pushLeave peer) :: post)).srv.allReleased := by
  refine ⟨{ srv := (Srv.init "n1" "p" "a").connect 1 "e" none },
    [.act .stopJWKS, .act .notReady, .act .upstreamShutdown, .act .proxyShutdown, .act .leaveLocal],
    [.ev (.fail 1 .shutdown), .ev (.defer 1), .ev (.defer 1), .ev (.defer 1), .ev (.defer 1),
     .act .gossipClose, .act .adminShutdown, .act .waitGoroutines],
    "n0", ["n0"], by decide, by decide, by decide, ?_⟩
  intro c conn h
  have hall : ∀ p ∈ (St.run { srv := (Srv.init "n1" "p" "a").connect 1 "e" none }
      ([.act .stopJWKS, .act .notReady, .act .upstreamShutdown, .act .proxyShutdown, .act .leaveLocal] ++
        Step.act (.pushLeave "n0") ::
        [.ev (.fail 1 .shutdown), .ev (.defer 1), .ev (.defer 1), .ev (.defer 1), .ev (.defer 1),
         .act .gossipClose, .act .adminShutdown, .act .waitGoroutines])).srv.conns,
      p.2.phase = Phase.released := by decide
  exact hall _ (AMap.mem_of_find h)

/-- **Reconnect decision** (`AcceptWithContext`, repaired code).  Total and exclusive:
a cancelled caller context ⇒ the context error; otherwise a session that ended with a
close-like error while the listener was closed locally (`Close`/`Shutdown`) ⇒ `ErrClosed`;
otherwise — in particular every session loss not initiated locally — reconnect (with backoff,
forever: the reconnect only fails when the listener's own close context is cancelled); and
after a successful reconnect the close context is re-checked: a listener closed *while*
reconnecting returns `ErrClosed` and closes the new session, which nobody had told (`F11`).
The pinned tree classified a remote close as local (`D4`) and, before `F11`, kept accepting on
the new session after such a close. -/
theorem C18_reconnect_decision (ctx loc during : Bool) (k : ErrKind) :
    (ctx = false → loc = false → acceptDecision ctx loc k = .reconnect) ∧
    (ctx = false → loc = true → k ≠ .other → acceptDecision ctx loc k = .errClosed) ∧
    (ctx = true → acceptDecision ctx loc k = .ctxErr) ∧
    (acceptDecision ctx loc k = .reconnect ↔ (ctx = false ∧ (loc = false ∨ k = .other))) ∧
    (acceptDecision ctx loc k = .errClosed ↔ (ctx = false ∧ loc = true ∧ k ≠ .other)) ∧
    (acceptDecision ctx loc k = .ctxErr ↔ ctx = true) ∧
    -- the listener keeps accepting (on the new session) iff nothing was closed or cancelled
    (acceptOutcome ctx loc during k = .reconnected ↔ (ctx = false ∧ loc = false ∧ during = false)) ∧
    -- closed locally while reconnecting (F11): `ErrClosed`, and the new session is closed
    (ctx = false → loc = false → during = true →
      acceptOutcome ctx loc during k = .errClosed ∧ (afterReconnect during).2 = true) ∧
    -- a local close never leaves `Accept` accepting
    ((loc = true ∨ during = true) → acceptOutcome ctx loc during k ≠ .reconnected) ∧
    (acceptDecisionPinned false false .netClosed = .errClosed ∧
      acceptDecision false false .netClosed = .reconnect ∧
      acceptOutcomeBeforeF11 false false true .netClosed = .reconnected) := by
  cases ctx <;> cases loc <;> cases during <;> cases k <;> decide

/-- **Recovery**, with its hypotheses explicit.  For a surviving node with manager state `m`
(any state satisfying the manager invariant of C05):

* if a listener for `e` has re-registered on this node, a request for `e` is served locally
  by one of the registered upstreams — also when it arrives forwarded from another node;
* otherwise, if this node's view has settled (the lost node's row is not `active`, some row
  `k` is `active` and serves `e`), the request is forwarded: the candidate set is non-empty,
  never contains the lost node, and every candidate is an active row that serves `e`. -/
theorem C18_recovery (m : Mgr) (hm : MInv m) (e : String) :
    (m.registry e ≠ [] → ∀ allow,
      ∃ u, (m.select e allow).1 = .localUp u ∧ u ∈ m.registry e) ∧
    (m.registry e = [] → ∀ lost : String, TableOK m.cluster →
      (∀ nd, m.cluster.nodes.find lost = some nd → nd.status ≠ .active) →
      (∃ nd ∈ m.cluster.nodes.vals, nd.id ≠ m.cluster.localId ∧ nd.status = .active ∧ nd.serves e = true) →
      ∃ cs, (m.select e true).1 = .remote cs ∧ cs ≠ [] ∧ lost ∉ cs ∧
        cs = (m.cluster.lookupCandidates e).map (·.id) ∧
        ∀ c ∈ m.cluster.lookupCandidates e, c.status = .active ∧ c.serves e = true) := by
  constructor
  · intro hne allow
    unfold Mgr.select
    cases hf : m.lbs.find e with
    | none => exact absurd (registry_of_none hf) hne
    | some lb =>
      obtain ⟨hne', hinv⟩ := hm.lbs e lb hf
      obtain ⟨hlt, hp⟩ := lb.pick_of_inv hinv hne'
      simp only [hp]
      refine ⟨_, rfl, ?_⟩
      rw [registry_of_find hf]
      exact List.getElem_mem hlt
  · intro hnil lost ht hlost ⟨nd, hnd, hloc, hact, hserves⟩
    have hf : m.lbs.find e = none := by
      cases hf : m.lbs.find e with
      | none => rfl
      | some lb =>
        have := (hm.lbs e lb hf).1
        rw [← registry_of_find hf, hnil] at this
        exact absurd rfl this
    have hcand : nd ∈ m.cluster.lookupCandidates e := by
      simp only [Cluster.State.lookupCandidates, List.mem_filter, Bool.and_eq_true, Bool.not_eq_true',
        decide_eq_false_iff_not, decide_eq_true_eq]
      exact ⟨hnd, ⟨hloc, hact⟩, hserves⟩
    have hcs : m.cluster.lookupCandidates e ≠ [] := List.ne_nil_of_mem hcand
    unfold Mgr.select
    simp only [hf, Bool.not_true, Bool.false_eq_true, if_false]
    cases hc : m.cluster.lookupCandidates e with
    | nil => exact absurd hc hcs
    | cons c cs =>
      refine ⟨_, rfl, by simp, ?_, rfl, ?_⟩
      · intro hin
        obtain ⟨x, hx, hxid⟩ := List.mem_map.mp hin
        rw [← hc] at hx
        exact not_candidate_of_status ht lost hlost e x hx hxid
      · intro x hx
        rw [← hc] at hx
        simp only [Cluster.State.lookupCandidates, List.mem_filter, Bool.and_eq_true, Bool.not_eq_true',
          decide_eq_false_iff_not, decide_eq_true_eq] at hx
        exact ⟨hx.2.1.2, hx.2.2⟩

/-! ### non-vacuity -/

/-- a concrete drained shutdown: node `n1` with one listener, peers `n0`,`n2` reached; the
schedule meets the hypotheses of `C18_shutdown_order` including the drain, and the pushed
own state `Leave` pushes holds the endpoint tombstone (version 4) below the left marker (5) -/
example :
    let n : St := { srv := (Srv.init "n1" "p" "a").connect 1 "e" none }
    let pre : List Step := [.act .stopJWKS, .act .notReady, .act .upstreamShutdown,
      .ev (.fail 1 .shutdown), .ev (.defer 1), .ev (.defer 1), .ev (.defer 1), .ev (.defer 1),
      .act .proxyShutdown]
    let post : List Step := [.act (.pushLeave "n0"), .act (.pushLeave "n2"),
      .act .gossipClose, .act .adminShutdown, .act .waitGoroutines]
    (pre ++ Step.act .leaveLocal :: post).filterMap Step.action? = shutdownActions ["n0", "n2"] ∧
    (∀ p ∈ (n.run pre).srv.conns, p.2.phase = Phase.released) ∧
    ((n.run (pre ++ Step.act .leaveLocal :: post)).pushed.map (·.1)) = ["n0", "n2"] ∧
    liveValue (n.run pre).gossip (epKey "e") = none ∧
    (own (leaveLocal (n.run pre).gossip)).entries.vals.map (fun x => (x.key, x.deleted, x.version)) =
      [("_internal:left", false, 5), ("endpoint:e", true, 4), ("admin_addr", false, 2),
       ("proxy_addr", false, 1)] := by
  decide

/-- the same delta applied by a peer that knows the node: flagged left, `leave` notified, and
after the syncer's `OnLeave` the node is no candidate although its row still lists an endpoint -/
example :
    let t : Cluster.State := (Cluster.State.new { id := "n0" }).addNode
      { id := "n1", status := .active, proxyAddr := "p", adminAddr := "a", endpoints := [("e", 1)] }
    let sy : Cluster.Sync := { pending := [], table := t }
    (t.lookupCandidates "e").map (·.id) = ["n1"] ∧
    ((sy.onLeave "n1").table.lookupCandidates "e") = [] ∧
    ((sy.onLeave "n1").table.nodes.find "n1").map (·.endpoints) = some [("e", 1)] := by
  decide

example : acceptDecision false false .netClosed = .reconnect ∧
    acceptDecision false true .netClosed = .errClosed ∧
    acceptDecision true false .other = .ctxErr ∧
    acceptOutcome false true false .other = .connectErr ∧
    acceptOutcome false false true .netClosed = .errClosed := by decide

/-! ## Reconnecting with exponential backoff (`pkg/backoff`, `Upstream.connect`, `JoinOnStartup`)

Model: `PikoModel/Node/Backoff.lean`; lemmas: `Proofs/Backoff.lean`; correspondence engine
`backoff` (real `backoff.Backoff` with a seeded jitter, real `Upstream.connect` against a scripted
server).  Durations are nanoseconds.  `Backoff.step s w` is one `Backoff()` call in state `s`
whose jitter produced the wait `w`; `Backoff.base s` is the un-jittered wait, `Backoff.hi b =
b + b/10 + 1` the largest wait the jitter can make of `b`. -/

/-- **The window of one wait.**  When a `Backoff()` call in state `s` is granted the wait `w`:
the state records `w` as the last wait and counts the grant; `w` lies between the un-jittered
value `base s` and `hi (base s)` (at most 10 % more, `+1` for float rounding); the
un-jittered value never exceeds `maxBackoff`, so `w ≤ hi max`; the first wait (`lastBackoff = 0`)
starts from `minBackoff`, every later one from **twice the previous wait**, both capped at
`maxBackoff`; and conversely every value of that window is a possible wait.  With a sane
configuration (`0 < min ≤ max`, `Inv`: the stored wait is `0` or `≥ min`, true of every state
reached from `New`) the un-jittered value - hence the wait - is never below `minBackoff`, the
next un-jittered value is `min (2·w) max` and is not smaller than this one. -/
theorem C18_backoff_window (s : Backoff.St) (w : Nat) :
    (∀ w' s', Backoff.step s w = .retry w' s' →
      w' = w ∧ s' = { s with attempts := s.attempts + 1, last := w } ∧
      Backoff.base s ≤ w ∧ w ≤ Backoff.hi (Backoff.base s) ∧ w ≤ Backoff.hi s.max) ∧
    Backoff.base s ≤ s.max ∧
    (s.last = 0 → Backoff.base s = Min.min s.min s.max) ∧
    (s.last ≠ 0 → Backoff.base s = Min.min (2 * s.last) s.max) ∧
    (Backoff.exhausted s = false →
      (Backoff.step s w = .retry w { s with attempts := s.attempts + 1, last := w } ↔
        Backoff.base s ≤ w ∧ w ≤ Backoff.hi (Backoff.base s))) ∧
    (Backoff.Inv s → 0 < s.min → s.min ≤ s.max →
      s.min ≤ Backoff.base s ∧
      ∀ w' s', Backoff.step s w = .retry w' s' →
        s.min ≤ w ∧ Backoff.Inv s' ∧ Backoff.base s' = Min.min (2 * w) s.max ∧
        Backoff.base s ≤ Backoff.base s') := by
  refine ⟨?_, Backoff.base_le_max s, ?_, ?_, ?_, ?_⟩
  · intro w' s' h
    obtain ⟨_, h2, h3, h4⟩ := (Backoff.step_retry s w w' s').mp h
    rw [Backoff.okWait_iff] at h2
    exact ⟨h3, h4, h2.1, h2.2, Nat.le_trans h2.2 (Backoff.hi_mono (Backoff.base_le_max s))⟩
  · intro h; simp [Backoff.base, h]
  · intro h; simp [Backoff.base, h]
  · intro hex
    constructor
    · intro h
      have := ((Backoff.step_retry s w w _).mp h).2.1
      exact (Backoff.okWait_iff s w).mp this
    · intro h
      exact Backoff.step_of_ok s w hex ((Backoff.okWait_iff s w).mpr h)
  · intro hinv hmin hle
    have hb := Backoff.min_le_base s hinv hle
    refine ⟨hb, ?_⟩
    intro w' s' h
    obtain ⟨_, h2, _, h4⟩ := (Backoff.step_retry s w w' s').mp h
    have h2' := (Backoff.okWait_iff s w).mp h2
    have hw : s.min ≤ w := Nat.le_trans hb h2'.1
    subst h4
    refine ⟨hw, Or.inr hw, ?_, (Backoff.base_step s w hinv hmin hle h2).1⟩
    have hw0 : w ≠ 0 := by omega
    simp [Backoff.base, hw0]

/-- **Exponential growth up to the cap.**  Along any run of granted waits `ws` from a state `s`
with `0 < min ≤ max` (and `Inv s`, e.g. a fresh `New`), ending in `s'`:

* every wait is within `[min, hi max]`;
* the un-jittered value is non-decreasing along the run (for every split of the run) and never
  exceeds `max`;
* after `k` waits it is at least `base s · 2^k` capped at `max`, and the `k`-th wait itself
  (0-based) is at least that: the backoff at least doubles until it reaches the cap;
* hence once `max ≤ min · 2^k` - that is from the wait number `⌈log2 (max/min)⌉ + 1` on - every
  wait is within `[max, hi max]`, and the un-jittered value equals `max` from then on. -/
theorem C18_backoff_growth (s s' : Backoff.St) (ws : List Nat) (hinv : Backoff.Inv s)
    (hmin : 0 < s.min) (hle : s.min ≤ s.max) (h : Backoff.runWaits s ws = some s') :
    (∀ w ∈ ws, s.min ≤ w ∧ w ≤ Backoff.hi s.max) ∧
    (∀ ws1 ws2, ws = ws1 ++ ws2 → ∃ s1, Backoff.runWaits s ws1 = some s1 ∧
      Backoff.runWaits s1 ws2 = some s' ∧
      Backoff.base s ≤ Backoff.base s1 ∧ Backoff.base s1 ≤ Backoff.base s' ∧
      Backoff.base s' ≤ s.max) ∧
    Min.min s.max (Backoff.base s * 2 ^ ws.length) ≤ Backoff.base s' ∧
    (∀ k w, ws[k]? = some w → Min.min s.max (Backoff.base s * 2 ^ k) ≤ w) ∧
    (∀ k w, ws[k]? = some w → s.max ≤ s.min * 2 ^ k → s.max ≤ w ∧ w ≤ Backoff.hi s.max) ∧
    (s.max ≤ s.min * 2 ^ ws.length → Backoff.base s' = s.max) := by
  have hb := Backoff.min_le_base s hinv hle
  have hL : Min.min s.max (Backoff.base s) ≤ Backoff.base s := Nat.min_le_right _ _
  have hup := Backoff.runWaits_le s s' ws h
  have hlo := (Backoff.runWaits_ge s s' ws hinv hle h).1
  have hpar := Backoff.runWaits_params s s' ws h
  have hgrow := Backoff.runWaits_base_growth s s' ws (Backoff.base s) hinv hmin hle hL h
  have hnth := Backoff.runWaits_nth_ge s s' ws (Backoff.base s) hinv hmin hle hL h
  have hmax' : Backoff.base s' ≤ s.max := by
    have := Backoff.base_le_max s'; rw [hpar.2.2.1] at this; exact this
  refine ⟨fun w hw => ⟨hlo w hw, hup w hw⟩, ?_, hgrow, hnth, ?_, ?_⟩
  · intro ws1 ws2 hsplit
    subst hsplit
    rw [Backoff.runWaits_append] at h
    cases h1 : Backoff.runWaits s ws1 with
    | none => rw [h1] at h; cases h
    | some s1 =>
      rw [h1] at h
      have h2 : Backoff.runWaits s1 ws2 = some s' := h
      have p1 := Backoff.runWaits_params s s1 ws1 h1
      have i1 := (Backoff.runWaits_ge s s1 ws1 hinv hle h1).2
      refine ⟨s1, rfl, h2, Backoff.runWaits_base_mono s s1 ws1 hinv hmin hle h1, ?_, hmax'⟩
      exact Backoff.runWaits_base_mono s1 s' ws2 i1 (by rw [p1.2.1]; exact hmin)
        (by rw [p1.2.1, p1.2.2.1]; exact hle) h2
  · intro k w hk hreach
    have h1 := hnth k w hk
    have h2 : s.min * 2 ^ k ≤ Backoff.base s * 2 ^ k := Nat.mul_le_mul_right _ hb
    have hmem : w ∈ ws := List.mem_of_getElem? hk
    exact ⟨by omega, hup w hmem⟩
  · intro hreach
    have h2 : s.min * 2 ^ ws.length ≤ Backoff.base s * 2 ^ ws.length := Nat.mul_le_mul_right _ hb
    omega

/-- **The retries limit.**  `retries = 0` (the reconnect loop of the client): no call ever
aborts, whatever waits are proposed and however many calls are made, and a granted run of every
length exists.  `retries = n > 0` from `New`: a granted run has at most `n + 1` waits; up to `n`
grants the guard is still open, so exactly `n + 1` calls are granted (such a run exists); after
`n + 1` grants **every** later call aborts, for ever, and an aborting call leaves the state
unchanged (it returns `(0, false)` without counting). -/
theorem C18_backoff_retries :
    (∀ (s : Backoff.St), s.retries = 0 →
      (∀ ws, Backoff.Outcome.abort ∉ Backoff.outcomes s ws) ∧
      (∀ w, Backoff.step s w ≠ .abort) ∧
      (∀ k, ∃ s', Backoff.runWaits s (Backoff.baseRun s k) = some s' ∧
        (Backoff.baseRun s k).length = k)) ∧
    (∀ (n mn mx : Nat), 0 < n →
      (∀ ws s', Backoff.runWaits (Backoff.new n mn mx) ws = some s' →
        ws.length ≤ n + 1 ∧ s'.attempts = ws.length ∧
        (ws.length ≤ n → Backoff.exhausted s' = false) ∧
        (ws.length = n + 1 →
          Backoff.exhausted s' = true ∧
          (∀ w, Backoff.step s' w = .abort ∧ Backoff.stepSt s' w = s') ∧
          (∀ ws2, ∀ o ∈ Backoff.outcomes s' ws2, o = Backoff.Outcome.abort))) ∧
      (∃ s', Backoff.runWaits (Backoff.new n mn mx) (Backoff.baseRun (Backoff.new n mn mx) (n + 1)) = some s' ∧
        (Backoff.baseRun (Backoff.new n mn mx) (n + 1)).length = n + 1)) := by
  constructor
  · intro s h
    refine ⟨Backoff.outcomes_no_abort s h, ?_, ?_⟩
    · intro w e
      have := (Backoff.step_abort s w).mp e
      rw [Backoff.exhausted_of_retries_zero s h] at this
      cases this
    · intro k
      obtain ⟨s', hs'⟩ := Backoff.runWaits_baseRun s k (Or.inl h)
      exact ⟨s', hs', Backoff.length_baseRun s k⟩
  · intro n mn mx hn
    constructor
    · intro ws s' h
      obtain ⟨p1, _, _, p4⟩ := Backoff.runWaits_params _ s' ws h
      have p1' : s'.retries = n := p1
      have p4' : s'.attempts = ws.length := by rw [p4]; show 0 + ws.length = ws.length; omega
      have hlen : ws.length ≤ n + 1 := by
        by_cases hne : ws = []
        · subst hne; simp
        · have := Backoff.runWaits_length_le (Backoff.new n mn mx) s' ws
            (by show n ≠ 0; omega) hne h
          have e : (Backoff.new n mn mx).attempts = 0 := rfl
          have e2 : (Backoff.new n mn mx).retries = n := rfl
          rw [e, e2] at this; omega
      refine ⟨hlen, p4', ?_, ?_⟩
      · intro hle
        cases hx : Backoff.exhausted s' with
        | false => rfl
        | true => rw [Backoff.exhausted_iff] at hx; omega
      · intro heq
        have hex : Backoff.exhausted s' = true := by rw [Backoff.exhausted_iff]; omega
        exact ⟨hex, fun w => ⟨(Backoff.step_abort s' w).mpr hex, Backoff.stepSt_abort s' w hex⟩,
          Backoff.outcomes_all_abort s' hex⟩
    · obtain ⟨s', hs'⟩ := Backoff.runWaits_baseRun (Backoff.new n mn mx) (n + 1)
        (Or.inr (by show 0 + (n + 1) ≤ n + 1; omega))
      exact ⟨s', hs', Backoff.length_baseRun _ _⟩

/-- **A listener that lost its node never gives up.**  `Upstream.connect` creates its backoff
with `retries = 0`.  If every dial of a list of attempts fails retryably - no HTTP response at
all (connection refused or reset, TLS failure, timeout), or one of the statuses 408, 429, 500,
502, 503, 504 - and the caller's context is not cancelled, then after these attempts the loop
has **not returned**: it made exactly one dial per attempt, started one wait after each, no
`Backoff()` call answered "abort", and the waits form a granted backoff run from
`New(0, min, max)`: each within `hi max`, and - when `min ≤ max` - the `k`-th at least
`min·2^k` capped at `max`. -/
theorem C18_connect_never_gives_up (c : Backoff.Conf) (as : List Backoff.Attempt)
    (h : ∀ a ∈ as,
      (a.dial = .noResponse ∨ ∃ code, code ∈ [408, 429, 500, 502, 503, 504] ∧ a.dial = .status code) ∧
      a.ctxErr = false ∧ a.cancelInWait = false) :
    (Backoff.connect c as).result = .stillRetrying ∧
    (Backoff.connect c as).attempts = as.length ∧
    (Backoff.connect c as).waits.length = as.length ∧
    (Backoff.connect c as).aborts = 0 ∧
    0 < c.min ∧
    (∃ b', Backoff.runWaits (Backoff.new 0 c.min c.max) (Backoff.connect c as).waits = some b') ∧
    (∀ w ∈ (Backoff.connect c as).waits, w ≤ Backoff.hi c.max) ∧
    (c.min ≤ c.max → ∀ k w, (Backoff.connect c as).waits[k]? = some w →
      Min.min c.max (c.min * 2 ^ k) ≤ w) := by
  have hret : ∀ a ∈ as, a.retried := by
    intro a ha
    obtain ⟨h1, h2, h3⟩ := h a ha
    exact ⟨(Backoff.classify_retryable_iff a.dial).mpr h1, h2, h3⟩
  obtain ⟨heq, b', hrun⟩ := Backoff.connectFrom_all_retried (Backoff.new 0 c.min c.max) rfl as hret
  have heq' : Backoff.connect c as =
      ⟨.stillRetrying, as.length, Backoff.prefixWaits (Backoff.new 0 c.min c.max) as, 0⟩ := heq
  have hmin : 0 < c.min := by
    have hd : 0 < Backoff.defaultMinReconnectBackoff := by decide
    unfold Backoff.Conf.min
    split <;> omega
  rw [heq']
  refine ⟨rfl, rfl, Backoff.length_prefixWaits _ _, rfl, hmin, ⟨b', hrun⟩, ?_, ?_⟩
  · exact Backoff.runWaits_le _ b' _ hrun
  · intro hle k w hk
    have hb : Backoff.base (Backoff.new 0 c.min c.max) = c.min := by
      simp [Backoff.base, Backoff.new]; exact Nat.min_eq_left hle
    have := Backoff.runWaits_nth_ge (Backoff.new 0 c.min c.max) b' _ c.min
      (Backoff.inv_new _ _ _) hmin hle (by rw [hb]; exact Nat.min_le_right _ _) hrun k w hk
    exact this

/-- **What `Upstream.connect` returns, and when** (total and exclusive).  Call an attempt
*retried* when its dial failed retryably, the context was not cancelled when the dial returned,
and the wait that followed ran to its end.  For every list of attempts:

* the loop is still retrying after them iff all of them were retried;
* it returns the session iff the first attempt that was not retried is a successful dial;
* it returns the permanent error `code` iff that attempt is an HTTP response with a status
  **outside** 408, 429, 500, 502, 503, 504, with the context not cancelled;
* it returns the context's error iff that attempt is a failed dial (of either class) with the
  context cancelled when it returned, or a retryable failure whose wait the cancellation cut
  short;
* nothing else happens (`badJitter` is unreachable, no `Backoff()` call aborts), and the number
  of dials is the position of that attempt: nothing is dialled after the loop returned. -/
theorem C18_connect_outcomes (c : Backoff.Conf) (as : List Backoff.Attempt) :
    ((Backoff.connect c as).result = .stillRetrying ↔ ∀ a ∈ as, a.retried) ∧
    ((Backoff.connect c as).result = .connected ↔
      ∃ fails a rest, as = fails ++ a :: rest ∧ (∀ x ∈ fails, x.retried) ∧ a.dial = .ok) ∧
    (∀ code, (Backoff.connect c as).result = .errPermanent code ↔
      ∃ fails a rest, as = fails ++ a :: rest ∧ (∀ x ∈ fails, x.retried) ∧
        a.dial = .status code ∧ code ∉ [408, 429, 500, 502, 503, 504] ∧ a.ctxErr = false) ∧
    ((Backoff.connect c as).result = .errCtx ↔
      ∃ fails a rest, as = fails ++ a :: rest ∧ (∀ x ∈ fails, x.retried) ∧ a.dial ≠ .ok ∧
        (a.ctxErr = true ∨ (Backoff.classify a.dial = .retryable ∧ a.cancelInWait = true))) ∧
    (Backoff.connect c as).result ≠ .badJitter ∧
    (Backoff.connect c as).aborts = 0 ∧
    (Backoff.connect c as).attempts ≤ as.length ∧
    (∀ fails a rest, as = fails ++ a :: rest → (∀ x ∈ fails, x.retried) → ¬ a.retried →
      (Backoff.connect c as).attempts = fails.length + 1) := by
  have hb : (Backoff.new 0 c.min c.max).retries = 0 := rfl
  have hfirst : ∀ fails a rest, as = fails ++ a :: rest → (∀ x ∈ fails, x.retried) → ¬ a.retried →
      (Backoff.connect c as).result = a.verdict ∧
      (Backoff.connect c as).attempts = fails.length + 1 ∧ (Backoff.connect c as).aborts = 0 := by
    intro fails a rest e hf ha
    subst e
    exact Backoff.connectFrom_first _ hb fails hf a ha rest
  have hall : (∀ a ∈ as, a.retried) → Backoff.connect c as =
      ⟨.stillRetrying, as.length, Backoff.prefixWaits (Backoff.new 0 c.min c.max) as, 0⟩ :=
    fun h => (Backoff.connectFrom_all_retried _ hb as h).1
  -- the verdict of a decisive attempt, by cases
  have hv : ∀ a : Backoff.Attempt, ¬ a.retried →
      (a.verdict = .connected ↔ a.dial = .ok) ∧
      (∀ code, a.verdict = .errPermanent code ↔
        a.dial = .status code ∧ code ∉ [408, 429, 500, 502, 503, 504] ∧ a.ctxErr = false) ∧
      (a.verdict = .errCtx ↔ a.dial ≠ .ok ∧
        (a.ctxErr = true ∨ (Backoff.classify a.dial = .retryable ∧ a.cancelInWait = true))) ∧
      a.verdict ≠ .badJitter ∧ a.verdict ≠ .stillRetrying := by
    intro a ha
    have hns : a.verdict ≠ .stillRetrying := fun e => ha ((Backoff.verdict_stillRetrying_iff a).mp e)
    unfold Backoff.Attempt.retried at ha
    unfold Backoff.Attempt.verdict at hns ⊢
    cases hc : Backoff.classify a.dial with
    | connected =>
      have hd := (Backoff.classify_connected_iff a.dial).mp hc
      simp [hd]
    | permanent code =>
      obtain ⟨hd, hcode⟩ := (Backoff.classify_permanent_iff a.dial code).mp hc
      have hcode' : code ∉ [408, 429, 500, 502, 503, 504] := hcode
      cases hx : a.ctxErr
      · simp only [hd, Bool.false_eq_true, if_false]
        refine ⟨by simp, ?_, by simp, by simp, by simp⟩
        intro code'
        constructor
        · intro e; cases e; exact ⟨rfl, hcode', trivial⟩
        · rintro ⟨e, _, _⟩; cases e; rfl
      · simp only [hd, if_true]
        refine ⟨by simp, ?_, by simp, by simp, by simp⟩
        intro code'; simp
    | retryable =>
      have hd : a.dial ≠ .ok := by
        intro e; rw [e] at hc; cases hc
      have hperm : ∀ code, ¬ (a.dial = .status code ∧ code ∉ [408, 429, 500, 502, 503, 504] ∧ a.ctxErr = false) := by
        intro code ⟨e, hcode, _⟩
        have := (Backoff.classify_permanent_iff a.dial code).mpr ⟨e, hcode⟩
        rw [hc] at this; cases this
      cases hx : a.ctxErr
      · cases hw : a.cancelInWait
        · exact absurd ⟨hc, hx, hw⟩ ha
        · simp only [Bool.false_or, if_true]
          refine ⟨by simp [hd], ?_, by simp [hd], by simp, by simp⟩
          intro code
          constructor
          · intro e; cases e
          · intro e; exact absurd ⟨e.1, e.2.1, hx⟩ (hperm code)
      · simp only [Bool.true_or, if_true]
        refine ⟨by simp [hd], ?_, by simp [hd], by simp, by simp⟩
        intro code
        constructor
        · intro e; cases e
        · rintro ⟨_, _, e⟩; cases e
  rcases Backoff.attempts_split as with hret | ⟨fails, a, rest, e, hf, ha⟩
  · -- all retried
    have heq := hall hret
    have hno : ¬ ∃ fails a rest, as = fails ++ a :: rest ∧ (∀ x ∈ fails, x.retried) ∧ ¬ a.retried := by
      rintro ⟨fails, a, rest, e, _, ha⟩
      exact ha (hret a (by rw [e]; simp))
    rw [heq]
    refine ⟨⟨fun _ => hret, fun _ => rfl⟩, ?_, ?_, ?_, by simp, rfl, Nat.le_refl _, ?_⟩
    · constructor
      · intro e; cases e
      · rintro ⟨fails, a, rest, e, hf, hd⟩
        exact absurd ⟨fails, a, rest, e, hf, fun hr => by
          have := hr.1; rw [hd] at this; cases this⟩ hno
    · intro code
      constructor
      · intro e; cases e
      · rintro ⟨fails, a, rest, e, hf, hd, hcode, _⟩
        exact absurd ⟨fails, a, rest, e, hf, fun hr => by
          have := hr.1
          rw [(Backoff.classify_permanent_iff a.dial code).mpr ⟨hd, hcode⟩] at this; cases this⟩ hno
    · constructor
      · intro e; cases e
      · rintro ⟨fails, a, rest, e, hf, _, hd⟩
        exact absurd ⟨fails, a, rest, e, hf, fun hr => by
          rcases hd with hd | ⟨_, hd⟩
          · rw [hr.2.1] at hd; cases hd
          · rw [hr.2.2] at hd; cases hd⟩ hno
    · intro fails a rest e _ ha
      exact absurd (hret a (by rw [e]; simp)) ha
  · -- a first decisive attempt
    obtain ⟨hres, hatt, hab⟩ := hfirst fails a rest e hf ha
    obtain ⟨v1, v2, v3, v4, v5⟩ := hv a ha
    -- uniqueness of the split
    have huniq : ∀ fails' a' rest', as = fails' ++ a' :: rest' → (∀ x ∈ fails', x.retried) →
        ¬ a'.retried → a' = a ∧ fails'.length = fails.length := by
      intro fails' a' rest' e' hf' ha'
      have h1 := hfirst fails' a' rest' e' hf' ha'
      have hl : fails'.length = fails.length := by
        have := h1.2.1; rw [hatt] at this; omega
      rw [e] at e'
      have := List.append_inj e' hl.symm
      exact ⟨by have := this.2; simp at this; exact this.1.symm, hl⟩
    refine ⟨?_, ?_, ?_, ?_, by rw [hres]; exact v4, hab, ?_, ?_⟩
    · rw [hres]
      constructor
      · intro e'; exact absurd e' v5
      · intro hret; exact absurd (hret a (by rw [e]; simp)) ha
    · rw [hres, v1]
      constructor
      · intro hd; exact ⟨fails, a, rest, e, hf, hd⟩
      · rintro ⟨fails', a', rest', e', hf', hd'⟩
        have ha' : ¬ a'.retried := fun hr => by have := hr.1; rw [hd'] at this; cases this
        rw [← (huniq fails' a' rest' e' hf' ha').1]; exact hd'
    · intro code
      rw [hres, v2 code]
      constructor
      · intro hd; exact ⟨fails, a, rest, e, hf, hd⟩
      · rintro ⟨fails', a', rest', e', hf', hd', hcode, hx⟩
        have ha' : ¬ a'.retried := fun hr => by
          have := hr.1
          rw [(Backoff.classify_permanent_iff a'.dial code).mpr ⟨hd', hcode⟩] at this; cases this
        rw [← (huniq fails' a' rest' e' hf' ha').1]; exact ⟨hd', hcode, hx⟩
    · rw [hres, v3]
      constructor
      · intro hd; exact ⟨fails, a, rest, e, hf, hd⟩
      · rintro ⟨fails', a', rest', e', hf', hd', hx⟩
        have ha' : ¬ a'.retried := fun hr => by
          rcases hx with hx | ⟨_, hx⟩
          · rw [hr.2.1] at hx; cases hx
          · rw [hr.2.2] at hx; cases hx
        rw [← (huniq fails' a' rest' e' hf' ha').1]; exact ⟨hd', hx⟩
    · rw [hatt, e]; simp
    · intro fails' a' rest' e' hf' ha'
      rw [hatt, (huniq fails' a' rest' e' hf' ha').2]

/-- **`JoinOnStartup` is bounded.**  With `backoff.New(5, 1 s, 1 min)`:

* whatever happens it calls `gossiper.Join` at most `joinRetries + 2 = 7` times (the guard is
  `attempts > retries`, tested before the increment: 6 waits are granted, the 7th failed join
  makes `Backoff()` abort), and never more often than there are attempts to make;
* it returns the members at the **first** successful join (`k ≤ 6` failed joins before it, one
  full wait after each);
* after `7` failed joins it returns an error - the one remembered when the last wait started,
  i.e. that of join number `joinRetries` (0-based; the error of the 7th join itself is not
  recorded: `lastErr` is assigned after the abort test) - having waited 6 times;
* cancelling the context during the wait after the failed join `k ≤ 5` returns that join's error;
* each wait is within `[1 s, hi 1 min]`, the `k`-th at least `min (1 min) (2^k s)`. -/
theorem C18_join_bounded (as : List Backoff.JoinAttempt) :
    (Backoff.joinOnStartup as).attempts ≤ Backoff.joinRetries + 2 ∧
    (Backoff.joinOnStartup as).attempts ≤ as.length ∧
    (Backoff.joinOnStartup as).result ≠ .badJitter ∧
    (∀ fails a rest, as = fails ++ a :: rest → (∀ x ∈ fails, x.ok = false ∧ x.cancelInWait = false) →
      fails.length ≤ Backoff.joinRetries + 1 →
      (a.ok = true →
        (Backoff.joinOnStartup as).result = .joined ∧
        (Backoff.joinOnStartup as).attempts = fails.length + 1 ∧
        (Backoff.joinOnStartup as).waits.length = fails.length) ∧
      (a.ok = false → fails.length = Backoff.joinRetries + 1 →
        (Backoff.joinOnStartup as).result = .err (some Backoff.joinRetries) ∧
        (Backoff.joinOnStartup as).attempts = Backoff.joinRetries + 2 ∧
        (Backoff.joinOnStartup as).waits.length = Backoff.joinRetries + 1) ∧
      (a.ok = false → fails.length ≤ Backoff.joinRetries → a.cancelInWait = true →
        (Backoff.joinOnStartup as).result = .err (some fails.length) ∧
        (Backoff.joinOnStartup as).attempts = fails.length + 1 ∧
        (Backoff.joinOnStartup as).waits.length = fails.length + 1) ∧
      (∀ k w, (Backoff.joinOnStartup as).waits[k]? = some w → k < fails.length →
        Min.min Backoff.joinMaxBackoff (Backoff.joinMinBackoff * 2 ^ k) ≤ w ∧
        w ≤ Backoff.hi Backoff.joinMaxBackoff)) := by
  have hb0 : (Backoff.new Backoff.joinRetries Backoff.joinMinBackoff Backoff.joinMaxBackoff).attempts = 0 := rfl
  have hbr : (Backoff.new Backoff.joinRetries Backoff.joinMinBackoff Backoff.joinMaxBackoff).retries
      = Backoff.joinRetries := rfl
  have hr : (Backoff.new Backoff.joinRetries Backoff.joinMinBackoff Backoff.joinMaxBackoff).retries ≠ 0 := by
    decide
  obtain ⟨b1, b2, b3⟩ := Backoff.joinFrom_bounds _ hr (by rw [hb0]; omega) as 0 [] none
  refine ⟨?_, ?_, b3, ?_⟩
  · show (Backoff.joinFrom _ as 0 [] none).attempts ≤ _
    rw [hb0, hbr] at b2; omega
  · show (Backoff.joinFrom _ as 0 [] none).attempts ≤ _
    omega
  · intro fails a rest e hf hlen
    subst e
    obtain ⟨b', hrun, j1, j2, j3⟩ := Backoff.joinFrom_after_prefix _ hr fails hf
      (by rw [hb0, hbr]; omega) a rest 0 [] none
    have hlenw := Backoff.length_joinPrefixWaits
      (Backoff.new Backoff.joinRetries Backoff.joinMinBackoff Backoff.joinMaxBackoff) fails
    refine ⟨?_, ?_, ?_, ?_⟩
    · intro hok
      have : Backoff.joinOnStartup (fails ++ a :: rest) = _ := j1 hok
      rw [this]; exact ⟨rfl, by simp, by simp [hlenw]⟩
    · intro hok hfull
      have : Backoff.joinOnStartup (fails ++ a :: rest) = _ := j2 hok (by rw [hb0, hbr]; omega)
      rw [this]
      have hne : fails ≠ [] := by
        intro e; rw [e] at hfull; simp [Backoff.joinRetries] at hfull
      refine ⟨?_, by simp; omega, by simp [hlenw]; omega⟩
      simp only [hne, if_false]
      congr 2; omega
    · intro hok hle hw
      have : Backoff.joinOnStartup (fails ++ a :: rest) = _ := j3 hok (by rw [hb0, hbr]; omega) hw
      rw [this]
      exact ⟨by simp, by simp, by simp [hlenw]⟩
    · intro k w hk hlt
      -- the first `fails.length` waits are the prefix run, whatever `a` does
      have hpre : (Backoff.joinOnStartup (fails ++ a :: rest)).waits[k]? =
          (Backoff.joinPrefixWaits (Backoff.new Backoff.joinRetries Backoff.joinMinBackoff
            Backoff.joinMaxBackoff) fails)[k]? := by
        obtain ⟨b'', _, h2⟩ := Backoff.joinFrom_prefix
          (Backoff.new Backoff.joinRetries Backoff.joinMinBackoff Backoff.joinMaxBackoff) fails hf
          (Or.inr (by rw [hb0, hbr]; omega)) (a :: rest) 0 [] none
        have h2' : Backoff.joinOnStartup (fails ++ a :: rest) = _ := h2
        rw [h2']
        -- one more step of `joinFrom` only appends to the waits
        have happ : ∀ (b : Backoff.St) (n : Nat) (ws : List Nat) (le : Option Nat),
            ∃ tl, (Backoff.joinFrom b (a :: rest) n ws le).waits = ws ++ tl := by
          intro b n ws le
          have gen : ∀ (as : List Backoff.JoinAttempt) (b : Backoff.St) (n : Nat) (ws : List Nat)
              (le : Option Nat), ∃ tl, (Backoff.joinFrom b as n ws le).waits = ws ++ tl := by
            intro as
            induction as with
            | nil => intro b n ws le; exact ⟨[], by simp [Backoff.joinFrom]⟩
            | cons x xs ih =>
              intro b n ws le
              simp only [Backoff.joinFrom]
              cases x.ok
              · simp only [Bool.false_eq_true, if_false]
                cases Backoff.step b (Backoff.jitterWait b x.jitter) with
                | abort => exact ⟨[], by simp⟩
                | outOfRange _ _ => exact ⟨[], by simp⟩
                | retry w b2 =>
                  cases x.cancelInWait
                  · simp only [Bool.false_eq_true, if_false]
                    obtain ⟨tl, htl⟩ := ih b2 (n + 1) (ws ++ [w]) (some n)
                    exact ⟨w :: tl, by rw [htl]; simp⟩
                  · exact ⟨[w], by simp⟩
              · exact ⟨[], by simp⟩
          exact gen (a :: rest) b n ws le
        obtain ⟨tl, htl⟩ := happ b'' (0 + fails.length) ([] ++ Backoff.joinPrefixWaits _ fails) _
        rw [htl, List.nil_append, List.getElem?_append_left (by rw [hlenw]; exact hlt)]
      rw [hpre] at hk
      have hinv := Backoff.inv_new Backoff.joinRetries Backoff.joinMinBackoff Backoff.joinMaxBackoff
      have hmin : 0 < (Backoff.new Backoff.joinRetries Backoff.joinMinBackoff Backoff.joinMaxBackoff).min := by
        decide
      have hle : (Backoff.new Backoff.joinRetries Backoff.joinMinBackoff Backoff.joinMaxBackoff).min ≤
          (Backoff.new Backoff.joinRetries Backoff.joinMinBackoff Backoff.joinMaxBackoff).max := by decide
      have hbase : Backoff.base (Backoff.new Backoff.joinRetries Backoff.joinMinBackoff Backoff.joinMaxBackoff)
          = Backoff.joinMinBackoff := by decide
      have h1 := Backoff.runWaits_nth_ge _ b' _ Backoff.joinMinBackoff hinv hmin hle
        (by rw [hbase]; exact Nat.min_le_right _ _) hrun k w hk
      have h2 := Backoff.runWaits_le _ b' _ hrun w (List.mem_of_getElem? hk)
      exact ⟨h1, h2⟩

/-- **The backoff parameters of the model are the literals of the source** (re-extracted on
every run by `harness/cmd/facts/facts_backoff.go`): `JoinOnStartup` calls
`backoff.New(retries, min, max)` with three literals (5, 1 s, 60 s on the pinned tree) and
`Upstream.connect` calls `backoff.New(0, min, max)` - retry for ever - with two default literals
(100 ms / 15 s on the pinned tree).  The model's `joinRetries`, `joinMinBackoff`, … **are** these
regenerated values, so retuning them changes model and code together; what the theorems need of
them is proved here: the extractor read them, minima are positive and not above the maxima, the
join gives up eventually (`retries ≠ 0`) and the reconnect never does (`retries = 0`).
`websocket.Dial` wraps exactly the statuses 408, 429, 500, 502, 503, 504 as retryable. -/
theorem C18_facts_backoff :
    Facts.joinBackoffArgs =
      some [Backoff.joinRetries, Backoff.joinMinBackoff, Backoff.joinMaxBackoff] ∧
    Facts.connectBackoffRetries = some 0 ∧
    (∀ r, Facts.connectBackoffRetries = some r → ∀ c as,
      Backoff.connect c as = Backoff.connectFrom (Backoff.new r c.min c.max) as 0 [] 0) ∧
    Facts.connectDefaultBackoffs =
      some [Backoff.defaultMinReconnectBackoff, Backoff.defaultMaxReconnectBackoff] ∧
    (Backoff.Conf.min {} = Backoff.defaultMinReconnectBackoff ∧
      Backoff.Conf.max {} = Backoff.defaultMaxReconnectBackoff) ∧
    Facts.retryableStatusCodes = some Backoff.retryableStatusCodes ∧
    Backoff.retryableStatusCodes = [408, 429, 500, 502, 503, 504] ∧
    (Backoff.joinRetries ≠ 0 ∧ 0 < Backoff.joinMinBackoff ∧ Backoff.joinMinBackoff ≤ Backoff.joinMaxBackoff) ∧
    (0 < Backoff.defaultMinReconnectBackoff ∧
      Backoff.defaultMinReconnectBackoff ≤ Backoff.defaultMaxReconnectBackoff) := by
  refine ⟨by decide, by decide, ?_, by decide, ⟨by decide, by decide⟩, by decide, rfl, by decide, by decide⟩
  intro r hr c as
  have h0 : Facts.connectBackoffRetries = some 0 := by decide
  rw [h0] at hr
  cases hr
  rfl

/-! ### non-vacuity (backoff) -/

/-- the production reconnect backoff (100 ms … 15 s, for ever): a run of 10 granted waits, each
the un-jittered value or a jittered one; the un-jittered value doubles from 100 ms and is 15 s from
the 9th wait on (`15 s ≤ 100 ms · 2^8`) -/
example :
    let s := Backoff.new 0 100000000 15000000000
    let ws := [100000000, 205000000, 410000000, 902000000, 1804000001, 3608000002,
      7216000004, 14432000008, 15000000000, 16500000001]
    (Backoff.runWaits s ws).map (fun s' => (s'.attempts, s'.last, Backoff.base s')) =
      some (10, 16500000001, 15000000000) ∧
    Backoff.runWaits s [100000000, 199999999] = none ∧      -- below twice the last wait
    Backoff.runWaits s [110000002] = none ∧                 -- more than 10 % (+1) above
    0 < s.min ∧ s.min ≤ s.max := by
  decide

example : Backoff.Inv (Backoff.new 0 100000000 15000000000) := Backoff.inv_new _ _ _

/-- `New(5, 1 s, 1 min)`: six calls are granted, the seventh and all later ones abort -/
example :
    let s := Backoff.new 5 1000000000 60000000000
    (Backoff.outcomes s [1000000000, 2000000000, 4000000000, 8000000000, 16000000000, 32000000000,
        60000000000, 60000000000]).map
      (fun o => match o with | .retry w _ => some w | _ => none) =
      [some 1000000000, some 2000000000, some 4000000000, some 8000000000, some 16000000000,
       some 32000000000, none, none] ∧
    (Backoff.outcomes s [1000000000, 2000000000, 4000000000, 8000000000, 16000000000, 32000000000,
        60000000000, 60000000000]).drop 6 = [.abort, .abort] := by
  decide

/-- `connect`: two refused dials and a 503, then the node is back; a 401 ends it; a cancelled
context ends it; three refused dials leave it retrying with waits 1 ms, 2 ms, 4 ms -/
example :
    let c : Backoff.Conf := { minReconnectBackoff := 1000000, maxReconnectBackoff := 5000000 }
    Backoff.connect c [{ dial := .noResponse }, { dial := .noResponse }, { dial := .status 503 },
        { dial := .ok }, { dial := .noResponse }] =
      ⟨.connected, 4, [1000000, 2000000, 4000000], 0⟩ ∧
    Backoff.connect c [{ dial := .noResponse }, { dial := .status 401 }, { dial := .ok }] =
      ⟨.errPermanent 401, 2, [1000000], 0⟩ ∧
    Backoff.connect c [{ dial := .status 500 }, { dial := .noResponse, cancelInWait := true },
        { dial := .ok }] = ⟨.errCtx, 2, [1000000, 2000000], 0⟩ ∧
    Backoff.connect c [{ dial := .noResponse, ctxErr := true }] = ⟨.errCtx, 1, [], 0⟩ ∧
    Backoff.connect c [{ dial := .noResponse }, { dial := .noResponse, jitter := 100001 },
        { dial := .noResponse }, { dial := .noResponse }] =
      ⟨.stillRetrying, 4, [1000000, 2100001, 4200002, 5000000], 0⟩ ∧
    (Backoff.connect {} [{ dial := .status 502 }]).waits = [Backoff.defaultMinReconnectBackoff] := by
  decide

/-- `JoinOnStartup` with the pinned tree's arguments (5 retries, 1 s … 60 s): seven failed joins →
the error of join 5 (0-based) after 6 waits; an eighth attempt is never made; success at the third
join -/
example :
    let f : Backoff.JoinAttempt := { ok := false }
    let run := fun as => Backoff.joinFrom (Backoff.new 5 1000000000 60000000000) as 0 [] none
    run [f, f, f, f, f, f, f, f, { ok := true }] =
      ⟨.err (some 5), 7, [1000000000, 2000000000, 4000000000, 8000000000, 16000000000,
        32000000000]⟩ ∧
    run [f, f, { ok := true }, f] = ⟨.joined, 3, [1000000000, 2000000000]⟩ ∧
    run [f, { ok := false, cancelInWait := true }, { ok := true }] =
      ⟨.err (some 1), 2, [1000000000, 2000000000]⟩ ∧
    run [f, f, f] =
      ⟨.stillRetrying, 3, [1000000000, 2000000000, 4000000000]⟩ := by
  decide

/-- … and `joinOnStartup` is that run with the regenerated arguments -/
example (as : List Backoff.JoinAttempt) : Backoff.joinOnStartup as =
    Backoff.joinFrom (Backoff.new Backoff.joinRetries Backoff.joinMinBackoff Backoff.joinMaxBackoff) as 0 [] none := rfl

/-! ## The whole system: a graceful leave in the one model of gossip + syncer + manager

`PikoModel/Sys/System.lean` (see `Props/C04.lean`, `Props/C01.lean`): `Gossip.Leave` of node `a` is
`SysOp.leave a` (`LeaveLocal`: the left marker is written to `a`'s own state) followed by one
`SysOp.leaveStream a r now` per notified peer (`a` pushes its `LocalDelta` to `r`).  The theorems
below are about every reachable state (`SysAllowed` history: boots, upstream connects/disconnects,
compactions, gossip traffic with loss, duplication, reordering, truncation) and compose

* C17/C05 (`markerOK_runRev`: a node flagged left holds its live left marker - the subscriber never
  writes the reserved key, compaction keeps it),
* C03 (`applyEntries_catches_up`: a full push of the owner's state catches the receiver up,
  whatever it knew; `C03_converges`),
* C02 (`C02_caught_up_exact`: a caught-up view is the owner's map, marker included),
* C11 (`C11_net_invariant`: a view holding the marker is flagged left),
* C14 + C04 (`NodeInv.fold_view`, `NodeInv.rel`: the routing-table row is what `C04_table_spec` says
  about the notification fold; a node flagged left has status `left` or no row),
* `not_candidate_of_status` (`C18_left_stops_routing`, third clause).

Unlike `C18_left_stops_routing`/`C18_shutdown_order` (whose `LeaveDelta` allows no internal entry but
the marker) they also cover a leaver that has compacted its state before. -/

/-- **A notified peer stops routing to the leaver at once.**  In any reachable state let `a` perform
`LeaveLocal` and push its state to `r ≠ a`.  Immediately after that step, at `r`: the gossip view of
`a` is flagged left; `a` is not pending; the routing-table row of `a` - which is still there if it
was there before - has status `left`; `a` is in no `LookupEndpoint` candidate set, for any endpoint,
so `Select` at `r` never returns `a`. -/
theorem C18_system_leave_notified (ops : List SysOp) (hall : SysAllowed ops) (a r : String) (hne : r ≠ a)
    (now : Nat) (xa0 xr0 : SysNode) (ha0 : (Sys.runRev ops).node a = some xa0)
    (hr0 : (Sys.runRev ops).node r = some xr0) :
    SysAllowed (.leaveStream a r now :: .leave a :: ops) ∧
    ∃ xr V, (Sys.runRev (.leaveStream a r now :: .leave a :: ops)).node r = some xr ∧
      xr.mgr.gossip.nodes.find a = some V ∧ V.left = true ∧
      xr.sync.pending.find a = none ∧
      (∀ row, xr.mgr.cluster.nodes.find a = some row → row.status = .left) ∧
      (∀ row0, xr0.mgr.cluster.nodes.find a = some row0 →
        ∃ row, xr.mgr.cluster.nodes.find a = some row ∧ row.status = .left) ∧
      (∀ e, ∀ c ∈ xr.mgr.cluster.lookupCandidates e, c.id ≠ a) ∧
      (∀ e allow cs, (xr.mgr.select e allow).1 = .remote cs → a ∉ cs) := by
  have hall1 : SysAllowed (.leave a :: ops) := ⟨hall, trivial⟩
  have hall2 : SysAllowed (.leaveStream a r now :: .leave a :: ops) := ⟨hall1, trivial⟩
  refine ⟨hall2, ?_⟩
  obtain ⟨sda, ga, hsa, hga, rfl⟩ := Sys.node_eq ha0
  obtain ⟨sdr, gr, hsr, hgr, rfl⟩ := Sys.node_eq hr0
  have hnea : ¬ a = r := fun e => hne e.symm
  -- after `LeaveLocal`
  have hs1 : Sys.runRev (.leave a :: ops) =
      { net := (Sys.runRev ops).net.setNode a (leaveLocal ga), side := (Sys.runRev ops).side } :=
    Sys.step_leave_eq hga
  have hga1 : (Sys.runRev (.leave a :: ops)).net.nodes.find a = some (leaveLocal ga) := by
    rw [hs1]; simp [Net.setNode]
  have hgr1 : (Sys.runRev (.leave a :: ops)).net.nodes.find r = some gr := by
    rw [hs1]; simp [Net.setNode, AMap.find_insert, hnea, hgr]
  have hsr1 : (Sys.runRev (.leave a :: ops)).side.find r = some sdr := by rw [hs1]; exact hsr
  -- the push catches `r` up, hence `r` sees the marker
  obtain ⟨gr', V, h1, h2, h3, h4⟩ := Sys.leaveStream_caught_up _ hall1 hne now hga1 hgr1
  have hl : V.left = true :=
    Sys.left_of_caught_up _ hall2 hne h1 h2 h3 h4 (C11.own_left_leaveLocal ga)
  have hinv2 := sysInv_runRev _ hall2
  obtain ⟨sd2, hsd2⟩ := hinv2.side_of_net h1
  have hnode : (Sys.runRev (.leaveStream a r now :: .leave a :: ops)).node r =
      some { mgr := { lbs := sd2.lbs, cluster := sd2.table, gossip := gr' }, sync := sd2.sync, evs := sd2.evs } := by
    simp [Sys.node, hsd2, h1]
  obtain ⟨hp, hrow, hc, hsel⟩ := Sys.left_view_not_routed _ hall2 hne hnode h3 hl
  refine ⟨_, V, hnode, h3, hl, hp, hrow, ?_, hc, hsel⟩
  intro row0 hrow0
  obtain ⟨sd', hsd', hsome⟩ := Sys.recv_keeps_row (sysInv_runRev _ hall1) (.leaveStream a r now) trivial
    (fun _ _ _ => by simp) (fun _ _ _ => by simp) hsr1 (a := a) (by simp only [] at hrow0; rw [hrow0]; rfl)
  have hsd'' : (Sys.runRev (.leaveStream a r now :: .leave a :: ops)).side.find r = some sd' := hsd'
  rw [hsd2] at hsd''; cases hsd''
  cases hf : sd2.table.nodes.find a with
  | none => rw [hf] at hsome; cases hsome
  | some row => exact ⟨row, rfl, hrow row hf⟩

/-- **Whoever holds the leaver's current version no longer routes to it** - however it came to hold
it (the leaver's push, a join with the leaver, a pull, a relay through third parties).  In every
reachable state: if `a`'s own state is flagged left and `q ≠ a`'s gossip view of `a` has `a`'s
version, then that view is flagged left, `a` is not pending at `q`, its row (if any) has status
`left`, and `a` is no `LookupEndpoint` candidate / `Select` result at `q`. -/
theorem C18_system_caught_up_stops_routing (ops : List SysOp) (hall : SysAllowed ops) (a q : String)
    (hne : q ≠ a) (xa xq : SysNode) (ha : (Sys.runRev ops).node a = some xa)
    (hq : (Sys.runRev ops).node q = some xq) (hleft : (own xa.mgr.gossip).left = true)
    (V : NodeSt) (hV : xq.mgr.gossip.nodes.find a = some V)
    (hcaught : V.version = (own xa.mgr.gossip).version) :
    V.left = true ∧ xq.sync.pending.find a = none ∧
    (∀ row, xq.mgr.cluster.nodes.find a = some row → row.status = .left) ∧
    (∀ e, ∀ c ∈ xq.mgr.cluster.lookupCandidates e, c.id ≠ a) ∧
    (∀ e allow cs, (xq.mgr.select e allow).1 = .remote cs → a ∉ cs) := by
  have hl : V.left = true := by
    obtain ⟨sda, ga, hsa, hga, rfl⟩ := Sys.node_eq ha
    obtain ⟨sdq, gq, hsq, hgq, rfl⟩ := Sys.node_eq hq
    exact Sys.left_of_caught_up _ hall hne hgq hga hV hcaught hleft
  exact ⟨hl, Sys.left_view_not_routed _ hall hne hq hV hl⟩

/-- **The rest follow through gossip.**  `a` has left (`ops` is any reachable state in which its own
state is flagged left, e.g. the one after `SysOp.leave a`); `sched` is any quiet schedule (receive-side
steps only) that contains the stream exchange `join q a` for a node `q ≠ a`.  At the end `q`'s view of
`a` is flagged left, `a` is not pending at `q`, its row (if any) has status `left`, and `a` is no
lookup candidate at `q`.

(A pull/relay `q ← r'` from a third node `r'` that is caught up on `a` has the same effect *provided*
it brings `q` to `a`'s version: that is `C18_system_caught_up_stops_routing`.  That one such exchange
does bring `q` to `a`'s version is proved at network level only for exchanges with the owner
(`C03_join_catches_up`, `C03_pull_round_catches_up`); a relay lemma is missing.) -/
theorem C18_system_leave_spreads (ops sched : List SysOp) (hall : SysAllowed (sched ++ ops))
    (hq : ∀ op ∈ sched, op.quiet.isSome = true) (a q : String) (hne : q ≠ a)
    (xa0 : SysNode) (ha0 : (Sys.runRev ops).node a = some xa0) (hleft : (own xa0.mgr.gossip).left = true)
    (hq0 : ((Sys.runRev ops).node q).isSome = true)
    (hjoin : ∃ now, SysOp.join q a true now ∈ sched)
    (xq : SysNode) (hq1 : (Sys.runRev (sched ++ ops)).node q = some xq) :
    ∃ V, xq.mgr.gossip.nodes.find a = some V ∧ V.left = true ∧ xq.sync.pending.find a = none ∧
      (∀ row, xq.mgr.cluster.nodes.find a = some row → row.status = .left) ∧
      (∀ e, ∀ c ∈ xq.mgr.cluster.lookupCandidates e, c.id ≠ a) ∧
      (∀ e allow cs, (xq.mgr.select e allow).1 = .remote cs → a ∉ cs) := by
  obtain ⟨xa1, ha1, _, _, hown⟩ := Sys.quiet_keeps sched ops hall hq a xa0 ha0
  obtain ⟨V, hV, hver⟩ := Sys.caught_up_after_join ops sched hall hq q a hne hq0 (by rw [ha0]; rfl) hjoin
    xq xa1 hq1 ha1
  exact ⟨V, hV, C18_system_caught_up_stops_routing _ hall a q hne xa1 xq ha1 hq1 (by rw [hown]; exact hleft)
    V hV hver⟩

/-- **After a settle schedule nobody routes to the leaver.**  `a` has left; `sched` is a settle
schedule as in `C04_caught_up_after_settle` (quiet, containing `join r b` for every ordered pair of
nodes).  In the resulting state NO node has `a` as a `LookupEndpoint` candidate for any endpoint, and
`Select` returns `a` at no node. -/
theorem C18_system_leave_settled (ops sched : List SysOp) (hall : SysAllowed (sched ++ ops))
    (hq : ∀ op ∈ sched, op.quiet.isSome = true)
    (hjoins : ∀ r b, r ≠ b → ((Sys.runRev ops).node r).isSome = true → ((Sys.runRev ops).node b).isSome = true →
      ∃ now, SysOp.join r b true now ∈ sched)
    (a : String) (xa0 : SysNode) (ha0 : (Sys.runRev ops).node a = some xa0)
    (hleft : (own xa0.mgr.gossip).left = true)
    (q : String) (xq : SysNode) (hq1 : (Sys.runRev (sched ++ ops)).node q = some xq) :
    (∀ e, ∀ c ∈ xq.mgr.cluster.lookupCandidates e, c.id ≠ a) ∧
    (∀ e allow cs, (xq.mgr.select e allow).1 = .remote cs → a ∉ cs) := by
  have hcand : ∀ e, ∀ c ∈ xq.mgr.cluster.lookupCandidates e, c.id ≠ a := by
    by_cases hne : q = a
    · subst hne; exact Sys.self_not_candidate _ hall hq1
    · obtain ⟨xa1, ha1, _, _, hown⟩ := Sys.quiet_keeps sched ops hall hq a xa0 ha0
      obtain ⟨V, hV, hver⟩ := C04_caught_up_after_settle ops sched hall hq hjoins q a hne xq xa1 hq1 ha1
      exact (C18_system_caught_up_stops_routing _ hall a q hne xa1 xq ha1 hq1 (by rw [hown]; exact hleft)
        V hV hver).2.2.2.1
  exact ⟨hcand, fun e allow cs hs => Upstream.select_remote_not (hcand e) hs⟩

open Piko.Proxy in
/-- **Routing around the leaver.**  After a settle schedule on a cluster that is healthy except that
`a` has left (`SysHealthyExcept`: `a` flagged left, nobody else; no other node suspected; the other
nodes' addresses non-empty and distinct), a client request for endpoint `e` entering at any node other
than `a` is delivered to an upstream registered for `e` on a node **other than `a`** if one of them
has one, and is answered 502 by the entry node if none of them has - in particular when `e` is
registered only on `a` (whose upstream handlers may not have drained: `C18_leave_races_handlers`). -/
theorem C18_system_leave_routing (ops sched : List SysOp) (hall : SysAllowed (sched ++ ops))
    (hq : ∀ op ∈ sched, op.quiet.isSome = true)
    (hjoins : ∀ r b, r ≠ b → ((Sys.runRev ops).node r).isSome = true → ((Sys.runRev ops).node b).isSome = true →
      ∃ now, SysOp.join r b true now ∈ sched)
    (a : String) (hh : SysHealthyExcept (Sys.runRev (sched ++ ops)) a)
    (lib : Lib) (entry : String) (hea : entry ≠ a) (x : SysNode)
    (hentry : (Sys.runRev (sched ++ ops)).node entry = some x)
    (r : Req) (hnf : r.forwarded = false) (e : String) (he : endpointOf lib r = some e) (choices : List Nat) :
    ((∃ k xk, k ≠ a ∧ (Sys.runRev (sched ++ ops)).node k = some xk ∧ xk.mgr.registry e ≠ []) →
        ∃ k xk u, k ≠ a ∧ (Sys.runRev (sched ++ ops)).node k = some xk ∧ u ∈ xk.mgr.registry e ∧
          (route lib (Sys.runRev (sched ++ ops)).world entry r choices).1.outcome = .served k e u) ∧
    ((∀ k xk, k ≠ a → (Sys.runRev (sched ++ ops)).node k = some xk → xk.mgr.registry e = []) →
        (route lib (Sys.runRev (sched ++ ops)).world entry r choices).1 =
          { visited := [entry], via := [], outcome := .noUpstream entry }) := by
  have hinv := sysInv_runRev _ hall
  obtain ⟨hs, hng⟩ := Sys.settles_except ops sched hall hq hjoins a hh
  have hm : (Sys.runRev (sched ++ ops)).world.nodes.find entry = some x.mgr := by
    rw [Sys.world_find hinv, hentry]; rfl
  have hset := route_settled_except lib _ a hs hng 1 entry x.mgr hm hea r hnf e he choices
  constructor
  · rintro ⟨k, xk, hka, hk, hreg⟩
    obtain ⟨k', u, hka', hout, hu⟩ := hset.1 ⟨k, hka, by rw [Sys.world_reg hinv, hk]; exact hreg⟩
    rw [Sys.world_reg hinv] at hu
    cases hxk' : (Sys.runRev (sched ++ ops)).node k' with
    | none => rw [hxk'] at hu; simp at hu
    | some xk' =>
      rw [hxk'] at hu
      exact ⟨k', xk', u, hka', hxk', hu, hout⟩
  · intro hnone
    apply hset.2
    intro k hka
    rw [Sys.world_reg hinv]
    cases hxk : (Sys.runRev (sched ++ ops)).node k with
    | none => rfl
    | some xk => exact hnone k xk hka hxk

/-- **A leaver that closed its upstream connections first advertises nothing.**  In any reachable
state in which `a` has no registered upstream (every `AddConn` matched by its `RemoveConn`: the
handlers have drained, the model of "closes the upstream connections first"):
1. the delta `a` pushes when it leaves now (`LocalDelta` after `LeaveLocal`) contains no live
   `endpoint:` entry - tombstones only;
2. `LeaveLocal` changes nothing but `a`'s gossip state (the registry is still empty afterwards, so
   1 and 3 hold of every later state in which `a` has registered nothing new);
3. every node that is caught up with `a` lists no endpoint for `a` (whether or not `a` has left). -/
theorem C18_system_leaver_advertises_nothing (ops : List SysOp) (hall : SysAllowed ops) (a : String)
    (xa : SysNode) (ha : (Sys.runRev ops).node a = some xa) (hempty : ∀ e, xa.mgr.registry e = []) :
    (∀ de ∈ localDelta (leaveLocal xa.mgr.gossip), ∀ x ∈ de.entries, ∀ e,
      x.key = "endpoint:" ++ e → x.deleted = true) ∧
    (∃ xa', (Sys.runRev (.leave a :: ops)).node a = some xa' ∧
      xa'.mgr.gossip = leaveLocal xa.mgr.gossip ∧ (own xa'.mgr.gossip).left = true ∧
      (∀ e, xa'.mgr.registry e = [])) ∧
    (∀ r xr V row, r ≠ a → (Sys.runRev ops).node r = some xr → xr.mgr.gossip.nodes.find a = some V →
      V.version = (own xa.mgr.gossip).version → xr.mgr.cluster.nodes.find a = some row →
      ∀ e, row.endpoints.find e = none) := by
  refine ⟨?_, ?_, ?_⟩
  · obtain ⟨sda, ga, hsa, hga, rfl⟩ := Sys.node_eq ha
    have hni := (sysInv_runRev ops hall).node a sda ga hsa hga
    refine leave_delta_no_live_endpoint hni.ownwf (fun e => ?_)
    have := hni.minv.adv e
    rw [hempty e] at this
    exact this
  · have h := Sys.node_after_leave ha a
    simp only [if_true] at h
    exact ⟨_, h, rfl, C11.own_left_leaveLocal _, hempty⟩
  · intro r xr V row hne hr hV hver hrow e
    have := Sys.row_eps_of_caught_up ops hall hne hr ha hV hver (fun e => by rw [hempty e]; decide) hrow e
    rw [this, hempty e]; rfl

/-! ### Non-vacuity of the system-level theorems on concrete three-node runs

As in `Props/C04.lean`: the sort-free prefix of a run (boots, upstream connects and disconnects,
`LeaveLocal`) is evaluated by `decide`; the stream exchanges and the leaver's push (which sort their
deltas with `List.mergeSort`, not evaluable in the kernel) are discharged by the theorems. -/

section SysLeaveExample

/-- **`C18_system_leave_notified` on the run of `Props/C04.lean`**: after the six exchanges of
`SysEx.sched`, `n0`'s routing table lists `n1` (`C04_mirror_system`).  `n1` then leaves and notifies
`n0`: right after that step `n0`'s view of `n1` is flagged left, the row is still there with status
`left`, and `n1` is no candidate for any endpoint - although the row still lists `foo`. -/
example (now : Nat) : ∃ xr V row,
    (Sys.runRev (.leaveStream "n1" "n0" now :: .leave "n1" :: (SysEx.sched ++ SysEx.hist))).node "n0" = some xr ∧
    xr.mgr.gossip.nodes.find "n1" = some V ∧ V.left = true ∧
    xr.mgr.cluster.nodes.find "n1" = some row ∧ row.status = .left ∧
    (∀ e, ∀ c ∈ xr.mgr.cluster.lookupCandidates e, c.id ≠ "n1") ∧
    (∀ e allow cs, (xr.mgr.select e allow).1 = .remote cs → "n1" ∉ cs) := by
  obtain ⟨x0, h0⟩ := SysEx.final_exists "n0" (Or.inl rfl)
  obtain ⟨x1, h1⟩ := SysEx.final_exists "n1" (Or.inr (Or.inl rfl))
  have hf1 := SysEx.final_node h1
  simp only [show ("n1" = "n0") = False from by decide, show ("n1" = "n2") = False from by decide,
    false_and, or_false, false_or, true_and] at hf1
  obtain ⟨hlbs, hloc, hleft⟩ := hf1
  obtain ⟨V0, hV0, hver⟩ := C04_caught_up_after_settle SysEx.hist SysEx.sched SysEx.allowed SysEx.quiet SysEx.joins
    "n0" "n1" (by decide) x0 x1 h0 h1
  have hreg : ∀ e, x1.mgr.registry e = if "foo" = e then [3] else [] := by
    intro e; simp only [Upstream.Mgr.registry, hlbs, AMap.find_cons, AMap.find_nil]; split <;> rfl
  obtain ⟨_, row0, hrow0, _⟩ := C04_mirror_system _ SysEx.allowed "n0" "n1" (by decide) x0 x1 h0 h1 V0 hV0 hver
    hleft (by rw [hloc]; decide) (by rw [hloc]; decide) (fun e => by rw [hreg]; split <;> simp)
  obtain ⟨_, xr, V, hr, hV, hl, _, _, hkeep, hc, hsel⟩ :=
    C18_system_leave_notified _ SysEx.allowed "n1" "n0" (by decide) now x1 x0 h1 h0
  obtain ⟨row, hrow, hst⟩ := hkeep row0 hrow0
  exact ⟨xr, V, row, hr, hV, hl, hrow, hst, hc, hsel⟩

namespace LeaveEx

/-- three nodes boot; upstream 3 registers `foo` on `n1`, upstream 5 registers `foo` on `n2`, upstream 9
registers `baz` on `n1`; then `n1` performs `LeaveLocal` **with both its upstreams still registered**
(the race of `C18_leave_races_handlers`).  Latest operation first. -/
def hist : List SysOp :=
  [.leave "n1", .addConn "n1" 9 "baz", .addConn "n2" 5 "foo", .addConn "n1" 3 "foo",
   .boot "n2" "g2" "p2" "a2", .boot "n1" "g1" "p1" "a1", .boot "n0" "g0" "p0" "a0"]

/-- `n1` notifies `n0`; then one full exchange for each of the six ordered pairs -/
def sched : List SysOp := SysEx.sched ++ [.leaveStream "n1" "n0" 0]

theorem allowed : SysAllowed (sched ++ hist) := by
  simp [sched, SysEx.sched, hist, SysAllowed, SysStepAllowed]

theorem quiet : ∀ op ∈ sched, op.quiet.isSome = true := by decide

theorem noLiveness : ∀ op ∈ sched ++ hist, ∀ n sus now, op ≠ .liveness n sus now := by
  intro op hop n sus now
  simp only [sched, SysEx.sched, hist, List.cons_append, List.nil_append, List.mem_cons, List.not_mem_nil,
    or_false] at hop
  rcases hop with rfl | rfl | rfl | rfl | rfl | rfl | rfl | rfl | rfl | rfl | rfl | rfl | rfl | rfl <;> simp

set_option maxRecDepth 8000 in
theorem hist_keys : (Sys.runRev hist).side.keys = ["n1", "n2", "n0"] := by decide

set_option maxRecDepth 8000 in
theorem hist_n0 : SysEx.summary (Sys.runRev hist) "n0" =
    some ([], { id := "n0", status := .active, proxyAddr := "p0", adminAddr := "a0" }, false) := by decide
set_option maxRecDepth 8000 in
theorem hist_n1 : SysEx.summary (Sys.runRev hist) "n1" =
    some ([("baz", { ups := [9] }), ("foo", { ups := [3] })],
      { id := "n1", status := .active, proxyAddr := "p1", adminAddr := "a1", endpoints := [("baz", 1), ("foo", 1)] },
      true) := by decide
set_option maxRecDepth 8000 in
theorem hist_n2 : SysEx.summary (Sys.runRev hist) "n2" =
    some ([("foo", { ups := [5] })],
      { id := "n2", status := .active, proxyAddr := "p2", adminAddr := "a2", endpoints := [("foo", 1)] }, false) := by decide

theorem node_mem {k : String} (h : ((Sys.runRev hist).node k).isSome = true) : k = "n1" ∨ k = "n2" ∨ k = "n0" := by
  have := SysEx.node_mem_keys h
  rw [hist_keys] at this
  simpa using this

theorem joins : ∀ r b, r ≠ b → ((Sys.runRev hist).node r).isSome = true → ((Sys.runRev hist).node b).isSome = true →
    ∃ now, SysOp.join r b true now ∈ sched := by
  intro r b hne hr hb
  rcases node_mem hr with rfl | rfl | rfl <;> rcases node_mem hb with rfl | rfl | rfl <;>
    first
    | exact absurd rfl hne
    | exact ⟨_, by simp [sched, SysEx.sched]; rfl⟩

/-- every node of the final state is one of the three, with the registry, local row and left-flag it
had after `hist` -/
theorem final_node {k : String} {x : SysNode} (h : (Sys.runRev (sched ++ hist)).node k = some x) :
    (k = "n0" ∧ x.mgr.lbs = [] ∧
        x.mgr.cluster.localNode = { id := "n0", status := .active, proxyAddr := "p0", adminAddr := "a0" } ∧
        (own x.mgr.gossip).left = false) ∨
    (k = "n1" ∧ x.mgr.lbs = [("baz", { ups := [9] }), ("foo", { ups := [3] })] ∧
        x.mgr.cluster.localNode =
          { id := "n1", status := .active, proxyAddr := "p1", adminAddr := "a1", endpoints := [("baz", 1), ("foo", 1)] } ∧
        (own x.mgr.gossip).left = true) ∨
    (k = "n2" ∧ x.mgr.lbs = [("foo", { ups := [5] })] ∧
        x.mgr.cluster.localNode =
          { id := "n2", status := .active, proxyAddr := "p2", adminAddr := "a2", endpoints := [("foo", 1)] } ∧
        (own x.mgr.gossip).left = false) := by
  have hs := SysEx.summary_quiet sched hist allowed quiet k
  have hsome : ((Sys.runRev hist).node k).isSome = true := by
    cases h0 : (Sys.runRev hist).node k with
    | some _ => rfl
    | none => simp [SysEx.summary, h0, h] at hs
  simp only [SysEx.summary, h, Option.map_some] at hs
  rcases node_mem hsome with rfl | rfl | rfl
  · have := hist_n1; simp only [SysEx.summary] at this; rw [← hs] at this
    simp only [Option.some.injEq, Prod.mk.injEq] at this
    exact Or.inr (Or.inl ⟨rfl, this.1, this.2.1, this.2.2⟩)
  · have := hist_n2; simp only [SysEx.summary] at this; rw [← hs] at this
    simp only [Option.some.injEq, Prod.mk.injEq] at this
    exact Or.inr (Or.inr ⟨rfl, this.1, this.2.1, this.2.2⟩)
  · have := hist_n0; simp only [SysEx.summary] at this; rw [← hs] at this
    simp only [Option.some.injEq, Prod.mk.injEq] at this
    exact Or.inl ⟨rfl, this.1, this.2.1, this.2.2⟩

theorem final_exists (k : String) (hk : k = "n0" ∨ k = "n1" ∨ k = "n2") :
    ∃ x, (Sys.runRev (sched ++ hist)).node k = some x := by
  have h := SysEx.summary_quiet sched hist allowed quiet k
  have h0 : (SysEx.summary (Sys.runRev hist) k).isSome = true := by
    rcases hk with rfl | rfl | rfl
    · rw [hist_n0]; rfl
    · rw [hist_n1]; rfl
    · rw [hist_n2]; rfl
  rw [← h] at h0
  unfold SysEx.summary at h0
  cases hx : (Sys.runRev (sched ++ hist)).node k with
  | none => rw [hx] at h0; cases h0
  | some x => exact ⟨x, rfl⟩

theorem registry_final {k : String} {x : SysNode} (h : (Sys.runRev (sched ++ hist)).node k = some x) (e : String) :
    x.mgr.registry e = if k = "n1" ∧ e = "foo" then [3] else if k = "n1" ∧ e = "baz" then [9]
      else if k = "n2" ∧ e = "foo" then [5] else [] := by
  rcases final_node h with ⟨rfl, hl, _, _⟩ | ⟨rfl, hl, _, _⟩ | ⟨rfl, hl, _, _⟩ <;>
    simp only [Upstream.Mgr.registry, hl, AMap.find_cons, AMap.find_nil] <;>
    (by_cases he : "foo" = e
     · subst he; simp
     · have he' : ¬ e = "foo" := fun h => he h.symm
       by_cases hb : "baz" = e
       · subst hb; simp
       · have hb' : ¬ e = "baz" := fun h => hb h.symm
         simp [he, he', hb, hb'])

theorem healthyExcept : SysHealthyExcept (Sys.runRev (sched ++ hist)) "n1" where
  left := by
    intro x h
    rcases final_node h with ⟨hk, _⟩ | ⟨_, _, _, hl⟩ | ⟨hk, _⟩
    · exact absurd hk (by decide)
    · exact hl
    · exact absurd hk (by decide)
  notLeft := by
    intro n x hn h
    rcases final_node h with ⟨_, _, _, hl⟩ | ⟨hk, _⟩ | ⟨_, _, _, hl⟩
    · exact hl
    · exact absurd hk hn
    · exact hl
  reachable := fun n x k V h hV hne _ =>
    no_unreachable_of_noLiveEvs (sysInv_runRev _ allowed) (noLiveEvs_runRev _ allowed noLiveness) h hV hne
  addrs := by
    intro n x _ h
    rcases final_node h with ⟨_, _, hl, _⟩ | ⟨_, _, hl, _⟩ | ⟨_, _, hl, _⟩ <;> rw [hl] <;> decide
  small := by
    intro n x e _ h
    rw [registry_final h]
    split
    · simp
    · split
      · simp
      · split <;> simp
  distinct := by
    intro b c xb xc hb hc hbc
    rcases final_node hb with ⟨rfl, _, hlb, _⟩ | ⟨rfl, _, hlb, _⟩ | ⟨rfl, _, hlb, _⟩ <;>
      rcases final_node hc with ⟨rfl, _, hlc, _⟩ | ⟨rfl, _, hlc, _⟩ | ⟨rfl, _, hlc, _⟩ <;>
      first
      | rfl
      | (rw [hlb, hlc] at hbc; revert hbc; decide)

end LeaveEx

open Piko.Proxy in
/-- **Non-vacuity of `C18_system_leave_settled` and `C18_system_leave_routing`** on `LeaveEx`: `n1` left
while upstream 3 (`foo`) and upstream 9 (`baz`) were still registered with it.  After its push to `n0`
and the six exchanges: no node has `n1` as a lookup candidate; for every choice `LookupEndpoint` makes, a
request for `foo` entering at `n0` is delivered to upstream 5 on `n2` (never to upstream 3 on the
leaver), and a request for `baz` - registered only on the leaver - is answered 502 by `n0`. -/
example (choices : List Nat) :
    (∀ q xq, (Sys.runRev (LeaveEx.sched ++ LeaveEx.hist)).node q = some xq →
      ∀ e, ∀ c ∈ xq.mgr.cluster.lookupCandidates e, c.id ≠ "n1") ∧
    (route { splitHostPort := fun _ => none, parseIP := fun _ => false }
        (Sys.runRev (LeaveEx.sched ++ LeaveEx.hist)).world "n0" { host := "foo.example.com" } choices).1.outcome =
      .served "n2" "foo" 5 ∧
    (route { splitHostPort := fun _ => none, parseIP := fun _ => false }
        (Sys.runRev (LeaveEx.sched ++ LeaveEx.hist)).world "n0" { host := "baz.example.com" } choices).1 =
      { visited := ["n0"], via := [], outcome := .noUpstream "n0" } := by
  obtain ⟨x0, h0⟩ := LeaveEx.final_exists "n0" (Or.inl rfl)
  obtain ⟨x2, h2⟩ := LeaveEx.final_exists "n2" (Or.inr (Or.inr rfl))
  refine ⟨?_, ?_, ?_⟩
  · intro q xq hq
    cases hx : (Sys.runRev LeaveEx.hist).node "n1" with
    | none => have := LeaveEx.hist_n1; simp [SysEx.summary, hx] at this
    | some xa0 =>
      have hl : (own xa0.mgr.gossip).left = true := by
        have := LeaveEx.hist_n1
        simp only [SysEx.summary, hx, Option.map_some, Option.some.injEq, Prod.mk.injEq] at this
        exact this.2.2
      exact (C18_system_leave_settled LeaveEx.hist LeaveEx.sched LeaveEx.allowed LeaveEx.quiet LeaveEx.joins
        "n1" xa0 hx hl q xq hq).1
  · have h := (C18_system_leave_routing LeaveEx.hist LeaveEx.sched LeaveEx.allowed LeaveEx.quiet LeaveEx.joins
      "n1" LeaveEx.healthyExcept { splitHostPort := fun _ => none, parseIP := fun _ => false } "n0" (by decide) x0 h0
      { host := "foo.example.com" } rfl "foo" (by decide) choices).1
      ⟨"n2", x2, by decide, h2, by rw [LeaveEx.registry_final h2]; simp⟩
    obtain ⟨k, xk, u, hka, hk, hu, hout⟩ := h
    rw [LeaveEx.registry_final hk] at hu
    split at hu
    · next hc => exact absurd hc.1 hka
    · split at hu
      · next hc => exact absurd hc.1 hka
      · split at hu
        · next hc =>
          obtain ⟨rfl, _⟩ := hc
          simp only [List.mem_cons, List.not_mem_nil, or_false] at hu
          subst hu; exact hout
        · simp at hu
  · refine (C18_system_leave_routing LeaveEx.hist LeaveEx.sched LeaveEx.allowed LeaveEx.quiet LeaveEx.joins
      "n1" LeaveEx.healthyExcept { splitHostPort := fun _ => none, parseIP := fun _ => false } "n0" (by decide) x0 h0
      { host := "baz.example.com" } rfl "baz" (by decide) choices).2 ?_
    intro k xk hka hk
    rw [LeaveEx.registry_final hk]
    have : ¬ k = "n1" := hka
    simp [this]

/-- the endpoint the last example asks for **is** registered - on the leaver only -/
example : ∃ x1, (Sys.runRev (LeaveEx.sched ++ LeaveEx.hist)).node "n1" = some x1 ∧
    x1.mgr.registry "baz" = [9] ∧ (own x1.mgr.gossip).left = true := by
  obtain ⟨x1, h1⟩ := LeaveEx.final_exists "n1" (Or.inr (Or.inl rfl))
  refine ⟨x1, h1, by rw [LeaveEx.registry_final h1]; simp, ?_⟩
  rcases LeaveEx.final_node h1 with ⟨hk, _⟩ | ⟨_, _, _, hl⟩ | ⟨hk, _⟩
  · exact absurd hk (by decide)
  · exact hl
  · exact absurd hk (by decide)

/-- a leaver whose only upstream disconnected first: `n1` registered upstream 3 for `foo` and removed it
again (latest first) -/
def drainedHist : List SysOp :=
  [.removeConn "n1" 3 "foo", .addConn "n1" 3 "foo", .boot "n1" "g1" "p1" "a1", .boot "n0" "g0" "p0" "a0"]

set_option maxRecDepth 8000 in
/-- **Non-vacuity of `C18_system_leaver_advertises_nothing`**: `n1`'s registry is empty, its own gossip
state still holds `endpoint:foo` - as a tombstone - and the delta it pushes when it leaves now carries no
live `endpoint:` entry. -/
example : ∃ xa, (Sys.runRev drainedHist).node "n1" = some xa ∧ (∀ e, xa.mgr.registry e = []) ∧
    ((own xa.mgr.gossip).entries.find "endpoint:foo").map (fun en => (en.deleted, en.version)) = some (true, 4) ∧
    (∀ de ∈ localDelta (leaveLocal xa.mgr.gossip), ∀ x ∈ de.entries, ∀ e,
      x.key = "endpoint:" ++ e → x.deleted = true) := by
  have hsum : ((Sys.runRev drainedHist).node "n1").map (fun x => (x.mgr.lbs,
      ((own x.mgr.gossip).entries.find "endpoint:foo").map (fun en => (en.deleted, en.version)))) =
      some ([], some (true, 4)) := by decide
  cases hx : (Sys.runRev drainedHist).node "n1" with
  | none => rw [hx] at hsum; cases hsum
  | some xa =>
    rw [hx] at hsum
    simp only [Option.map_some, Option.some.injEq, Prod.mk.injEq] at hsum
    have hempty : ∀ e, xa.mgr.registry e = [] := fun e => by simp [Upstream.Mgr.registry, hsum.1]
    have hallowed : SysAllowed drainedHist := by simp [drainedHist, SysAllowed, SysStepAllowed]
    exact ⟨xa, rfl, hempty, hsum.2,
      (C18_system_leaver_advertises_nothing drainedHist hallowed "n1" xa hx hempty).1⟩

end SysLeaveExample

end Piko
