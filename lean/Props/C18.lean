import Proofs.Lifecycle
import PikoModel.Generated.Facts
/-!
# C18 — Losing a node: traffic is withdrawn from it and recovers on the survivors

Models: `PikoModel/Node/Lifecycle.lean` (`Server.Shutdown` as the ordered action list
`shutdownActions`, interleaved with the upstream handlers' events; `acceptDecision` =
`client/listener.go AcceptWithContext` with the D4 repair), composed with the upstream session
model of C16, the manager model of C05, the gossip state model (`leaveLocal`, `localDelta`,
`applyDelta`) and the syncer/routing-table model.

A *shutdown schedule* is any step list whose `Action`s, in order, are `shutdownActions reached`
(`reached` = the peers `Leave` gets through to) with upstream-handler / client / proxy events
interleaved anywhere: `Server.Shutdown` cancels the handlers' context but does **not** wait
for the handler goroutines (hijacked websocket connections are invisible to
`http.Server.Shutdown`), so their deferred `RemoveConn` races with `Leave`.  On the real code
the left marker is in fact usually written *before* the endpoint entries are withdrawn
(witness and counts in `evidence/C18.json`, histogram `leave-order:*`).  The theorems therefore
separate what holds for **every** schedule from what needs "the handlers have drained".

**Partial**: process kill, TCP behaviour, failure-detector timing, the grace-period bound and
backoff timing are runtime behaviour; the correspondence engine `node` exercises them on real
nodes (in-process quick tier, real processes + SIGKILL in the thorough tier).
-/
namespace Piko
open Piko.Gossip Piko.Upstream Piko.Upstream.Session Piko.Node

/-- **Shutdown order.**  For a node whose upstream server is in any reachable state, and any
shutdown schedule split at the `LeaveLocal` action:

1. (every schedule) when the left marker is written the upstream server has already been shut
   down: its listener is closed and every handler's context cancelled (`cancelled`), and the
   actions that ran before are exactly `stopJWKS, notReady, upstreamShutdown, proxyShutdown`;
2. (every schedule) every delta `Leave` pushes afterwards is a `LeaveDelta`: one entry list for
   this node, sorted by version, containing the left marker, nothing else internal;
3. (handlers drained: all connections released when `Leave` starts) every such delta is the
   same list `leaveEntries`, it contains **no live endpoint entry**, and it **ends with the left
   marker**, which has the strictly greatest version. -/
theorem C18_shutdown_order (id proxy admin : String) (evs0 : List Ev) (n : St)
    (hn : n.srv = reachS id proxy admin evs0) (reached : List String) (pre post : List Step)
    (hsched : (pre ++ Step.act .leaveLocal :: post).filterMap Step.action? = shutdownActions reached) :
    ((n.run pre).srv.cancelled = true ∧
      pre.filterMap Step.action? = [.stopJWKS, .notReady, .upstreamShutdown, .proxyShutdown]) ∧
    (∀ pd ∈ (n.run (pre ++ Step.act .leaveLocal :: post)).pushed,
      pd ∈ n.pushed ∨
      LeaveDelta (own (n.run pre).gossip).id pd.2 (marker (n.run pre).gossip)) ∧
    ((n.run pre).srv.allReleased →
      (∀ pd ∈ (n.run (pre ++ Step.act .leaveLocal :: post)).pushed,
        pd ∈ n.pushed ∨ pd.2 = localDelta (leaveLocal (n.run pre).gossip)) ∧
      (leaveEntries (n.run pre).gossip).getLast? = some (marker (n.run pre).gossip) ∧
      (∀ x ∈ leaveEntries (n.run pre).gossip,
        x = marker (n.run pre).gossip ∨ x.version < (marker (n.run pre).gossip).version) ∧
      (∀ x ∈ leaveEntries (n.run pre).gossip, ∀ e, x.key = epKey e → x.deleted = true)) := by
  obtain ⟨hcanc, hP⟩ := cancelled_before_leave reached n pre post hsched
  have hsinv0 : SInv n.srv := by rw [hn]; exact sinv_reach id proxy admin evs0
  have hginv0 : GInv n.gossip := by
    show GInv n.srv.mgr.gossip; rw [hn]; exact ginv_reach id proxy admin evs0
  have hpre_ne : ∀ a ∈ pre.filterMap Step.action?, a ≠ Action.leaveLocal := by
    intro a ha; rw [hP] at ha; exact ne_leaveLocal_of_mem_first ha
  have hginv : GInv (n.run pre).gossip := ginv_st_run pre hginv0 hpre_ne
  have hsinv : SInv (n.run pre).srv := sinv_st_run pre hsinv0
  -- pushes before `leaveLocal`: none (the first four actions push nothing)
  have hpush_pre : (n.run pre).pushed = n.pushed := by
    have : ∀ (steps : List Step) (m : St), (∀ a ∈ steps.filterMap Step.action?, ∀ p, a ≠ Action.pushLeave p) →
        (m.run steps).pushed = m.pushed := by
      intro steps
      induction steps with
      | nil => intro m _; rfl
      | cons st steps ih =>
        intro m hne
        have h1 : (m.step st).pushed = m.pushed := by
          cases st with
          | ev e => rfl
          | act a =>
            cases a with
            | pushLeave p => exact absurd rfl (hne (.pushLeave p) (by simp [Step.action?]) p)
            | _ => rfl
        have := ih (m.step st) (by
          intro a ha p
          apply hne
          cases hs : st.action? with
          | none => simpa [List.filterMap_cons, hs] using ha
          | some b => simp [List.filterMap_cons, hs, ha])
        exact this.trans h1
    apply this
    intro a ha p hap
    rw [hP] at ha; subst hap; simp at ha
  have hrun : n.run (pre ++ Step.act .leaveLocal :: post) = (((n.run pre).act .leaveLocal).run post) := by
    simp [St.run, List.foldl_append, St.step]
  have hL : GInvL ((n.run pre).act .leaveLocal).gossip (marker (n.run pre).gossip) :=
    ginvL_leaveLocal hginv
  have hidL : (own ((n.run pre).act .leaveLocal).gossip).id = (own (n.run pre).gossip).id := by
    show (own (leaveLocal (n.run pre).gossip)).id = _
    rw [own_leaveLocal hginv.notLeft]; rfl
  refine ⟨⟨hcanc, hP⟩, ?_, ?_⟩
  · intro pd hpd
    rw [hrun] at hpd
    rcases (ginvL_st_run post hL).2 pd hpd with hin | hd
    · left
      have : ((n.run pre).act .leaveLocal).pushed = (n.run pre).pushed := rfl
      rw [this, hpush_pre] at hin; exact hin
    · right; rw [← hidL]; exact hd
  · intro hrel
    have hq : Quiet ((n.run pre).act .leaveLocal) :=
      { cancelled := hcanc
        released := hrel
        empty := fun e => by
          show (n.run pre).srv.mgr.registry e = []
          exact registry_nil_of_released hsinv hrel e
        left := by
          show (own (leaveLocal (n.run pre).gossip)).left = true
          rw [own_leaveLocal hginv.notLeft]; rfl }
    have hadv : ∀ e, liveValue (n.run pre).gossip (epKey e) = none :=
      (empty_of_registry_nil hsinv.mgr (registry_nil_of_released hsinv hrel)).2.2
    refine ⟨?_, leaveEntries_getLast hginv, fun x hx => leaveEntries_lt_marker hginv hx,
      fun x hx e hk => leaveEntries_no_live_endpoint hginv hadv hx e hk⟩
    intro pd hpd
    rw [hrun] at hpd
    rcases (quiet_run post hq).2.2 pd hpd with hin | heq
    · left
      have : ((n.run pre).act .leaveLocal).pushed = (n.run pre).pushed := rfl
      rw [this, hpush_pre] at hin; exact hin
    · right; exact heq

/-- **Upstreams are withdrawn before the node stops taking proxy traffic.**  In every shutdown
schedule, when the proxy server is shut down (stops accepting, drains in-flight requests - which
may take up to the grace period) the upstream server has already been shut down: its listener
is closed and every handler's context is cancelled, so the listeners are already being sent
away to reconnect elsewhere and the endpoint entries are already being withdrawn while the
proxy still drains; the proxy was still up until then. -/
theorem C18_upstream_before_proxy (n : St) (reached : List String) (pre post : List Step)
    (hsched : (pre ++ Step.act .proxyShutdown :: post).filterMap Step.action? = shutdownActions reached) :
    (n.run pre).srv.cancelled = true ∧ (n.run pre).proxyUp = n.proxyUp :=
  cancelled_before_proxy reached n pre post hsched

/-- **A notified peer stops routing to the node in the same step.**  A receiver `r` (any
gossip state) that is not ahead of the marker applies a `LeaveDelta` for node `id ≠` itself:
the node's view is flagged `left`, set to expire after `nodeExpiry`, and the watcher is told
`leave id` — whatever else the delta carries (live endpoint entries written before the
handlers drained, tombstones written after the marker).  The syncer's `OnLeave` then gives the
node's row status `left`, and a row whose status is not `active` is in no `LookupEndpoint`
candidate set (also covers `unreachable`, the status a killed node gets). -/
theorem C18_left_stops_routing :
    (∀ (now : Nat) (r : CState) (id : String) (d : Delta) (mk : Entry),
      LeaveDelta id d mk → id ≠ r.localId →
      (∀ nv, r.nodes.find id = some nv → nv.id = id ∧ nv.version < mk.version) →
      ∃ nv', (applyDelta now r d).1.nodes.find id = some nv' ∧ nv'.left = true ∧
        nv'.expiry = some (now + nodeExpiry) ∧ Event.leave id ∈ (applyDelta now r d).2) ∧
    (∀ (sy : Cluster.Sync) (id : String), id ≠ sy.table.localId → TableOK sy.table →
      (∀ nd, (sy.onLeave id).table.nodes.find id = some nd → nd.status = .left) ∧
      TableOK (sy.onLeave id).table ∧
      ∀ e, ∀ c ∈ (sy.onLeave id).table.lookupCandidates e, c.id ≠ id) ∧
    (∀ (t : Cluster.State) (id : String), TableOK t →
      (∀ nd, t.nodes.find id = some nd → nd.status ≠ .active) →
      ∀ e, ∀ c ∈ t.lookupCandidates e, c.id ≠ id) := by
  refine ⟨?_, ?_, ?_⟩
  · intro now r id d mk hd hid hver
    obtain ⟨addr, es, rfl, hsorted, hmem, hall⟩ := hd.shape
    have hview : (C11.viewOf r { id := id, addr := addr, entries := es }).version < mk.version ∧
        (C11.viewOf r { id := id, addr := addr, entries := es }).id = id := by
      cases hf : r.nodes.find id with
      | some nv =>
        rw [C11.viewOf_of_find (de := { id := id, addr := addr, entries := es }) hf]
        exact ⟨(hver nv hf).2, (hver nv hf).1⟩
      | none =>
        rw [C11.viewOf_of_none (de := { id := id, addr := addr, entries := es }) hf]
        exact ⟨hd.pos, rfl⟩
    obtain ⟨hleft, hev⟩ := applyEntries_reaches_marker' now mk hd.isMarker es _ hsorted hall hmem hview.1
    rw [hview.2] at hev
    have h1 : (applyDelta now r [{ id := id, addr := addr, entries := es }]).1 =
        (applyDeltaEntry now r { id := id, addr := addr, entries := es }).1 := rfl
    have h2 : (applyDelta now r [{ id := id, addr := addr, entries := es }]).2 =
        [] ++ (applyDeltaEntry now r { id := id, addr := addr, entries := es }).2 := rfl
    rw [h1, h2, C11.applyDeltaEntry_fst, C11.applyDeltaEntry_snd]
    simp only [hid, if_false, List.nil_append]
    refine ⟨_, AMap.find_insert_self _ _ _, hleft.1, hleft.2, ?_⟩
    exact List.mem_append_right _ hev
  · intro sy id hid ht
    have h1 := onLeave_table sy id hid
    have h2 := tableOK_onLeave ht id
    refine ⟨h1, h2, ?_⟩
    intro e
    apply not_candidate_of_status h2 id
    intro nd hf hact
    rw [h1 nd hf] at hact; cases hact
  · intro t id ht h e
    exact not_candidate_of_status ht id h e

/-- **The model's phase order is the source's call order** (regenerated on every run by
`harness/cmd/facts/facts_shutdown.go` from `server/server.go`): the calls `Server.Shutdown`
makes on its receiver, in source order, are exactly the phases of `shutdownActions`; in
particular the upstream server is shut down - endpoints start being withdrawn, listeners are
sent away - **before** the node stops accepting proxy traffic and before `Leave`, and `Leave`
runs before the gossip sockets are closed.  `upstream.Server.Shutdown` closes the listener
and then cancels the handlers' context.  A reordering of these calls breaks this theorem. -/
theorem C18_facts_shutdown_order :
    Facts.shutdownCalls = some ((shutdownActions []).filterMap Action.callName) ∧
    (∀ l, Facts.shutdownCalls = some l →
      callPrecedes "shutdownUpstreamServer" "shutdownProxyServer" l = true ∧
      callPrecedes "shutdownUpstreamServer" "gossiper.Leave" l = true ∧
      callPrecedes "shutdownProxyServer" "gossiper.Leave" l = true ∧
      callPrecedes "gossiper.Leave" "gossiper.Close" l = true ∧
      callPrecedes "adminServer.SetReady" "shutdownUpstreamServer" l = true) ∧
    Facts.shutdownUpstreamServerCalls = some ["rebalanceCancel", "upstreamServer.Shutdown"] ∧
    Facts.upstreamShutdownCalls = some ["httpServer.Shutdown", "cancel"] := by
  refine ⟨by decide, ?_, by decide, by decide⟩
  intro l hl
  have : l = ["stopJWKSRefresher", "adminServer.SetReady", "shutdownUpstreamServer",
      "shutdownProxyServer", "gossiper.Leave", "gossiper.Close", "shutdownAdminServer", "wg.Wait"] := by
    have h : Facts.shutdownCalls = some ["stopJWKSRefresher", "adminServer.SetReady",
      "shutdownUpstreamServer", "shutdownProxyServer", "gossiper.Leave", "gossiper.Close",
      "shutdownAdminServer", "wg.Wait"] := by decide
    rw [h] at hl
    exact (Option.some.inj hl).symm
  subst this
  decide

/-- **The race is real in the model too** (as on the code): there is a shutdown schedule in
which, at the moment `Leave` pushes `LocalDelta` to a peer, the node's own state is flagged
left and still holds a **live** endpoint entry - the cancelled handler has not deregistered
yet.  (The peer marks the node `left` all the same: `C18_left_stops_routing` does not need the
drain.) -/
theorem C18_leave_races_handlers :
    ∃ (n : St) (pre post : List Step) (peer : String) (reached : List String),
      (pre ++ Step.act (.pushLeave peer) :: post).filterMap Step.action? = shutdownActions reached ∧
      (own (n.run pre).gossip).left = true ∧
      liveValue (n.run pre).gossip (epKey "e") = some "1" ∧
      (n.run (pre ++ Step.act (.pushLeave peer) :: post)).srv.allReleased := by
  refine ⟨{ srv := (Srv.init "n1" "p" "a").connect 1 "e" none },
    [.act .stopJWKS, .act .notReady, .act .upstreamShutdown, .act .proxyShutdown, .act .leaveLocal],
    [.ev (.fail 1 .shutdown), .ev (.defer 1), .ev (.defer 1), .ev (.defer 1), .ev (.defer 1),
     .act .gossipClose, .act .adminShutdown, .act .waitGoroutines],
    "n0", ["n0"], by decide, by decide, by decide, ?_⟩
  intro c conn h
  have hall : ∀ p ∈ (St.run { srv := (Srv.init "n1" "p" "a").connect 1 "e" none }
      ([.act .stopJWKS, .act .notReady, .act .upstreamShutdown, .act .proxyShutdown, .act .leaveLocal] ++
        Step.act (.pushLeave "n0") ::
        [.ev (.fail 1 .shutdown), .ev (.defer 1), .ev (.defer 1), .ev (.defer 1), .ev (.defer 1),
         .act .gossipClose, .act .adminShutdown, .act .waitGoroutines])).srv.conns,
      p.2.phase = Phase.released := by decide
  exact hall _ (AMap.mem_of_find h)

/-- **Reconnect decision** (`AcceptWithContext`, repaired code).  Total and exclusive:
a cancelled caller context ⇒ the context error; otherwise a session that ended with a
close-like error while the listener was closed locally (`Close`/`Shutdown`) ⇒ `ErrClosed`;
otherwise — in particular every session loss not initiated locally — reconnect (with backoff,
forever: the reconnect only fails when the listener's own close context is cancelled); and
after a successful reconnect the close context is re-checked: a listener closed *while*
reconnecting returns `ErrClosed` and closes the new session, which nobody had told (`F11`).
The pinned tree classified a remote close as local (`D4`) and, before `F11`, kept accepting on
the new session after such a close. -/
theorem C18_reconnect_decision (ctx loc during : Bool) (k : ErrKind) :
    (ctx = false → loc = false → acceptDecision ctx loc k = .reconnect) ∧
    (ctx = false → loc = true → k ≠ .other → acceptDecision ctx loc k = .errClosed) ∧
    (ctx = true → acceptDecision ctx loc k = .ctxErr) ∧
    (acceptDecision ctx loc k = .reconnect ↔ (ctx = false ∧ (loc = false ∨ k = .other))) ∧
    (acceptDecision ctx loc k = .errClosed ↔ (ctx = false ∧ loc = true ∧ k ≠ .other)) ∧
    (acceptDecision ctx loc k = .ctxErr ↔ ctx = true) ∧
    -- the listener keeps accepting (on the new session) iff nothing was closed or cancelled
    (acceptOutcome ctx loc during k = .reconnected ↔ (ctx = false ∧ loc = false ∧ during = false)) ∧
    -- closed locally while reconnecting (F11): `ErrClosed`, and the new session is closed
    (ctx = false → loc = false → during = true →
      acceptOutcome ctx loc during k = .errClosed ∧ (afterReconnect during).2 = true) ∧
    -- a local close never leaves `Accept` accepting
    ((loc = true ∨ during = true) → acceptOutcome ctx loc during k ≠ .reconnected) ∧
    (acceptDecisionPinned false false .netClosed = .errClosed ∧
      acceptDecision false false .netClosed = .reconnect ∧
      acceptOutcomeBeforeF11 false false true .netClosed = .reconnected) := by
  cases ctx <;> cases loc <;> cases during <;> cases k <;> decide

/-- **Recovery**, with its hypotheses explicit.  For a surviving node with manager state `m`
(any state satisfying the manager invariant of C05):

* if a listener for `e` has re-registered on this node, a request for `e` is served locally
  by one of the registered upstreams — also when it arrives forwarded from another node;
* otherwise, if this node's view has settled (the lost node's row is not `active`, some row
  `k` is `active` and serves `e`), the request is forwarded: the candidate set is non-empty,
  never contains the lost node, and every candidate is an active row that serves `e`. -/
theorem C18_recovery (m : Mgr) (hm : MInv m) (e : String) :
    (m.registry e ≠ [] → ∀ allow,
      ∃ u, (m.select e allow).1 = .localUp u ∧ u ∈ m.registry e) ∧
    (m.registry e = [] → ∀ lost : String, TableOK m.cluster →
      (∀ nd, m.cluster.nodes.find lost = some nd → nd.status ≠ .active) →
      (∃ nd ∈ m.cluster.nodes.vals, nd.id ≠ m.cluster.localId ∧ nd.status = .active ∧ nd.serves e = true) →
      ∃ cs, (m.select e true).1 = .remote cs ∧ cs ≠ [] ∧ lost ∉ cs ∧
        cs = (m.cluster.lookupCandidates e).map (·.id) ∧
        ∀ c ∈ m.cluster.lookupCandidates e, c.status = .active ∧ c.serves e = true) := by
  constructor
  · intro hne allow
    unfold Mgr.select
    cases hf : m.lbs.find e with
    | none => exact absurd (registry_of_none hf) hne
    | some lb =>
      obtain ⟨hne', hinv⟩ := hm.lbs e lb hf
      obtain ⟨hlt, hp⟩ := lb.pick_of_inv hinv hne'
      simp only [hp]
      refine ⟨_, rfl, ?_⟩
      rw [registry_of_find hf]
      exact List.getElem_mem hlt
  · intro hnil lost ht hlost ⟨nd, hnd, hloc, hact, hserves⟩
    have hf : m.lbs.find e = none := by
      cases hf : m.lbs.find e with
      | none => rfl
      | some lb =>
        have := (hm.lbs e lb hf).1
        rw [← registry_of_find hf, hnil] at this
        exact absurd rfl this
    have hcand : nd ∈ m.cluster.lookupCandidates e := by
      simp only [Cluster.State.lookupCandidates, List.mem_filter, Bool.and_eq_true, Bool.not_eq_true',
        decide_eq_false_iff_not, decide_eq_true_eq]
      exact ⟨hnd, ⟨hloc, hact⟩, hserves⟩
    have hcs : m.cluster.lookupCandidates e ≠ [] := List.ne_nil_of_mem hcand
    unfold Mgr.select
    simp only [hf, Bool.not_true, Bool.false_eq_true, if_false]
    cases hc : m.cluster.lookupCandidates e with
    | nil => exact absurd hc hcs
    | cons c cs =>
      refine ⟨_, rfl, by simp, ?_, rfl, ?_⟩
      · intro hin
        obtain ⟨x, hx, hxid⟩ := List.mem_map.mp hin
        rw [← hc] at hx
        exact not_candidate_of_status ht lost hlost e x hx hxid
      · intro x hx
        rw [← hc] at hx
        simp only [Cluster.State.lookupCandidates, List.mem_filter, Bool.and_eq_true, Bool.not_eq_true',
          decide_eq_false_iff_not, decide_eq_true_eq] at hx
        exact ⟨hx.2.1.2, hx.2.2⟩

/-! ### non-vacuity -/

/-- a concrete drained shutdown: node `n1` with one listener, peers `n0`,`n2` reached; the
schedule meets the hypotheses of `C18_shutdown_order` including the drain, and the pushed
own state `Leave` pushes holds the endpoint tombstone (version 4) below the left marker (5) -/
example :
    let n : St := { srv := (Srv.init "n1" "p" "a").connect 1 "e" none }
    let pre : List Step := [.act .stopJWKS, .act .notReady, .act .upstreamShutdown,
      .ev (.fail 1 .shutdown), .ev (.defer 1), .ev (.defer 1), .ev (.defer 1), .ev (.defer 1),
      .act .proxyShutdown]
    let post : List Step := [.act (.pushLeave "n0"), .act (.pushLeave "n2"),
      .act .gossipClose, .act .adminShutdown, .act .waitGoroutines]
    (pre ++ Step.act .leaveLocal :: post).filterMap Step.action? = shutdownActions ["n0", "n2"] ∧
    (∀ p ∈ (n.run pre).srv.conns, p.2.phase = Phase.released) ∧
    ((n.run (pre ++ Step.act .leaveLocal :: post)).pushed.map (·.1)) = ["n0", "n2"] ∧
    liveValue (n.run pre).gossip (epKey "e") = none ∧
    (own (leaveLocal (n.run pre).gossip)).entries.vals.map (fun x => (x.key, x.deleted, x.version)) =
      [("_internal:left", false, 5), ("endpoint:e", true, 4), ("admin_addr", false, 2),
       ("proxy_addr", false, 1)] := by
  decide

/-- the same delta applied by a peer that knows the node: flagged left, `leave` notified, and
after the syncer's `OnLeave` the node is no candidate although its row still lists an endpoint -/
example :
    let t : Cluster.State := (Cluster.State.new { id := "n0" }).addNode
      { id := "n1", status := .active, proxyAddr := "p", adminAddr := "a", endpoints := [("e", 1)] }
    let sy : Cluster.Sync := { pending := [], table := t }
    (t.lookupCandidates "e").map (·.id) = ["n1"] ∧
    ((sy.onLeave "n1").table.lookupCandidates "e") = [] ∧
    ((sy.onLeave "n1").table.nodes.find "n1").map (·.endpoints) = some [("e", 1)] := by
  decide

example : acceptDecision false false .netClosed = .reconnect ∧
    acceptDecision false true .netClosed = .errClosed ∧
    acceptDecision true false .other = .ctxErr ∧
    acceptOutcome false true false .other = .connectErr ∧
    acceptOutcome false false true .netClosed = .errClosed := by decide

end Piko
