import Proofs.Http
/-!
# C08 — HTTP proxying is transparent and gateway failures map to 400/502/504  (**partial**)

Model: `PikoModel/Proxy/Http.lean`.  Proved here is piko's own part:

* the decision table of piko's own answers (`respond`: `server/proxy/server.go proxyHTTPRoute`,
  `httpproxy.go ServeHTTP`, `errorHandler`, the timeout condition of `ServeHTTPWithUpstream`);
* the transform piko applies to the request on top of `httputil.ReverseProxy`
  (`removeConnectionOptions`, the forward marker, the `Director`).

Assumed and covered only by the correspondence engine `http` (real `proxy.Server` nodes, raw
client, raw recording upstream): `httputil.ReverseProxy` (hop-by-hop removal, `X-Forwarded-For`,
response copying), `net/http` server and `Transport` (framing, `Accept-Encoding: gzip` added when
the client sends none, `Pragma: no-cache` ⇒ `Cache-Control: no-cache`, only the first `User-Agent`
forwarded, `Content-Type` dropped from a 304, re-escaping of `| ^ \` { } " < >` in paths), gin.

Two defects found with this check were repaired in /repo and are modelled in their repaired
form (regressions in `corpus/http/findings.ops`): 6abbcc4 - an upstream dying in the middle of a
response body now aborts the client connection instead of yielding a well-terminated, truncated
200 (`onUpstreamDeathMidBody`); 694d302 - an upstream 404 without a body is no longer replaced
by gin's `NoRoute` default (`visibleResp` has no exception for 404).  Still as in the code: the
timeout exemption compares the `Upgrade` value with `"websocket"` exactly, so `Upgrade:
WebSocket` is **not** exempt.
-/
namespace Piko
open Piko.Http

/-- Every situation in which no upstream response exists (no endpoint, no upstream, dial error,
connection closed before a response, any transport error, deadline) is answered by piko itself
with exactly one of 400 / 502 / 504 - never a 2xx - and which one is determined: 400 iff no
endpoint could be determined; 504 iff an endpoint and an upstream exist and the transport
reported `context.DeadlineExceeded`; 502 otherwise. -/
theorem C08_total_exclusive (s : Situation) (hf : s.gatewayFailure = true) (hp : s.permitted = true) :
    (respond s).own = true ∧
    ((respond s).status = 400 ∨ (respond s).status = 502 ∨ (respond s).status = 504) ∧
    ¬ (200 ≤ (respond s).status ∧ (respond s).status < 300) ∧
    ((respond s).status = 400 ↔ s.endpointID = "") ∧
    ((respond s).status = 504 ↔
      s.endpointID ≠ "" ∧ s.selected = true ∧ roundTrip s = .error true) := by
  unfold Situation.gatewayFailure at hf
  unfold respond
  by_cases he : s.endpointID = ""
  · simp [he]
  · simp only [he, if_false, hp]
    by_cases hs : s.selected = true
    · simp only [hs]
      cases hr : roundTrip s with
      | error d => cases d <;> simp [errorHandler, he]
      | response st => simp [he, hs, hr] at hf
    · have hs' : s.selected = false := by simpa using hs
      simp [hs']

/-- Conversely piko answers itself only in those situations (or with 401 for a token that does
not permit the endpoint): whenever an upstream response exists the client gets the upstream's
status, whatever it is - piko never fabricates a status of its own, in particular no success. -/
theorem C08_own_only_on_failure (s : Situation) :
    ((respond s).own = true →
      (respond s).status = 400 ∨ (respond s).status = 401 ∨ (respond s).status = 502 ∨
      (respond s).status = 504) ∧
    (s.gatewayFailure = false → s.permitted = true →
      ∃ l st, s.up = .responds l st ∧ respond s = ⟨st, false⟩) := by
  unfold Situation.gatewayFailure respond
  by_cases he : s.endpointID = ""
  · simp [he]
  · by_cases hp : s.permitted = true
    · by_cases hs : s.selected = true
      · simp only [he, hp, hs, if_false]
        cases hr : roundTrip s with
        | error d => cases d <;> simp [errorHandler]
        | response st =>
          simp only [Bool.not_true, Bool.false_eq_true, if_false, decide_false, Bool.or_self,
            forall_const, false_implies, true_and]
          unfold roundTrip at hr
          cases hu : s.up with
          | responds l st' =>
            simp only [hu] at hr
            split at hr
            · cases hr
            · cases hr; exact ⟨l, st, rfl, rfl⟩
          | dialError => simp [hu] at hr
          | closedBeforeResponse => simp [hu] at hr
          | otherError => simp [hu] at hr
      · have hs' : s.selected = false := by simpa using hs
        simp [he, hp, hs']
    · have hp' : s.permitted = false := by simpa using hp
      simp [he, hp']

/-- The timeout is not applied to WebSocket upgrades: with `upgrade: websocket` the transport
never reports a deadline error, however slow the upstream and whatever the configured timeout;
a routed request gets the upstream's answer.  In general a deadline error arises exactly when
a timeout is configured, the request is not such an upgrade, and the upstream is slower than
the timeout. -/
theorem C08_timeout_not_on_upgrade (s : Situation) :
    (s.upgrade = "websocket" → roundTrip s ≠ .error true ∧
      ∀ l st, s.up = .responds l st → roundTrip s = .response st) ∧
    (roundTrip s = .error true ↔
      s.timeoutMs ≠ 0 ∧ s.upgrade ≠ "websocket" ∧ ∃ l st, s.up = .responds l st ∧ s.timeoutMs < l) := by
  unfold roundTrip timeoutApplied
  constructor
  · intro hu
    cases hup : s.up <;> simp [hu]
  · cases hup : s.up with
    | responds l st =>
      by_cases h0 : s.timeoutMs = 0 <;> by_cases hw : s.upgrade = "websocket" <;>
        by_cases hl : s.timeoutMs < l <;> simp [h0, hw, hl]
    | dialError => simp
    | closedBeforeResponse => simp
    | otherError => simp

/-- 504 means the timeout and nothing else: piko's own 504 is produced exactly when the
configured timeout elapsed before a response header. -/
theorem C08_504_iff_deadline (s : Situation) (hp : s.permitted = true) :
    respond s = ⟨504, true⟩ ↔ s.endpointID ≠ "" ∧ s.selected = true ∧ roundTrip s = .error true := by
  unfold respond
  by_cases he : s.endpointID = ""
  · simp [he]
  · by_cases hs : s.selected = true
    · simp only [he, hp, hs, if_false]
      cases hr : roundTrip s with
      | error d => cases d <;> simp [errorHandler, he]
      | response st => simp
    · have hs' : s.selected = false := by simpa using hs
      simp [he, hp, hs']

/-- End-to-end preservation by piko's own transform, one hop: method, raw path, raw query,
`Host` and body are untouched (the `Director` sets only `URL.Scheme`/`URL.Host`, never
`req.Host`); every header field other than `Connection` and the marker is untouched, with
multiplicity and order; the marker `X-Piko-Forward: true` is present exactly once whatever the
client sent. -/
theorem C08_e2e_preserved (ep : String) (r : Request) :
    (pikoTransform ep r).method = r.method ∧
    (pikoTransform ep r).rawPath = r.rawPath ∧
    (pikoTransform ep r).rawQuery = r.rawQuery ∧
    (pikoTransform ep r).host = r.host ∧
    (pikoTransform ep r).body = r.body ∧
    (∀ k, k ≠ "Connection" → k ≠ "X-Piko-Forward" →
      fieldsOf (pikoTransform ep r).headers k = fieldsOf r.headers k) ∧
    fieldsOf (pikoTransform ep r).headers "X-Piko-Forward" = [("X-Piko-Forward", "true")] ∧
    (pikoTransform ep r).urlScheme = "http" ∧ (pikoTransform ep r).urlHost = ep :=
  ⟨rfl, rfl, rfl, rfl, rfl, fun k h1 h2 => pikoTransform_fields ep r k h1 h2,
    pikoTransform_marker ep r, rfl, rfl⟩

/-- The same over two hops (the request is forwarded once to another node, which applies the
same transform), also with different endpoint strings at the two nodes. -/
theorem C08_e2e_preserved_two_hops (ep ep' : String) (r : Request) :
    (pikoTransform ep' (pikoTransform ep r)).method = r.method ∧
    (pikoTransform ep' (pikoTransform ep r)).rawPath = r.rawPath ∧
    (pikoTransform ep' (pikoTransform ep r)).rawQuery = r.rawQuery ∧
    (pikoTransform ep' (pikoTransform ep r)).host = r.host ∧
    (pikoTransform ep' (pikoTransform ep r)).body = r.body ∧
    (∀ k, k ≠ "Connection" → k ≠ "X-Piko-Forward" →
      fieldsOf (pikoTransform ep' (pikoTransform ep r)).headers k = fieldsOf r.headers k) ∧
    fieldsOf (pikoTransform ep' (pikoTransform ep r)).headers "X-Piko-Forward"
      = [("X-Piko-Forward", "true")] :=
  ⟨rfl, rfl, rfl, rfl, rfl,
    fun k h1 h2 => by rw [pikoTransform_fields ep' _ k h1 h2, pikoTransform_fields ep r k h1 h2],
    pikoTransform_marker ep' _⟩

/-- The library part of a hop (`removeHopByHop`, assumed to be what `httputil.ReverseProxy`
does) touches headers only: over any number of hops of the whole model, method, raw path, raw
query, `Host` and body are those of the client. -/
theorem C08_e2e_hops (n : Nat) (ep : String) (r : Request) :
    (hops n ep r).method = r.method ∧ (hops n ep r).rawPath = r.rawPath ∧
    (hops n ep r).rawQuery = r.rawQuery ∧ (hops n ep r).host = r.host ∧
    (hops n ep r).body = r.body := by
  induction n generalizing r with
  | zero => exact ⟨rfl, rfl, rfl, rfl, rfl⟩
  | succ n ih =>
    obtain ⟨h1, h2, h3, h4, h5⟩ := ih (hop ep r)
    exact ⟨h1, h2, h3, h4, h5⟩

/-- An upstream that dies inside the response body never reaches the client as a complete
response, whatever the framing (Content-Length, chunked, close-delimited): the abort of the
reverse proxy is propagated to net/http (`panicRoute` re-panics `http.ErrAbortHandler`). -/
theorem C08_truncation_aborts (f : Framing) : onUpstreamDeathMidBody f = .aborted := rfl

/-! ## Non-vacuity -/

/-- the failure matrix of the correspondence engine, timeout 300 ms -/
example : (respond { endpointID := "", selected := true, timeoutMs := 300, up := .responds 0 200 }) = ⟨400, true⟩ := by decide
example : (respond { endpointID := "e", selected := false, timeoutMs := 300, up := .responds 0 200 }) = ⟨502, true⟩ := by decide
example : (respond { endpointID := "e", selected := true, timeoutMs := 300, up := .dialError }) = ⟨502, true⟩ := by decide
example : (respond { endpointID := "e", selected := true, timeoutMs := 300, up := .closedBeforeResponse }) = ⟨502, true⟩ := by decide
example : (respond { endpointID := "e", selected := true, timeoutMs := 300, up := .responds 900 200 }) = ⟨504, true⟩ := by decide
example : (respond { endpointID := "e", selected := true, timeoutMs := 300, upgrade := "websocket", up := .responds 900 200 }) = ⟨200, false⟩ := by decide
/-- the exemption is an exact string comparison: -/
example : (respond { endpointID := "e", selected := true, timeoutMs := 300, upgrade := "WebSocket", up := .responds 900 200 }) = ⟨504, true⟩ := by decide
/-- an upstream's own 504/502/500 passes through as the upstream's -/
example : (respond { endpointID := "e", selected := true, timeoutMs := 300, up := .responds 10 504 }) = ⟨504, false⟩ := by decide

/-- piko's names are taken out of the `Connection` options, so neither the marker nor the
endpoint header is removed as hop-by-hop on the way (fix 1c64d44); other options stay -/
example : (hop "e" { method := "GET", rawPath := "/%2F/x;y", rawQuery := "q=%20&q=",
                     host := "EXAMPLE.com:8080",
                     headers := [("Connection", "X-PIKO-ENDPOINT , x-hop"), ("X-Hop", "bye"),
                                 ("X-Piko-Endpoint", "e"), ("Cookie", "a=1"), ("Cookie", "b=2"),
                                 ("X-Piko-Forward", "false")],
                     body := [1, 2] }).headers
    = [("X-Piko-Endpoint", "e"), ("Cookie", "a=1"), ("Cookie", "b=2"), ("X-Piko-Forward", "true")] := by decide

end Piko
