import Proofs.Syncer
import Proofs.NetSteps2
import Proofs.SysQuiet
import Props.C03
/-!
# C04 — The routing table mirrors what each node advertises

Model: `PikoModel/Cluster/Syncer.lean` (`server/gossip/syncer.go`: the seven watcher callbacks
over `pendingNodes` and `cluster.State`) and `PikoModel/Cluster/State.lean`
(`server/cluster/state.go`).  `SyncerSpec.foldEvents` is the fold of the watcher notifications
(C14's `WView`: per remembered node the visible key/value map and the left/unreachable
flags; the extra bit `dropped` records that the node's `leave` was announced while not both
addresses were visible).

Hypotheses on a notification history, each judged against the fold of the notifications before
it (notifications naming the local id are exempt — every callback ignores them,
`C04_local_ignored`):
* `WellFormed`          : C14 — `join x` only for a node that is not remembered; every other
                          notification of `x` between its `join` and its `expired`;
* `NoLivenessAfterLeave`: no `reachable`/`unreachable` for a node whose `leave` was announced
                          (`UpdateLiveness` skips left nodes; C11).  Needed because `OnReachable`
                          sets `active` even on a `left` row (`C04_reachable_overrides_left`);
* `AddrStable`          : address keys are never deleted and never change once both are visible
                          and non-empty.  Needed because `OnUpsertKey` ignores address keys of a
                          node already in the table (`C04_addr_update_ignored`) and `OnDeleteKey`
                          ignores them always.  piko writes both addresses once, in `Sync`, and
                          never again, so owners satisfy it; a re-versioned copy after the
                          owner's compaction carries the same value.
What is **not** assumed: anything about endpoint values (unparsable, zero, negative counts),
the order of address and endpoint keys, or the number of nodes.
-/
namespace Piko
open Piko.Cluster Piko.SyncerSpec
open Piko.Gossip (Event)

/-- **The table is the fold.**  After any admissible history of notifications delivered to a
fresh syncer, for every remote node `a`:
1. fold says both addresses visible and non-empty, not dropped ⇒ `a` is in the routing table
   (not pending) with exactly those addresses, status `left` if the left flag is set, else
   `unreachable` if the unreachable flag is set, else `active`, and endpoints as `EpSpec`
   says: no entry for a key that is not visible, the parsed count for a visible key whose
   value `Atoi` accepts;
2. fold says not both addresses yet, not dropped ⇒ `a` is pending (not in the table), the
   pending entry carrying what has been seen so far; the left flag is not set;
3. dropped (its `leave` arrived while it was pending: `OnLeave` deletes the pending entry, and
   every later notification for it hits "unknown node") ⇒ neither in the table nor pending,
   until its `expired` and a fresh `join`;
4. not remembered (never announced, or expired) ⇒ neither in the table nor pending. -/
theorem C04_table_spec (l : Node) (evs : List Event)
    (hw : WellFormed l.id evs) (hl : NoLivenessAfterLeave l.id evs) (ha : AddrStable l.id evs)
    (a : String) (hne : a ≠ l.id) :
    (∀ nv, (foldEvents evs).find a = some nv → nv.dropped = false → nv.bothAddr = true →
      ((Sync.new l).run evs).pending.find a = none ∧
      ∃ row, ((Sync.new l).run evs).table.nodes.find a = some row ∧ row.id = a ∧
        row.proxyAddr = nv.addr proxyAddrKey ∧ row.adminAddr = nv.addr adminAddrKey ∧
        row.status = nv.status ∧ EpSpec row.endpoints nv.kv) ∧
    (∀ nv, (foldEvents evs).find a = some nv → nv.dropped = false → nv.bothAddr = false →
      ((Sync.new l).run evs).table.nodes.find a = none ∧
      ∃ pn, ((Sync.new l).run evs).pending.find a = some pn ∧ pn.id = a ∧
        pn.proxyAddr = nv.addr proxyAddrKey ∧ pn.adminAddr = nv.addr adminAddrKey ∧
        nv.left = false ∧ PendStatus pn.status nv.unreach ∧ EpSpec pn.endpoints nv.kv) ∧
    (∀ nv, (foldEvents evs).find a = some nv → nv.dropped = true →
      ((Sync.new l).run evs).table.nodes.find a = none ∧ ((Sync.new l).run evs).pending.find a = none) ∧
    ((foldEvents evs).find a = none →
      ((Sync.new l).run evs).table.nodes.find a = none ∧ ((Sync.new l).run evs).pending.find a = none) := by
  have h := table_spec l evs hw hl ha a hne
  refine ⟨fun nv hf hd hb => ?_, fun nv hf hd hb => ?_, fun nv hf hd => ?_, fun hf => ?_⟩
  · rw [hf, rel_both hd hb] at h
    obtain ⟨row, e, rs⟩ := h
    have e1 := congrArg Prod.fst e
    have e2 := congrArg Prod.snd e
    exact ⟨e2, row, e1, rs.id, rs.proxy, rs.admin, rs.status, rs.eps⟩
  · rw [hf, rel_pend hd hb] at h
    obtain ⟨pn, e, ps⟩ := h
    have e1 := congrArg Prod.fst e
    have e2 := congrArg Prod.snd e
    exact ⟨e1, pn, e2, ps.id, ps.proxy, ps.admin, ps.notLeft, ps.status, ps.eps⟩
  · rw [hf, rel_dropped hd] at h
    exact ⟨congrArg Prod.fst h, congrArg Prod.snd h⟩
  · rw [hf] at h
    exact ⟨congrArg Prod.fst h, congrArg Prod.snd h⟩

/-- The fold used here is C14's fold (`Gossip.foldEvents`, proved equal to the visible gossip
state by `C14_fold_eq`) plus the ghost bit. -/
theorem C04_fold_is_C14_fold (evs : List Event) (a : String) :
    (Gossip.foldEvents [] evs).find a = ((foldEvents evs).find a).map NView.toW :=
  sameView_fold [] [] evs sameView_nil a

/-- C14's `eventsOK` — proved of every notification history a gossip state emits
(`C14_join_first_history`) — is the hypothesis `WellFormed`. -/
theorem C04_wellFormed_of_C14 (localId : String) (evs : List Event)
    (h : Gossip.eventsOK [] evs = true) : WellFormed localId evs :=
  wellFormed_of_eventsOK_from localId [] [] evs sameView_nil h

/-- The ghost bit `dropped` is only ever set by a `leave`: a node whose left flag is not set was
not dropped (so clause 1 or 2 of `C04_table_spec` applies to it). -/
theorem C04_dropped_only_by_leave (evs : List Event) (a : String) (nv : NView)
    (h : (foldEvents evs).find a = some nv) (hd : nv.dropped = true) : nv.left = true :=
  dropped_imp_left evs a nv h hd

/-- Every callback ignores a notification that names the local node id. -/
theorem C04_local_ignored (s : Sync) (e : Event) (h : evNode e = s.table.localId) : syncStep s e = s :=
  syncStep_local s e h

/-- **Addresses are sticky.**  Once a node is in the routing table, an `OnUpsertKey` for
`proxy_addr` or `admin_addr` — whatever the value — changes nothing: a later change of an
address by its owner would be ignored.  This does not contradict the property as long as owners
never change their addresses (piko writes them once, in `Sync`); `AddrStable` is that hypothesis. -/
theorem C04_addr_update_ignored (s : Sync) (a k v : String) (row : Node)
    (hin : s.table.nodes.find a = some row) (hk : k = proxyAddrKey ∨ k = adminAddrKey) :
    syncStep s (.upsert a k v) = s := by
  simp [syncStep, Sync.onUpsertKey, hk, hin]

/-- **Withdrawn endpoints are gone** (any syncer state whatsoever): right after the notification
that key `endpoint:<e>` of remote node `a` was deleted — an explicit tombstone or a key dropped
by a compaction the observer never saw the tombstone of; the watcher call is the same — the
routing-table row of `a`, if there is one, has no entry for `e`. -/
theorem C04_withdrawn_gone (s : Sync) (a e : String) (hne : a ≠ s.table.localId) (row : Node)
    (h : (syncStep s (.delete a (epKey e))).table.nodes.find a = some row) :
    row.endpoints.find e = none := by
  simp only [syncStep, Sync.onDeleteKey, hne, if_false, cutPrefix_epKey, State.removeRemoteEndpoint] at h
  rw [updateRemote_eq _ _ _ hne] at h
  cases ht : s.table.nodes.find a with
  | some r =>
    simp only [ht, AMap.find_insert_self] at h
    cases h; simp
  | none =>
    simp only [ht] at h
    cases hp : s.pending.find a <;> simp only [hp] at h <;> rw [ht] at h <;> cases h

/-- … and they stay gone, also across the promotion of a pending node: after any admissible
history, a key that is not visible in the fold (deleted, dropped by compaction, or never
announced) has no entry in the node's row. -/
theorem C04_withdrawn_stays_gone (l : Node) (evs : List Event)
    (hw : WellFormed l.id evs) (hl : NoLivenessAfterLeave l.id evs) (ha : AddrStable l.id evs)
    (a e : String) (hne : a ≠ l.id) (nv : NView) (row : Node)
    (hf : (foldEvents evs).find a = some nv) (hk : nv.kv.find (epKey e) = none)
    (hr : ((Sync.new l).run evs).table.nodes.find a = some row) :
    row.endpoints.find e = none := by
  have h := table_spec l evs hw hl ha a hne
  rw [hf] at h
  rcases rel_cases h with ⟨_, e'⟩ | ⟨_, _, row', e', rs⟩ | ⟨_, _, pn, e', _⟩
  · have := congrArg Prod.fst e'; simp only [atNode] at this; rw [hr] at this; cases this
  · have := congrArg Prod.fst e'; simp only [atNode] at this; rw [hr] at this; cases this
    have := rs.eps e; rw [hk] at this; exact this
  · have := congrArg Prod.fst e'; simp only [atNode] at this; rw [hr] at this; cases this

/-- **Lookup is sound** — for ANY routing table: every node `LookupEndpoint` can return (whatever
the map iteration order) is a row of the table, is not the local node, is `active`, and lists the
endpoint with a positive upstream count. -/
theorem C04_lookup_sound (t : State) (e : String) (n : Node) (h : n ∈ t.lookupCandidates e) :
    n ∈ t.nodes.vals ∧ n.id ≠ t.localId ∧ n.status = .active ∧
    ∃ c, n.endpoints.find e = some c ∧ c > 0 := by
  simp only [State.lookupCandidates, List.mem_filter, Bool.and_eq_true, Bool.not_eq_true',
    decide_eq_false_iff_not, decide_eq_true_eq] at h
  obtain ⟨hm, ⟨hid, hst⟩, hs⟩ := h
  refine ⟨hm, hid, hst, ?_⟩
  unfold Node.serves at hs
  cases hc : n.endpoints.find e with
  | none => simp [hc] at hs
  | some c => simp only [hc, decide_eq_true_eq] at hs; exact ⟨c, rfl, hs⟩

/-- **Lookup is complete**: if some row is a remote, `active` node listing the endpoint with a
positive count, the candidate set is not empty (`LookupEndpoint` returns a node). -/
theorem C04_lookup_complete (t : State) (e id : String) (n : Node) (c : Int)
    (hf : t.nodes.find id = some n) (hid : n.id ≠ t.localId) (hst : n.status = .active)
    (hc : n.endpoints.find e = some c) (hpos : c > 0) : t.lookupCandidates e ≠ [] := by
  have hm : n ∈ t.nodes.vals := by
    have := AMap.mem_of_find hf
    simp only [AMap.vals, List.mem_map]
    exact ⟨(id, n), this, rfl⟩
  have : n ∈ t.lookupCandidates e := by
    simp only [State.lookupCandidates, List.mem_filter, Bool.and_eq_true, Bool.not_eq_true',
      decide_eq_false_iff_not, decide_eq_true_eq]
    exact ⟨hm, ⟨hid, hst⟩, by simp [Node.serves, hc, hpos]⟩
  intro h0; rw [h0] at this; cases this

/-- **Status follows the flag notifications**, for a node in the table and for a pending node
(any syncer state, `a` remote):
* in the table: `leave` ↦ `left`, `unreachable` ↦ `unreachable`, `reachable` ↦ `active`;
* pending: `unreachable` / `reachable` are recorded on the pending entry (so a node that became
  unreachable while pending is promoted as `unreachable`, by `C04_table_spec`); `leave` deletes
  the pending entry and the node is in neither place. -/
theorem C04_status_tracks_flags (s : Sync) (a : String) (hne : a ≠ s.table.localId) :
    (∀ row, s.table.nodes.find a = some row →
      (syncStep s (.leave a)).table.nodes.find a = some { row with status := .left } ∧
      (syncStep s (.unreachable a)).table.nodes.find a = some { row with status := .unreachable } ∧
      (syncStep s (.reachable a)).table.nodes.find a = some { row with status := .active }) ∧
    (∀ pn, s.table.nodes.find a = none → s.pending.find a = some pn →
      (syncStep s (.unreachable a)).pending.find a = some { pn with status := .unreachable } ∧
      (syncStep s (.reachable a)).pending.find a = some { pn with status := .active } ∧
      (syncStep s (.leave a)).pending.find a = none ∧
      (syncStep s (.leave a)).table.nodes.find a = none) := by
  have ul := upd_leave s a hne
  have uu := upd_unreachable s a hne
  have ur := upd_reachable s a hne
  refine ⟨fun row hr => ?_, fun pn ht hp => ?_⟩
  · refine ⟨?_, ?_, ?_⟩
    · have := ul.tbl a; simpa [syncStep, atNode, hr, nsyncStep, tepN] using this
    · have := uu.tbl a; simpa [syncStep, atNode, hr, nsyncStep, tepN] using this
    · have := ur.tbl a; simpa [syncStep, atNode, hr, nsyncStep, tepN] using this
  · refine ⟨?_, ?_, ?_, ?_⟩
    · have := uu.pnd a; simpa [syncStep, atNode, ht, hp, nsyncStep, tepN] using this
    · have := ur.pnd a; simpa [syncStep, atNode, ht, hp, nsyncStep, tepN] using this
    · have := ul.pnd a; simpa [syncStep, atNode, ht, hp, nsyncStep, tepN] using this
    · have := ul.tbl a; simpa [syncStep, atNode, ht, hp, nsyncStep, tepN] using this

/-- What the code does with a `reachable` for a node whose row is `left`: it sets `active`
(there is no guard).  The gossip layer never emits `reachable` for a left node
(`UpdateLiveness` skips them), which is the hypothesis `NoLivenessAfterLeave`. -/
theorem C04_reachable_overrides_left (s : Sync) (a : String) (hne : a ≠ s.table.localId) (row : Node)
    (hr : s.table.nodes.find a = some row) (_hleft : row.status = .left) :
    (syncStep s (.reachable a)).table.nodes.find a = some { row with status := .active } :=
  ((C04_status_tracks_flags s a hne).1 row hr).2.2

/-- `strconv.Atoi(strconv.Itoa(n)) = n` for the counts an owner publishes. -/
theorem C04_atoi_itoa (n : Nat) (h : n < 2 ^ 63) : atoi (toString n) = some (n : Int) :=
  atoi_toString_nat n h

/-- **The mirror.**  Let `evs` be everything the observer's watcher has been told (admissible),
and let the observer be caught up with owner `a`: the fold's visible map of `a` is the owner's
live key/value map `ownerLive` (C03 `caught_up_is_exact` + C14 `fold_eq`).  Let the owner's live
entries be what `Sync` and the `OnLocalEndpointUpdate` subscriber write for its `LocalNode()` `L`
(C05_counts): both addresses, and `endpoint:<e>` ↦ `Itoa(count)` exactly for the endpoints of
`L`, counts positive.  Let the observer not have dropped `a` (automatic unless `a`'s leave has
been seen — `C04_dropped_only_by_leave` — and then still true whenever the addresses preceded
the leave marker in version order, which `Sync` writing them first and compaction preserving
order guarantee).  Then the observer's row of `a` has exactly `L`'s addresses and exactly
`L`'s endpoints with their counts; its status follows the flags; `a` is not pending. -/
theorem C04_mirror (l : Node) (evs : List Event)
    (hw : WellFormed l.id evs) (hl : NoLivenessAfterLeave l.id evs) (ha : AddrStable l.id evs)
    (a : String) (hne : a ≠ l.id) (nv : NView) (L : Node) (ownerLive : String → Option String)
    (hf : (foldEvents evs).find a = some nv) (hnd : nv.dropped = false)
    (hcaught : ∀ k, nv.kv.find k = ownerLive k)
    (hproxy : ownerLive proxyAddrKey = some L.proxyAddr) (hp0 : L.proxyAddr ≠ "")
    (hadmin : ownerLive adminAddrKey = some L.adminAddr) (ha0 : L.adminAddr ≠ "")
    (heps : ∀ e, ownerLive (epKey e) = (L.endpoints.find e).map (fun c => toString c))
    (hcounts : ∀ e c, L.endpoints.find e = some c → 0 < c ∧ c < 2 ^ 63) :
    ((Sync.new l).run evs).pending.find a = none ∧
    ∃ row, ((Sync.new l).run evs).table.nodes.find a = some row ∧
      row.proxyAddr = L.proxyAddr ∧ row.adminAddr = L.adminAddr ∧
      (∀ e, row.endpoints.find e = L.endpoints.find e) ∧ row.status = nv.status := by
  have hap : nv.addr proxyAddrKey = L.proxyAddr := by simp [NView.addr, hcaught, hproxy]
  have haq : nv.addr adminAddrKey = L.adminAddr := by simp [NView.addr, hcaught, hadmin]
  have hb : nv.bothAddr = true := by rw [bothAddr_iff, hap, haq]; exact ⟨hp0, ha0⟩
  obtain ⟨hpn, row, hrow, _, hp, hq, hst, hes⟩ := (C04_table_spec l evs hw hl ha a hne).1 nv hf hnd hb
  refine ⟨hpn, row, hrow, hp.trans hap, hq.trans haq, fun e => ?_, hst⟩
  have := hes e
  rw [hcaught, heps] at this
  cases hc : L.endpoints.find e with
  | none => simpa [hc] using this
  | some c =>
    simp only [hc, Option.map_some] at this
    obtain ⟨h0, h1⟩ := hcounts e c hc
    apply this
    obtain ⟨n, rfl⟩ : ∃ n : Nat, c = (n : Int) := ⟨c.toNat, by omega⟩
    exact atoi_toString_nat n (by omega)

/-! ## Concrete histories: non-vacuity, and the two places where the row is *not* the fold -/

section Examples

def c04Local : Node := { id := "n0", proxyAddr := "p0", adminAddr := "a0" }

/-- endpoint first, unreachable while pending, addresses late, a zero count, a delete -/
def c04Evs : List Event :=
  [.join "n1", .upsert "n1" (epKey "e") "2", .unreachable "n1", .upsert "n1" proxyAddrKey "p1",
   .upsert "n1" adminAddrKey "a1", .upsert "n1" (epKey "z") "0", .upsert "n1" (epKey "w") "1",
   .delete "n1" (epKey "w"), .join "n0", .join "n2", .leave "n2"]

/-- the hypotheses of `C04_table_spec` are satisfiable by a non-trivial history … -/
example : WellFormed "n0" c04Evs ∧ NoLivenessAfterLeave "n0" c04Evs ∧ AddrStable "n0" c04Evs := by decide

/-- … on which the node that became unreachable while pending is promoted as `unreachable`, with
the endpoint learnt while pending, the zero count listed (and never returned by a lookup), the
withdrawn endpoint gone; and the node that left while pending is in neither place. -/
example :
    (((Sync.new c04Local).run c04Evs).table.nodes.find "n1") =
      some { id := "n1", status := .unreachable, proxyAddr := "p1", adminAddr := "a1",
             endpoints := [("z", 0), ("e", 2)] } ∧
    ((Sync.new c04Local).run c04Evs).pending = [] ∧
    ((Sync.new c04Local).run c04Evs).table.nodes.find "n2" = none ∧
    ((foldEvents c04Evs).find "n2").map (·.dropped) = some true ∧
    ((Sync.new c04Local).run (c04Evs ++ [.reachable "n1"])).table.lookupCandidates "e" =
      [{ id := "n1", status := .active, proxyAddr := "p1", adminAddr := "a1",
         endpoints := [("z", 0), ("e", 2)] }] ∧
    ((Sync.new c04Local).run (c04Evs ++ [.reachable "n1"])).table.lookupCandidates "z" = [] := by
  decide

/-- **Sticky address, concretely**: the owner announces a different `proxy_addr` after the node
was promoted; the fold shows the new value, the routing table keeps the old one.  (Excluded by
`AddrStable`; owners never do this.) -/
theorem C04_addr_change_witness :
    ((foldEvents [.join "n1", .upsert "n1" proxyAddrKey "p1", .upsert "n1" adminAddrKey "a1",
        .upsert "n1" proxyAddrKey "CHANGED"]).find "n1").map (·.addr proxyAddrKey) = some "CHANGED" ∧
    (((Sync.new c04Local).run [.join "n1", .upsert "n1" proxyAddrKey "p1", .upsert "n1" adminAddrKey "a1",
        .upsert "n1" proxyAddrKey "CHANGED"]).table.nodes.find "n1").map (·.proxyAddr) = some "p1" := by
  decide

/-- **Unparsable count, concretely**: a visible `endpoint:e` whose value `Atoi` rejects leaves
the previous count in the row (the callback returns before touching anything) — which is why
`EpSpec` says nothing about such keys.  Owners only ever write `Itoa(n)`, `n > 0`. -/
theorem C04_unparsable_count_keeps_old :
    (((Sync.new c04Local).run [.join "n1", .upsert "n1" proxyAddrKey "p1", .upsert "n1" adminAddrKey "a1",
        .upsert "n1" (epKey "e") "3", .upsert "n1" (epKey "e") "abc"]).table.nodes.find "n1").map
      (·.endpoints.find "e") = some (some 3) := by
  decide

end Examples

/-- **Discharging `NoLivenessAfterLeave`.**  The gossip layer (`UpdateLiveness`, the only source of
reachable/unreachable notifications) never announces them for the local node or for a node whose
`left` flag is set - for every state and every suspicion verdict.  (The syncer itself would set a
left row ACTIVE on `OnReachable`: `C04_reachable_overrides_left`.) -/
theorem C04_gossip_no_liveness_after_leave (s : Gossip.CState) (f : String → Bool) (now : Nat) :
    ∀ e ∈ (Gossip.updateLiveness s f now).2, ∃ p ∈ s.nodes,
      (e = .unreachable p.2.id ∨ e = .reachable p.2.id) ∧ p.2.left = false ∧ p.2.id ≠ s.localId :=
  Gossip.updateLiveness_events s f now

/-! ## The whole system: gossip + syncer + manager of every node in ONE model

`PikoModel/Sys/System.lean`: `Sys` = the gossip network of `Gossip/Net.lean` (field `net`) plus, per
node, the balancers, the one routing table shared by manager and syncer, the pending map and the
ghost list of notifications (`side`).  `Sys.runRev ops` is the state after the history `ops` (latest
first); `SysAllowed ops` is C02's quantifier lifted (no expiry sweep, version counters below 2^64 at
compactions).  `Sys.node s n` assembles the layer records `Upstream.Mgr` / `Cluster.Sync` of node `n`.

The composition: C02 (`C02_caught_up_exact`: a caught-up view is the owner's map) → flow invariant
(`SysInv.view_not_left`) → C14 (`NodeInv.fold_view`: the notification fold is the visible view) →
filtering of address deletes (`Proofs/SysTrace.lean`; `AddrStable` itself is NOT guaranteed by the
gossip layer, see `C04_addrStable_not_guaranteed` below) → `C04_mirror` → "syncer = pure syncer run"
(`NodeInv.agree`) → C05 (`SysInv.owner_shows`). -/

open Piko.Gossip in
/-- **What every node of every reachable system state satisfies** (lemmas (b) and (c) of the
composition): with `evs` = everything the node's watcher has been told so far,
* C14: the fold of `evs` is the node's visible gossip state;
* the trace hypotheses `WellFormed` and `NoLivenessAfterLeave` of `C04_table_spec` hold of `evs`;
* `AddrStable` holds of `evs` with the address-key deletions filtered out - which the syncer cannot
  tell from `evs` itself (`AddrStable evs` as such is false in general: `C04_addrStable_not_guaranteed`);
* the node's syncer (routing-table rows of the other nodes, pending map) is the pure syncer of
  `Cluster/Syncer.lean` run over `evs` from `newSyncer`. -/
theorem C04_system_node (ops : List SysOp) (hall : SysAllowed ops) (r : String) (x : SysNode)
    (hr : (Sys.runRev ops).node r = some x) :
    C14.foldOK (Gossip.foldEvents [] x.evs) x.mgr.gossip ∧
    WellFormed r x.evs ∧ NoLivenessAfterLeave r x.evs ∧ AddrStable r (dropAddrDeletes x.evs) ∧
    (Sync.new { id := r }).run (dropAddrDeletes x.evs) = (Sync.new { id := r }).run x.evs ∧
    ∀ a, a ≠ r →
      x.sync.table.nodes.find a = ((Sync.new { id := r }).run x.evs).table.nodes.find a ∧
      x.sync.pending.find a = ((Sync.new { id := r }).run x.evs).pending.find a := by
  obtain ⟨sd, g, hsd, hg, rfl⟩ := Sys.node_eq hr
  have h := (sysInv_runRev ops hall).node r sd g hsd hg
  refine ⟨h.fold, C04_wellFormed_of_C14 r sd.evs h.evok, h.live, addrStable_filtered r sd.evs h.addr,
    run_dropAddrDeletes _ _, fun a hne => ?_⟩
  have hag := h.agree.2 a (by rw [Side.sync_table, h.tlid]; exact hne)
  exact ⟨congrArg Prod.fst hag, congrArg Prod.snd hag⟩

open Piko.Gossip in
/-- **C04, first sentence, about the one system model.**  In every reachable state, for nodes
`r ≠ a`: if `r`'s gossip view `V` of `a` has `a`'s own version (caught up) and `a` has not left, then
`r`'s routing table has a row for `a` (and `a` is not pending) with `a`'s proxy and admin address and
with exactly `a`'s registered endpoints and their upstream counts - an endpoint without a registered
upstream (never registered, or withdrawn) has no entry; the status is `unreachable` or `active` as
`r`'s failure detector last said.

Hypotheses that are not in the informal statement, both about `a`'s configuration: its two
addresses are non-empty (the syncer only promotes a node whose both addresses are non-empty;
`config.Validate` requires them), and it has fewer than 2^63 upstreams per endpoint (`Atoi` range). -/
theorem C04_mirror_system (ops : List SysOp) (hall : SysAllowed ops) (r a : String) (hne : r ≠ a)
    (nr na : SysNode) (hr : (Sys.runRev ops).node r = some nr) (ha : (Sys.runRev ops).node a = some na)
    (V : NodeSt) (hV : nr.mgr.gossip.nodes.find a = some V)
    (hcaught : V.version = (own na.mgr.gossip).version)
    (hnotleft : (own na.mgr.gossip).left = false)
    (hp0 : na.mgr.cluster.localNode.proxyAddr ≠ "") (ha0 : na.mgr.cluster.localNode.adminAddr ≠ "")
    (hsmall : ∀ e, (na.mgr.registry e).length < 2 ^ 63) :
    nr.sync.pending.find a = none ∧
    ∃ row, nr.mgr.cluster.nodes.find a = some row ∧ nr.sync.table.nodes.find a = some row ∧ row.id = a ∧
      row.proxyAddr = na.mgr.cluster.localNode.proxyAddr ∧
      row.adminAddr = na.mgr.cluster.localNode.adminAddr ∧
      (∀ e, row.endpoints.find e =
        if (na.mgr.registry e).length = 0 then none else some ((na.mgr.registry e).length : Int)) ∧
      row.status = (if V.unreachable then Status.unreachable else Status.active) := by
  obtain ⟨sdr, gr, hsr, hgr, rfl⟩ := Sys.node_eq hr
  obtain ⟨sda, ga, hsa, hga, rfl⟩ := Sys.node_eq ha
  simp only [] at hV hcaught hnotleft hp0 ha0 hsmall ⊢
  have hinv := sysInv_runRev ops hall
  have hnr := hinv.node r sdr gr hsr hgr
  -- C02: the caught-up view is the owner's map
  have hallN := allowedRev_netHist ops hall
  have hobs : Observes (runRev (Sys.netHist ops)) r a V (own ga) := by
    refine ⟨fun e => hne e.symm, ⟨gr, ?_, hV⟩, ⟨ga, ?_, rfl⟩⟩
    · rw [← Sys.runRev_net]; exact hgr
    · rw [← Sys.runRev_net]; exact hga
  have hexact := C02_caught_up_exact hallN hobs hcaught
  -- the flow invariant: `r` does not believe `a` has left
  have hVleft : V.left = false := hinv.view_not_left hgr hga hV hnotleft
  -- C14: the fold is the view
  obtain ⟨nv, hnv, hnvl, hnvu, hnvk⟩ := hnr.fold_view hV (fun e => hne e.symm)
  -- the filtered history
  have hvs := vsim_fold sdr.evs vsim_nil a
  have hvs' : NSim ((foldEvents sdr.evs).find a) ((foldEvents (dropAddrDeletes sdr.evs)).find a) := hvs
  rw [hnv] at hvs'
  cases hnv' : (foldEvents (dropAddrDeletes sdr.evs)).find a with
  | none => rw [hnv'] at hvs'; exact hvs'.elim
  | some nv' =>
    rw [hnv'] at hvs'
    have hleft' : nv'.left = false := by rw [← hvs'.1, hnvl, hVleft]
    -- C05: what the owner shows
    obtain ⟨hpx, hax, hepx, hcnt⟩ := hinv.owner_shows hga hsa
    have hcaughtK : ∀ k, nv.kv.find k = visAt (own ga).entries k := by
      intro k; rw [hnvk k]; unfold visAt; rw [hexact k]
    have hcaught' := caught_filtered hvs' (visAt (own ga).entries) hcaughtK hpx hax
    have hw := wellFormed_filtered r sdr.evs (C04_wellFormed_of_C14 r sdr.evs hnr.evok)
    have hl := noLiveness_filtered r sdr.evs hnr.live
    have had := addrStable_filtered (pa := (Sys.runRev ops).proxyOf) (aa := (Sys.runRev ops).adminOf) r sdr.evs hnr.addr
    have hcounts : ∀ e c, sda.table.localNode.endpoints.find e = some c → 0 < c ∧ c < 2 ^ 63 := by
      intro e c hc
      rw [hcnt e] at hc
      split at hc
      · cases hc
      · next h0 =>
        cases hc
        have := hsmall e
        constructor <;> omega
    have hmir := C04_mirror { id := r } (dropAddrDeletes sdr.evs) hw hl had a (fun e => hne e.symm) nv' sda.table.localNode
      (visAt (own ga).entries) hnv' (not_dropped_of_not_left _ a nv' hnv' hleft') hcaught' hpx hp0 hax ha0 hepx hcounts
    have hspec := (C04_table_spec { id := r } (dropAddrDeletes sdr.evs) hw hl had a (fun e => hne e.symm)).1 nv' hnv'
      (not_dropped_of_not_left _ a nv' hnv' hleft')
      (by
        rw [bothAddr_iff]
        simp only [NView.addr, hcaught', hpx, hax, Option.getD_some]
        exact ⟨hp0, ha0⟩)
    rw [run_dropAddrDeletes] at hmir hspec
    -- the real syncer is the pure syncer on the remote rows
    have hag := hnr.agree.2 a (by rw [Side.sync_table, hnr.tlid]; exact fun e => hne e.symm)
    have hag1 := congrArg Prod.fst hag
    have hag2 := congrArg Prod.snd hag
    simp only [atNode, Side.sync_table, Side.sync_pending] at hag1 hag2
    obtain ⟨hpn, row, hrow, hp, hq, hes, hst⟩ := hmir
    obtain ⟨_, row2, hrow2, hid2, _⟩ := hspec
    rw [hrow] at hrow2; cases hrow2
    refine ⟨by rw [Side.sync_pending, hag2]; exact hpn, row, by rw [hag1]; exact hrow,
      by rw [Side.sync_table, hag1]; exact hrow, hid2, hp, hq, fun e => ?_, ?_⟩
    · rw [hes e, hcnt e]
    · rw [hst]
      simp only [NView.status, hleft', Bool.false_eq_true, if_false, ← hvs'.2.1, hnvu]

open Piko.Gossip in
/-- **After a settle schedule every node is caught up with every other node** (`C03_converges_all`
about the system): `sched` consists of receive-side steps only (`SysOp.quiet`) and contains the full
exchange `join r a` for every ordered pair of nodes that existed when it started. -/
theorem C04_caught_up_after_settle (ops sched : List SysOp) (hall : SysAllowed (sched ++ ops))
    (hq : ∀ op ∈ sched, op.quiet.isSome = true)
    (hjoins : ∀ r a, r ≠ a → ((Sys.runRev ops).node r).isSome = true → ((Sys.runRev ops).node a).isSome = true →
      ∃ now, SysOp.join r a true now ∈ sched)
    (r a : String) (hne : r ≠ a) (xr xa : SysNode)
    (hr : (Sys.runRev (sched ++ ops)).node r = some xr) (ha : (Sys.runRev (sched ++ ops)).node a = some xa) :
    ∃ V, xr.mgr.gossip.nodes.find a = some V ∧ V.version = (own xa.mgr.gossip).version := by
  obtain ⟨sdr1, gr1, hsr1, hgr1, rfl⟩ := Sys.node_eq hr
  obtain ⟨sda1, ga1, hsa1, hga1, rfl⟩ := Sys.node_eq ha
  have hall0 := sysAllowed_append sched ops hall
  have hinv0 := sysInv_runRev ops hall0
  -- both nodes existed when the schedule started
  have hdom := Sys.side_dom_quiet sched ops hq
  have hnode0 : ∀ k sd1, (Sys.runRev (sched ++ ops)).side.find k = some sd1 →
      ∃ sd0 g0, (Sys.runRev ops).side.find k = some sd0 ∧ (Sys.runRev ops).net.nodes.find k = some g0 := by
    intro k sd1 hk
    have := hdom k
    rw [hk] at this
    cases hs0 : (Sys.runRev ops).side.find k with
    | none => rw [hs0] at this; cases this
    | some sd0 =>
      obtain ⟨g0, hg0⟩ := hinv0.net_of_side hs0
      exact ⟨sd0, g0, rfl, hg0⟩
  obtain ⟨sdr0, gr0, hsr0, hgr0⟩ := hnode0 r sdr1 hsr1
  obtain ⟨sda0, ga0, hsa0, hga0⟩ := hnode0 a sda1 hsa1
  -- the gossip histories
  have hN := Sys.netHist_append_quiet sched ops hq
  have hallN : AllowedRev (sched.filterMap SysOp.quiet ++ Sys.netHist ops) := by
    rw [← hN]; exact allowedRev_netHist _ hall
  have hqN : ∀ op ∈ sched.filterMap SysOp.quiet, Quiet op := by
    intro g hg
    obtain ⟨op, _, hop⟩ := List.mem_filterMap.mp hg
    exact Sys.quiet_isQuiet hop
  have hnodeSome : ∀ k g, (runRev (Sys.netHist ops)).net.nodes.find k = some g → ((Sys.runRev ops).node k).isSome = true := by
    intro k g hk
    rw [← Sys.runRev_net] at hk
    obtain ⟨sd, hsd⟩ := hinv0.side_of_net hk
    simp [Sys.node, hsd, hk]
  have hschedN : ∀ r a sr sa, r ≠ a → (runRev (Sys.netHist ops)).net.nodes.find r = some sr →
      (runRev (Sys.netHist ops)).net.nodes.find a = some sa → (own sa).entries ≠ [] →
      ∃ now, Op.join r a true now ∈ sched.filterMap SysOp.quiet := by
    intro r a sr sa hne hr ha _
    obtain ⟨now, hj⟩ := hjoins r a hne (hnodeSome r sr hr) (hnodeSome a sa ha)
    exact ⟨now, List.mem_filterMap.mpr ⟨_, hj, rfl⟩⟩
  -- the owner publishes at least its proxy address
  have hent : (own ga0).entries ≠ [] := by
    have hp := (hinv0.node a sda0 ga0 hsa0 hga0).paddr
    intro h0
    simp [liveValue, h0] at hp
  obtain ⟨sr', sa', V, h1, h2, h3, h4, h5, _⟩ :=
    C03_converges_all hallN hqN hschedN r a gr0 ga0 hne
      (by rw [← Sys.runRev_net]; exact hgr0) (by rw [← Sys.runRev_net]; exact hga0) hent
  rw [← hN, ← Sys.runRev_net] at h1 h2
  rw [hgr1] at h1; cases h1
  rw [hga1] at h2; cases h2
  exact ⟨V, h4, by rw [h5, h3]⟩


/-! ### Finding: the gossip layer does NOT guarantee `AddrStable`

`C04_table_spec` assumes that `OnDeleteKey` is never called for an address key.  The system model
(and, step for step, the Go code it mirrors) does call it, without any packet being forged:

* `a` publishes its addresses (versions 1, 2); observer `v` learns them;
* `a` registers/withdraws endpoints and compacts (marker `c₁` at version 9, value 5: "drop ≤ 5");
  `n` learns `a` in that state; `a` registers/withdraws again and compacts a second time (its
  addresses are now re-versioned to 12, 13);
* `n` pulls from `a` and - the reply being truncated - gets only the two re-versioned address entries;
  it still holds `c₁`;
* `v` (at version 2) pulls from `n`: `n`'s relayed view of `a` above version 2 is
  `[endpoint:z@8, c₁@9, proxy_addr@12, admin_addr@13]`.  Applying `c₁` makes `v` drop its own copies of
  the address keys (versions 1, 2 ≤ 5): `OnDeleteKey(a, admin_addr)`, `OnDeleteKey(a, proxy_addr)`;
  two entries later they are back (`OnUpsertKey`, same values).

Had that last delta been truncated after `c₁`, `v` would show `a` without addresses until its next
pull.  The syncer is immune (it ignores both callbacks for a node it already has), which is why
`C04_mirror_system` holds regardless - its proof filters those notifications out
(`Proofs/SysTrace.lean`) instead of assuming they do not occur.

`C04_addrStable_not_guaranteed` is the last step, kernel-checked on the literal observer state and
relayed delta; the `#guard`s below evaluate the whole system run `addrCexOps` (compiled evaluation,
not a proof) and check that it produces exactly that situation, and that `v`'s routing table is
right all the same. -/

/-- the schedule of the finding, in the system model (latest first) -/
def addrCexOps : List SysOp := [
  .deliver 3 0 [] 0 0,                       -- the relayed delta reaches `v`
  .deliver 2 100 [] 0 0,                     -- `n` answers with everything it has about `a` above 2
  .sendDigest "v" "gn" false [0, 1, 2] 3,    -- `v` gossips with `n`
  .deliver 1 0 [] 0 0,                       -- ... which reaches `n`
  .deliver 0 3 [] 0 0,                       -- `a` answers, truncated after the two address entries
  .sendDigest "n" "ga" false [0, 1, 2] 3,    -- `n` gossips with `a`
  .compact "a" 1,                            -- second compaction of `a`
  .removeConn "a" 2 "w", .addConn "a" 2 "w",
  .join "n" "a" true 0,                      -- `n` learns `a` (after the first compaction)
  .compact "a" 1,                            -- first compaction of `a`
  .removeConn "a" 1 "y", .addConn "a" 3 "z", .addConn "a" 1 "y",
  .join "v" "a" true 0,                      -- `v` learns `a`'s two addresses (versions 1, 2)
  .boot "v" "gv" "pv" "av", .boot "n" "gn" "pn" "an", .boot "a" "ga" "P" "A"]

/-- `v`'s gossip state before the last delivery -/
def addrCexObserver : Gossip.CState :=
  { localId := "v",
    nodes := [("a", { id := "a", addr := "ga", version := 2, entries :=
                 [("admin_addr", { key := "admin_addr", value := "A", version := 2 }),
                  ("proxy_addr", { key := "proxy_addr", value := "P", version := 1 })] }),
              ("v", { id := "v", addr := "gv", version := 2, entries :=
                 [("admin_addr", { key := "admin_addr", value := "av", version := 2 }),
                  ("proxy_addr", { key := "proxy_addr", value := "pv", version := 1 })] })] }

/-- the delta `n` relays: `a`'s entries above version 2 as `n` holds them -/
def addrCexDelta : Gossip.Delta :=
  [{ id := "a", addr := "ga", entries :=
      [{ key := "endpoint:z", value := "1", version := 8 },
       { key := "_internal:compact", value := "5", version := 9, internal := true },
       { key := "proxy_addr", value := "P", version := 12 },
       { key := "admin_addr", value := "A", version := 13 }] }]

#guard (Sys.runRev (addrCexOps.drop 1)).net.pool[3]? == some (Gossip.Packet.delta "n" "gn" "gv" addrCexDelta)
#guard ((Sys.runRev (addrCexOps.drop 1)).net.nodes.find "v").map (·.nodes) == some addrCexObserver.nodes
#guard ((Sys.runRev addrCexOps).node "v").map (fun x => decide (AddrStable "v" x.evs)) == some false
#guard ((Sys.runRev addrCexOps).node "v").map (fun x => x.mgr.cluster.nodes.find "a") ==
  some (some { id := "a", status := .active, proxyAddr := "P", adminAddr := "A", endpoints := [("z", 1)] })

/-- **The watcher is told that the address keys were deleted**, and the notification history of `v`
(`join a`, the two addresses, then this delivery) is not `AddrStable`; the delta is one the package
itself produced (`deltaOK`), sorted and gap-free. -/
theorem C04_addrStable_not_guaranteed :
    Gossip.deltaOK addrCexDelta = true ∧
    (Gossip.applyDelta 0 addrCexObserver addrCexDelta).2 =
      [.upsert "a" "endpoint:z" "1", .delete "a" "admin_addr", .delete "a" "proxy_addr",
       .upsert "a" "proxy_addr" "P", .upsert "a" "admin_addr" "A"] ∧
    ¬ AddrStable "v" ([.join "a", .upsert "a" "proxy_addr" "P", .upsert "a" "admin_addr" "A"] ++
        (Gossip.applyDelta 0 addrCexObserver addrCexDelta).2) := by
  decide

/-! ### Non-vacuity: a concrete three-node run

The history `SysEx.hist` (three boots, upstreams connecting on two nodes, one connecting and
disconnecting) is evaluated by `decide`; the six stream exchanges of `SysEx.sched` are discharged by
the theorems (the kernel cannot evaluate `List.mergeSort`, which every exchange uses), exactly as the
non-vacuity example of `C03_converges_all` does. -/

section SysExample
open Piko.Gossip

namespace SysEx

/-- three nodes boot; upstream 3 registers `foo` on `n1`, upstream 5 registers `foo` on `n2`, upstream 7
registers `bar` on `n1` and disconnects again (latest operation first) -/
def hist : List SysOp :=
  [.removeConn "n1" 7 "bar", .addConn "n1" 7 "bar", .addConn "n2" 5 "foo", .addConn "n1" 3 "foo",
   .boot "n2" "g2" "p2" "a2", .boot "n1" "g1" "p1" "a1", .boot "n0" "g0" "p0" "a0"]

/-- the settle schedule: one full exchange for each of the six ordered pairs, nothing else -/
def sched : List SysOp :=
  [.join "n2" "n1" true 6, .join "n2" "n0" true 5, .join "n1" "n2" true 4,
   .join "n1" "n0" true 3, .join "n0" "n2" true 2, .join "n0" "n1" true 1]

theorem allowed : SysAllowed (sched ++ hist) := by
  simp [sched, hist, SysAllowed, SysStepAllowed]

theorem quiet : ∀ op ∈ sched, op.quiet.isSome = true := by decide

theorem noLiveness : ∀ op ∈ sched ++ hist, ∀ n sus now, op ≠ .liveness n sus now := by
  intro op hop n sus now
  simp only [sched, hist, List.cons_append, List.nil_append, List.mem_cons, List.not_mem_nil, or_false] at hop
  rcases hop with rfl | rfl | rfl | rfl | rfl | rfl | rfl | rfl | rfl | rfl | rfl | rfl | rfl <;> simp

/-- what a node is at the end of `hist`: its balancers, the local row of its table, whether it left -/
def summary (s : Sys) (k : String) : Option (AMap String Upstream.LB × Cluster.Node × Bool) :=
  (s.node k).map fun x => (x.mgr.lbs, x.mgr.cluster.localNode, (own x.mgr.gossip).left)

set_option maxRecDepth 8000 in
theorem hist_keys : (Sys.runRev hist).side.keys = ["n1", "n2", "n0"] := by decide

set_option maxRecDepth 8000 in
theorem hist_n0 : summary (Sys.runRev hist) "n0" =
    some ([], { id := "n0", status := .active, proxyAddr := "p0", adminAddr := "a0" }, false) := by decide
set_option maxRecDepth 8000 in
theorem hist_n1 : summary (Sys.runRev hist) "n1" =
    some ([("foo", { ups := [3] })],
      { id := "n1", status := .active, proxyAddr := "p1", adminAddr := "a1", endpoints := [("foo", 1)] }, false) := by decide
set_option maxRecDepth 8000 in
theorem hist_n2 : summary (Sys.runRev hist) "n2" =
    some ([("foo", { ups := [5] })],
      { id := "n2", status := .active, proxyAddr := "p2", adminAddr := "a2", endpoints := [("foo", 1)] }, false) := by decide


theorem node_mem {k : String} (h : ((Sys.runRev hist).node k).isSome = true) : k = "n1" ∨ k = "n2" ∨ k = "n0" := by
  have hs : ((Sys.runRev hist).side.find k).isSome = true := by
    unfold Sys.node at h
    cases hf : (Sys.runRev hist).side.find k with
    | none => simp [hf] at h
    | some sd => rfl
  cases hf : (Sys.runRev hist).side.find k with
  | none => rw [hf] at hs; cases hs
  | some sd =>
    have := C14.mem_keys_of_find hf
    rw [hist_keys] at this
    simpa using this

theorem joins : ∀ r a, r ≠ a → ((Sys.runRev hist).node r).isSome = true → ((Sys.runRev hist).node a).isSome = true →
    ∃ now, SysOp.join r a true now ∈ sched := by
  intro r a hne hr ha
  rcases node_mem hr with rfl | rfl | rfl <;> rcases node_mem ha with rfl | rfl | rfl <;>
    first
    | exact absurd rfl hne
    | exact ⟨_, by simp [sched]; rfl⟩

/-- the settle schedule changed no registry, no local row and nobody's left-flag -/
theorem summary_final (k : String) : summary (Sys.runRev (sched ++ hist)) k = summary (Sys.runRev hist) k := by
  cases h0 : (Sys.runRev hist).node k with
  | some x0 =>
    obtain ⟨x1, h1, hl, ht, ho⟩ := Sys.quiet_keeps sched hist allowed quiet k x0 h0
    simp [summary, h0, h1, hl, ht, ho]
  | none =>
    cases h1 : (Sys.runRev (sched ++ hist)).node k with
    | none => simp [summary, h0, h1]
    | some x1 =>
      exfalso
      obtain ⟨sd, g, hsd, _, _⟩ := Sys.node_eq h1
      have hdom := Sys.side_dom_quiet sched hist quiet k
      rw [hsd] at hdom
      cases hs0 : (Sys.runRev hist).side.find k with
      | none => rw [hs0] at hdom; cases hdom
      | some sd0 =>
        obtain ⟨g0, hg0⟩ := (sysInv_runRev hist (sysAllowed_append sched hist allowed)).net_of_side hs0
        simp [Sys.node, hs0, hg0] at h0

/-- every node of the final state is one of the three, unchanged in registry, local row and left-flag -/
theorem final_node {k : String} {x : SysNode} (h : (Sys.runRev (sched ++ hist)).node k = some x) :
    (k = "n0" ∧ x.mgr.lbs = [] ∧
        x.mgr.cluster.localNode = { id := "n0", status := .active, proxyAddr := "p0", adminAddr := "a0" } ∧
        (own x.mgr.gossip).left = false) ∨
    (k = "n1" ∧ x.mgr.lbs = [("foo", { ups := [3] })] ∧
        x.mgr.cluster.localNode =
          { id := "n1", status := .active, proxyAddr := "p1", adminAddr := "a1", endpoints := [("foo", 1)] } ∧
        (own x.mgr.gossip).left = false) ∨
    (k = "n2" ∧ x.mgr.lbs = [("foo", { ups := [5] })] ∧
        x.mgr.cluster.localNode =
          { id := "n2", status := .active, proxyAddr := "p2", adminAddr := "a2", endpoints := [("foo", 1)] } ∧
        (own x.mgr.gossip).left = false) := by
  have hs := summary_final k
  have hsome : ((Sys.runRev hist).node k).isSome = true := by
    cases h0 : (Sys.runRev hist).node k with
    | some _ => rfl
    | none => simp [summary, h0, h] at hs
  simp only [summary, h, Option.map_some] at hs
  rcases node_mem hsome with rfl | rfl | rfl
  · have := hist_n1; simp only [summary] at this; rw [← hs] at this
    simp only [Option.some.injEq, Prod.mk.injEq] at this
    exact Or.inr (Or.inl ⟨rfl, this.1, this.2.1, this.2.2⟩)
  · have := hist_n2; simp only [summary] at this; rw [← hs] at this
    simp only [Option.some.injEq, Prod.mk.injEq] at this
    exact Or.inr (Or.inr ⟨rfl, this.1, this.2.1, this.2.2⟩)
  · have := hist_n0; simp only [summary] at this; rw [← hs] at this
    simp only [Option.some.injEq, Prod.mk.injEq] at this
    exact Or.inl ⟨rfl, this.1, this.2.1, this.2.2⟩

theorem final_exists (k : String) (hk : k = "n0" ∨ k = "n1" ∨ k = "n2") :
    ∃ x, (Sys.runRev (sched ++ hist)).node k = some x := by
  have h := summary_final k
  have h0 : (summary (Sys.runRev hist) k).isSome = true := by
    rcases hk with rfl | rfl | rfl
    · rw [hist_n0]; rfl
    · rw [hist_n1]; rfl
    · rw [hist_n2]; rfl
  rw [← h] at h0
  unfold summary at h0
  cases hx : (Sys.runRev (sched ++ hist)).node k with
  | none => rw [hx] at h0; cases h0
  | some x => exact ⟨x, rfl⟩

end SysEx

open SysEx in
/-- **Non-vacuity of `C04_mirror_system`** on the concrete run: after the six exchanges `n0`'s routing
table lists `n1` with its addresses, `active`, with `foo ↦ 1` (upstream 3) and without `bar` (upstream 7
disconnected before anybody heard of it; its tombstone still travelled). -/
example : ∃ x row, (Sys.runRev (sched ++ hist)).node "n0" = some x ∧ x.mgr.cluster.nodes.find "n1" = some row ∧
    x.sync.pending.find "n1" = none ∧ row.proxyAddr = "p1" ∧ row.adminAddr = "a1" ∧ row.status = .active ∧
    row.endpoints.find "foo" = some 1 ∧ row.endpoints.find "bar" = none := by
  obtain ⟨x0, h0⟩ := final_exists "n0" (Or.inl rfl)
  obtain ⟨x1, h1⟩ := final_exists "n1" (Or.inr (Or.inl rfl))
  have hf1 := final_node h1
  simp only [show ("n1" = "n0") = False from by decide, show ("n1" = "n2") = False from by decide,
    false_and, or_false, false_or, true_and] at hf1
  obtain ⟨hlbs, hloc, hleft⟩ := hf1
  obtain ⟨V, hV, hver⟩ := C04_caught_up_after_settle hist sched allowed quiet joins "n0" "n1" (by decide) x0 x1 h0 h1
  have hreg : ∀ e, x1.mgr.registry e = if "foo" = e then [3] else [] := by
    intro e; simp only [Upstream.Mgr.registry, hlbs, AMap.find_cons, AMap.find_nil]; split <;> rfl
  obtain ⟨hpend, row, hrow, _, _, hp, ha, hes, hst⟩ := C04_mirror_system _ allowed "n0" "n1" (by decide) x0 x1 h0 h1 V hV hver
    hleft (by rw [hloc]; decide) (by rw [hloc]; decide) (fun e => by rw [hreg]; split <;> simp)
  have hunr := no_unreachable_of_noLiveEvs (sysInv_runRev _ allowed) (noLiveEvs_runRev _ allowed noLiveness) h0 hV (by decide)
  refine ⟨x0, row, h0, hrow, hpend, by rw [hp, hloc], by rw [ha, hloc], by rw [hst, hunr]; rfl, ?_, ?_⟩
  · rw [hes, hreg]; simp
  · rw [hes, hreg]; simp

end SysExample

end Piko
