import Proofs.MgrSpec
/-!
# C15 — Upstream selection is valid and round-robin fair

Model: `PikoModel/Upstream/LB.lean` (`loadBalancer.Add/Remove/Next`, `Select`).
-/
namespace Piko
open Piko.Upstream

/-- raw balancer operations -/
inductive LBOp | add (u : Nat) | rm (u : Nat) | next
deriving Repr

def lbStep (lb : LB) : LBOp → LB
  | .add u => lb.add u
  | .rm u => (lb.remove u).1
  | .next => lb.pick.2

/-- For every sequence of add/remove/next (removing the cursor element, the last one, an
unknown one): the cursor stays in range, so `Next` never indexes out of range, never takes
a modulo by zero, and returns `nil` only for an empty balancer. -/
theorem C15_cursor_inv (ops : List LBOp) :
    let lb := ops.foldl lbStep {}
    lb.Inv ∧ (lb.ups ≠ [] → ∃ u, lb.pick.1 = .up u ∧ u ∈ lb.ups) ∧ (lb.ups = [] → lb.pick.1 = .none) := by
  intro lb
  have hinv : lb.Inv := by
    show (ops.foldl lbStep {}).Inv
    have : ∀ (l : LB), l.Inv → (ops.foldl lbStep l).Inv := by
      induction ops with
      | nil => intro l h; exact h
      | cons op ops ih =>
        intro l h
        apply ih
        cases op with
        | add u => exact LB.inv_add l u h
        | rm u => exact LB.inv_remove l u h
        | next => exact LB.inv_pick l h
    exact this _ LB.inv_empty
  refine ⟨hinv, ?_, ?_⟩
  · intro hne
    obtain ⟨hlt, hp⟩ := lb.pick_of_inv hinv hne
    exact ⟨_, by rw [hp], List.getElem_mem hlt⟩
  · intro he
    unfold LB.pick
    simp [he]

/-- With a stable set of `n` upstreams, any `n` consecutive selections (from any cursor
position) are a permutation of the registered upstreams - each exactly once when they are
distinct - and the cursor returns to where it started. -/
theorem C15_fair (lb : LB) (h : lb.Inv) (hne : lb.ups ≠ []) :
    (lb.pickN lb.ups.length).1.Perm (lb.ups.map Pick.up) ∧ (lb.pickN lb.ups.length).2 = lb := by
  obtain ⟨h1, h2⟩ := LB.pickN_round lb h hne
  exact ⟨by rw [h1]; exact (List.rotate_perm lb.ups lb.next).map _, h2⟩

/-- Removal at any point never starves a remaining upstream: after `Remove`, the next
`n'` selections cover all `n'` remaining upstreams. -/
theorem C15_no_starvation (lb : LB) (u : Nat) (h : lb.Inv) (hne : (lb.remove u).1.ups ≠ []) :
    let lb' := (lb.remove u).1
    (lb'.pickN lb'.ups.length).1.Perm (lb'.ups.map Pick.up) :=
  (C15_fair _ (LB.inv_remove lb u h) hne).1

/-- same after an addition -/
theorem C15_no_starvation_add (lb : LB) (u : Nat) (h : lb.Inv) :
    let lb' := lb.add u
    (lb'.pickN lb'.ups.length).1.Perm (lb'.ups.map Pick.up) :=
  (C15_fair _ (LB.inv_add lb u h) (by simp [LB.add])).1

/-- `Select` on any reachable manager state returns a local upstream only if it is
currently registered for exactly that endpoint (the reference registry: added and not since
removed); it never returns `(nil, true)` and never panics. -/
theorem C15_member (id proxy admin : String) (ops : List Op) (e : String) (a : Bool) :
    (∀ u, ((reach id proxy admin ops).select e a).1 = .localUp u → u ∈ refRun ops e) ∧
    ((reach id proxy admin ops).select e a).1 ≠ .nilTrue ∧
    ((reach id proxy admin ops).select e a).1 ≠ .panic ∧
    (refRun ops e ≠ [] → ∃ u, ((reach id proxy admin ops).select e a).1 = .localUp u) := by
  generalize hm : reach id proxy admin ops = m
  have hinv : MInv m := hm ▸ inv_reach id proxy admin ops
  have hreg : m.registry e = refRun ops e := hm ▸ registry_reach id proxy admin ops e
  unfold Mgr.select
  cases hf : m.lbs.find e with
  | none =>
    have hnil : refRun ops e = [] := by rw [← hreg]; exact registry_of_none hf
    by_cases ha : a = true
    · simp only [ha, Bool.not_true, Bool.false_eq_true, if_false]
      split <;> simp [hnil]
    · simp [ha, hnil]
  | some lb =>
    obtain ⟨hne, hi⟩ := hinv.lbs e lb hf
    obtain ⟨hlt, hp⟩ := lb.pick_of_inv hi hne
    have hups : refRun ops e = lb.ups := by rw [← hreg]; exact registry_of_find hf
    simp only [hp]
    refine ⟨?_, by simp, by simp, fun _ => ⟨_, rfl⟩⟩
    intro u hu
    simp only [Sel.localUp.injEq] at hu
    rw [hups, ← hu]
    exact List.getElem_mem hlt

/-- A request that may not be forwarded never receives a remote node. -/
theorem C15_no_remote (m : Mgr) (e : String) (cs : List String) :
    (m.select e false).1 ≠ .remote cs := by
  unfold Mgr.select
  cases hf : m.lbs.find e with
  | none => simp
  | some lb =>
    simp only
    split <;> simp

/-- A remote result is only ever a node other than the local one, currently active, that
advertises at least one upstream for the endpoint. -/
theorem C15_remote_sound (m : Mgr) (e : String) (a : Bool) (cs : List String)
    (h : (m.select e a).1 = .remote cs) :
    ∀ id ∈ cs, ∃ n ∈ m.cluster.nodes.vals, n.id = id ∧ n.id ≠ m.cluster.localId ∧
      n.status = .active ∧ ∃ l, n.endpoints.find e = some l ∧ l > 0 := by
  unfold Mgr.select at h
  cases hf : m.lbs.find e with
  | some lb =>
    simp only [hf] at h
    split at h <;> simp at h
  | none =>
    simp only [hf] at h
    by_cases ha : a = true
    · simp only [ha, Bool.not_true, Bool.false_eq_true, if_false] at h
      split at h
      · simp at h
      · rename_i cands hc
        simp only [Sel.remote.injEq] at h
        intro id hid
        rw [← h] at hid
        obtain ⟨n, hn, rfl⟩ := List.mem_map.mp hid
        unfold Cluster.State.lookupCandidates at hn
        simp only [List.mem_filter, Bool.and_eq_true, Bool.not_eq_true', decide_eq_false_iff_not,
          decide_eq_true_eq] at hn
        refine ⟨n, hn.1, rfl, hn.2.1.1, hn.2.1.2, ?_⟩
        have hs := hn.2.2
        unfold Cluster.Node.serves at hs
        split at hs
        · rename_i l hl; exact ⟨l, hl, by simpa using hs⟩
        · simp at hs
    · simp [ha] at h

/-- non-vacuity: three upstreams, cursor in the middle, a full round -/
example : (({ ups := [7, 8, 9], next := 1 } : LB).pickN 3).1 = [.up 8, .up 9, .up 7] := by decide

end Piko
