import Proofs.FD
import Proofs.LivenessFD
import PikoModel.Generated.Facts
/-!
# C12 — Failure detector: steady peers are never suspected, silent peers always are

Model: `PikoModel/Gossip/FD.lean` (`arrivalIntervals`, `arrivalWindow`,
`accrualFailureDetector` of `pkg/gossip/failuredetector.go`).

Notation used in the statements: `windowOf b N ts` is the window of a node after the arrivals
`ts` (bootstrap interval `b`, sample size `N`); `intervalsOf b ts = [b, t₂-t₁, t₃-t₂, …]` are
the samples ever recorded; `lastN N xs` is the last `min (length xs) N` elements of `xs`.
A suspicion level is the exact fraction `num/den` (`den > 0`); `p.gt θ` is `num > θ·den`,
`p.le θ` is `num ≤ θ·den`.  All theorems hold for arrival sequences of any length — in
particular longer than the window, where the circular buffer has wrapped any number of times.
-/
namespace Piko
open Piko.FD

/-- After any number of arrivals: the running sum is the sum of the last `min n N` samples of
`[b, t₂-t₁, …]`; the size is `min n N`; slot `k mod N` holds sample `k` for each of the last
`N` samples; the mean is positive; and for every further arrival the slice index used by
`Add` is `< N` and `Add` does not panic (so it really is the next window). -/
theorem C12_window (b : Int) (N : Nat) (ts : List Nat) (hN : 0 < N) (hb : 0 < b)
    (hinc : ts.Pairwise (· < ·)) :
    (windowOf b N ts).intervals.sum = (lastN N (intervalsOf b ts)).sum ∧
    (lastN N (intervalsOf b ts)).length = min ts.length N ∧
    (windowOf b N ts).intervals.size = min ts.length N ∧
    (windowOf b N ts).intervals.intervals.length = N ∧
    (∀ k, k < ts.length → ts.length ≤ k + N →
      (windowOf b N ts).intervals.intervals[k % N]? = (intervalsOf b ts)[k]?) ∧
    (windowOf b N ts).lastTimestamp = ts.getLast? ∧
    (ts ≠ [] → 0 < (windowOf b N ts).intervals.sum ∧ 0 < (windowOf b N ts).intervals.size) ∧
    (∀ t, (windowOf b N ts).intervals.accessIndex < N ∧ ((windowOf b N ts).add t).2 = none ∧
      windowOf b N (ts ++ [t]) = ((windowOf b N ts).add t).1) := by
  have h := wrep_windowOf b hN ts
  have hlen : (lastN N (intervalsOf b ts)).length = min ts.length N := by
    rw [length_lastN, length_intervalsOf]
  refine ⟨h.rep.sum, hlen, ?_, h.rep.len, ?_, h.last, ?_, ?_⟩
  · rw [h.rep.size_eq, length_intervalsOf]
  · intro k hk hkN
    exact h.rep.ring k (by rwa [length_intervalsOf]) (by rwa [length_intervalsOf])
  · intro hne
    refine ⟨by rw [h.rep.sum]; exact window_sum_pos hb hN hne hinc, ?_⟩
    rw [h.rep.size_eq, length_intervalsOf]
    have : 0 < ts.length := List.length_pos_iff.mpr hne
    omega
  · intro t
    obtain ⟨h1, h2, _⟩ := wrep_add hN h t
    exact ⟨h2, h1, by rw [windowOf_append]; rfl⟩

/-- The suspicion level is exactly zero at the moment the peer is heard from. -/
theorem C12_zero_at_arrival (b : Int) (N : Nat) (ts : List Nat) (hN : 0 < N) (hb : 0 < b)
    (hinc : ts.Pairwise (· < ·)) (hne : ts ≠ []) :
    ∃ p, (windowOf b N ts).phi (ts.getLast hne) = .ok p ∧ p.num = 0 ∧ 0 < p.den := by
  have hpos := window_sum_pos hb hN hne hinc
  rw [(wrep_windowOf b hN ts).phi_eq hne, if_pos hpos]
  exact ⟨_, rfl, by simp, hpos⟩

/-- The suspicion level grows in proportion to the silence: it is the exact fraction
`(t - last) · size / sum`, i.e. the time since the last arrival divided by the mean of the
last `min n N` samples. -/
theorem C12_linear (b : Int) (N : Nat) (ts : List Nat) (hN : 0 < N) (hb : 0 < b)
    (hinc : ts.Pairwise (· < ·)) (hne : ts ≠ []) (t : Nat) :
    ∃ p, (windowOf b N ts).phi t = .ok p ∧
      p.num = ((t : Int) - (ts.getLast hne : Nat)) * ((min ts.length N : Nat) : Int) ∧
      p.den = (lastN N (intervalsOf b ts)).sum ∧ 0 < p.den := by
  have hpos := window_sum_pos hb hN hne hinc
  rw [(wrep_windowOf b hN ts).phi_eq hne, if_pos hpos]
  exact ⟨_, rfl, rfl, rfl, hpos⟩

/-- The suspicion level never decreases while the peer stays silent. -/
theorem C12_monotone (b : Int) (N : Nat) (ts : List Nat) (hN : 0 < N) (hb : 0 < b)
    (hinc : ts.Pairwise (· < ·)) (hne : ts ≠ []) (t t' : Nat) (htt : t ≤ t') :
    ∃ p p', (windowOf b N ts).phi t = .ok p ∧ (windowOf b N ts).phi t' = .ok p' ∧
      p.den = p'.den ∧ 0 < p.den ∧ p.num ≤ p'.num := by
  have hpos := window_sum_pos hb hN hne hinc
  rw [(wrep_windowOf b hN ts).phi_eq hne, (wrep_windowOf b hN ts).phi_eq hne, if_pos hpos, if_pos hpos]
  refine ⟨_, _, rfl, rfl, rfl, hpos, ?_⟩
  apply Int.mul_le_mul_of_nonneg_right
  · have : (t : Int) ≤ (t' : Int) := by exact_mod_cast htt
    linarith
  · exact Int.natCast_nonneg _

/-- Arrivals older than the window have no influence: two histories with the same last
`N + 1` arrivals have the same suspicion level (or the same panic) at every query time. -/
theorem C12_window_only (b : Int) (N : Nat) (hN : 0 < N) (ts₁ ts₂ : List Nat)
    (h : lastN (N + 1) ts₁ = lastN (N + 1) ts₂) (t : Nat) :
    (windowOf b N ts₁).phi t = (windowOf b N ts₂).phi t := by
  by_cases h1 : N + 1 ≤ ts₁.length
  · by_cases h2 : N + 1 ≤ ts₂.length
    · exact phi_eq_of_lastN hN b b ts₁ ts₂ h1 h2 h t
    · have e2 : lastN (N + 1) ts₂ = ts₂ := by
        unfold lastN; rw [show ts₂.length - (N + 1) = 0 by omega]; rfl
      have hl := congrArg List.length h
      rw [e2, length_lastN] at hl
      have e1 : lastN (N + 1) ts₁ = ts₁ := by
        unfold lastN; rw [show ts₁.length - (N + 1) = 0 by omega]; rfl
      rw [e1, e2] at h; rw [h]
  · have e1 : lastN (N + 1) ts₁ = ts₁ := by
      unfold lastN; rw [show ts₁.length - (N + 1) = 0 by omega]; rfl
    have hl := congrArg List.length h
    rw [e1, length_lastN] at hl
    have e2 : lastN (N + 1) ts₂ = ts₂ := by
      unfold lastN; rw [show ts₂.length - (N + 1) = 0 by omega]; rfl
    rw [e1, e2] at h; rw [h]

/-- The bootstrap sample is the first sample and is evicted like any other: once `N + 1`
arrivals were seen the level does not depend on the bootstrap interval either. -/
theorem C12_bootstrap_evicted (b₁ b₂ : Int) (N : Nat) (hN : 0 < N) (ts₁ ts₂ : List Nat)
    (h1 : N + 1 ≤ ts₁.length) (h2 : N + 1 ≤ ts₂.length)
    (h : lastN (N + 1) ts₁ = lastN (N + 1) ts₂) (t : Nat) :
    (windowOf b₁ N ts₁).phi t = (windowOf b₂ N ts₂).phi t :=
  phi_eq_of_lastN hN b₁ b₂ ts₁ ts₂ h1 h2 h t

/-- Accuracy: if every sample in the window (bootstrap included while it is there) is at least
`lo > 0` and `hi ≤ θ·lo`, the level stays `≤ θ` for every query up to `hi` after the last
arrival.  (For a peer whose intervals all lie in `[lo, hi]` the next arrival comes within
`hi`: see `C12_steady_never_suspected`.) -/
theorem C12_accuracy (b : Int) (N : Nat) (ts : List Nat) (hN : 0 < N) (hne : ts ≠ [])
    (lo hi : Int) (θ : Nat) (hlo : 0 < lo)
    (hwin : ∀ x ∈ lastN N (intervalsOf b ts), lo ≤ x ∧ x ≤ hi) (hθ : hi ≤ (θ : Int) * lo)
    (t : Nat) (ht : (t : Int) ≤ (ts.getLast hne : Nat) + hi) :
    ∃ p, (windowOf b N ts).phi t = .ok p ∧ p.le θ ∧ ¬ p.gt θ :=
  accuracy_core b N ts hN hne lo hi θ hlo (fun x hx => (hwin x hx).1) hθ t ht

/-- Steady peers are never suspected: for an arrival history all of whose samples (bootstrap
and every inter-arrival time) lie in `[lo, hi]` with `hi ≤ θ·lo`, at every moment from the
first arrival until `hi` after the last one, the level computed from the arrivals so far is
`≤ θ`. -/
theorem C12_steady_never_suspected (b : Int) (N : Nat) (ts : List Nat) (hN : 0 < N)
    (lo hi : Int) (θ : Nat) (hlo : 0 < lo)
    (hall : ∀ x ∈ intervalsOf b ts, lo ≤ x ∧ x ≤ hi) (hθ : hi ≤ (θ : Int) * lo)
    (pre post : List Nat) (hsplit : ts = pre ++ post) (hne : pre ≠ [])
    (t : Nat) (ht : (t : Int) ≤ (pre.getLast hne : Nat) + hi) :
    ∃ p, (windowOf b N pre).phi t = .ok p ∧ p.le θ ∧ ¬ p.gt θ := by
  apply accuracy_core b N pre hN hne lo hi θ hlo _ hθ t ht
  intro x hx
  have hx' : x ∈ intervalsOf b pre := mem_of_mem_lastN hx
  exact (hall x (hsplit ▸ mem_intervalsOf_append b pre post hx')).1

/-- `C12_accuracy` at the threshold production uses (`θ` = `suspicionThreshold` extracted from
`pkg/gossip/gossip.go`, whatever its value): a window whose samples are within a factor `θ` of the
silence allowed never makes `UpdateLiveness` see `suspicionLevel > suspicionThreshold`. -/
theorem C12_accuracy_threshold (b : Int) (N : Nat) (ts : List Nat) (hN : 0 < N) (hne : ts ≠ [])
    (θ : Nat) (hfact : Facts.suspicionThreshold = some θ)
    (lo hi : Int) (hlo : 0 < lo)
    (hwin : ∀ x ∈ lastN N (intervalsOf b ts), lo ≤ x ∧ x ≤ hi) (hθ : hi ≤ (θ : Int) * lo)
    (t : Nat) (ht : (t : Int) ≤ (ts.getLast hne : Nat) + hi) :
    ∃ p, (windowOf b N ts).phi t = .ok p ∧ ¬ p.gt θ := by
  obtain ⟨p, h1, _, h3⟩ := C12_accuracy b N ts hN hne lo hi θ hlo hwin hθ t ht
  exact ⟨p, h1, h3⟩

/-- Completeness: whatever the window holds, a silent peer is eventually suspected: there is
a silence `T` (one more than `θ` times the mean, rounded down) after which the level exceeds
`θ` for ever. -/
theorem C12_completeness (b : Int) (N : Nat) (ts : List Nat) (hN : 0 < N) (hb : 0 < b)
    (hinc : ts.Pairwise (· < ·)) (hne : ts ≠ []) (θ : Nat) :
    ∃ T : Nat, (T : Int) = (θ : Int) * (lastN N (intervalsOf b ts)).sum /
        ((min ts.length N : Nat) : Int) + 1 ∧
      ∀ t : Nat, ts.getLast hne + T ≤ t →
        ∃ p, (windowOf b N ts).phi t = .ok p ∧ p.gt θ ∧ ¬ p.le θ :=
  completeness_core b N ts hN hb hinc hne θ

/-- `C12_completeness` at the extracted production threshold. -/
theorem C12_completeness_threshold (b : Int) (N : Nat) (ts : List Nat) (hN : 0 < N) (hb : 0 < b)
    (hinc : ts.Pairwise (· < ·)) (hne : ts ≠ []) (θ : Nat) (hfact : Facts.suspicionThreshold = some θ) :
    ∃ T : Nat, ∀ t : Nat, ts.getLast hne + T ≤ t →
      ∃ p, (windowOf b N ts).phi t = .ok p ∧ p.gt θ := by
  obtain ⟨T, _, h⟩ := C12_completeness b N ts hN hb hinc hne θ
  exact ⟨T, fun t ht => by obtain ⟨p, h1, h2, _⟩ := h t ht; exact ⟨p, h1, h2⟩⟩

/-- The detector keeps, for every node, exactly the window of that node's own arrivals since
its last `Remove` (a query of an unknown node counts as its first arrival); reports, queries
and removals of other nodes never touch it.  Holds for every history of
`ReportWithTimestamp` / `SuspicionLevelAt` / `Remove`. -/
theorem C12_detector (b : Int) (N : Nat) (hN : 0 < N) (ops : List Op) (id : String) :
    ((newDetector b N).run ops).windows.find id =
      if arrivalsOf id ops = [] then none else some (windowOf b N (arrivalsOf id ops)) :=
  find_run hN id ops (newDetector b N) [] rfl rfl rfl

/-- What `SuspicionLevelAt(id, t)` returns after any history is the level of `windowOf` for the
node's own arrivals (with the query itself as first arrival when the node is unknown — the
level is then zero by `C12_zero_at_arrival`). -/
theorem C12_detector_phi (b : Int) (N : Nat) (hN : 0 < N) (ops : List Op) (id : String) (t : Nat) :
    (((newDetector b N).run ops).suspicionLevelAt id t).2 =
      (windowOf b N (arrivalsOf id (ops ++ [Op.query id t]))).phi t := by
  have h := C12_detector b N hN ops id
  simp only [arrivalsOf, List.foldl_append, List.foldl_cons, List.foldl_nil]
  exact query_phi hN id ((newDetector b N).run ops) _ (run_params ops _).1 (run_params ops _).2 h t

/-- facts regenerated from `pkg/gossip/gossip.go` on every run: the production detector is
`newAccrualFailureDetector(config.Interval*2, 50)` and the threshold passed to
`UpdateLiveness` is 20 -/
theorem C12_facts_sample_size : ∃ n, Facts.fdSampleSize = some n ∧ 0 < n := by decide

theorem C12_facts_bootstrap : ∃ k : Nat, Facts.fdBootstrapMultiplier = some k ∧ 0 < k := by decide

/-- the threshold was read from the source and leaves room for "roughly steady": a window whose
samples differ by up to a factor two is never flagged (`C12_accuracy_threshold` with `hi ≤ 2·lo ≤ θ·lo`) -/
theorem C12_facts_threshold :
    Facts.suspicionThreshold = some FD.suspicionThreshold ∧ 2 ≤ FD.suspicionThreshold := by decide

/-- the guards the theorems assume are the ones production establishes: the extracted sample
size is positive, and the bootstrap interval `Interval * k` is positive for every positive
gossip interval.  (The values themselves - 50 samples, twice the interval on the pinned tree -
are tuning knobs: every theorem above holds for all positive `N` and `b`.) -/
theorem C12_facts_guards :
    (∀ n, Facts.fdSampleSize = some n → 0 < n) ∧
    (∀ k, Facts.fdBootstrapMultiplier = some k → ∀ interval : Int, 0 < interval → 0 < interval * k) := by
  refine ⟨fun n h => ?_, fun k h interval hi => ?_⟩
  · obtain ⟨m, hm, hpos⟩ := C12_facts_sample_size
    rw [hm] at h; cases h; exact hpos
  · obtain ⟨m, hm, hpos⟩ := C12_facts_bootstrap
    rw [hm] at h; cases h
    exact Int.mul_pos hi (by exact_mod_cast hpos)

/-! ## non-vacuity -/

/-- a window of size 3 that has wrapped twice: 7 arrivals, samples `[10,3,4,1,7,6,2]`; the ring
holds the last three in slots `k mod 3` (sample 6 in slot 0, 4 in slot 1, 5 in slot 2), sum
`7+6+2 = 15`, bootstrap sample long gone -/
example : windowOf 10 3 [5, 8, 12, 13, 20, 26, 28] =
    { lastTimestamp := some 28,
      intervals := { intervals := [2, 7, 6], index := 1, isFull := true, sum := 15 },
      bootstrapInterval := 10 } := by decide

example : intervalsOf 10 [5, 8, 12, 13, 20, 26, 28] = [10, 3, 4, 1, 7, 6, 2] := by decide

/-- level at `t = 38`: `(38-28)·3 / 15 = 2`; at `t = 28 + 101`: `303/15 > 20` -/
example : (windowOf 10 3 [5, 8, 12, 13, 20, 26, 28]).phi 38 = .ok { num := 30, den := 15 } := by decide
example : (Phi.mk 303 15).gt 20 ∧ (Phi.mk 300 15).le 20 := by decide

/-- the hypotheses of `C12_accuracy` are satisfiable with a wrapped window -/
example : ∀ x ∈ lastN 3 (intervalsOf 10 [5, 8, 12, 13, 20, 26, 28]), (2 : Int) ≤ x ∧ x ≤ 7 := by decide

/-- the hypothesis of `C12_window_only` with two different histories longer than the window -/
example : lastN 4 [5, 8, 12, 13, 20, 26, 28] = lastN 4 [1, 2, 13, 20, 26, 28] := by decide

/-- the error constructors are reachable: sample size 0, and a query of an empty window -/
example : ((newArrivalWindow 10 0).add 5).2 = some Err.indexOutOfRange := by decide
example : (newArrivalWindow 10 3).phi 5 = .error Err.phiBeforeSample := by decide

/-- first query of an unknown node inserts a bootstrap window and returns zero -/
example : ((newDetector 10 3).suspicionLevelAt "n" 7).2 = .ok { num := 0, den := 10 } := by decide

/-! ## Composition with the membership state machine: `UpdateLiveness` driven by the detector

`Proofs/LivenessFD.lean`: `suspectedBy d θ now id` is the comparison `UpdateLiveness` evaluates
(`failureDetector.SuspicionLevel(id) > threshold` at `time.Now() = now`, as the exact fraction
`num > θ·den`; for a node without a window it is the level of the bootstrap window the query
inserts, i.e. zero) and `livenessTick d θ now s = updateLiveness s (suspectedBy d θ now) now`.
`suspectedBy` is the **pure** counterpart of the stateful Go query; `C12_tick_is_literal_loop`
proves that the loop which threads the detector through the queries gives the same state and
notifications.  "The detector has heard from `p`" is `d.windows.find p = some (windowOf b N ts)`
with `ts ≠ []`: exactly what `C12_detector` gives for `d = (newDetector b N).run ops` and
`ts = arrivalsOf p ops` (`C12_heard_of_history`). -/
section Liveness
open Piko.Gossip Piko.LivenessFD

/-- the hypothesis "`d` holds for `p` the window of the arrivals `ts`" of the theorems below is
what every history of `ReportWithTimestamp`/`SuspicionLevelAt`/`Remove` establishes -/
theorem C12_heard_of_history (b : Int) (N : Nat) (hN : 0 < N) (ops : List FD.Op) (p : String)
    (hne : arrivalsOf p ops ≠ []) :
    ((newDetector b N).run ops).windows.find p = some (windowOf b N (arrivalsOf p ops)) := by
  rw [C12_detector b N hN ops p, if_neg hne]

/-- The verdict `UpdateLiveness` sees is the exact comparison of `C12_linear`: a node whose window
is the one of the arrivals `ts` is suspected at `now` iff `θ · sum < (now − last) · size`. -/
theorem C12_suspected_iff (d : Detector) (p : String) (b : Int) (N : Nat) (ts : List Nat) (hN : 0 < N)
    (hb : 0 < b) (hinc : ts.Pairwise (· < ·)) (hne : ts ≠ [])
    (hwin : d.windows.find p = some (windowOf b N ts)) (θ now : Nat) :
    suspectedBy d θ now p = true ↔
      (θ : Int) * (lastN N (intervalsOf b ts)).sum <
        ((now : Int) - (ts.getLast hne : Nat)) * ((min ts.length N : Nat) : Int) :=
  suspectedBy_iff hN hb hinc hne hwin θ now

/-- **A peer that falls silent is marked unreachable.**  State `s` well-formed, `p` remembered,
remote and not left; the detector has heard from `p` (arrivals `ts`, strictly increasing, at least
one).  At every tick from `last + T` on - `T = ⌊θ·sum/size⌋ + 1`, the silence of
`C12_completeness` - the verdict is "suspected" and after `UpdateLiveness`:
`p` is flagged unreachable; if it was not flagged before, its expiry is `now + nodeExpiry` and
`OnUnreachable(p)` is notified (if it was, the node - expiry of the first flagging included - is
untouched and nothing is notified); no `OnReachable(p)`; `p` is not among `LiveNodes()` and is
among `UnreachableNodes()`, hence remains a target of the second draw of every gossip round
(`C03_round_probes_unreachable`); and the flags of every other node are those a detector gives that
agrees with `d` everywhere except on `p`'s window (per-node isolation). -/
theorem C12_silent_peer_marked_unreachable
    (s : CState) (hwf : C11.WF s) (p : String) (n : NodeSt)
    (hf : s.nodes.find p = some n) (hid : p ≠ s.localId) (hl : n.left = false)
    (d : Detector) (b : Int) (N : Nat) (ts : List Nat) (hN : 0 < N) (hb : 0 < b)
    (hinc : ts.Pairwise (· < ·)) (hne : ts ≠ [])
    (hwin : d.windows.find p = some (windowOf b N ts)) (θ T : Nat)
    (hT : (T : Int) = (θ : Int) * (lastN N (intervalsOf b ts)).sum / ((min ts.length N : Nat) : Int) + 1)
    (now : Nat) (hnow : ts.getLast hne + T ≤ now) :
    suspectedBy d θ now p = true ∧
    ∃ n', (livenessTick d θ now s).1.nodes.find p = some n' ∧
      n'.unreachable = true ∧ n'.left = false ∧ n'.id = p ∧ n'.entries = n.entries ∧
      (n.unreachable = false → n'.expiry = some (now + nodeExpiry)) ∧
      (n.unreachable = true → n' = n) ∧
      (Event.unreachable p ∈ (livenessTick d θ now s).2 ↔ n.unreachable = false) ∧
      Event.reachable p ∉ (livenessTick d θ now s).2 ∧
      (∀ m ∈ liveNodes (livenessTick d θ now s).1, m.id ≠ p) ∧
      n' ∈ unreachableNodes (livenessTick d θ now s).1 ∧
      (∃ j, j < (unreachableNodes (livenessTick d θ now s).1).length ∧
        ∀ r₁ r₂, r₂ % (unreachableNodes (livenessTick d θ now s).1).length = j →
          n' ∈ roundTargets (livenessTick d θ now s).1 r₁ r₂) ∧
      (∀ d' : Detector, (∀ q, q ≠ p → d'.windows.find q = d.windows.find q) →
        d'.bootstrapInterval = d.bootstrapInterval → d'.sampleSize = d.sampleSize →
        ∀ q, q ≠ p →
          (livenessTick d' θ now s).1.nodes.find q = (livenessTick d θ now s).1.nodes.find q) := by
  have hs : suspectedBy d θ now p = true :=
    suspected_of_silent hN hb hinc hne hwin θ T hT now hnow
  obtain ⟨n', h1, h2, h3, h4, h5, h6, h7, h8, h9, h10, h11⟩ :=
    tick_flags hwf (suspectedBy d θ now) now hf hid hl hs
  refine ⟨hs, n', h1, h5, h3, h2, h4, h6, h7, h8, h9, h10, h11, probed_of_unreachable _ _ h11, ?_⟩
  intro d' hd' hb' hs' q hq
  exact tick_isolated hwf _ _ now q (suspectedBy_congr (hd' q hq) hb' hs' θ now)

/-- … at the extracted production threshold `θ` (`Facts.suspicionThreshold`, 20 on the pinned tree):
silence `T = ⌊θ·sum/size⌋ + 1`, i.e. just over `θ` mean inter-arrival times. -/
theorem C12_silent_peer_marked_unreachable_threshold
    (s : CState) (hwf : C11.WF s) (p : String) (n : NodeSt)
    (hf : s.nodes.find p = some n) (hid : p ≠ s.localId) (hl : n.left = false) (hu : n.unreachable = false)
    (d : Detector) (b : Int) (N : Nat) (ts : List Nat) (hN : 0 < N) (hb : 0 < b)
    (hinc : ts.Pairwise (· < ·)) (hne : ts ≠ [])
    (hwin : d.windows.find p = some (windowOf b N ts))
    (θ : Nat) (hfact : Facts.suspicionThreshold = some θ) (T : Nat)
    (hT : (T : Int) = (θ : Int) * (lastN N (intervalsOf b ts)).sum / ((min ts.length N : Nat) : Int) + 1)
    (now : Nat) (hnow : ts.getLast hne + T ≤ now) :
    ∃ n', (livenessTick d θ now s).1.nodes.find p = some n' ∧
      n'.unreachable = true ∧ n'.expiry = some (now + nodeExpiry) ∧
      Event.unreachable p ∈ (livenessTick d θ now s).2 ∧
      (∀ m ∈ liveNodes (livenessTick d θ now s).1, m.id ≠ p) ∧
      n' ∈ unreachableNodes (livenessTick d θ now s).1 := by
  obtain ⟨_, n', h1, h2, _, _, _, h6, _, h8, _, h10, h11, _⟩ :=
    C12_silent_peer_marked_unreachable s hwf p n hf hid hl d b N ts hN hb hinc hne hwin θ T hT now hnow
  exact ⟨n', h1, h2, h6 hu, h8.mpr hu, h10, h11⟩

/-- the premise of the isolation clause holds for whatever the detector hears **about `p`**
meanwhile: reports, first queries and removals naming `p` leave every other node's window (and
the constructor parameters) alone - `C12_detector`, from an arbitrary detector -/
theorem C12_peer_ops_isolated (d : Detector) (p : String) (ops : List FD.Op)
    (hops : ∀ op ∈ ops, opId op = p) :
    (∀ q, q ≠ p → (d.run ops).windows.find q = d.windows.find q) ∧
    (d.run ops).bootstrapInterval = d.bootstrapInterval ∧ (d.run ops).sampleSize = d.sampleSize := by
  refine ⟨fun q hq => (run_find_other ops q (fun op ho => by rw [hops op ho]; exact hq) d).1, ?_, ?_⟩
  · exact (run_params ops d).1
  · exact (run_params ops d).2

/-- **A peer heard at steady intervals stays live.**  If every sample in `p`'s window (the bootstrap
interval while it is there, and every inter-arrival time) is at least `lo > 0` and the tick comes
no later than `θ·lo` after the last arrival, the verdict is "not suspected" and after
`UpdateLiveness`: `p` is not flagged; if it was not flagged before it is untouched and nothing is
notified; **if it was flagged** the flag and the expiry are cleared and `OnReachable(p)` is
notified; `p` is among `LiveNodes()` and not among `UnreachableNodes()`.
(The lower bound is what matters: an upper bound on the inter-arrival times alone does not keep the
level down - a burst of short intervals makes the mean small.  For a peer heard exactly every `I`:
`lo = I`, not flagged while the silence is `≤ θ·I`.) -/
theorem C12_steady_peer_stays_live
    (s : CState) (hwf : C11.WF s) (p : String) (n : NodeSt)
    (hf : s.nodes.find p = some n) (hid : p ≠ s.localId) (hl : n.left = false)
    (d : Detector) (b : Int) (N : Nat) (ts : List Nat) (hN : 0 < N) (hne : ts ≠ [])
    (hwin : d.windows.find p = some (windowOf b N ts))
    (lo : Int) (θ : Nat) (hlo : 0 < lo) (hsamples : ∀ x ∈ lastN N (intervalsOf b ts), lo ≤ x)
    (now : Nat) (hnow : (now : Int) ≤ (ts.getLast hne : Nat) + (θ : Int) * lo) :
    suspectedBy d θ now p = false ∧
    ∃ n', (livenessTick d θ now s).1.nodes.find p = some n' ∧
      n'.unreachable = false ∧ n'.left = false ∧ n'.id = p ∧ n'.entries = n.entries ∧
      (n.unreachable = false → n' = n) ∧
      (n.unreachable = true → n'.expiry = none) ∧
      (Event.reachable p ∈ (livenessTick d θ now s).2 ↔ n.unreachable = true) ∧
      Event.unreachable p ∉ (livenessTick d θ now s).2 ∧
      n' ∈ liveNodes (livenessTick d θ now s).1 ∧
      (∀ m ∈ unreachableNodes (livenessTick d θ now s).1, m.id ≠ p) := by
  have hs : suspectedBy d θ now p = false :=
    not_suspected_of_steady hN hne hwin lo θ hlo hsamples now hnow
  obtain ⟨n', h1, h2, h3, h4, h5, h6, h7, h8, h9, h10, h11⟩ :=
    tick_clears hwf (suspectedBy d θ now) now hf hid hl hs
  exact ⟨hs, n', h1, h5, h3, h2, h4, h7, h6, h8, h9, h10, h11⟩

/-- … at the extracted production threshold `θ` (`C12_accuracy_threshold`): not flagged while the
silence is at most `θ` times the smallest sample in the window. -/
theorem C12_steady_peer_stays_live_threshold
    (s : CState) (hwf : C11.WF s) (p : String) (n : NodeSt)
    (hf : s.nodes.find p = some n) (hid : p ≠ s.localId) (hl : n.left = false) (hu : n.unreachable = false)
    (d : Detector) (b : Int) (N : Nat) (ts : List Nat) (hN : 0 < N) (hne : ts ≠ [])
    (hwin : d.windows.find p = some (windowOf b N ts))
    (θ : Nat) (hfact : Facts.suspicionThreshold = some θ)
    (lo : Int) (hlo : 0 < lo) (hsamples : ∀ x ∈ lastN N (intervalsOf b ts), lo ≤ x)
    (now : Nat) (hnow : (now : Int) ≤ (ts.getLast hne : Nat) + (θ : Int) * lo) :
    (livenessTick d θ now s).1.nodes.find p = some n ∧
    Event.unreachable p ∉ (livenessTick d θ now s).2 ∧
    n ∈ liveNodes (livenessTick d θ now s).1 := by
  obtain ⟨_, n', h1, _, _, _, _, h6, _, _, h9, h10, _⟩ :=
    C12_steady_peer_stays_live s hwf p n hf hid hl d b N ts hN hne hwin lo θ hlo hsamples now hnow
  have := h6 hu
  subst this
  exact ⟨h1, h9, h10⟩

/-- **Restored when heard from again.**  `p` is flagged unreachable; a message from it arrives at
`t` (`Report(p)` in `packetListener`: the detector records the arrival; `t` later than the last
arrival); `UpdateLiveness` runs at `now`, `t ≤ now ≤ t + θ·lo`, where `lo > 0` bounds the samples
of the new window from below (the newest sample is the whole silence `t − last`, so it is no
obstacle).  Then the tick clears the flag and the expiry, notifies `OnReachable(p)`, and `p` is
among `LiveNodes()` again.  Meanwhile it was still probed: `C12_silent_peer_marked_unreachable`. -/
theorem C12_heard_again_restored
    (s : CState) (hwf : C11.WF s) (p : String) (n : NodeSt)
    (hf : s.nodes.find p = some n) (hid : p ≠ s.localId) (hl : n.left = false) (hu : n.unreachable = true)
    (d : Detector) (b : Int) (N : Nat) (ts : List Nat) (hN : 0 < N)
    (hwin : d.windows.find p = some (windowOf b N ts)) (t : Nat)
    (lo : Int) (θ : Nat) (hlo : 0 < lo) (hsamples : ∀ x ∈ lastN N (intervalsOf b (ts ++ [t])), lo ≤ x)
    (now : Nat) (hnow : (now : Int) ≤ (t : Int) + (θ : Int) * lo) :
    ∃ n', (livenessTick (d.reportWithTimestamp p t).1 θ now s).1.nodes.find p = some n' ∧
      n'.unreachable = false ∧ n'.expiry = none ∧ n'.left = false ∧ n'.entries = n.entries ∧
      Event.reachable p ∈ (livenessTick (d.reportWithTimestamp p t).1 θ now s).2 ∧
      n' ∈ liveNodes (livenessTick (d.reportWithTimestamp p t).1 θ now s).1 := by
  have hwin' := (report_window hwin t).1
  obtain ⟨_, n', h1, h2, h3, _, h5, _, h7, h8, _, h10, _⟩ :=
    C12_steady_peer_stays_live s hwf p n hf hid hl (d.reportWithTimestamp p t).1 b N (ts ++ [t]) hN
      (by simp) hwin' lo θ hlo hsamples now (by simpa using hnow)
  exact ⟨n', h1, h2, h7 hu, h3, h5, h8.mpr hu, h10⟩

/-- **The pure tick is the literal loop.**  Go's `SuspicionLevel` is not pure (a first query stores
a bootstrap window).  Threading the detector through the queries of one `UpdateLiveness`
(`livenessTickD`) yields, for every well-formed state, exactly the state and notifications of
`livenessTick` - whose verdicts are all computed on the detector as it was before the tick - and
leaves the detector `d` after the tick's queries (`tickOps`: one `SuspicionLevelAt(id, now)` per
remembered node that is neither local nor left, in map order). -/
theorem C12_tick_is_literal_loop (d : Detector) (θ now : Nat) (s : CState) (hwf : C11.WF s) :
    livenessTickD d θ now s = (d.run (tickOps s.localId now s.nodes), livenessTick d θ now s) :=
  livenessTickD_eq d θ now hwf

/-- **A peer never heard from** (learnt from a digest, no message yet).  The first tick (at `t0`)
does not flag it - the query returns the level of a fresh bootstrap window, zero - and the literal
loop stores that window (arrival `t0`, one sample: the bootstrap interval).  Any later tick on a
detector still holding that window flags it once the silence exceeds `θ` bootstrap intervals
(then `C12_silent_peer_marked_unreachable` with `ts = [t0]` applies).  Production: the bootstrap
interval is `2 × Interval`, so a peer that never answers is flagged after `40 × Interval`. -/
theorem C12_never_heard_peer (s : CState) (hwf : C11.WF s) (p : String) (n : NodeSt)
    (hf : s.nodes.find p = some n) (hid : p ≠ s.localId) (hl : n.left = false)
    (d : Detector) (hnone : d.windows.find p = none) (hN : 0 < d.sampleSize)
    (hb : 0 < d.bootstrapInterval) (θ t0 : Nat) :
    suspectedBy d θ t0 p = false ∧
    (livenessTickD d θ t0 s).2 = livenessTick d θ t0 s ∧
    (livenessTickD d θ t0 s).1.windows.find p =
      some (windowOf d.bootstrapInterval d.sampleSize [t0]) ∧
    ∀ d₁ : Detector, d₁.windows.find p = some (windowOf d.bootstrapInterval d.sampleSize [t0]) →
      ∀ now : Nat, (suspectedBy d₁ θ now p = true ↔
        (t0 : Int) + (θ : Int) * d.bootstrapInterval < (now : Int)) := by
  refine ⟨suspectedBy_unknown hnone hN hb θ t0, ?_, ?_, ?_⟩
  · rw [livenessTickD_eq d θ t0 hwf]
  · rw [livenessTickD_eq d θ t0 hwf]
    exact tickDetector_unknown hwf hf hid hl hnone hN t0
  · intro d₁ hw now
    rw [suspectedBy_iff hN hb (by simp) (by simp) hw θ now]
    have h1 : lastN d.sampleSize (intervalsOf d.bootstrapInterval [t0]) = [d.bootstrapInterval] := by
      simp only [intervalsOf, diffs, lastN, List.length_singleton]
      rw [show 1 - d.sampleSize = 0 by omega]; rfl
    have h2 : min [t0].length d.sampleSize = 1 := by simp; omega
    rw [h1, h2]
    simp only [List.sum_cons, List.sum_nil, add_zero, List.getLast_singleton, Nat.cast_one, mul_one]
    constructor <;> intro h <;> linarith

/-! ### non-vacuity with the production constants

Window 50 (`Facts.fdSampleSize`), gossip interval 100 ms, bootstrap `2 × interval` = 200 ms
(`Facts.fdBootstrapMultiplier`), threshold 20 (the pinned tree's `Facts.suspicionThreshold`); times in ns.  Peer `p`
is heard every 100 ms, sixty times (the window has wrapped, the bootstrap sample is gone: fifty
samples of 100 ms), last at 6 s, then silent; peer `q` was learnt from a digest and never heard. -/

def c12Arrivals : List Nat := (List.range 60).map (fun k => (k + 1) * 100000000)

def c12Det : Detector :=
  (newDetector (100000000 * 2) 50).run (c12Arrivals.map (fun t => FD.Op.report "p" t))

def c12State : CState :=
  (applyDigest (init "n" "a") [⟨"p", "ap", 0, false⟩, ⟨"q", "aq", 0, false⟩]).1

/-- the hypotheses of `C12_silent_peer_marked_unreachable` hold of this data, with `T = 2 s + 1 ns` -/
example : C11.WF c12State := C11.wf_apply (C11.wf_init _ _) (.applyDigest _)

example : c12State.nodes.find "p" = some { id := "p", addr := "ap" } ∧ "p" ≠ c12State.localId := by decide

set_option maxRecDepth 100000 in
example : c12Det.windows.find "p" = some (windowOf 200000000 50 c12Arrivals) ∧
    c12Arrivals.Pairwise (· < ·) ∧ c12Arrivals.getLast? = some 6000000000 ∧
    (lastN 50 (intervalsOf 200000000 c12Arrivals)).sum = 50 * 100000000 ∧
    ((2000000001 : Nat) : Int) =
      20 * (lastN 50 (intervalsOf 200000000 c12Arrivals)).sum / ((min c12Arrivals.length 50 : Nat) : Int) + 1 := by
  decide +kernel

/-- … so `C12_silent_peer_marked_unreachable` applies at 8 s + 1 ns with `θ = 20` (all hypotheses
discharged by evaluation) … -/
example : ∃ n', (livenessTick c12Det 20 8000000001 c12State).1.nodes.find "p" = some n' ∧
    n'.unreachable = true ∧ n'.expiry = some (8000000001 + nodeExpiry) ∧
    Event.unreachable "p" ∈ (livenessTick c12Det 20 8000000001 c12State).2 ∧
    (∀ m ∈ liveNodes (livenessTick c12Det 20 8000000001 c12State).1, m.id ≠ "p") ∧
    n' ∈ unreachableNodes (livenessTick c12Det 20 8000000001 c12State).1 :=
  by
  obtain ⟨_, n', h1, h2, _, _, _, h6, _, h8, _, h10, h11, _⟩ :=
    C12_silent_peer_marked_unreachable c12State (C11.wf_apply (C11.wf_init _ _) (.applyDigest _)) "p"
      { id := "p", addr := "ap" } (by decide) (by decide) rfl c12Det 200000000 50 c12Arrivals (by decide)
      (by decide) (by decide +kernel) (by decide) (by decide +kernel) 20 2000000001 (by decide +kernel) 8000000001
      (by decide +kernel)
  exact ⟨n', h1, h2, h6 rfl, h8.mpr rfl, h10, h11⟩

/-- … and `C12_steady_peer_stays_live` (`θ = 20`) applies at 8 s (every sample is 100 ms, the silence is
2 s = 20 × 100 ms) -/
example : (livenessTick c12Det 20 8000000000 c12State).1.nodes.find "p" =
      some { id := "p", addr := "ap" } ∧
    Event.unreachable "p" ∉ (livenessTick c12Det 20 8000000000 c12State).2 ∧
    ({ id := "p", addr := "ap" } : NodeSt) ∈
      liveNodes (livenessTick c12Det 20 8000000000 c12State).1 :=
  by
  obtain ⟨_, n', h1, _, _, _, _, h6, _, _, h9, h10, _⟩ :=
    C12_steady_peer_stays_live c12State (C11.wf_apply (C11.wf_init _ _) (.applyDigest _)) "p"
      { id := "p", addr := "ap" } (by decide) (by decide) rfl c12Det 200000000 50 c12Arrivals (by decide)
      (by decide) (by decide +kernel) 100000000 20 (by decide) (by decide +kernel) 8000000000 (by decide +kernel)
  have := h6 rfl
  subst this
  exact ⟨h1, h9, h10⟩

set_option maxRecDepth 100000 in
/-- the level is exactly 20 at 8 s (not `> 20`: not flagged) and exceeds it one nanosecond later -/
example : suspectedBy c12Det 20 8000000000 "p" = false ∧
    suspectedBy c12Det 20 8000000001 "p" = true ∧
    suspectedBy c12Det 20 8000000001 "q" = false := by decide

set_option maxRecDepth 100000 in
/-- the tick at 8 s changes nothing and notifies nothing … -/
example : (livenessTick c12Det 20 8000000000 c12State).2 = [] ∧
    (liveNodes (livenessTick c12Det 20 8000000000 c12State).1).map (·.id) =
      ["q", "p"] := by decide

set_option maxRecDepth 100000 in
/-- … the tick one nanosecond later flags `p` (expiry `nodeExpiry` later), notifies `OnUnreachable(p)`, and
routes gossip rounds to `q` (live draw) and `p` (unreachable draw); `q` is not flagged -/
example :
    let r := livenessTick c12Det 20 8000000001 c12State
    (r.1.nodes.find "p").map (fun n => (n.unreachable, n.expiry)) = some (true, some (8000000001 + nodeExpiry)) ∧
    r.2 = [.unreachable "p"] ∧ (liveNodes r.1).map (·.id) = ["q"] ∧
    (unreachableNodes r.1).map (·.id) = ["p"] ∧ (roundTargets r.1 7 3).map (·.id) = ["q", "p"] := by
  decide

set_option maxRecDepth 100000 in
/-- heard again at 9 s: the tick at 9.5 s clears the flag and the expiry and notifies `OnReachable(p)` -/
example :
    let s₁ := (livenessTick c12Det 20 8000000001 c12State).1
    let r := livenessTick (c12Det.reportWithTimestamp "p" 9000000000).1 20
      9500000000 s₁
    (r.1.nodes.find "p").map (fun n => (n.unreachable, n.expiry)) = some (false, none) ∧
    r.2 = [.reachable "p"] := by
  decide

set_option maxRecDepth 100000 in
/-- the literal loop on the same data: same state and notifications, and the detector has stored
`q`'s bootstrap window (arrival = the tick time, one sample of 200 ms) -/
example :
    (livenessTickD c12Det 20 8000000001 c12State).2.1.nodes = (livenessTick c12Det 20 8000000001 c12State).1.nodes ∧
    (livenessTickD c12Det 20 8000000001 c12State).2.2 = (livenessTick c12Det 20 8000000001 c12State).2 ∧
    (livenessTickD c12Det 20 8000000001 c12State).1.windows.find "q" =
      some (windowOf 200000000 50 [8000000001]) ∧
    c12Det.windows.find "q" = none := by
  decide

end Liveness

/-- **The liveness evaluation runs on a ticker of its own** (regenerated fact G8): `UpdateLiveness` -
like the gossip round, the compaction and the expiry sweep - is the only tracked state operation of its
`scheduleFunc` task, so "a peer that falls silent always eventually crosses the threshold" does not
depend on a gossip round completing (a round returns early when a send fails; seed C12d had moved the
evaluation to the end of the round). -/
theorem C12_facts_liveness_scheduled :
    ∃ l, Facts.scheduledAlone = some l ∧ "UpdateLiveness" ∈ l ∧ "gossipRound" ∈ l := by
  decide

end Piko
