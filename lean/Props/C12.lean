import Proofs.FD
import PikoModel.Generated.Facts
/-!
# C12 — Failure detector: steady peers are never suspected, silent peers always are

Model: `PikoModel/Gossip/FD.lean` (`arrivalIntervals`, `arrivalWindow`,
`accrualFailureDetector` of `pkg/gossip/failuredetector.go`).

Notation used in the statements: `windowOf b N ts` is the window of a node after the arrivals
`ts` (bootstrap interval `b`, sample size `N`); `intervalsOf b ts = [b, t₂-t₁, t₃-t₂, …]` are
the samples ever recorded; `lastN N xs` is the last `min (length xs) N` elements of `xs`.
A suspicion level is the exact fraction `num/den` (`den > 0`); `p.gt θ` is `num > θ·den`,
`p.le θ` is `num ≤ θ·den`.  All theorems hold for arrival sequences of any length — in
particular longer than the window, where the circular buffer has wrapped any number of times.
-/
namespace Piko
open Piko.FD

/-- After any number of arrivals: the running sum is the sum of the last `min n N` samples of
`[b, t₂-t₁, …]`; the size is `min n N`; slot `k mod N` holds sample `k` for each of the last
`N` samples; the mean is positive; and for every further arrival the slice index used by
`Add` is `< N` and `Add` does not panic (so it really is the next window). -/
theorem C12_window (b : Int) (N : Nat) (ts : List Nat) (hN : 0 < N) (hb : 0 < b)
    (hinc : ts.Pairwise (· < ·)) :
    (windowOf b N ts).intervals.sum = (lastN N (intervalsOf b ts)).sum ∧
    (lastN N (intervalsOf b ts)).length = min ts.length N ∧
    (windowOf b N ts).intervals.size = min ts.length N ∧
    (windowOf b N ts).intervals.intervals.length = N ∧
    (∀ k, k < ts.length → ts.length ≤ k + N →
      (windowOf b N ts).intervals.intervals[k % N]? = (intervalsOf b ts)[k]?) ∧
    (windowOf b N ts).lastTimestamp = ts.getLast? ∧
    (ts ≠ [] → 0 < (windowOf b N ts).intervals.sum ∧ 0 < (windowOf b N ts).intervals.size) ∧
    (∀ t, (windowOf b N ts).intervals.accessIndex < N ∧ ((windowOf b N ts).add t).2 = none ∧
      windowOf b N (ts ++ [t]) = ((windowOf b N ts).add t).1) := by
  have h := wrep_windowOf b hN ts
  have hlen : (lastN N (intervalsOf b ts)).length = min ts.length N := by
    rw [length_lastN, length_intervalsOf]
  refine ⟨h.rep.sum, hlen, ?_, h.rep.len, ?_, h.last, ?_, ?_⟩
  · rw [h.rep.size_eq, length_intervalsOf]
  · intro k hk hkN
    exact h.rep.ring k (by rwa [length_intervalsOf]) (by rwa [length_intervalsOf])
  · intro hne
    refine ⟨by rw [h.rep.sum]; exact window_sum_pos hb hN hne hinc, ?_⟩
    rw [h.rep.size_eq, length_intervalsOf]
    have : 0 < ts.length := List.length_pos_iff.mpr hne
    omega
  · intro t
    obtain ⟨h1, h2, _⟩ := wrep_add hN h t
    exact ⟨h2, h1, by rw [windowOf_append]; rfl⟩

/-- The suspicion level is exactly zero at the moment the peer is heard from. -/
theorem C12_zero_at_arrival (b : Int) (N : Nat) (ts : List Nat) (hN : 0 < N) (hb : 0 < b)
    (hinc : ts.Pairwise (· < ·)) (hne : ts ≠ []) :
    ∃ p, (windowOf b N ts).phi (ts.getLast hne) = .ok p ∧ p.num = 0 ∧ 0 < p.den := by
  have hpos := window_sum_pos hb hN hne hinc
  rw [(wrep_windowOf b hN ts).phi_eq hne, if_pos hpos]
  exact ⟨_, rfl, by simp, hpos⟩

/-- The suspicion level grows in proportion to the silence: it is the exact fraction
`(t - last) · size / sum`, i.e. the time since the last arrival divided by the mean of the
last `min n N` samples. -/
theorem C12_linear (b : Int) (N : Nat) (ts : List Nat) (hN : 0 < N) (hb : 0 < b)
    (hinc : ts.Pairwise (· < ·)) (hne : ts ≠ []) (t : Nat) :
    ∃ p, (windowOf b N ts).phi t = .ok p ∧
      p.num = ((t : Int) - (ts.getLast hne : Nat)) * ((min ts.length N : Nat) : Int) ∧
      p.den = (lastN N (intervalsOf b ts)).sum ∧ 0 < p.den := by
  have hpos := window_sum_pos hb hN hne hinc
  rw [(wrep_windowOf b hN ts).phi_eq hne, if_pos hpos]
  exact ⟨_, rfl, rfl, rfl, hpos⟩

/-- The suspicion level never decreases while the peer stays silent. -/
theorem C12_monotone (b : Int) (N : Nat) (ts : List Nat) (hN : 0 < N) (hb : 0 < b)
    (hinc : ts.Pairwise (· < ·)) (hne : ts ≠ []) (t t' : Nat) (htt : t ≤ t') :
    ∃ p p', (windowOf b N ts).phi t = .ok p ∧ (windowOf b N ts).phi t' = .ok p' ∧
      p.den = p'.den ∧ 0 < p.den ∧ p.num ≤ p'.num := by
  have hpos := window_sum_pos hb hN hne hinc
  rw [(wrep_windowOf b hN ts).phi_eq hne, (wrep_windowOf b hN ts).phi_eq hne, if_pos hpos, if_pos hpos]
  refine ⟨_, _, rfl, rfl, rfl, hpos, ?_⟩
  apply Int.mul_le_mul_of_nonneg_right
  · have : (t : Int) ≤ (t' : Int) := by exact_mod_cast htt
    linarith
  · exact Int.natCast_nonneg _

/-- Arrivals older than the window have no influence: two histories with the same last
`N + 1` arrivals have the same suspicion level (or the same panic) at every query time. -/
theorem C12_window_only (b : Int) (N : Nat) (hN : 0 < N) (ts₁ ts₂ : List Nat)
    (h : lastN (N + 1) ts₁ = lastN (N + 1) ts₂) (t : Nat) :
    (windowOf b N ts₁).phi t = (windowOf b N ts₂).phi t := by
  by_cases h1 : N + 1 ≤ ts₁.length
  · by_cases h2 : N + 1 ≤ ts₂.length
    · exact phi_eq_of_lastN hN b b ts₁ ts₂ h1 h2 h t
    · have e2 : lastN (N + 1) ts₂ = ts₂ := by
        unfold lastN; rw [show ts₂.length - (N + 1) = 0 by omega]; rfl
      have hl := congrArg List.length h
      rw [e2, length_lastN] at hl
      have e1 : lastN (N + 1) ts₁ = ts₁ := by
        unfold lastN; rw [show ts₁.length - (N + 1) = 0 by omega]; rfl
      rw [e1, e2] at h; rw [h]
  · have e1 : lastN (N + 1) ts₁ = ts₁ := by
      unfold lastN; rw [show ts₁.length - (N + 1) = 0 by omega]; rfl
    have hl := congrArg List.length h
    rw [e1, length_lastN] at hl
    have e2 : lastN (N + 1) ts₂ = ts₂ := by
      unfold lastN; rw [show ts₂.length - (N + 1) = 0 by omega]; rfl
    rw [e1, e2] at h; rw [h]

/-- The bootstrap sample is the first sample and is evicted like any other: once `N + 1`
arrivals were seen the level does not depend on the bootstrap interval either. -/
theorem C12_bootstrap_evicted (b₁ b₂ : Int) (N : Nat) (hN : 0 < N) (ts₁ ts₂ : List Nat)
    (h1 : N + 1 ≤ ts₁.length) (h2 : N + 1 ≤ ts₂.length)
    (h : lastN (N + 1) ts₁ = lastN (N + 1) ts₂) (t : Nat) :
    (windowOf b₁ N ts₁).phi t = (windowOf b₂ N ts₂).phi t :=
  phi_eq_of_lastN hN b₁ b₂ ts₁ ts₂ h1 h2 h t

/-- Accuracy: if every sample in the window (bootstrap included while it is there) is at least
`lo > 0` and `hi ≤ θ·lo`, the level stays `≤ θ` for every query up to `hi` after the last
arrival.  (For a peer whose intervals all lie in `[lo, hi]` the next arrival comes within
`hi`: see `C12_steady_never_suspected`.) -/
theorem C12_accuracy (b : Int) (N : Nat) (ts : List Nat) (hN : 0 < N) (hne : ts ≠ [])
    (lo hi : Int) (θ : Nat) (hlo : 0 < lo)
    (hwin : ∀ x ∈ lastN N (intervalsOf b ts), lo ≤ x ∧ x ≤ hi) (hθ : hi ≤ (θ : Int) * lo)
    (t : Nat) (ht : (t : Int) ≤ (ts.getLast hne : Nat) + hi) :
    ∃ p, (windowOf b N ts).phi t = .ok p ∧ p.le θ ∧ ¬ p.gt θ :=
  accuracy_core b N ts hN hne lo hi θ hlo (fun x hx => (hwin x hx).1) hθ t ht

/-- Steady peers are never suspected: for an arrival history all of whose samples (bootstrap
and every inter-arrival time) lie in `[lo, hi]` with `hi ≤ θ·lo`, at every moment from the
first arrival until `hi` after the last one, the level computed from the arrivals so far is
`≤ θ`. -/
theorem C12_steady_never_suspected (b : Int) (N : Nat) (ts : List Nat) (hN : 0 < N)
    (lo hi : Int) (θ : Nat) (hlo : 0 < lo)
    (hall : ∀ x ∈ intervalsOf b ts, lo ≤ x ∧ x ≤ hi) (hθ : hi ≤ (θ : Int) * lo)
    (pre post : List Nat) (hsplit : ts = pre ++ post) (hne : pre ≠ [])
    (t : Nat) (ht : (t : Int) ≤ (pre.getLast hne : Nat) + hi) :
    ∃ p, (windowOf b N pre).phi t = .ok p ∧ p.le θ ∧ ¬ p.gt θ := by
  apply accuracy_core b N pre hN hne lo hi θ hlo _ hθ t ht
  intro x hx
  have hx' : x ∈ intervalsOf b pre := mem_of_mem_lastN hx
  exact (hall x (hsplit ▸ mem_intervalsOf_append b pre post hx')).1

/-- `C12_accuracy` at the threshold production uses (`suspicionThreshold` extracted from
`pkg/gossip/gossip.go`): a window whose samples are within a factor 20 of the silence allowed
never makes `UpdateLiveness` see `suspicionLevel > suspicionThreshold`. -/
theorem C12_accuracy_threshold (b : Int) (N : Nat) (ts : List Nat) (hN : 0 < N) (hne : ts ≠ [])
    (lo hi : Int) (hlo : 0 < lo)
    (hwin : ∀ x ∈ lastN N (intervalsOf b ts), lo ≤ x ∧ x ≤ hi) (hθ : hi ≤ 20 * lo)
    (t : Nat) (ht : (t : Int) ≤ (ts.getLast hne : Nat) + hi) :
    ∃ p, (windowOf b N ts).phi t = .ok p ∧ ¬ p.gt (Facts.suspicionThreshold.getD 0) := by
  obtain ⟨p, h1, _, h3⟩ := C12_accuracy b N ts hN hne lo hi 20 hlo hwin (by simpa using hθ) t ht
  exact ⟨p, h1, h3⟩

/-- Completeness: whatever the window holds, a silent peer is eventually suspected: there is
a silence `T` (one more than `θ` times the mean, rounded down) after which the level exceeds
`θ` for ever. -/
theorem C12_completeness (b : Int) (N : Nat) (ts : List Nat) (hN : 0 < N) (hb : 0 < b)
    (hinc : ts.Pairwise (· < ·)) (hne : ts ≠ []) (θ : Nat) :
    ∃ T : Nat, (T : Int) = (θ : Int) * (lastN N (intervalsOf b ts)).sum /
        ((min ts.length N : Nat) : Int) + 1 ∧
      ∀ t : Nat, ts.getLast hne + T ≤ t →
        ∃ p, (windowOf b N ts).phi t = .ok p ∧ p.gt θ ∧ ¬ p.le θ :=
  completeness_core b N ts hN hb hinc hne θ

/-- `C12_completeness` at the extracted production threshold. -/
theorem C12_completeness_threshold (b : Int) (N : Nat) (ts : List Nat) (hN : 0 < N) (hb : 0 < b)
    (hinc : ts.Pairwise (· < ·)) (hne : ts ≠ []) :
    ∃ T : Nat, ∀ t : Nat, ts.getLast hne + T ≤ t →
      ∃ p, (windowOf b N ts).phi t = .ok p ∧ p.gt (Facts.suspicionThreshold.getD 0) := by
  obtain ⟨T, _, h⟩ := C12_completeness b N ts hN hb hinc hne 20
  exact ⟨T, fun t ht => by obtain ⟨p, h1, h2, _⟩ := h t ht; exact ⟨p, h1, h2⟩⟩

/-- The detector keeps, for every node, exactly the window of that node's own arrivals since
its last `Remove` (a query of an unknown node counts as its first arrival); reports, queries
and removals of other nodes never touch it.  Holds for every history of
`ReportWithTimestamp` / `SuspicionLevelAt` / `Remove`. -/
theorem C12_detector (b : Int) (N : Nat) (hN : 0 < N) (ops : List Op) (id : String) :
    ((newDetector b N).run ops).windows.find id =
      if arrivalsOf id ops = [] then none else some (windowOf b N (arrivalsOf id ops)) :=
  find_run hN id ops (newDetector b N) [] rfl rfl rfl

/-- What `SuspicionLevelAt(id, t)` returns after any history is the level of `windowOf` for the
node's own arrivals (with the query itself as first arrival when the node is unknown — the
level is then zero by `C12_zero_at_arrival`). -/
theorem C12_detector_phi (b : Int) (N : Nat) (hN : 0 < N) (ops : List Op) (id : String) (t : Nat) :
    (((newDetector b N).run ops).suspicionLevelAt id t).2 =
      (windowOf b N (arrivalsOf id (ops ++ [Op.query id t]))).phi t := by
  have h := C12_detector b N hN ops id
  simp only [arrivalsOf, List.foldl_append, List.foldl_cons, List.foldl_nil]
  exact query_phi hN id ((newDetector b N).run ops) _ (run_params ops _).1 (run_params ops _).2 h t

/-- facts regenerated from `pkg/gossip/gossip.go` on every run: the production detector is
`newAccrualFailureDetector(config.Interval*2, 50)` and the threshold passed to
`UpdateLiveness` is 20 -/
theorem C12_facts_sample_size : Facts.fdSampleSize = some 50 := by decide

theorem C12_facts_bootstrap : Facts.fdBootstrapMultiplier = some 2 := by decide

theorem C12_facts_threshold : Facts.suspicionThreshold = some FD.suspicionThreshold := by decide

/-- the guards the theorems assume are the ones production establishes: the extracted sample
size is positive, and the bootstrap interval `Interval * k` is positive for every positive
gossip interval -/
theorem C12_facts_guards :
    (∀ n, Facts.fdSampleSize = some n → 0 < n) ∧
    (∀ k, Facts.fdBootstrapMultiplier = some k → ∀ interval : Int, 0 < interval → 0 < interval * k) := by
  refine ⟨fun n h => ?_, fun k h interval hi => ?_⟩
  · have : n = 50 := by simpa [C12_facts_sample_size] using h.symm
    omega
  · have : k = 2 := by simpa [C12_facts_bootstrap] using h.symm
    subst this; omega

/-! ## non-vacuity -/

/-- a window of size 3 that has wrapped twice: 7 arrivals, samples `[10,3,4,1,7,6,2]`; the ring
holds the last three in slots `k mod 3` (sample 6 in slot 0, 4 in slot 1, 5 in slot 2), sum
`7+6+2 = 15`, bootstrap sample long gone -/
example : windowOf 10 3 [5, 8, 12, 13, 20, 26, 28] =
    { lastTimestamp := some 28,
      intervals := { intervals := [2, 7, 6], index := 1, isFull := true, sum := 15 },
      bootstrapInterval := 10 } := by decide

example : intervalsOf 10 [5, 8, 12, 13, 20, 26, 28] = [10, 3, 4, 1, 7, 6, 2] := by decide

/-- level at `t = 38`: `(38-28)·3 / 15 = 2`; at `t = 28 + 101`: `303/15 > 20` -/
example : (windowOf 10 3 [5, 8, 12, 13, 20, 26, 28]).phi 38 = .ok { num := 30, den := 15 } := by decide
example : (Phi.mk 303 15).gt 20 ∧ (Phi.mk 300 15).le 20 := by decide

/-- the hypotheses of `C12_accuracy` are satisfiable with a wrapped window -/
example : ∀ x ∈ lastN 3 (intervalsOf 10 [5, 8, 12, 13, 20, 26, 28]), (2 : Int) ≤ x ∧ x ≤ 7 := by decide

/-- the hypothesis of `C12_window_only` with two different histories longer than the window -/
example : lastN 4 [5, 8, 12, 13, 20, 26, 28] = lastN 4 [1, 2, 13, 20, 26, 28] := by decide

/-- the error constructors are reachable: sample size 0, and a query of an empty window -/
example : ((newArrivalWindow 10 0).add 5).2 = some Err.indexOutOfRange := by decide
example : (newArrivalWindow 10 3).phi 5 = .error Err.phiBeforeSample := by decide

/-- first query of an unknown node inserts a bootstrap window and returns zero -/
example : ((newDetector 10 3).suspicionLevelAt "n" 7).2 = .ok { num := 0, den := 10 } := by decide

end Piko
