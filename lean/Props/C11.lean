import Proofs.C11
import Proofs.Round
import Proofs.LivenessFD
import PikoModel.Generated.Facts
/-!
# C11 — Membership lifecycle: left, unreachable, recovered and expired nodes

Model: `PikoModel/Gossip/State.lean` (`LeaveLocal`, `ApplyDigest`, `ApplyDelta`,
`UpdateLiveness`, `RemoveExpiredAt`, `LiveNodes`) and `PikoModel/Gossip/Net.lean` (N nodes
and a packet pool).  Every theorem quantifies over **all** states and arguments — digests
and deltas are arbitrary (hostile) lists, the suspicion predicate and the clocks are
arbitrary.  Where key-uniqueness of the node map matters the hypothesis is `C11.WF`
(distinct keys, nodes stored under their own id, local node present, reachable and without
expiry); `C11_wf` shows it holds initially and is preserved by every operation, and
`C11_net_invariant` lifts it to every node of every run of the network model.

`C11.COp` enumerates the operations of `clusterState` (`UpsertLocal`, `DeleteLocal`,
`LeaveLocal`, `CompactLocal`, `ApplyDigest`, `ApplyDelta`, `UpdateLiveness`,
`RemoveExpiredAt`) with arbitrary arguments; `op.apply s` is the state after the call.

Clause (f) of the property ("stays forgotten unless it really returns") is **false** of the
pinned tree (finding F2): `C11_relearn_counterexample`; what holds instead is
`C11_forgotten_partial`.
-/
namespace Piko
open Piko.Gossip Piko.C11

/-! ## (a) a view that absorbs the owner's left marker is flagged left -/

/-- Applying an entry list that starts with the left marker (`internal`, key
`_internal:left`) newer than the view: the view ends up `left`, with expiry
`now + nodeExpiry`, and `leave` was notified — whatever entries follow. -/
theorem C11_left_on_marker (now : Nat) (st : NodeSt) (e : Entry) (es : List Entry)
    (hi : e.internal = true) (hk : e.key = leftKey) (hv : st.version < e.version) :
    (applyEntries now st (e :: es)).1.left = true ∧
    (applyEntries now st (e :: es)).1.expiry = some (now + nodeExpiry) ∧
    Event.leave st.id ∈ (applyEntries now st (e :: es)).2 :=
  let h := applyEntries_marker now st e es ⟨hi, hk⟩ hv
  ⟨h.1.1, h.1.2, h.2⟩

/-- The same through `applyDeltaEntry` on an arbitrary cluster state: a delta about a node
other than the local one whose first entry is a left marker newer than the stored view (or
than version 0 when the node is unknown) leaves that node remembered, `left`, expiring at
`now + nodeExpiry`, and emits `leave` for it. -/
theorem C11_left_on_marker_delta (now : Nat) (s : CState) (id addr : String) (e : Entry)
    (es : List Entry) (hid : id ≠ s.localId) (hi : e.internal = true) (hk : e.key = leftKey)
    (h0 : 0 < e.version) (hv : ∀ n, s.nodes.find id = some n → n.version < e.version) :
    ∃ n', (applyDeltaEntry now s { id := id, addr := addr, entries := e :: es }).1.nodes.find id = some n' ∧
      n'.left = true ∧ n'.expiry = some (now + nodeExpiry) ∧
      Event.leave n'.id ∈ (applyDeltaEntry now s { id := id, addr := addr, entries := e :: es }).2 := by
  have hver : (viewOf s { id := id, addr := addr, entries := e :: es }).version < e.version := by
    cases hf : s.nodes.find id with
    | some n => rw [viewOf_of_find (de := { id := id, addr := addr, entries := e :: es }) hf]; exact hv n hf
    | none => rw [viewOf_of_none (de := { id := id, addr := addr, entries := e :: es }) hf]; exact h0
  have hm := applyEntries_marker now _ e es ⟨hi, hk⟩ hver
  refine ⟨_, ?_, hm.1.1, hm.1.2, ?_⟩
  · rw [applyDeltaEntry_fst]
    simp only [hid, if_false]
    exact AMap.find_insert_self _ _ _
  · rw [applyDeltaEntry_snd]
    simp only [hid, if_false]
    rw [(applyEntries_ext now _ _).id]
    exact List.mem_append_right _ hm.2

/-- The view invariant "a view (a node other than the local one) that holds an internal
entry under the left key is flagged `left`" holds initially and is preserved by every
operation with arbitrary arguments. -/
theorem C11_left_seen_step (id addr : String) (s : CState) (h : WF s) (hs : LeftSeen s) (op : COp) :
    LeftSeen (init id addr) ∧ LeftSeen (op.apply s) :=
  ⟨leftSeen_init id addr, leftSeen_apply h hs op⟩

/-- In every state reachable from `init` by any operation list, a view whose entries
contain the owner's left marker has `left = true`. -/
theorem C11_left_seen (lid addr : String) (ops : List COp) (id : String) (n : NodeSt) (e : Entry)
    (hf : (runOps (init lid addr) ops).nodes.find id = some n)
    (hid : id ≠ (runOps (init lid addr) ops).localId)
    (he : n.entries.find leftKey = some e) (hi : e.internal = true) : n.left = true := by
  have hinv : Inv (runOps (init lid addr) ops) :=
    foldl_inv Inv _ (fun s op hs => inv_apply s op hs) ops _ (inv_init lid addr)
  exact hinv.2 id n hf hid (leftKey, e) (AMap.mem_of_find he) (Or.inl rfl) hi

/-! ## (b) `left` is sticky; live nodes -/

/-- No operation resets `left` on a node that is remembered before and after it (nor
changes the id it is stored under). -/
theorem C11_left_sticky (s : CState) (h : WF s) (op : COp) (id : String) (n n' : NodeSt)
    (hf : s.nodes.find id = some n) (hf' : (op.apply s).nodes.find id = some n')
    (hl : n.left = true) : n'.left = true :=
  (sticky_apply h op hf hf').2 hl

/-- … and therefore along any operation list, as long as the node is not forgotten in
between: stated for two consecutive remembered observations over a whole list. -/
theorem C11_left_sticky_run (s : CState) (h : WF s) (ops : List COp) (id : String)
    (hrem : ∀ k, k ≤ ops.length → ((runOps s (ops.take k)).nodes.find id).isSome)
    (n n' : NodeSt) (hf : s.nodes.find id = some n) (hf' : (runOps s ops).nodes.find id = some n')
    (hl : n.left = true) : n'.left = true := by
  induction ops generalizing s n with
  | nil => simp only [runOps, List.foldl_nil] at hf'; rw [hf] at hf'; cases hf'; exact hl
  | cons op ops ih =>
    have h1 := hrem 1 (by simp)
    simp only [List.take_succ_cons, List.take_zero, runOps, List.foldl_cons, List.foldl_nil] at h1
    obtain ⟨m, hm⟩ := Option.isSome_iff_exists.mp h1
    refine ih (op.apply s) (wf_apply h op) ?_ m hm hf' ((sticky_apply h op hf hm).2 hl)
    intro k hk
    have := hrem (k + 1) (by simpa using hk)
    simpa [runOps] using this

/-- `LiveNodes` never contains the local node, a left node or an unreachable node. -/
theorem C11_live_nodes (s : CState) (n : NodeSt) (h : n ∈ liveNodes s) :
    n.id ≠ s.localId ∧ n.left = false ∧ n.unreachable = false :=
  let h := liveNodes_spec s n h
  ⟨h.1, h.2.1, h.2.2.1⟩

/-! ## (c) digests flagged left teach nothing -/

/-- `ApplyDigest` never adds a node all of whose digest entries are flagged `left`
(arbitrary state, arbitrary digest, duplicates allowed). -/
theorem C11_no_relearn_from_left_digest (s : CState) (d : Digest) (id : String)
    (habs : s.nodes.find id = none) (hall : ∀ de ∈ d, de.id = id → de.left = true) :
    (applyDigest s d).1.nodes.find id = none := by
  rw [applyDigest_fst]
  cases hr : (d.foldl digestStep s).nodes.find id with
  | none => rfl
  | some n =>
    obtain ⟨de, hde, h1, h2, _⟩ := find_digestFold_new d habs hr
    rw [hall de hde h1] at h2; cases h2

/-- `ApplyDigest` never changes a node that is already present; a node it adds is a fresh
version-0 view (no entries, not left, not unreachable, no expiry) taken from a digest
entry about it that is not flagged left. -/
theorem C11_digest_only_discovers (s : CState) (d : Digest) (id : String) :
    (∀ n, s.nodes.find id = some n → (applyDigest s d).1.nodes.find id = some n) ∧
    (∀ n, s.nodes.find id = none → (applyDigest s d).1.nodes.find id = some n →
      ∃ de ∈ d, de.id = id ∧ de.left = false ∧ n = { id := id, addr := de.addr }) := by
  rw [applyDigest_fst]
  exact ⟨fun n hf => find_digestFold_present d hf, fun n hf hn => find_digestFold_new d hf hn⟩

/-! ## (d) expiry -/

/-- `RemoveExpiredAt t` removes exactly the remembered nodes with `expiry = some x`, `x < t`,
keeps every other node unchanged, adds none, and reports `expired` for exactly the removed
nodes, each once. -/
theorem C11_expiry (s : CState) (h : WF s) (t : Nat) (id : String) :
    (∀ n, s.nodes.find id = some n → (∃ x, n.expiry = some x ∧ x < t) →
        (removeExpiredAt s t).1.nodes.find id = none) ∧
    (∀ n, s.nodes.find id = some n → (¬ ∃ x, n.expiry = some x ∧ x < t) →
        (removeExpiredAt s t).1.nodes.find id = some n) ∧
    (s.nodes.find id = none → (removeExpiredAt s t).1.nodes.find id = none) ∧
    (Event.expired id ∈ (removeExpiredAt s t).2 ↔
        ∃ n, s.nodes.find id = some n ∧ ∃ x, n.expiry = some x ∧ x < t) ∧
    (removeExpiredAt s t).2.Nodup ∧
    (∀ e ∈ (removeExpiredAt s t).2, ∃ k, e = Event.expired k) := by
  refine ⟨?_, ?_, ?_, ?_, expired_events_nodup h t, ?_⟩
  · intro n hf hx
    rw [find_removeExpiredAt h.nodup, hf]
    have := (isExpiredAt_iff t n).mpr hx
    simp [Option.filter, this]
  · intro n hf hx
    rw [find_removeExpiredAt_some h.nodup]
    refine ⟨hf, ?_⟩
    cases he : isExpiredAt t n with
    | false => rfl
    | true => exact absurd ((isExpiredAt_iff t n).mp he) hx
  · intro hf
    rw [find_removeExpiredAt h.nodup, hf]; rfl
  · rw [mem_expired_events h]
    constructor
    · rintro ⟨n, hf, he⟩; exact ⟨n, hf, (isExpiredAt_iff t n).mp he⟩
    · rintro ⟨n, hf, he⟩; exact ⟨n, hf, (isExpiredAt_iff t n).mpr he⟩
  · intro e he
    rw [removeExpiredAt_snd] at he
    obtain ⟨n, _, rfl⟩ := List.mem_map.mp he
    exact ⟨n.id, rfl⟩

/-- `UpdateLiveness` gives a node it newly marks unreachable the expiry `now + nodeExpiry`
(and the left marker does the same, `C11_left_on_marker`). -/
theorem C11_expiry_set_on_unreachable (s : CState) (h : WF s) (f : String → Bool) (now : Nat)
    (id : String) (n : NodeSt) (hf : s.nodes.find id = some n) (hid : id ≠ s.localId)
    (hl : n.left = false) (hu : n.unreachable = false) (hs : f id = true) :
    ∃ n', (updateLiveness s f now).1.nodes.find id = some n' ∧ n'.unreachable = true ∧
      n'.expiry = some (now + nodeExpiry) := by
  have hnid : n.id = id := h.find_id hf
  have hne : n.id ≠ s.localId := by rw [hnid]; exact hid
  refine ⟨liveNode s.localId f now n, by rw [find_updateLiveness h, hf]; rfl, ?_, ?_⟩
  · rw [liveNode_unreachable f now hne hl, hnid]; exact hs
  · rw [liveNode_expiry f now hne hl, hnid]; simp [hs, hu]

/-- the model's constants are the ones of the Go source (regenerated on every check) -/
theorem C11_facts_nodeExpiry : Facts.nodeExpiryNs = some nodeExpiry := by decide

theorem C11_facts_leftKey : Facts.leftKey = some leftKey := by decide

/-! ## (e) unreachable follows the suspicion level; well-formedness -/

/-- `C11.WF` (distinct keys, nodes under their own ids, local node present, reachable,
without expiry) holds of `init` and is preserved by every operation with arbitrary
arguments. -/
theorem C11_wf (id addr : String) (s : CState) (h : WF s) (op : COp) :
    WF (init id addr) ∧ WF (op.apply s) :=
  ⟨wf_init id addr, wf_apply h op⟩

/-- After `UpdateLiveness`, every remembered node that is neither the local node nor left
has `unreachable` equal to the detector's verdict for it. -/
theorem C11_unreachable_follows_suspicion (s : CState) (h : WF s) (f : String → Bool) (now : Nat)
    (id : String) (n' : NodeSt) (hf : (updateLiveness s f now).1.nodes.find id = some n')
    (hid : id ≠ s.localId) (hl : n'.left = false) : n'.unreachable = f id := by
  obtain ⟨n, _, hnid, rfl⟩ := updateLiveness_spec h f now hf
  rw [liveNode_left] at hl
  rw [liveNode_unreachable f now (by rw [hnid]; exact hid) hl, hnid]

/-- `UpdateLiveness` forgets and adds nobody; it leaves the local node and left nodes
untouched; a recovered node (was unreachable, no longer suspected) has its expiry cleared;
a node whose verdict did not change is untouched. -/
theorem C11_liveness_detail (s : CState) (h : WF s) (f : String → Bool) (now : Nat) (id : String) :
    (s.nodes.find id = none → (updateLiveness s f now).1.nodes.find id = none) ∧
    (∀ n, s.nodes.find id = some n →
      ∃ n', (updateLiveness s f now).1.nodes.find id = some n' ∧
        n'.id = n.id ∧ n'.left = n.left ∧ n'.entries = n.entries ∧
        ((id = s.localId ∨ n.left = true) → n' = n) ∧
        (id ≠ s.localId → n.left = false → n.unreachable = true → f id = false →
          n'.unreachable = false ∧ n'.expiry = none) ∧
        (id ≠ s.localId → n.left = false → n.unreachable = f id → n' = n)) := by
  constructor
  · intro hf; rw [find_updateLiveness h, hf]; rfl
  · intro n hf
    have hnid : n.id = id := h.find_id hf
    refine ⟨liveNode s.localId f now n, by rw [find_updateLiveness h, hf]; rfl,
      liveNode_id _ _ _ _, liveNode_left _ _ _ _, liveNode_entries _ _ _ _, ?_, ?_, ?_⟩
    · rintro (hk | hk)
      · exact liveNode_skip f now (Or.inl (hnid.trans hk))
      · exact liveNode_skip f now (Or.inr hk)
    · intro hk hl hu hs
      have hne : n.id ≠ s.localId := by rw [hnid]; exact hk
      refine ⟨by rw [liveNode_unreachable f now hne hl, hnid]; exact hs, ?_⟩
      rw [liveNode_expiry f now hne hl, hnid]; simp [hs, hu]
    · intro hk hl hu
      have hne : n.id ≠ s.localId := by rw [hnid]; exact hk
      unfold liveNode
      have : (decide (n.id = s.localId) || n.left) = false := by simp [hne, hl]
      simp only [this, Bool.false_eq_true, if_false]
      rw [hnid]
      by_cases hs : f id = true
      · simp [hs, hu]
      · simp only [Bool.not_eq_true] at hs; simp [hs, hu]

/-! ## (g) the local node is immune -/

/-- From `init`, after any operation list with arbitrary (hostile) arguments, the local
node is present, stored under its id, not unreachable and without expiry — the last is what
protects it from `RemoveExpiredAt`, which removes whatever has an expiry. -/
theorem C11_local_immune (id addr : String) (ops : List COp) :
    (runOps (init id addr) ops).localId = id ∧
    (runOps (init id addr) ops).nodes.find id = some (own (runOps (init id addr) ops)) ∧
    (own (runOps (init id addr) ops)).id = id ∧
    (own (runOps (init id addr) ops)).unreachable = false ∧
    (own (runOps (init id addr) ops)).expiry = none := by
  have hwf : WF (runOps (init id addr) ops) := wf_runOps (wf_init id addr) ops
  have hl : (runOps (init id addr) ops).localId = id := localId_runOps (wf_init id addr) ops
  have hfo := hwf.find_own
  have hoi := hwf.own_id
  rw [hl] at hfo hoi
  exact ⟨hl, hfo, hoi, hwf.local_reachable, hwf.local_noexpiry⟩

/-- One step from any well-formed state: receive-side operations and the sweeps
(`ApplyDigest`, `ApplyDelta`, `UpdateLiveness`, `RemoveExpiredAt`) leave the local node
exactly as it was, whatever the digest, delta, suspicion predicate or time. -/
theorem C11_local_untouched_by_messages (s : CState) (h : WF s) (op : COp) (hr : op.receiveSide = true) :
    own (op.apply s) = own s ∧ (op.apply s).nodes.find s.localId = some (own s) := by
  have h1 := own_apply_receive h op hr
  refine ⟨h1, ?_⟩
  have := (wf_apply h op).find_own
  rw [localId_apply h op, h1] at this
  exact this

/-! ## (h) only the node itself declares itself left -/

/-- The local `left` flag is changed by no operation except `LeaveLocal`, which sets it. -/
theorem C11_only_self_leaves (s : CState) (h : WF s) (op : COp) :
    (op.isLeave = false → (own (op.apply s)).left = (own s).left) ∧
    (own (leaveLocal s)).left = true :=
  ⟨own_left_apply h op, own_left_leaveLocal s⟩

/-! ## the network model -/

/-- Every node of every run of the network model (any schedule of local writes, digests,
deliveries with loss/duplication/reordering/truncation, joins, leaves, liveness rounds and
expiry sweeps) is well-formed — in particular its local node is present, reachable and
without expiry — and satisfies the view invariant of (a). -/
theorem C11_net_invariant (ops : List Op) (id : String) (s : CState)
    (hf : (Net.run {} ops).nodes.find id = some s) :
    WF s ∧ LeftSeen s := by
  have := netAll_run Inv inv_init inv_apply {} (fun p hp => by simp at hp) ops
  exact this (id, s) (AMap.mem_of_find hf)

/-! ## (f) forgotten nodes: the counterexample (F2) and what holds instead -/

/- The full statement — FALSE of the pinned tree (finding F2):

   theorem C11_stays_forgotten (ops : List Op) (k : Nat) (a b : String) :
       viewSummary (Net.run {} (ops.take k)) b a = none →        -- b has forgotten a
       (∀ op ∈ ops.drop k, op is not a step of a) →             -- a does not return
       viewSummary (Net.run {} ops) b a = none
-/

/-- **F2.**  A concrete schedule of the network model: A is known to B and C, then takes no
further step (crash).  After B's liveness round and expiry sweep B has forgotten A
(`take 9`).  C, which still holds A, sends B a digest listing A with `left = false`; when
B handles it (`take 11`) B holds A again — not left, not unreachable, no expiry — and after
the exchange completes B has A's full state (version 1) back.  A's own state never changed
after its last step and no packet in the pool was sent by A. -/
theorem C11_relearn_counterexample :
    viewSummary (Net.run {} (f2Trace.take 7)) "B" "A" = some (false, false, none, 1) ∧
    viewSummary (Net.run {} (f2Trace.take 8)) "B" "A" = some (false, true, some (0 + nodeExpiry), 1) ∧
    viewSummary (Net.run {} (f2Trace.take 9)) "B" "A" = none ∧
    viewSummary (Net.run {} (f2Trace.take 11)) "B" "A" = some (false, false, none, 0) ∧
    viewSummary (Net.run {} f2Trace) "B" "A" = some (false, false, none, 1) ∧
    (Net.run {} f2Trace).nodes.find "A" = (Net.run {} (f2Trace.take 7)).nodes.find "A" ∧
    (Net.run {} f2Trace).pool.all (fun p => match p with
      | .digest src _ dst _ _ => src ≠ "A" ∧ dst ≠ "aA"
      | .delta src _ dst _ => src ≠ "A" ∧ dst ≠ "aA") = true := by
  simp [viewSummary, f2Trace, Net.run, Net.step, localOp, Net.setNode, init, AMap.insert, AMap.erase,
    localDelta, own, deltaEntry, sortByVersion, AMap.vals, applyDelta, applyDeltaEntry,
    applyEntries, applyEntry, applyDigest, applyDigestEntry, digest, sortDigest, delta, sortDelta,
    List.mergeSort, updateLiveness, livenessStep, removeExpiredAt, AMap.filterV, isExpiredAt,
    setNode, nodeExpiry, Facts.nodeExpiryNs, selectIdx, Net.nodeByAddr, handleDigest,
    List.MergeSort.Internal.splitInTwo, upsertLocal, writeOwn, setOwn, cutDelta]

/-- What does hold: a node absent from a (well-formed) state is added only by a digest
entry about it that is **not** flagged left, or by a delta entry about it.  So along any
operation list in which no digest mentions it un-flagged and no delta mentions it, it stays
forgotten.  (`partial`: the full clause would need "no live node still holds it", which the
protocol does not provide — F2.) -/
theorem C11_forgotten_partial (s : CState) (h : WF s) (ops : List COp) (id : String)
    (habs : s.nodes.find id = none)
    (hquiet : ∀ op ∈ ops, ¬ op.teaches id) :
    (runOps s ops).nodes.find id = none :=
  forgotten_runOps h ops habs hquiet

/-- … and one step, read the other way round: if an operation makes an absent node present,
the operation is an `ApplyDigest` with an entry about it not flagged left, or an
`ApplyDelta` with an entry about it. -/
theorem C11_readd_needs_teacher (s : CState) (h : WF s) (op : COp) (id : String) (n : NodeSt)
    (habs : s.nodes.find id = none) (hpres : (op.apply s).nodes.find id = some n) :
    (∃ d, op = .applyDigest d ∧ ∃ de ∈ d, de.id = id ∧ de.left = false) ∨
    (∃ now d, op = .applyDelta now d ∧ ∃ de ∈ d, de.id = id) := by
  have : op.teaches id := by
    apply Classical.byContradiction
    intro hn
    rw [forgotten_apply h op habs hn] at hpres; cases hpres
  cases op with
  | applyDigest d => exact Or.inl ⟨d, rfl, this⟩
  | applyDelta now d => exact Or.inr ⟨now, d, rfl, this⟩
  | _ => exact absurd this (by simp [COp.teaches])

/-! ## non-vacuity -/

/-- a well-formed state with a left view, an unreachable view and a live view -/
example : WF (runOps (init "n" "a")
    [.applyDelta 5 [⟨"x", "ax", [⟨leftKey, "", 1, true, false⟩]⟩],
     .applyDigest [⟨"y", "ay", 0, false⟩, ⟨"z", "az", 3, true⟩, ⟨"w", "aw", 0, false⟩],
     .liveness (fun id => id = "y") 7]) :=
  wf_runOps (wf_init _ _) _

/-- (a)/(d): the marker sets left and the expiry `now + 60 s`; (c): `z` (flagged left) is not
learned; (e): `y` is unreachable with an expiry, `w` is live; the sweep at `t` beyond both
expiries removes exactly `x` and `y`. -/
example :
    let s := runOps (init "n" "a")
      [.applyDelta 5 [⟨"x", "ax", [⟨leftKey, "", 1, true, false⟩]⟩],
       .applyDigest [⟨"y", "ay", 0, false⟩, ⟨"z", "az", 3, true⟩, ⟨"w", "aw", 0, false⟩],
       .liveness (fun id => id = "y") 7]
    (s.nodes.find "x").map (fun n => (n.left, n.unreachable, n.expiry)) = some (true, false, some (5 + nodeExpiry)) ∧
    s.nodes.find "z" = none ∧
    (s.nodes.find "y").map (fun n => (n.left, n.unreachable, n.expiry)) = some (false, true, some (7 + nodeExpiry)) ∧
    (liveNodes s).map (·.id) = ["w"] ∧
    ((removeExpiredAt s (8 + nodeExpiry)).1.nodes.keys = ["w", "n"]) ∧
    ((removeExpiredAt s (8 + nodeExpiry)).2 = [.expired "y", .expired "x"]) := by
  decide

/-- (h): leaving is the local node's own act and publishes the marker -/
example : (own (leaveLocal (init "n" "a"))).left = true ∧
    ((own (leaveLocal (init "n" "a"))).entries.find leftKey).map (·.internal) = some true := by
  decide

/-! ## Whom a leaving node notifies (`Gossip.Leave`, `pkg/gossip/gossip.go`) -/

/-- `Leave` pushes the left marker to at most four peers (the loop stops at `notified > 3`;
the source comment says three), each of them a remembered remote node that is neither left nor
unreachable and whose leave stream succeeded - in the order of the shuffle. -/
theorem C11_leave_notifies (s : CState) (order : List NodeSt) (ok : String → Bool) :
    (leaveNotified s order ok).length ≤ 4 ∧
    ∀ x ∈ leaveNotified s order ok, ∃ n ∈ order, n.id = x ∧ n.id ≠ s.localId ∧ n.left = false ∧
      n.unreachable = false ∧ ok x = true := by
  obtain ⟨h1, _, h3⟩ := leaveLoop_spec s.localId ok order [] (by simp)
  refine ⟨h1, fun x hx => ?_⟩
  rcases h3 x hx with h | ⟨n, hn, hid, hel⟩
  · cases h
  · refine ⟨n, hn, hid, ?_⟩
    simp only [eligible, Bool.and_eq_true, Bool.not_eq_true', decide_eq_false_iff_not,
      Bool.or_eq_false_iff] at hel
    exact ⟨hel.1.1, hel.1.2.1, hel.1.2.2, hid ▸ hel.2⟩

/-- With at most four live peers whose stream succeeds, **every** one of them is notified
(whatever the shuffle): they all hold the left marker when `Leave` returns, hence
(`C11_left_on_marker`) all see the node as left at once. -/
theorem C11_leave_notifies_all (s : CState) (order : List NodeSt) (ok : String → Bool)
    (hfew : (order.filter (eligible s.localId ok)).length ≤ 4)
    (n : NodeSt) (hn : n ∈ order) (hid : n.id ≠ s.localId) (hl : n.left = false) (hu : n.unreachable = false)
    (hok : ok n.id = true) : n.id ∈ leaveNotified s order ok :=
  leaveLoop_complete s.localId ok order [] (by simpa using hfew) n hn (by simp [eligible, hid, hl, hu, hok])

/-- a gossip round never contacts a node that left unless it is also flagged unreachable -/
theorem C11_round_skips_left (s : CState) (r₁ r₂ : Nat) (n : NodeSt) (h : n ∈ roundTargets s r₁ r₂)
    (hl : n.left = true) : n.unreachable = true := by
  rcases mem_roundTargets.mp h with h | h
  · have := (mem_liveNodes.mp (pickNode_mem h)).2.2.2; rw [hl] at this; cases this
  · exact (mem_unreachableNodes.mp (pickNode_mem h)).2.2

/-- non-vacuity: six peers (one left, one unreachable, one whose stream fails): the first four
eligible ones in shuffle order are notified and the loop stops there -/
example :
    let mk (id : String) (l u : Bool) : NodeSt := { id := id, addr := id, left := l, unreachable := u }
    leaveNotified (init "n" "a")
      [mk "a" false false, mk "n" false false, mk "b" true false, mk "c" false true, mk "d" false false,
       mk "e" false false, mk "f" false false, mk "g" false false, mk "h" false false]
      (fun id => id ≠ "e") = ["a", "d", "f", "g"] := by
  decide

/-! ## The detector drives the lifecycle: unreachable ⇒ out of routing ⇒ restored or forgotten

`Proofs/LivenessFD.lean`: `suspectedBy d θ now id` is the comparison `UpdateLiveness` evaluates on
detector `d` (`SuspicionLevel(id) > θ` at `time.Now() = now`, exact fraction; the pure counterpart
of the stateful Go query - `C12_tick_is_literal_loop`), `livenessTick d θ now s =
updateLiveness s (suspectedBy d θ now) now`.  When the verdict is `true`/`false` is C12's business
(`C12_silent_peer_marked_unreachable`, `C12_steady_peer_stays_live`, `C12_heard_again_restored`);
here the verdict is a hypothesis and the consequences are followed through the watcher into the
routing table (`PikoModel/Cluster/Syncer.lean`: `Sync.run` feeds the notifications of a tick to the
syncer callbacks) and to the expiry sweep.  `TableWF t`: the routing table is a map (distinct keys)
of rows filed under their own id - `C11_routing_table_is_map`: true of a fresh syncer after any
notification history whatsoever. -/
section Detector
open Piko.LivenessFD

/-- the hypothesis `TableWF` of `C11_unreachable_excluded_from_routing` is always met: the routing
table of a fresh syncer is, after **any** list of watcher notifications, a map with distinct keys
whose rows are filed under their own id -/
theorem C11_routing_table_is_map (l : Cluster.Node) (evs : List Event) :
    TableWF ((Cluster.Sync.new l).run evs).table :=
  tableWF_run evs _ (tableWF_new l)

/-- **Excluded from routing while marked, a candidate again when restored.**  `p` is remembered,
remote, not left, not flagged; the detector's verdict at `now` is "suspected".  The syncer has `p`
in its routing table (row `row`; not pending).  Feeding the notifications of the tick to the syncer
sets the row's status to `unreachable` and changes nothing else in it (`C04_status_tracks_flags`),
and no lookup of any endpoint can return `p` (`C04_lookup_sound`: candidates are `active`).  If a
later tick (any detector, any time) finds `p` not suspected, it notifies `OnReachable(p)`; the
syncer sets the row `active` again, and `p` is a lookup candidate for every endpoint its row lists
with a positive count. -/
theorem C11_unreachable_excluded_from_routing
    (s : CState) (hwf : WF s) (p : String) (n : NodeSt)
    (hf : s.nodes.find p = some n) (hid : p ≠ s.localId) (hl : n.left = false) (hu : n.unreachable = false)
    (d : FD.Detector) (θ now : Nat) (hs : suspectedBy d θ now p = true)
    (sy : Cluster.Sync) (htw : TableWF sy.table) (row : Cluster.Node)
    (hrow : sy.table.nodes.find p = some row) (hpl : p ≠ sy.table.localId) :
    (sy.run (livenessTick d θ now s).2).table.nodes.find p = some { row with status := .unreachable } ∧
    (∀ e, ∀ m ∈ (sy.run (livenessTick d θ now s).2).table.lookupCandidates e, m.id ≠ p) ∧
    ∀ (d₂ : FD.Detector) (now₂ : Nat), suspectedBy d₂ θ now₂ p = false →
      Event.reachable p ∈ (livenessTick d₂ θ now₂ (livenessTick d θ now s).1).2 ∧
      ((sy.run (livenessTick d θ now s).2).run
          (livenessTick d₂ θ now₂ (livenessTick d θ now s).1).2).table.nodes.find p =
        some { row with status := .active } ∧
      ∀ e c, row.endpoints.find e = some c → c > 0 →
        { row with status := .active } ∈
          ((sy.run (livenessTick d θ now s).2).run
            (livenessTick d₂ θ now₂ (livenessTick d θ now s).1).2).table.lookupCandidates e := by
  obtain ⟨n', h1, h2, h3, _, h5, _, _, h8, h9, _, _⟩ :=
    tick_flags hwf (suspectedBy d θ now) now hf hid hl hs
  obtain ⟨g1, g2, g3⟩ := run_live_row p (livenessTick d θ now s).2 sy row
    (events_liveness_only s _ now) htw hrow hpl
  have h8' : Event.unreachable p ∈ (livenessTick d θ now s).2 := h8.mpr hu
  have h9' : Event.reachable p ∉ (livenessTick d θ now s).2 := h9
  rw [lastStatus_unreachable p _ _ h8' h9'] at g3
  refine ⟨g3, fun e => not_candidate g1 g3 (by simp) e, ?_⟩
  intro d₂ now₂ hs₂
  have hwf₁ : WF (livenessTick d θ now s).1 := wf_updateLiveness hwf _ now
  have hlid₁ : (livenessTick d θ now s).1.localId = s.localId := (updateLiveness_basic hwf _ now).1
  obtain ⟨n'', k1, _, _, _, _, _, _, k8, k9, _, _⟩ :=
    tick_clears hwf₁ (suspectedBy d₂ θ now₂) now₂ h1 (by rw [hlid₁]; exact hid) h3 hs₂
  obtain ⟨r1, r2, r3⟩ := run_live_row p (livenessTick d₂ θ now₂ (livenessTick d θ now s).1).2
    (sy.run (livenessTick d θ now s).2) _ (events_liveness_only _ _ now₂) g1 g3
    (by rw [g2]; exact hpl)
  have k8' : Event.reachable p ∈ (livenessTick d₂ θ now₂ (livenessTick d θ now s).1).2 := k8.mpr h5
  have k9' : Event.unreachable p ∉ (livenessTick d₂ θ now₂ (livenessTick d θ now s).1).2 := k9
  rw [lastStatus_reachable p _ _ k8' k9'] at r3
  refine ⟨k8', r3, fun e c hc hpos => ?_⟩
  refine candidate r3 ?_ rfl hc hpos
  show row.id ≠ _
  rw [htw.2 (p, row) (AMap.mem_of_find hrow), r2, g2]; exact hpl

/-- **Forgotten after the expiry period.**  `p` is flagged at `now` (verdict "suspected", not flagged
before: expiry `now + nodeExpiry`) and **not heard from again**: every later tick (`later`: any
detectors, any times) still finds it suspected.  Then those ticks leave `p`'s view untouched - in
particular the expiry of the first flagging is kept, not pushed back - and `RemoveExpiredAt t`
removes `p` and notifies `OnExpired(p)` for every `t > now + nodeExpiry`, and keeps it (no
notification) for every `t ≤ now + nodeExpiry` (`C11_expiry`).  `nodeExpiry` is the regenerated
`time.Minute`: 60 s.  (What the pinned tree does *after* that - a third node may re-teach `p` - is
finding F2: `C11_relearn_counterexample`, `C11_forgotten_partial`.) -/
theorem C11_silent_peer_forgotten
    (s : CState) (hwf : WF s) (p : String) (n : NodeSt)
    (hf : s.nodes.find p = some n) (hid : p ≠ s.localId) (hl : n.left = false) (hu : n.unreachable = false)
    (d : FD.Detector) (θ now : Nat) (hs : suspectedBy d θ now p = true)
    (later : List (FD.Detector × Nat)) (hlater : ∀ x ∈ later, suspectedBy x.1 θ x.2 p = true) :
    WF (laterTicks θ (livenessTick d θ now s).1 later) ∧
    (∃ n', (laterTicks θ (livenessTick d θ now s).1 later).nodes.find p = some n' ∧
      n'.unreachable = true ∧ n'.expiry = some (now + nodeExpiry)) ∧
    (∀ t, now + nodeExpiry < t →
      (removeExpiredAt (laterTicks θ (livenessTick d θ now s).1 later) t).1.nodes.find p = none ∧
      Event.expired p ∈ (removeExpiredAt (laterTicks θ (livenessTick d θ now s).1 later) t).2) ∧
    (∀ t, t ≤ now + nodeExpiry →
      (removeExpiredAt (laterTicks θ (livenessTick d θ now s).1 later) t).1.nodes.find p ≠ none ∧
      Event.expired p ∉ (removeExpiredAt (laterTicks θ (livenessTick d θ now s).1 later) t).2) ∧
    Facts.nodeExpiryNs = some nodeExpiry ∧ 0 < nodeExpiry := by
  obtain ⟨n', h1, _, h3, _, h5, h6, _⟩ := tick_flags hwf (suspectedBy d θ now) now hf hid hl hs
  have hwf₁ : WF (livenessTick d θ now s).1 := wf_updateLiveness hwf _ now
  have hlid₁ : (livenessTick d θ now s).1.localId = s.localId := (updateLiveness_basic hwf _ now).1
  obtain ⟨a, _, c⟩ := laterTicks_keep later hlater hwf₁ h1 (by rw [hlid₁]; exact hid) h3 h5
  have hexp := h6 hu
  refine ⟨a, ⟨n', c, h5, hexp⟩, fun t ht => ?_, fun t ht => ?_, by decide, by decide⟩
  · obtain ⟨e1, _, _, e4, _⟩ := C11_expiry _ a t p
    exact ⟨e1 n' c ⟨_, hexp, ht⟩, e4.mpr ⟨n', c, _, hexp, ht⟩⟩
  · obtain ⟨_, e2, _, e4, _⟩ := C11_expiry _ a t p
    have hno : ¬ ∃ x, n'.expiry = some x ∧ x < t := by
      rintro ⟨x, hx, hxt⟩
      rw [hexp] at hx; cases hx; omega
    refine ⟨by rw [e2 n' c hno]; simp, fun hmem => ?_⟩
    obtain ⟨m, hm, hx⟩ := e4.mp hmem
    rw [c] at hm; cases hm
    exact hno hx

/-- … with the verdicts discharged by the detector (`C12_completeness`): the detector has heard from
`p` (arrivals `ts`) and never again - at the first tick and at every later one `p`'s window is
still the one of `ts` (other peers' windows may change freely) - and every tick is at least
`T = ⌊θ·sum/size⌋ + 1` after the last arrival.  Then `p` is flagged at the first tick and gone
from the membership at every sweep later than `now + 60 s`. -/
theorem C11_silent_peer_lifecycle
    (s : CState) (hwf : WF s) (p : String) (n : NodeSt)
    (hf : s.nodes.find p = some n) (hid : p ≠ s.localId) (hl : n.left = false) (hu : n.unreachable = false)
    (b : Int) (N : Nat) (ts : List Nat) (hN : 0 < N) (hb : 0 < b)
    (hinc : ts.Pairwise (· < ·)) (hne : ts ≠ []) (θ T : Nat)
    (hT : (T : Int) = (θ : Int) * (FD.lastN N (FD.intervalsOf b ts)).sum / ((min ts.length N : Nat) : Int) + 1)
    (d : FD.Detector) (hwin : d.windows.find p = some (FD.windowOf b N ts))
    (now : Nat) (hnow : ts.getLast hne + T ≤ now)
    (later : List (FD.Detector × Nat))
    (hlater : ∀ x ∈ later, x.1.windows.find p = some (FD.windowOf b N ts) ∧ ts.getLast hne + T ≤ x.2)
    (t : Nat) (ht : now + nodeExpiry < t) :
    Event.unreachable p ∈ (livenessTick d θ now s).2 ∧
    (removeExpiredAt (laterTicks θ (livenessTick d θ now s).1 later) t).1.nodes.find p = none ∧
    Event.expired p ∈ (removeExpiredAt (laterTicks θ (livenessTick d θ now s).1 later) t).2 := by
  have hs := suspected_of_silent hN hb hinc hne hwin θ T hT now hnow
  obtain ⟨_, _, h3, _⟩ := C11_silent_peer_forgotten s hwf p n hf hid hl hu d θ now hs later
    (fun x hx => suspected_of_silent hN hb hinc hne (hlater x hx).1 θ T hT x.2 (hlater x hx).2)
  obtain ⟨_, _, _, _, _, _, _, _, h8, _⟩ := tick_flags hwf (suspectedBy d θ now) now hf hid hl hs
  exact ⟨h8.mpr hu, h3 t ht⟩

/-! ### non-vacuity

Observer `n`; peer `p` announced both addresses and endpoint `e` with two upstreams, so the syncer
has promoted it to the routing table as `active`.  The detector (production window 50, bootstrap
2 × 100 ms, threshold `Facts.suspicionThreshold`) heard `p` at 0.1 s and 0.2 s: samples
`[200 ms, 100 ms]`, mean 150 ms, so the level exceeds 20 once the silence exceeds 3 s. -/

def c11Det : FD.Detector :=
  (FD.newDetector 200000000 50).run [.report "p" 100000000, .report "p" 200000000]

def c11State : CState := (applyDigest (init "n" "a") [⟨"p", "ap", 0, false⟩]).1

def c11Sync : Cluster.Sync :=
  (Cluster.Sync.new { id := "n", proxyAddr := "pn", adminAddr := "an" }).run
    [.join "p", .upsert "p" Cluster.proxyAddrKey "pp", .upsert "p" Cluster.adminAddrKey "pa",
     .upsert "p" (SyncerSpec.epKey "e") "2"]

/-- the hypotheses of `C11_unreachable_excluded_from_routing` hold of this data at `now` = 3.2 s + 1 ns -/
example : WF c11State ∧ TableWF c11Sync.table ∧
    c11Sync.table.nodes.find "p" =
      some { id := "p", status := .active, proxyAddr := "pp", adminAddr := "pa", endpoints := [("e", 2)] } ∧
    c11Sync.pending.find "p" = none ∧
    suspectedBy c11Det 20 3200000000 "p" = false ∧
    suspectedBy c11Det 20 3200000001 "p" = true :=
  ⟨wf_apply (wf_init _ _) (.applyDigest _), C11_routing_table_is_map _ _, by decide, by decide, by decide, by decide⟩

/-- before the tick `p` is the lookup candidate for `e`; the tick's notification takes it out of
every lookup; heard again (a report at 4 s, tick at 4.1 s) it is a candidate again; never heard
again, it is still remembered at `now + 60 s` and forgotten (with `OnExpired`) one nanosecond later -/
example :
    let θ := 20
    let r := livenessTick c11Det θ 3200000001 c11State
    let sy₁ := c11Sync.run r.2
    let r₂ := livenessTick (c11Det.reportWithTimestamp "p" 4000000000).1 θ 4100000000 r.1
    (c11Sync.table.lookupCandidates "e").map (·.id) = ["p"] ∧
    r.2 = [.unreachable "p"] ∧
    (sy₁.table.nodes.find "p").map (·.status) = some .unreachable ∧
    sy₁.table.lookupCandidates "e" = [] ∧
    r₂.2 = [.reachable "p"] ∧
    ((sy₁.run r₂.2).table.lookupCandidates "e").map (fun m => (m.id, m.status)) = [("p", .active)] ∧
    (removeExpiredAt r.1 (3200000001 + nodeExpiry)).2 = [] ∧
    (removeExpiredAt r.1 (3200000002 + nodeExpiry)).2 = [.expired "p"] ∧
    (removeExpiredAt r.1 (3200000002 + nodeExpiry)).1.nodes.keys = ["n"] := by
  decide

end Detector

end Piko
