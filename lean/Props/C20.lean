import PikoModel.Generated.Facts
import Proofs.LockOrder
import Props.C05
import Proofs.SysLeave
import Props.C01
/-!
# C20 — Concurrent operation never deadlocks, panics or races; consistency at quiescence

What is proved here, and what is not:

* **Deadlock by lock-order inversion (proved).**  `C20_no_circular_wait` / `C20_progress` are
  general theorems about the ranked-lock model `PikoModel/Conc/LockOrder.lean` (any number of
  threads, any schedule).  `C20_acyclic` is the obligation over the lock-order graph
  **regenerated from the Go source on every run** (`Facts.lockEdges`, extracted by
  `harness/cmd/facts/facts_locks.go`): the explicit rank `lockRank` strictly increases along
  every extracted edge, every lock in an edge is one of the six known mutexes, and no lock can
  be re-acquired while held.  A new call edge that closes a cycle (a watcher callback calling
  back into the gossip state, a subscriber invoked under `cluster.State.mu`, …) changes the
  regenerated table and this file stops building.  `C20_extracted_graph_deadlock_free`
  combines the two.
* **No subscriber callback under `cluster.State.mu` (proved over the regenerated fact).**
  `C20_no_callback_under_cluster_mu`.
* **Consistency at quiescence (proved).**  `C20_quiescent_consistent`,
  `C20_quiescent_schedule_independent`: restated from C05 — the manager mutex serialises
  AddConn/RemoveConn, so a concurrent execution is an interleaving of the per-upstream scripts,
  and for every interleaving registry = cluster-local count = advertised count.
* **Guarded fields (proved over the regenerated fact).**  `C20_guarded_fields`: a syntactic
  lockset check — each mutable field declared above its struct's mutex is only touched with
  that mutex held.
* **Data races, panics, bounded completion: PARTIAL.**  They are facts about the Go runtime;
  this model cannot exhibit them.  They are looked for by the `conc` engine (real node stack,
  8–16 goroutines, `-race` build, watchdog, panic capture); that is testing, not proof.

Known finding F8 (runtime part, seen by the `conc` engine, witness
`corpus/conc/f8-fd-timestamp-order.ops`): `accrualFailureDetector.Report` samples `time.Now()`
before taking its mutex; stalled there for at least the bootstrap interval while the liveness
task creates the node's window, it adds a negative interval and the next `UpdateLiveness`
panics in `arrivalWindow.Phi`.  It is a panic, not a lock-order or guarded-field violation, so
none of the theorems below is affected.

The full statement (not provable in this model) would be: *for every schedule of the
goroutines of a running node, no goroutine blocks forever, none panics, no two unsynchronised
accesses to the same location occur, and every operation returns within a bound.*
-/
namespace Piko
open Piko.Conc Piko.Upstream

/-- the six mutexes C20 speaks about (names as emitted by the extractor) -/
def knownLocks : List String :=
  ["manager.mu", "gossip.mu", "syncer.mu", "fd.mu", "cluster.mu", "server.sessionsMu"]

/-- the lock order the code relies on:
`LoadBalancedManager.mu` < gossip `clusterState.mu` < `syncer.mu`, `accrualFailureDetector.mu`
< `cluster.State.mu`; `Server.sessionsMu` is a leaf taken with nothing held. -/
def lockRank : String → Nat
  | "manager.mu" => 0
  | "server.sessionsMu" => 0
  | "gossip.mu" => 1
  | "syncer.mu" => 2
  | "fd.mu" => 2
  | "cluster.mu" => 3
  | _ => 0

/-- **General theorem.**  If a rank strictly increases along every edge of the lock-order graph
(threads only ask for a lock along an edge from each lock they hold), then no state reachable
by any number of threads under any schedule contains a wait-for cycle — including the
one-thread cycle of re-locking a mutex already held. -/
theorem C20_no_circular_wait {L : Type} [DecidableEq L] (edges : List (L × L)) (rank : L → Nat)
    (hr : Ranked rank edges) (s : Conc.Sys L) (h : Reach edges s) : ¬ CircularWait s :=
  no_circular_wait hr h

/-- **Progress.**  Under the same hypothesis, whenever some thread is blocked on a lock, some
thread can move: a blocked thread whose lock is free, or a running thread that holds a lock. -/
theorem C20_progress {L : Type} [DecidableEq L] (edges : List (L × L)) (rank : L → Nat)
    (hr : Ranked rank edges) (s : Conc.Sys L) (h : Reach edges s) (i : Nat) (l : L)
    (hw : (s i).waiting = some l) : ∃ j, CanMove s j :=
  progress hr h i l hw

/-- the model is a lock: in every reachable state a lock is held by at most one thread -/
theorem C20_mutual_exclusion {L : Type} [DecidableEq L] (edges : List (L × L)) (s : Conc.Sys L)
    (h : Reach edges s) (i j : Nat) (l : L) (hi : l ∈ (s i).held) (hj : l ∈ (s j).held) : i = j :=
  excl_reach h i j l hi hj

/-- **Obligation over the regenerated lock-order graph.**  The extractor produced a graph; the
explicit rank `lockRank` strictly increases along every edge; every lock mentioned is one of the
six known mutexes and the extractor found all six; no lock is re-acquired while held. -/
theorem C20_acyclic :
    ∃ es, Facts.lockEdges = some es ∧ Ranked lockRank es ∧
      (∀ e ∈ es, e.1 ∈ knownLocks ∧ e.2 ∈ knownLocks ∧ e.1 ≠ e.2) ∧
      (∀ l ∈ knownLocks, l ∈ Facts.lockNames) ∧
      Facts.selfEdges = some [] :=
  ⟨_, rfl, by decide, by decide, by decide, by decide⟩

/-- **No subscriber callback runs under `cluster.State.mu`.**  `state.go` copies the subscriber
slice and unlocks before calling; the extractor finds no invocation of a `[]func` field's
elements (directly or through calls) at a point where `cluster.State.mu` may be held. -/
theorem C20_no_callback_under_cluster_mu : Facts.callbacksUnderClusterMu = some [] := by
  decide

/-- **Guarded fields (static lockset check over the regenerated fact).**  Every read or write of
a mutable field declared above a mutex of its struct ("mu protects the above fields":
`localUpstreams`, `sessions`, `pendingNodes`, cluster `nodes` and the two subscriber lists,
gossip `nodes`, failure-detector `windows`) is at a point where that mutex is held —
lexically, or at every call site of the enclosing unexported function.  This is a syntactic
approximation of race freedom for these fields only (no aliasing analysis: data reached
through a pointer taken under the lock and used after unlocking is not seen); the race
detector run of the `conc` engine is what looks at everything else. -/
theorem C20_guarded_fields : Facts.unguardedAccesses = some [] := by
  decide

/-- the lock system whose programs follow the **extracted** graph never reaches a circular
wait and never gets stuck with a blocked thread -/
theorem C20_extracted_graph_deadlock_free :
    ∃ es, Facts.lockEdges = some es ∧
      ∀ s : Conc.Sys String, Reach es s →
        ¬ CircularWait s ∧ ∀ i l, (s i).waiting = some l → ∃ j, CanMove s j := by
  obtain ⟨es, he, hr, _⟩ := C20_acyclic
  exact ⟨es, he, fun s h => ⟨no_circular_wait hr h, fun i l hw => progress hr h i l hw⟩⟩

/-- **Consistency at quiescence.**  After any sequence of whole AddConn/RemoveConn/Select calls
(= any interleaving the manager mutex allows), for every endpoint the three stores of the
local node agree: cluster-local count = number registered (absent ⇔ 0) and the live gossip
entry `endpoint:<e>` carries exactly that count (absent/tombstoned ⇔ 0). -/
theorem C20_quiescent_consistent (id proxy admin : String) (ops : List Op) (e : String) :
    (reach id proxy admin ops).cluster.localNode.endpoints.find e =
      (if ((reach id proxy admin ops).registry e).length = 0 then none
       else some (((reach id proxy admin ops).registry e).length : Int)) ∧
    advertised (reach id proxy admin ops) e =
      (if ((reach id proxy admin ops).registry e).length = 0 then none
       else some (toString ((reach id proxy admin ops).registry e).length)) := by
  obtain ⟨hreg, hc, ha⟩ := C05_counts id proxy admin ops e
  rw [hreg]
  exact ⟨hc, ha⟩

/-- **The quiescent state does not depend on the schedule.**  Two interleavings of the same
per-upstream scripts end with the same number registered, the same cluster-local count and
the same advertised count for every endpoint (what the `conc` engine's model side prints). -/
theorem C20_quiescent_schedule_independent (id proxy admin : String) (ops1 ops2 : List Op)
    (h : ∀ u : Up, ops1.filter (touches u) = ops2.filter (touches u)) (e : String) :
    ((reach id proxy admin ops1).registry e).length = ((reach id proxy admin ops2).registry e).length ∧
    (reach id proxy admin ops1).cluster.localNode.endpoints.find e =
      (reach id proxy admin ops2).cluster.localNode.endpoints.find e ∧
    advertised (reach id proxy admin ops1) e = advertised (reach id proxy admin ops2) e := by
  obtain ⟨ha, hc⟩ := C05_interleaving_independent id proxy admin ops1 ops2 h e
  refine ⟨?_, hc, ha⟩
  rw [registry_reach, registry_reach]
  exact refRun_length_interleaving ops1 ops2 h e

/-! ### non-vacuity -/

/-- the inverted order (a subscriber called under `cluster.State.mu` that takes the gossip
mutex, as in the mutant of `AddLocalEndpoint`) is rejected by the same rank -/
example : ¬ Ranked lockRank [("gossip.mu", "cluster.mu"), ("cluster.mu", "gossip.mu")] := by decide

/-- a self edge (watcher callback calling back into the gossip state) is rejected -/
example : ¬ Ranked lockRank [("gossip.mu", "gossip.mu")] := by decide

/-- the two-thread inversion is reachable and is a circular wait when the graph has both edges
(thread 0: lock a, then b; thread 1: lock b, then a) — `Ranked` is exactly what excludes it -/
example : ∃ s : Conc.Sys String, Reach [("a", "b"), ("b", "a")] s ∧ CircularWait s := by
  have r0 : Reach [("a", "b"), ("b", "a")] (Sys.idle String) := .init
  have r1 := Reach.step r0 (Step.request _ 0 "a" rfl (by simp [Sys.idle]))
  have r2 := Reach.step r1 (Step.grant _ 0 "a" (by simp [Sys.set])
    (by intro j; simp [Sys.set, Sys.idle]; split <;> simp))
  have r3 := Reach.step r2 (Step.request _ 1 "b" (by simp [Sys.set, Sys.idle]) (by simp [Sys.set, Sys.idle]))
  have r4 := Reach.step r3 (Step.grant _ 1 "b" (by simp [Sys.set])
    (by intro j; simp [Sys.set, Sys.idle]; repeat' split <;> simp_all))
  have r5 := Reach.step r4 (Step.request _ 0 "b" (by simp [Sys.set, Sys.idle]) (by simp [Sys.set, Sys.idle]))
  have r6 := Reach.step r5 (Step.request _ 1 "a" (by simp [Sys.set, Sys.idle]) (by simp [Sys.set, Sys.idle]))
  exact ⟨_, r6, 0, [1], ⟨"b", by simp [Sys.set, Sys.idle], by simp [Sys.set, Sys.idle]⟩,
    ⟨"a", by simp [Sys.set, Sys.idle], by simp [Sys.set, Sys.idle]⟩⟩

/-- the extracted graph is not empty: the order the code relies on is really there -/
example : ∃ es, Facts.lockEdges = some es ∧ ("manager.mu", "gossip.mu") ∈ es ∧
    ("gossip.mu", "syncer.mu") ∈ es ∧ ("syncer.mu", "cluster.mu") ∈ es :=
  ⟨_, rfl, by decide, by decide, by decide⟩

/-- quiescent consistency on a concrete history -/
example :
    (reach "n" "p" "a" [.add ⟨1, "e"⟩, .add ⟨2, "e"⟩, .rm ⟨1, "e"⟩]).cluster.localNode.endpoints.find "e" = some 1 ∧
    advertised (reach "n" "p" "a" [.add ⟨1, "e"⟩, .add ⟨2, "e"⟩, .rm ⟨1, "e"⟩]) "e" = some "1" := by
  decide

/-! ## Consistency at quiescence, about the whole system

`C20_quiescent_consistent` above is about one node's manager (`Upstream.reach`).  The two theorems
below are about the one system model `PikoModel/Sys/System.lean` (gossip + syncer + manager of every
node): the three stores of every node agree in **every** reachable state (the manager mutex makes
`AddConn`/`RemoveConn` atomic: `C05_facts_atomic`), and once activity has stopped and gossip has run
(a settle schedule) every *other* node's copies - its gossip view and its routing-table row - agree
with them too. -/

/-- **The three local stores agree in every reachable system state** (`C05_counts` about `Sys`): for
every node `a` and endpoint `e`, the local row of `a`'s routing table (`LocalNode()`, filed under
`a`'s id) counts exactly the registered upstreams (absent ⇔ none), and `a`'s live own gossip entry
`endpoint:<e>` carries exactly that count (absent or tombstoned ⇔ none). -/
theorem C20_system_local_consistent (ops : List SysOp) (hall : SysAllowed ops) (a : String) (x : SysNode)
    (ha : (Piko.Sys.runRev ops).node a = some x) (e : String) :
    (∃ row, x.mgr.cluster.nodes.find a = some row ∧ row.id = a ∧ x.mgr.cluster.localNode = row ∧
      row.endpoints.find e =
        if (x.mgr.registry e).length = 0 then none else some ((x.mgr.registry e).length : Int)) ∧
    advertised x.mgr e =
      (if (x.mgr.registry e).length = 0 then none else some (toString (x.mgr.registry e).length)) := by
  obtain ⟨sd, g, hsd, hg, rfl⟩ := Piko.Sys.node_eq ha
  have hni := (sysInv_runRev ops hall).node a sd g hsd hg
  obtain ⟨row, hrow, hid⟩ := hni.tloc
  have hloc : sd.table.localNode = row := by
    simp [Cluster.State.localNode, hni.tlid, hrow]
  refine ⟨⟨row, hrow, hid, hloc, ?_⟩, hni.minv.adv e⟩
  rw [← hloc]
  exact hni.minv.counts e

/-- **When activity stops, the upstream registry, the routing table and the published gossip state
are mutually consistent - across the cluster.**  `ops` is any reachable history, `sched` a settle
schedule (receive-side steps only, containing `join r b` for every ordered pair of nodes), on a
cluster where nobody has left (and every node has non-empty addresses and fewer than 2^63 upstreams
per endpoint: `config.Validate`, `Atoi` range).  Then for every node `a`:
* its own three stores agree (`C20_system_local_consistent`), and
* for every other node `r`: `r`'s gossip view `V` of `a` **is** `a`'s published state (same version,
  same entry - value, tombstone flag, version - or same absence under every key; in particular the
  live value of `endpoint:<e>` is the count `a` advertises), it is not flagged left; `a` is not
  pending at `r`; and `r`'s routing-table row of `a` has `a`'s addresses and, for every endpoint,
  exactly the count of `a`'s local row = the number of upstreams registered at `a`; its status is
  what `r`'s failure detector last said. -/
theorem C20_system_quiescent_consistent (ops sched : List SysOp) (hall : SysAllowed (sched ++ ops))
    (hq : ∀ op ∈ sched, op.quiet.isSome = true)
    (hjoins : ∀ r b, r ≠ b → ((Piko.Sys.runRev ops).node r).isSome = true →
      ((Piko.Sys.runRev ops).node b).isSome = true → ∃ now, SysOp.join r b true now ∈ sched)
    (hnl : ∀ n x, (Piko.Sys.runRev (sched ++ ops)).node n = some x → (Gossip.own x.mgr.gossip).left = false)
    (haddr : ∀ n x, (Piko.Sys.runRev (sched ++ ops)).node n = some x →
      x.mgr.cluster.localNode.proxyAddr ≠ "" ∧ x.mgr.cluster.localNode.adminAddr ≠ "")
    (hsmall : ∀ n x e, (Piko.Sys.runRev (sched ++ ops)).node n = some x → (x.mgr.registry e).length < 2 ^ 63)
    (a : String) (xa : SysNode) (ha : (Piko.Sys.runRev (sched ++ ops)).node a = some xa) :
    (∀ e, xa.mgr.cluster.localNode.endpoints.find e =
        (if (xa.mgr.registry e).length = 0 then none else some ((xa.mgr.registry e).length : Int)) ∧
      advertised xa.mgr e =
        (if (xa.mgr.registry e).length = 0 then none else some (toString (xa.mgr.registry e).length))) ∧
    (∀ r xr, r ≠ a → (Piko.Sys.runRev (sched ++ ops)).node r = some xr →
      ∃ V row, xr.mgr.gossip.nodes.find a = some V ∧ V.version = (Gossip.own xa.mgr.gossip).version ∧
        V.left = false ∧
        (∀ k, V.entries.find k = (Gossip.own xa.mgr.gossip).entries.find k) ∧
        (∀ e, (V.entries.find ("endpoint:" ++ e)).bind (fun en => if en.deleted then none else some en.value) =
          advertised xa.mgr e) ∧
        xr.sync.pending.find a = none ∧
        xr.mgr.cluster.nodes.find a = some row ∧ row.id = a ∧
        row.proxyAddr = xa.mgr.cluster.localNode.proxyAddr ∧
        row.adminAddr = xa.mgr.cluster.localNode.adminAddr ∧
        row.status = (if V.unreachable then Cluster.Status.unreachable else Cluster.Status.active) ∧
        ∀ e, row.endpoints.find e = xa.mgr.cluster.localNode.endpoints.find e ∧
          row.endpoints.find e =
            if (xa.mgr.registry e).length = 0 then none else some ((xa.mgr.registry e).length : Int)) := by
  have hlocal : ∀ e, xa.mgr.cluster.localNode.endpoints.find e =
        (if (xa.mgr.registry e).length = 0 then none else some ((xa.mgr.registry e).length : Int)) ∧
      advertised xa.mgr e =
        (if (xa.mgr.registry e).length = 0 then none else some (toString (xa.mgr.registry e).length)) := by
    intro e
    obtain ⟨⟨row, _, _, hloc, hc⟩, hadv⟩ := C20_system_local_consistent _ hall a xa ha e
    exact ⟨by rw [hloc]; exact hc, hadv⟩
  refine ⟨hlocal, ?_⟩
  intro r xr hne hr
  obtain ⟨V, hV, hver⟩ := C04_caught_up_after_settle ops sched hall hq hjoins r a hne xr xa hr ha
  obtain ⟨hpend, row, hrow, _, hid, hp, hq', hes, hst⟩ := C04_mirror_system _ hall r a hne xr xa hr ha V hV hver
    (hnl a xa ha) (haddr a xa ha).1 (haddr a xa ha).2 (fun e => hsmall a xa e ha)
  have hexact := Piko.Sys.caught_up_exact _ hall hne hr ha hV hver
  have hleft : V.left = false := by
    obtain ⟨sdr, gr, hsr, hgr, rfl⟩ := Piko.Sys.node_eq hr
    obtain ⟨sda, ga, hsa, hga, rfl⟩ := Piko.Sys.node_eq ha
    exact (sysInv_runRev _ hall).view_not_left hgr hga hV (hnl a _ ha)
  refine ⟨V, row, hV, hver, hleft, hexact, fun e => ?_, hpend, hrow, hid, hp, hq', hst,
    fun e => ⟨by rw [hes e, (hlocal e).1], hes e⟩⟩
  rw [hexact]
  show _ = Gossip.liveValue xa.mgr.gossip ("endpoint:" ++ e)
  unfold Gossip.liveValue
  cases (Gossip.own xa.mgr.gossip).entries.find ("endpoint:" ++ e) <;> rfl

/-! ### non-vacuity (system level): the concrete three-node run of `Props/C04.lean`

`SysEx.hist` (three boots; upstream 3 registers `foo` on `n1`, upstream 5 registers `foo` on `n2`,
upstream 7 registers `bar` on `n1` and disconnects) is evaluated by `decide` (`SysEx.final_node`); the
six exchanges of `SysEx.sched` are discharged by the theorems. -/

section SysExample
open Piko.SysEx

/-- in the final state `n1`'s three stores agree - one upstream of `foo`, none of `bar` (withdrawn) -
and `n0`'s copies agree with them: its gossip view of `n1` shows the live count `"1"` for `foo` and no
live entry for `bar`, its routing-table row of `n1` is `active` and lists `foo ↦ 1` and no `bar`. -/
example : ∃ x0 x1 V row,
    (Piko.Sys.runRev (sched ++ hist)).node "n0" = some x0 ∧ (Piko.Sys.runRev (sched ++ hist)).node "n1" = some x1 ∧
    x1.mgr.registry "foo" = [3] ∧ x1.mgr.registry "bar" = [] ∧
    x1.mgr.cluster.localNode.endpoints.find "foo" = some 1 ∧ advertised x1.mgr "foo" = some "1" ∧
    x1.mgr.cluster.localNode.endpoints.find "bar" = none ∧ advertised x1.mgr "bar" = none ∧
    x0.mgr.gossip.nodes.find "n1" = some V ∧ V.left = false ∧
    (V.entries.find ("endpoint:" ++ "foo")).bind (fun en => if en.deleted then none else some en.value) = some "1" ∧
    (V.entries.find ("endpoint:" ++ "bar")).bind (fun en => if en.deleted then none else some en.value) = none ∧
    x0.mgr.cluster.nodes.find "n1" = some row ∧ row.status = .active ∧
    row.endpoints.find "foo" = some 1 ∧ row.endpoints.find "bar" = none := by
  obtain ⟨x0, h0⟩ := final_exists "n0" (Or.inl rfl)
  obtain ⟨x1, h1⟩ := final_exists "n1" (Or.inr (Or.inl rfl))
  have hfoo : x1.mgr.registry "foo" = [3] := by rw [registry_final h1]; simp
  have hbar : x1.mgr.registry "bar" = [] := by rw [registry_final h1]; simp
  obtain ⟨hloc, hrem⟩ := C20_system_quiescent_consistent hist sched allowed quiet joins healthy.notLeft
    healthy.addrs healthy.small "n1" x1 h1
  obtain ⟨V, row, hV, _, hleft, _, hadv, _, hrow, _, _, _, hst, hes⟩ := hrem "n0" x0 (by decide) h0
  have l1 := hloc "foo"
  have l2 := hloc "bar"
  have a1 := hadv "foo"
  have a2 := hadv "bar"
  have e1 := (hes "foo").2
  have e2 := (hes "bar").2
  rw [hfoo] at l1 e1
  rw [hbar] at l2 e2
  rw [l1.2] at a1
  rw [l2.2] at a2
  have hunr := healthy.reachable "n0" x0 "n1" V h0 hV (by decide)
  refine ⟨x0, x1, V, row, h0, h1, hfoo, hbar, by simpa using l1.1, by rw [l1.2]; decide, by simpa using l2.1,
    by simpa using l2.2, hV, hleft, by rw [a1]; decide, by simpa using a2, hrow, by rw [hst, hunr]; rfl,
    by simpa using e1, by simpa using e2⟩

/-- `C20_system_local_consistent` needs no settling: right after `hist`, before any gossip exchange -/
example : ∃ x1, (Piko.Sys.runRev hist).node "n1" = some x1 ∧ x1.mgr.registry "foo" = [3] ∧
    x1.mgr.cluster.localNode.endpoints.find "foo" = some 1 ∧ advertised x1.mgr "foo" = some "1" := by
  cases hx : (Piko.Sys.runRev hist).node "n1" with
  | none => have := hist_n1; simp [summary, hx] at this
  | some x1 =>
    have hs := hist_n1
    simp only [summary, hx, Option.map_some, Option.some.injEq, Prod.mk.injEq] at hs
    have hfoo : x1.mgr.registry "foo" = [3] := by simp [Upstream.Mgr.registry, hs.1]
    obtain ⟨⟨row, _, _, hloc, hc⟩, hadv⟩ :=
      C20_system_local_consistent hist (sysAllowed_append sched hist allowed) "n1" x1 hx "foo"
    rw [hfoo] at hc hadv
    exact ⟨x1, rfl, hfoo, by rw [hloc]; simpa using hc, by rw [hadv]; decide⟩

end SysExample

end Piko
