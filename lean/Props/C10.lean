import Proofs.Auth
/-!
# C10 — Tokens are confined to their endpoints and tenants

Models: `Token.EndpointPermitted` and `MultiTenantVerifier.Verify`
(`PikoModel/Auth/Verifier.lean`), the token checks of `proxyHTTPRoute`, `proxyTCPRoute`,
`upstreamRoute` and `EndpointIDFromRequest` (`PikoModel/Auth/Middleware.lean`).
-/
namespace Piko
open Piko.Auth

/-- `EndpointPermitted`: a token without an endpoint list may use any endpoint, otherwise
exactly the listed strings (string equality: no prefix, case or normalisation rule). -/
theorem C10_permitted (t : Token) (e : String) :
    endpointPermitted t e = true ↔ t.endpoints = [] ∨ e ∈ t.endpoints := by
  unfold endpointPermitted
  simp [List.contains_iff_mem, List.length_eq_zero_iff]

/-- In all three route functions the endpoint id handed to `EndpointPermitted` is the very
string the request is then routed to (`Select`) or registered under (`NewConnUpstream` /
`AddConn`), and it is the one named by the request: the `x-piko-endpoint` header when
present — also when the `Host` names another endpoint — else the first label of a dotted,
non-IP `Host`; the path parameter for the TCP and upstream routes.  Without a token in the
context (authentication off) nothing is checked. -/
theorem C10_checked_is_routed (tok : Option Token) :
    (∀ xep host isIP checked routed tenant,
      proxyHTTPRoute tok xep host isIP = .proceed checked routed tenant →
        routed = endpointIdFromRequest xep host isIP ∧ routed ≠ "" ∧
        (xep ≠ "" → routed = xep) ∧
        (tok.isSome → checked = some routed) ∧ (tok = none → checked = none)) ∧
    (∀ param checked routed tenant,
      proxyTCPRoute tok param = .proceed checked routed tenant →
        routed = param ∧ (tok.isSome → checked = some routed) ∧ (tok = none → checked = none)) ∧
    (∀ param checked routed tenant,
      upstreamRoute tok param = .proceed checked routed tenant →
        routed = param ∧ (tok.isSome → checked = some routed) ∧ (tok = none → checked = none)) := by
  have key : ∀ e checked routed tenant, checkAndRoute tok e = .proceed checked routed tenant →
      routed = e ∧ (tok.isSome → checked = some routed) ∧ (tok = none → checked = none) := by
    intro e checked routed tenant h
    unfold checkAndRoute at h
    cases tok with
    | none =>
      simp only [RouteResult.proceed.injEq] at h
      obtain ⟨h1, h2, _⟩ := h
      exact ⟨h2.symm, by simp, fun _ => h1.symm⟩
    | some t =>
      simp only at h
      split at h
      · cases h
      · simp only [RouteResult.proceed.injEq] at h
        obtain ⟨h1, h2, _⟩ := h
        exact ⟨h2.symm, fun _ => by rw [← h1, h2], by simp⟩
  refine ⟨?_, key, key⟩
  intro xep host isIP checked routed tenant h
  unfold proxyHTTPRoute at h
  simp only at h
  split at h
  · cases h
  · rename_i hne
    obtain ⟨h1, h2, h3⟩ := key _ _ _ _ h
    refine ⟨h1, by rw [h1]; exact hne, ?_, h2, h3⟩
    intro hx
    rw [h1]
    unfold endpointIdFromRequest
    simp [hx]

/-- Confinement: whenever a route function lets a request carrying token `t` proceed, the
endpoint it is routed to / registered under is permitted by `t`: any endpoint for a token
without a list, otherwise a member of the list. -/
theorem C10_confined (t : Token) :
    (∀ xep host isIP checked routed tenant,
      proxyHTTPRoute (some t) xep host isIP = .proceed checked routed tenant →
        (t.endpoints = [] ∨ routed ∈ t.endpoints) ∧ tenant = t.tenant) ∧
    (∀ param checked routed tenant,
      proxyTCPRoute (some t) param = .proceed checked routed tenant →
        (t.endpoints = [] ∨ routed ∈ t.endpoints) ∧ tenant = t.tenant) ∧
    (∀ param checked routed tenant,
      upstreamRoute (some t) param = .proceed checked routed tenant →
        (t.endpoints = [] ∨ routed ∈ t.endpoints) ∧ tenant = t.tenant) := by
  have key : ∀ e checked routed tenant, checkAndRoute (some t) e = .proceed checked routed tenant →
      (t.endpoints = [] ∨ routed ∈ t.endpoints) ∧ tenant = t.tenant := by
    intro e checked routed tenant h
    unfold checkAndRoute at h
    simp only at h
    split at h
    · cases h
    · rename_i hp
      simp only [RouteResult.proceed.injEq] at h
      obtain ⟨_, h2, h3⟩ := h
      have := (C10_permitted t e).mp (by simpa using hp)
      exact ⟨by rw [← h2]; exact this, h3.symm⟩
  refine ⟨?_, key, key⟩
  intro xep host isIP checked routed tenant h
  unfold proxyHTTPRoute at h
  simp only at h
  split at h
  · cases h
  · exact key _ _ _ _ h

/-- End to end on a protected port: if the middleware accepts the request and the route
function lets it proceed, the endpoint routed to is permitted by the `endpoints` claim
**as signed** in the presented token (the claim cannot be widened on the way). -/
theorem C10_confined_request (facts : String → TokenFacts) (m : MTCfg) (hwf : m.wf) (now : Int)
    (r : Req) (t : Token) (h : authorize facts m now r = .accept t)
    (e : String) (checked : Option String) (routed tenant : String)
    (hr : checkAndRoute (some t) e = .proceed checked routed tenant) :
    ∃ ts, chosenHeader r = "Bearer " ++ ts ∧
      ((facts ts).endpoints = [] ∨ routed ∈ (facts ts).endpoints) ∧ routed = e ∧ tenant = r.tenant := by
  obtain ⟨ts, _, _, _, _, hform, _, _, _, _, _, _, _, _, _, hep, hten⟩ :=
    authorize_accept_sound facts m hwf now r t h
  have hc := (C10_confined t).2.1 e checked routed tenant hr
  have hk := (C10_checked_is_routed (some t)).2.1 e checked routed tenant hr
  exact ⟨ts, hform, by rw [← hep]; exact hc.1, hk.1, by rw [hc.2, hten]⟩

/-- Tenants.  A token is accepted under tenant header `tenant` only if (a) no tenant is
configured, the header is empty and the default verifier accepted it, or (b) the header
names a configured tenant and **that tenant's** verifier accepted it — then the token
handed on carries that tenant id.  The default verifier is never consulted once a tenant
is configured. -/
theorem C10_tenant (m : MTCfg) (now : Int) (tok : TokenFacts) (tenant : String) (t : Token)
    (h : verifyMT m now tok tenant = .ok t) :
    (m.tenants = [] ∧ tenant = "" ∧ verify "" m.dflt now tok = .ok t) ∨
    (tenant ≠ "" ∧ t.tenant = tenant ∧
      ∃ c t0, (tenant, c) ∈ m.tenants ∧ verify tenant c now tok = .ok t0 ∧ t = { t0 with tenant := tenant }) := by
  rcases verifyMT_ok h with ⟨h1, h2, h3⟩ | ⟨h1, c, t0, hf, hv, rfl⟩
  · exact Or.inl ⟨h2, h1, h3⟩
  · exact Or.inr ⟨h1, rfl, c, t0, find_some_mem hf, hv, rfl⟩

/-- Requests naming no tenant or an unknown tenant while tenants are configured, and
requests naming any tenant while none is configured, are refused with `ErrUnknownTenant`
(→ 401 "unknown tenant") without any verifier being asked. -/
theorem C10_tenant_reject (m : MTCfg) (now : Int) (tok : TokenFacts) (tenant : String) :
    (m.tenants ≠ [] → tenant = "" → verifyMT m now tok tenant = .err .unknownTenant) ∧
    (tenant ≠ "" → m.find tenant = none → verifyMT m now tok tenant = .err .unknownTenant) ∧
    (tenant ≠ "" → m.tenants = [] → verifyMT m now tok tenant = .err .unknownTenant) := by
  refine ⟨?_, ?_, ?_⟩
  · intro h1 h2
    unfold verifyMT
    simp [h1, h2]
  · intro h1 h2
    unfold verifyMT
    simp [h1, h2]
  · intro h1 h2
    unfold verifyMT MTCfg.find
    simp [h1, h2]

/-- A token signed with a key of one verifier (the default one or a tenant's) is never
accepted under another tenant: acceptance under `tenant` needs a signature by a key of
`tenant`'s own verifier. -/
theorem C10_cross_tenant (m : MTCfg) (hwf : m.wf) (now : Int) (tok : TokenFacts)
    (owner : String) (k : KeyRef) (hs : tok.signer = .key owner k) (tenant : String)
    (hne : owner ≠ tenant) (t : Token) : verifyMT m now tok tenant ≠ .ok t := by
  intro h
  rcases verifyMT_ok h with ⟨h1, h2, h3⟩ | ⟨h1, c, t0, hf, hv, _⟩
  · obtain ⟨_, ⟨k', _, s1, _, _⟩, _⟩ := verify_sound (hwf.1 h2) h3
    rw [hs] at s1
    simp only [Signer.key.injEq] at s1
    exact hne (by rw [s1.1, h1])
  · obtain ⟨_, ⟨k', _, s1, _, _⟩, _⟩ := verify_sound (hwf.2 _ (find_some_mem hf)) hv
    rw [hs] at s1
    simp only [Signer.key.injEq] at s1
    exact hne s1.1

/-! ## Non-vacuity -/

section Examples

def c10Tok : Token := { endpoints := ["ep", "my-endpoint"], tenant := "t1" }

/-- conflicting addressing: the header wins and is what is checked and routed -/
example : proxyHTTPRoute (some c10Tok) "ep" "other.piko.example.com" false = .proceed (some "ep") "ep" "t1" := by
  decide
example : proxyHTTPRoute (some c10Tok) "other" "ep.piko.example.com" false = .notPermitted "other" := by decide
example : proxyHTTPRoute (some c10Tok) "" "ep.piko.example.com" false = .proceed (some "ep") "ep" "t1" := by decide
/-- near misses: prefix, case, trailing dot in the name -/
example : proxyTCPRoute (some c10Tok) "ep2" = .notPermitted "ep2" := by decide
example : proxyTCPRoute (some c10Tok) "EP" = .notPermitted "EP" := by decide
example : upstreamRoute (some c10Tok) "ep." = .notPermitted "ep." := by decide
example : upstreamRoute (some c10Tok) "my-endpoint" = .proceed (some "my-endpoint") "my-endpoint" "t1" := by decide
example : proxyHTTPRoute none "" "10.0.0.1" true = .badRequest := by decide

def c10M : MTCfg :=
  { dflt := { hmac := true }, tenants := [("t1", { hmac := true }), ("t2", { ecdsa := true })] }

def c10Facts (owner : String) : TokenFacts :=
  { wellFormed := true, alg := "HS256", signer := .key owner .hmac, endpoints := ["ep"] }

example : verifyMT c10M 0 (c10Facts "t1") "t1" = .ok { endpoints := ["ep"], tenant := "t1" } := by decide
/-- tenant t1's token under tenant t2, the default key under t1, no tenant, unknown tenant -/
example : verifyMT c10M 0 (c10Facts "t1") "t2" = .err .invalid := by decide
example : verifyMT c10M 0 (c10Facts "") "t1" = .err .invalid := by decide
example : verifyMT c10M 0 (c10Facts "") "" = .err .unknownTenant := by decide
example : verifyMT c10M 0 (c10Facts "t1") "t3" = .err .unknownTenant := by decide
example : c10M.wf := by
  constructor
  · intro h; cases h
  · intro p hp
    simp only [c10M, List.mem_cons, List.mem_nil_iff, or_false] at hp
    rcases hp with rfl | rfl <;> decide

end Examples

end Piko
