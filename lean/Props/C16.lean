import Proofs.Session
import PikoModel.Generated.Facts
/-!
# C16 — Upstreams are registered exactly while connected; expiry ends connections

Model: `PikoModel/Upstream/Session.lean` — the handler `upstreamRoute` of
`server/upstream/server.go` as a per-connection state machine
`accepted → registered → exiting(reason) → released`, any number of connections composed with
the manager model of C05 (`AddConn` at registration, `RemoveConn` at release and from the proxy
on `ErrGone`).  One event = one mutex-protected call of the real code, so the theorems over
**all event lists** cover every interleaving of every number of connections on shared and
distinct endpoints.  `reachS id proxy admin evs` is the state after `evs` from a fresh node.

Proved here: the logic of the handler and the registry.  **Partial**: that the runtime
delivers the modelled accept error for each cause (yamux, gorilla/websocket, `context`
timers — `Reason.acceptErr` is assumed), and *when* it does (the deadline fires at the token
expiry): those are exercised by the correspondence engine `session` on the real server.
-/
namespace Piko
open Piko.Upstream Piko.Upstream.Session

/-- Every way the accept loop can fail leaves the handler — there is no error branch that
keeps looping — and only a successful accept continues.  In every reachable state an exiting
handler has run exactly a prefix of `[RemoveConn, removeSession, sess.Close, conn.Close]` and
still has a next deferred call to run; its next step runs that call and nothing else of its
own; a released handler has run all four and is in neither the registry nor the session set. -/
theorem C16_all_exits_release :
    (∀ e : AcceptErr, (loopBranch (.err e)).returns = true) ∧
    (loopBranch .stream).returns = false ∧
    (∀ (id proxy admin : String) (evs : List Ev) (c : Nat) (conn : Conn),
      (reachS id proxy admin evs).conns.find c = some conn →
      (∀ r ds, conn.phase = .exiting r ds → conn.did ++ ds = exitDefers ∧ ds ≠ []) ∧
      (∀ r d ds, conn.phase = .exiting r (d :: ds) →
        ∃ conn', ((reachS id proxy admin evs).step (.defer c)).conns.find c = some conn' ∧
          conn'.did = conn.did ++ [d] ∧
          conn'.phase = (if ds.isEmpty then Phase.released else Phase.exiting r ds)) ∧
      (conn.phase = .released →
        conn.did = exitDefers ∧
        c ∉ (reachS id proxy admin evs).mgr.registry conn.ep ∧
        c ∉ (reachS id proxy admin evs).sessions)) := by
  refine ⟨?_, rfl, ?_⟩
  · intro e; cases e <;> rfl
  · intro id proxy admin evs c conn hf
    have hinv := sinv_reach id proxy admin evs
    have hwf := hinv.wf c conn hf
    refine ⟨?_, ?_, ?_⟩
    · intro r ds hp
      simpa [Conn.Wf, hp] using hwf
    · intro r d ds hp
      simp only [Srv.step, hf, hp, Srv.setConn, AMap.find_insert_self]
      exact ⟨_, rfl, rfl, rfl⟩
    · intro hp
      refine ⟨by simpa [Conn.Wf, hp] using hwf, ?_, ?_⟩
      · intro hin
        have := (reg_self hinv hf conn.ep).mp hin
        simp [Conn.inReg, hp, Phase.holdsReg] at this
      · intro hin
        have := (sess_self hinv hf).mp hin
        simp [hp, Phase.holdsSession] at this

/-- For ANY interleaving of the events of any number of connections: once every connection
is released, the manager holds no balancer (`Endpoints()` is empty), the cluster-local
endpoint map is empty, no `endpoint:` entry of the node's gossip state is live, and the
session set is empty.  (Uses the manager invariant of C05, hence the D1 repair: the handler's
late `RemoveConn` after the proxy's `ErrGone` removal is a no-op.) -/
theorem C16_quiescent_empty (id proxy admin : String) (evs : List Ev)
    (h : (reachS id proxy admin evs).allReleased) :
    (reachS id proxy admin evs).mgr.lbs = [] ∧
    (reachS id proxy admin evs).mgr.endpoints = [] ∧
    (reachS id proxy admin evs).mgr.cluster.localNode.endpoints = [] ∧
    (∀ e, advertised (reachS id proxy admin evs).mgr e = none) ∧
    (reachS id proxy admin evs).sessions = [] := by
  have hinv := sinv_reach id proxy admin evs
  have hreg : ∀ e, (reachS id proxy admin evs).mgr.registry e = [] := by
    intro e
    apply List.eq_nil_iff_forall_not_mem.mpr
    intro c hin
    obtain ⟨conn, hf, _, hr⟩ := (hinv.reg c e).mp hin
    have hp := h c conn hf
    simp [Conn.inReg, hp, Phase.holdsReg] at hr
  obtain ⟨h1, h2, h3⟩ := empty_of_registry_nil hinv.mgr hreg
  refine ⟨h1, by simp [Mgr.endpoints, h1], h2, h3, ?_⟩
  apply List.eq_nil_iff_forall_not_mem.mpr
  intro c hin
  obtain ⟨conn, hf, hs⟩ := (hinv.sess c).mp hin
  have hp := h c conn hf
  simp [hp, Phase.holdsSession] at hs

/-- In every reachable state: connection `c` is registered for endpoint `e` **iff** it is a
connection for `e` that holds a registry slot (phase `registered`, or exiting with its deferred
`RemoveConn` not yet run) and was not lazily removed by the proxy; each connection is
registered at most once; and the session set is exactly the connections whose phase holds
the session. -/
theorem C16_registered_iff_open (id proxy admin : String) (evs : List Ev) (c : Nat) (e : String) :
    (c ∈ (reachS id proxy admin evs).mgr.registry e ↔
      ∃ conn, (reachS id proxy admin evs).conns.find c = some conn ∧ conn.ep = e ∧
        conn.phase.holdsReg = true ∧ conn.lazy = false) ∧
    ((reachS id proxy admin evs).mgr.registry e).Nodup ∧
    (c ∈ (reachS id proxy admin evs).sessions ↔
      ∃ conn, (reachS id proxy admin evs).conns.find c = some conn ∧
        conn.phase.holdsSession = true) := by
  have hinv := sinv_reach id proxy admin evs
  refine ⟨?_, hinv.nodup e, hinv.sess c⟩
  rw [hinv.reg c e]
  constructor
  · rintro ⟨conn, hf, he, hr⟩
    refine ⟨conn, hf, he, ?_⟩
    simpa [Conn.inReg] using hr
  · rintro ⟨conn, hf, he, hr, hl⟩
    exact ⟨conn, hf, he, by simp [Conn.inReg, hr, hl]⟩

/-- With a faithful proxy (it removes an upstream only after `ErrGone`, i.e. after the
client's go-away), a connection that never sent go-away is registered **iff** it holds a
registry slot: the only slack in "registered ⇔ connected" is the documented lazy removal
after go-away. -/
theorem C16_registered_iff_open_no_goaway (id proxy admin : String) (evs : List Ev)
    (hfaith : FaithfulRun (Srv.init id proxy admin) evs) (c : Nat) (conn : Conn)
    (hf : (reachS id proxy admin evs).conns.find c = some conn) (hg : conn.goneAway = false) :
    c ∈ (reachS id proxy admin evs).mgr.registry conn.ep ↔ conn.phase.holdsReg = true := by
  have hl : ∀ (evs : List Ev) (s : Srv),
      (∀ c conn, s.conns.find c = some conn → conn.lazy = true → conn.goneAway = true) →
      FaithfulRun s evs →
      ∀ c conn, (s.run evs).conns.find c = some conn → conn.lazy = true → conn.goneAway = true := by
    intro evs
    induction evs with
    | nil => intro s h _; exact h
    | cons ev evs ih =>
      intro s h hfr
      exact ih (s.step ev) (lazy_goneAway_step h ev hfr.1) hfr.2
  have hlazy : conn.lazy = false := by
    cases hl' : conn.lazy with
    | false => rfl
    | true =>
      have := hl evs (Srv.init id proxy admin) (by intro c conn h; simp [Srv.init] at h) hfaith c conn hf hl'
      rw [hg] at this; cases this
  rw [(C16_registered_iff_open id proxy admin evs c conn.ep).1]
  constructor
  · rintro ⟨conn', hf', _, hr, _⟩
    rw [hf] at hf'; cases hf'; exact hr
  · intro hr; exact ⟨conn, hf, rfl, hr, hlazy⟩

/-- The handler's context deadline equals the token's `exp` iff the claim is present and
`disableDisconnectOnExpiry` is off; otherwise there is none.  A handler without a deadline
never leaves through the expiry branch. -/
theorem C16_deadline (exp : Option Nat) (disable : Bool) (t : Nat) :
    (deadline exp disable = some t ↔ (exp = some t ∧ disable = false)) ∧
    (deadline exp disable = none ↔ (exp = none ∨ disable = true)) ∧
    (∀ (s : Srv) (c : Nat) (conn : Conn), s.conns.find c = some conn → conn.deadline = none →
      s.step (.fail c .expiry) = s) := by
  refine ⟨?_, ?_, ?_⟩
  · cases exp <;> cases disable <;> simp [deadline, tokenExpiry]
  · cases exp <;> cases disable <;> simp [deadline, tokenExpiry]
  · intro s c conn hf hd
    simp [Srv.step, hf, reasonEnabled, hd]

/-! ### non-vacuity -/

/-- the D1 shape on a concrete node: two listeners on one endpoint, the first sends go-away,
the proxy removes it on `ErrGone`, then it closes (its deferred `RemoveConn` is a no-op): the
sibling stays registered and advertised with count 1 while a session is still held for it -/
example :
    let s := ((((reachS "n" "p" "a" []).connect 1 "e" none).connect 2 "e" none).step (.goAway 1)).proxyDial 1
    s.mgr.registry "e" = [2] ∧ s.sessions = [1, 2] ∧
    (s.exit 1 .goAwayClose).mgr.registry "e" = [2] ∧
    advertised (s.exit 1 .goAwayClose).mgr "e" = some "1" ∧
    (s.exit 1 .goAwayClose).sessions = [2] := by
  decide

/-- every connection released (by shed, by expiry) ⇒ the hypotheses of `C16_quiescent_empty`
are met by a non-trivial history -/
example :
    ((((Srv.init "n" "p" "a").connect 1 "e" none).connect 2 "f" (some 5)).exit 2 .expiry).exitAll .shed
      |>.allReleased := by
  intro c conn h
  have hall : ∀ p ∈ (((((Srv.init "n" "p" "a").connect 1 "e" none).connect 2 "f" (some 5)).exit 2 .expiry).exitAll
      .shed).conns, p.2.phase = Phase.released := by decide
  exact hall _ (AMap.mem_of_find h)

example : deadline (some 7) false = some 7 ∧ deadline (some 7) true = none ∧ deadline none false = none := by
  decide

/-- The atomicity `C16_quiescent_empty` inherits from the C05 invariant, as a regenerated fact: the
registry update, the cluster-local count and the gossip entry change inside ONE critical section of the
manager (`manager.mu → cluster.mu`, `manager.mu → gossip.mu` are lock-order edges).  A change that
releases the manager mutex between them (seeds C16, C05, C20 of round 1) stops this from building. -/
theorem C16_facts_atomic :
    ∃ es, Facts.lockEdges = some es ∧ ("manager.mu", "cluster.mu") ∈ es ∧ ("manager.mu", "gossip.mu") ∈ es := by
  decide

end Piko
