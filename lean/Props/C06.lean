import Proofs.Route
/-!
# C06 — At most one inter-node hop; local upstreams are always preferred

Model: `PikoModel/Proxy/Route.lean`.  A cluster (`World`) is any set of nodes, each with its
own manager state (registry) and an **arbitrary** routing view (`Mgr.cluster`: any rows about
the others, right or wrong, any statuses and counts, any proxy addresses), plus the map of
who really listens on which address.  `routeAt lib fuel w entry r choices` follows request `r`
from node `entry`; `choices` resolves Go's map iteration order in `LookupEndpoint`; `lib` are the
results of `net.SplitHostPort`/`net.ParseIP`.  Every theorem is for all of them, for both
routes (`Req.kind = http | tcp path`), and - since `routeAt` is fuel-bounded recursion - for
every fuel: the recursion ends by itself.

A local upstream whose `Dial()` answers `upstream.ErrGone` (`World.gone`: the listener sent a
yamux GoAway, the session is still registered) is removed (`RemoveConn`) by the node that
dialled it and the request is answered 502 there - it is not re-selected and not forwarded.

The forwarding step is the repaired one (1c64d44): `removeConnectionOptions` takes the piko
header names out of `Connection` before the marker is set, so the reverse proxy's hop-by-hop
removal cannot delete the marker (`forwardReqUnrepaired_loses_marker` is the regression).
-/
namespace Piko
open Piko.Proxy Piko.Upstream

/-- For all view combinations, placements, entry nodes, requests (HTTP and TCP route) and
iteration orders: at most two proxy handlers run for one client request (the entry node's and
at most one other), i.e. at most one inter-node hop and one forwarding decision; the
recursion never runs out of fuel once it has 2, so stale or mutually inconsistent routing
tables cannot produce a forwarding loop or request amplification. -/
theorem C06_one_hop (lib : Lib) (fuel : Nat) (w : World) (entry : String) (r : Req) (choices : List Nat) :
    (routeAt lib fuel w entry r choices).1.visited.length ≤ 2 ∧
    (routeAt lib fuel w entry r choices).1.hops ≤ 1 ∧
    (routeAt lib fuel w entry r choices).1.via.length ≤ 1 ∧
    (2 ≤ fuel → (routeAt lib fuel w entry r choices).1.outcome ≠ .outOfFuel) ∧
    (route lib w entry r choices).1.outcome ≠ .outOfFuel := by
  obtain ⟨h1, h2, h3, _⟩ := routeAt_hops lib fuel w entry r choices
  refine ⟨h1, by unfold Result.hops; omega, h2, h3, ?_⟩
  exact (routeAt_hops lib routeFuel w entry r choices).2.2.1 (by decide)

/-- A node that has at least one local upstream for the endpoint the request names handles the
request itself, in zero hops and without any forwarding decision - whatever its routing view
says and whether or not the request carries the forward marker: it delivers it to one of those
upstreams, or, when the one it selected answers `ErrGone`, removes that one and answers 502. -/
theorem C06_local_first (lib : Lib) (w : World) (entry : String) (m : Mgr) (r : Req) (choices : List Nat)
    (e : String) (hn : w.nodes.find entry = some m) (hok : LbOk m)
    (he : endpointOf lib r = some e) (hreg : m.registry e ≠ []) :
    ∃ u, u ∈ m.registry e ∧
      (route lib w entry r choices).1 = { visited := [entry], via := [], outcome := if w.isGone entry e u then .gone entry e u else .served entry e u } ∧
      (route lib w entry r choices).1.hops = 0 := by
  obtain ⟨u, hu, hr⟩ := routeAt_local lib 2 w entry r choices m e hn hok he hreg
  refine ⟨u, hu, hr, ?_⟩
  show (routeAt lib 3 w entry r choices).1.hops = 0
  rw [hr]; rfl

/-- The same for the entry node being in any state reachable from a fresh node by any
sequence of AddConn/RemoveConn/Select, paired with any routing view: if the reference registry
has an upstream for the endpoint, the request is handled there. -/
theorem C06_local_first_reachable (lib : Lib) (w : World) (entry proxy admin : String) (ops : List Op)
    (view : Cluster.State) (r : Req) (choices : List Nat) (e : String)
    (hn : w.nodes.find entry = some { reach entry proxy admin ops with cluster := view })
    (he : endpointOf lib r = some e) (hreg : refRun ops e ≠ []) :
    ∃ u, u ∈ refRun ops e ∧
      (route lib w entry r choices).1 = { visited := [entry], via := [], outcome := if w.isGone entry e u then .gone entry e u else .served entry e u } := by
  obtain ⟨u, hu, hr, _⟩ := C06_local_first lib w entry _ r choices e hn
    (lbOk_reach_view entry proxy admin ops view) he
    (by rw [registry_reach_view]; exact hreg)
  rw [registry_reach_view] at hu
  exact ⟨u, hu, hr⟩

/-- A request that carries the forward marker (`x-piko-forward: true`) is never forwarded:
the receiving node serves it with one of its own upstreams for the endpoint, or answers 502 -
when it has none, or when the upstream it selected answers `ErrGone` (which is then removed,
not replaced by another selection) - or 400 when the request names no endpoint; and the
request piko itself sends on always carries the marker. -/
theorem C06_forwarded_terminal (lib : Lib) (gone : String → Nat → Bool) (m : Mgr) (r : Req) (hok : LbOk m)
    (hf : r.forwarded = true) :
    (∀ e cs r', (handle lib gone m r).1 ≠ .forward e cs r') ∧
    ((endpointOf lib r = none ∧ (handle lib gone m r).1 = .reply400) ∨
     (∃ e, endpointOf lib r = some e ∧
        ((∃ u, u ∈ m.registry e ∧ gone e u = false ∧ (handle lib gone m r).1 = .serve e u) ∨
         (∃ u, u ∈ m.registry e ∧ gone e u = true ∧ (handle lib gone m r).1 = .dialGone e u) ∨
         (m.registry e = [] ∧ (handle lib gone m r).1 = .reply502)))) ∧
    (∀ r0 : Req, (forwardReq r0).forwarded = true) := by
  have h := handle_forwarded lib gone m r hf
  refine ⟨?_, ?_, forwardReq_forwarded⟩
  · intro e cs r' hc
    rcases h with ⟨_, h⟩ | ⟨e0, _, ⟨u, _, _, h⟩ | ⟨u, _, _, h⟩ | ⟨_, h⟩ | ⟨_, h⟩⟩ <;> rw [h] at hc <;> cases hc
  · rcases h with h | ⟨e0, he0, h | h | h | ⟨h, _⟩⟩
    · exact Or.inl h
    · exact Or.inr ⟨e0, he0, Or.inl h⟩
    · exact Or.inr ⟨e0, he0, Or.inr (Or.inl h)⟩
    · exact Or.inr ⟨e0, he0, Or.inr (Or.inr h)⟩
    · exact absurd hok h

/-- the same on the routed request: a client request that already carries the marker ends at
the entry node (no hop, no forwarding decision) -/
theorem C06_forwarded_terminal_route (lib : Lib) (fuel : Nat) (w : World) (entry : String) (r : Req)
    (choices : List Nat) (hf : r.forwarded = true) :
    (routeAt lib fuel w entry r choices).1.visited.length ≤ 1 ∧ (routeAt lib fuel w entry r choices).1.via = [] :=
  ⟨(routeAt_forwarded lib fuel w entry r choices hf).1, (routeAt_forwarded lib fuel w entry r choices hf).2.1⟩

/-- Only the entry node ever takes a forwarding decision, and the row it chooses is never its
own id (`LookupEndpoint` skips the local node): a request is never forwarded to the node it
entered at. -/
theorem C06_no_self (lib : Lib) (fuel : Nat) (w : World) (entry : String) (r : Req) (choices : List Nat)
    (hid : WId w) :
    ∀ p ∈ (routeAt lib fuel w entry r choices).1.via, p.1 = entry ∧ p.2 ≠ entry := by
  intro p hp
  have h1 := routeAt_via_entry lib fuel w entry r choices p hp
  have h2 := routeAt_no_self lib fuel w entry r choices hid p hp
  exact ⟨h1, fun h => h2 (by rw [h1, h])⟩

/-! ### non-vacuity -/
namespace C06Ex

def lib0 : Lib := { splitHostPort := fun _ => none, parseIP := fun _ => false }

def row (id addr e : String) (n : Int := 1) (st : Cluster.Status := .active) : Cluster.Node :=
  { id := id, status := st, proxyAddr := addr, endpoints := [(e, n)] }

def node (id : String) (rows : List Cluster.Node) (lbs : AMap String LB := []) : Mgr :=
  { lbs := lbs,
    cluster := { localId := id, nodes := (id, { id := id, status := .active }) :: rows.map (fun c => (c.id, c)) },
    gossip := default }

/-- three nodes, no upstream anywhere, views in a cycle: n0 believes n1 serves `e`, n1 believes
n2 does, n2 believes n0 does - without the marker this request would circulate for ever -/
def cycle : World :=
  { nodes := [("n0", node "n0" [row "n1" "a1" "e"]), ("n1", node "n1" [row "n2" "a2" "e"]),
              ("n2", node "n2" [row "n0" "a0" "e"])],
    listen := [("a0", "n0"), ("a1", "n1"), ("a2", "n2")] }

example : (route lib0 cycle "n0" { host := "x", epHeader := some "e" } []).1 =
    { visited := ["n0", "n1"], via := [("n0", "n1")], outcome := .noUpstream "n1" } := by decide

/-- the same over the TCP route -/
example : (route lib0 cycle "n2" { host := "x", kind := .tcp "e" } []).1 =
    { visited := ["n2", "n0"], via := [("n2", "n0")], outcome := .noUpstream "n0" } := by decide

/-- two nodes each believing the other serves `e`, with `Connection: x-piko-forward` sent by the
client: one hop (the regression of 1c64d44) -/
def pair : World :=
  { nodes := [("n0", node "n0" [row "n1" "a1" "e"]), ("n1", node "n1" [row "n0" "a0" "e"])],
    listen := [("a0", "n0"), ("a1", "n1")] }

example : (route lib0 pair "n0" { host := "x", epHeader := some "e", conn := [fwdName] } []).1 =
    { visited := ["n0", "n1"], via := [("n0", "n1")], outcome := .noUpstream "n1" } := by decide

/-- a stale row: n0 has an upstream itself and a view that points elsewhere - local first;
n1, whose view points to a dead address, answers 502 "upstream unreachable" -/
def stale : World :=
  { nodes := [("n0", node "n0" [row "n1" "a1" "e" 5] [("e", { ups := [7, 8], next := 1 })]),
              ("n1", node "n1" [row "n2" "dead" "e"])],
    listen := [("a0", "n0"), ("a1", "n1")] }

example : (route lib0 stale "n0" { host := "localhost:8000" } []).1 =
    { visited := ["n0"], via := [], outcome := .badRequest "n0" } := by decide
example : (route { lib0 with splitHostPort := fun _ => some "e.piko.example.com" } stale "n0"
      { host := "e.piko.example.com:8000" } []).1 =
    { visited := ["n0"], via := [], outcome := .served "n0" "e" 8 } := by decide
example : (route lib0 stale "n1" { host := "x", epHeader := some "e" } []).1 =
    { visited := ["n1"], via := [("n1", "n2")], outcome := .unreachable } := by decide

/-- the seeded regression shape: n0 believes n1, n1 has one upstream (7) for `e` that answers
`ErrGone` and believes n2 (or n0) serves `e`: n1 removes it and answers 502 - no second hop -/
def goneW : World :=
  { nodes := [("n0", node "n0" [row "n1" "a1" "e"]),
              ("n1", node "n1" [row "n2" "a2" "e", row "n0" "a0" "e"] [("e", { ups := [7] })]),
              ("n2", node "n2" [])],
    listen := [("a0", "n0"), ("a1", "n1"), ("a2", "n2")],
    gone := [("n1", "e", 7)] }

example : (route lib0 goneW "n0" { host := "x", epHeader := some "e" } []).1 =
    { visited := ["n0", "n1"], via := [("n0", "n1")], outcome := .gone "n1" "e" 7 } := by decide
example : (route lib0 goneW "n0" { host := "x", epHeader := some "e" } []).2.reg "n1" "e" = [] := by decide

end C06Ex
end Piko
