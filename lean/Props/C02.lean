import Proofs.Reach
import Proofs.C11
/-!
# C02 — Gossip never loses, fabricates or rolls back another node's state

Model: `PikoModel/Gossip/State.lean` + `PikoModel/Gossip/Net.lean` (N nodes, a packet pool
that is never consumed: loss, duplication, delay and reordering are all schedules; every
truncation point `cut`, every digest order/sub-list `perm`, relays through third parties).

`runRev ops` is the network after the history `ops` (latest operation first) together with
the ghost history `hist a` of every owner; `AllowedRev ops` is C02's quantifier: any
interleaving of local upserts/deletes/compactions/leaves, digests, deliveries, stream
joins/leaves and liveness rounds, but no expiry (`removeExpiredAt` is outside the property's
quantifier, see DESIGN.md O2), no application write to the two reserved keys (O1), version
counters below 2^64.  Everything is by induction over the history with the invariant
`NetInv` (`Proofs/NetInv.lean`, `Proofs/NetStep.lean`).
-/
namespace Piko
open Piko.Gossip

/-- the view observer `r` holds of owner `a`, and the owner's own current node state -/
structure Observes (g : GNet) (r a : String) (V O : NodeSt) : Prop where
  ne : a ≠ r
  obs : ∃ sr, g.net.nodes.find r = some sr ∧ sr.nodes.find a = some V
  own : ∃ sa, g.net.nodes.find a = some sa ∧ Gossip.own sa = O

theorem viewInv_of_observes {ops : List Op} (h : AllowedRev ops) {r a : String} {V O : NodeSt}
    (ho : Observes (runRev ops) r a V O) : ViewInv ((runRev ops).hist a) O V ∧ OwnerInv ((runRev ops).hist a) O := by
  have hinv := netInv_runRev ops h
  obtain ⟨sr, hsr, hV⟩ := ho.obs
  obtain ⟨sa, hsa, rfl⟩ := ho.own
  have hr := hinv.node r sr hsr
  refine ⟨hr.recv.views a V _ _ hV (by rw [hr.lid]; exact ho.ne) (by simp [GNet.world, hsa]),
    (hinv.node a sa hsa).owner⟩

/-- **Never fabricated.**  Every entry an observer reports about another node was, at some
earlier point of the same history, a current entry of that owner's own state (written by
the owner's local operations: `C02_own_state_only_local`). -/
theorem C02_genuine {ops : List Op} (h : AllowedRev ops) {r a : String} {V O : NodeSt}
    (ho : Observes (runRev ops) r a V O) (k : String) (e : Entry) (hf : V.entries.find k = some e) :
    ∃ pre earlier, ops = pre ++ earlier ∧ ∃ s, (runRev earlier).net.nodes.find a = some s ∧
      e ∈ (own s).entries.vals :=
  hist_sound ops a e ((viewInv_of_observes h ho).1.genuine k e hf)

/-- **Never lost, never stale.**  Whenever the observer reports having seen the owner up to
version `V.version`, every key whose latest write is at or below that version shows exactly
the owner's current entry - value, deletion marker and version. -/
theorem C02_complete {ops : List Op} (h : AllowedRev ops) {r a : String} {V O : NodeSt}
    (ho : Observes (runRev ops) r a V O) (k : String) (e : Entry)
    (hf : O.entries.find k = some e) (hle : e.version ≤ V.version) : V.entries.find k = some e :=
  (viewInv_of_observes h ho).1.complete k e hf hle

/-- **Or is hidden.**  A key the owner no longer holds (its deletion marker was compacted
away) is not visible once the view has reached the owner's compaction marker. -/
theorem C02_hidden_after_compaction {ops : List Op} (h : AllowedRev ops) {r a : String} {V O : NodeSt}
    (ho : Observes (runRev ops) r a V O) (k : String) (hk : O.entries.find k = none)
    (c : Entry) (hc : O.entries.find compactKey = some c) (hcv : c.version ≤ V.version) :
    V.entries.find k = none :=
  let ⟨hv, hown⟩ := viewInv_of_observes h ho
  hv.hidden hown k hk c hc hcv

/-- The reported version never exceeds the owner's, every reported entry is at or below the
reported version, and versions inside one view (and inside the owner's map) identify
entries. -/
theorem C02_version_bounds {ops : List Op} (h : AllowedRev ops) {r a : String} {V O : NodeSt}
    (ho : Observes (runRev ops) r a V O) :
    V.version ≤ O.version ∧ (∀ k e, V.entries.find k = some e → e.version ≤ V.version) ∧
    (∀ k₁ e₁ k₂ e₂, V.entries.find k₁ = some e₁ → V.entries.find k₂ = some e₂ →
      e₁.version = e₂.version → e₁ = e₂) := by
  obtain ⟨hv, hown⟩ := viewInv_of_observes h ho
  exact ⟨hv.le, hv.bounded, fun k₁ e₁ k₂ e₂ h1 h2 he =>
    hown.inj e₁ (hv.genuine k₁ e₁ h1) e₂ (hv.genuine k₂ e₂ h2) he⟩

/-- A view that has caught up with the owner's version is exactly the owner's state (used by
C03). -/
theorem C02_caught_up_exact {ops : List Op} (h : AllowedRev ops) {r a : String} {V O : NodeSt}
    (ho : Observes (runRev ops) r a V O) (heq : V.version = O.version) (k : String) :
    V.entries.find k = O.entries.find k := by
  obtain ⟨hv, hown⟩ := viewInv_of_observes h ho
  cases hO : O.entries.find k with
  | some e =>
    exact hv.complete k e hO (by rw [heq]; exact hown.hb e (hown.cur k e hO))
  | none =>
    cases hV : V.entries.find k with
    | none => rfl
    | some e =>
      exfalso
      have heH := hv.genuine k e hV
      have hek := hv.wf.keyed k e hV
      cases hc : O.entries.find compactKey with
      | some c =>
        have := hv.hidden hown k hO c hc (by rw [heq]; exact hown.hb c (hown.cur _ c hc))
        rw [hV] at this; cases this
      | none =>
        obtain ⟨e', he'⟩ := hown.aboveFloor e heH (by intro c cv hc'; rw [hc] at hc'; cases hc')
        rw [hek, hO] at he'; cases he'

/-- **A node's own published state is changed only by its own local writes.**  For arbitrary
(also hostile) digests, deltas, suspicion verdicts and sweep times, the receive-side
operations leave the local node exactly as it was. -/
theorem C02_own_state_only_local (s : CState) (h : C11.WF s) (op : C11.COp) (hr : op.receiveSide = true) :
    own (op.apply s) = own s :=
  (C11.own_apply_receive h op hr)

/-- **The reported version never moves backwards** (arbitrary, also hostile, deltas): every
remembered node is still remembered after `ApplyDelta` and its version has not decreased. -/
theorem C02_version_monotone (now : Nat) (d : Delta) : ∀ (s : CState) (a : String) (n : NodeSt),
    s.nodes.find a = some n →
    ∃ n', (applyDelta now s d).1.nodes.find a = some n' ∧ n.version ≤ n'.version := by
  unfold applyDelta
  suffices hgen : ∀ (d : Delta) (acc : CState × List Event) (a : String) (n : NodeSt),
      acc.1.nodes.find a = some n →
      ∃ n', (d.foldl (fun acc de => let (s', e) := applyDeltaEntry now acc.1 de; (s', acc.2 ++ e)) acc).1.nodes.find a = some n' ∧
        n.version ≤ n'.version by
    intro s a n hf; exact hgen d (s, []) a n hf
  intro d
  induction d with
  | nil => intro acc a n hf; exact ⟨n, hf, Nat.le_refl _⟩
  | cons de d ih =>
    intro acc a n hf
    rw [List.foldl_cons]
    have hstep : ∃ n1, (applyDeltaEntry now acc.1 de).1.nodes.find a = some n1 ∧ n.version ≤ n1.version := by
      rw [applyDeltaEntry_find]
      by_cases h1 : de.id = acc.1.localId
      · exact ⟨n, by simp [h1, hf], Nat.le_refl _⟩
      · by_cases h2 : de.id = a
        · subst h2
          refine ⟨(applyEntries now ((acc.1.nodes.find de.id).getD { id := de.id, addr := de.addr }) de.entries).1,
            by simp [h1], ?_⟩
          have := (applyEntries_version_mono now de.entries ((acc.1.nodes.find de.id).getD { id := de.id, addr := de.addr })).1
          simp only [hf, Option.getD_some] at this ⊢; exact this
        · exact ⟨n, by simp [h1, h2, hf], Nat.le_refl _⟩
    obtain ⟨n1, hn1, hle1⟩ := hstep
    generalize hacc : (match applyDeltaEntry now acc.1 de with | (s', e) => (s', acc.2 ++ e)) = acc'
    have h1' : acc'.1 = (applyDeltaEntry now acc.1 de).1 := by rw [← hacc]
    obtain ⟨n', hn', hle'⟩ := ih acc' a n1 (by rw [h1']; exact hn1)
    exact ⟨n', hn', Nat.le_trans hle1 hle'⟩

/-- `ApplyDigest` never changes a node that is already remembered (so its version stays). -/
theorem C02_digest_keeps_versions (s : CState) (d : Digest) (a : String) (n : NodeSt)
    (hf : s.nodes.find a = some n) : (applyDigest s d).1.nodes.find a = some n := by
  unfold applyDigest
  suffices hgen : ∀ (d : Digest) (acc : CState × List Event), acc.1.nodes.find a = some n →
      (d.foldl applyDigestEntry acc).1.nodes.find a = some n by
    exact hgen d (s, []) hf
  intro d
  induction d with
  | nil => intro acc h; exact h
  | cons de d ih =>
    intro acc h
    simp only [List.foldl_cons]
    apply ih
    rw [(applyDigestEntry_spec acc de).2 a]
    by_cases hc : acc.1.nodes.find de.id = none ∧ de.left = false ∧ de.id = a
    · obtain ⟨h1, _, h3⟩ := hc; subst h3; rw [h1] at h; cases h
    · rw [if_neg hc]; exact h

/-- non-vacuity: an allowed history after which `n1` observes `n0` at version 1 -/
def exOps : List Op :=
  [Op.join "n1" "n0" true 0, Op.upsert "n0" "k" "v", Op.node "n1" "a1", Op.node "n0" "a0"]

example : AllowedRev exOps := by
  simp [exOps, AllowedRev, StepAllowed, leftKey, compactKey]

set_option maxRecDepth 4000 in
example : ∃ sr V, (runRev exOps).net.nodes.find "n1" = some sr ∧ sr.nodes.find "n0" = some V ∧ V.version = 1 := by
  simp [exOps, runRev, GNet.step, Net.step, Net.setNode, Net.nodeByAddr, localOp, init, own, upsertLocal, writeOwn,
    setOwn, applyDelta, applyDeltaEntry, applyEntries, applyEntry, applyDigest, applyDigestEntry, localDelta,
    deltaEntry, delta, digest, sortDigest, sortDelta, sortByVersion, AMap.find, AMap.insert, AMap.erase, AMap.vals]

end Piko
