import Proofs.MgrSpec
import PikoModel.Generated.Facts
/-!
# C05 — Advertised upstream counts equal the upstreams actually registered

Model: `PikoModel/Upstream/LB.lean` (`LoadBalancedManager` + `cluster.State` local counts +
own gossip entries written by the `OnLocalEndpointUpdate` subscriber).  Every theorem is
over **all** operation lists (any order of connects/disconnects, repeated/late/unknown
removals) from a freshly started node.  The manager mutex serialises the real calls, so an
execution "under concurrency" is some interleaving of the per-upstream scripts:
`C05_interleaving_independent` shows the result does not depend on which.
The model is of the repaired `RemoveConn` (D1).
-/
namespace Piko
open Piko.Upstream

/-- After any operation list: for every endpoint the registry equals the reference
(adds minus effective removes), the cluster-local count equals the number registered
(absent ⇔ 0), and the node's live gossip entry `endpoint:<e>` carries exactly that count
(absent/tombstoned ⇔ 0). -/
theorem C05_counts (id proxy admin : String) (ops : List Op) (e : String) :
    (reach id proxy admin ops).registry e = refRun ops e ∧
    (reach id proxy admin ops).cluster.localNode.endpoints.find e =
      (if (refRun ops e).length = 0 then none else some ((refRun ops e).length : Int)) ∧
    advertised (reach id proxy admin ops) e =
      (if (refRun ops e).length = 0 then none else some (toString (refRun ops e).length)) := by
  have hinv := inv_reach id proxy admin ops
  have hreg := registry_reach id proxy admin ops e
  refine ⟨hreg, ?_, ?_⟩
  · have := hinv.counts e; rw [hreg] at this; exact this
  · have := hinv.adv e; rw [hreg] at this; exact this

/-- An endpoint is advertised if and only if at least one upstream is registered. -/
theorem C05_advertised_iff (id proxy admin : String) (ops : List Op) (e : String) :
    (advertised (reach id proxy admin ops) e).isSome ↔ 0 < ((reach id proxy admin ops).registry e).length := by
  rw [(inv_reach id proxy admin ops).adv e]
  unfold advOpt
  generalize ((reach id proxy admin ops).registry e).length = n
  by_cases h0 : n = 0
  · simp [h0]
  · simp [h0]; omega

/-- A removal of an upstream that is not registered (repeated, late or unknown) changes
nothing at all — the D1 shape. -/
theorem C05_absent_removal_noop (m : Mgr) (u : Up) (h : u.id ∉ m.registry u.ep) :
    m.removeConn u = m := removeConn_absent m u h

/-- Any two interleavings of the same per-upstream scripts advertise the same counts. -/
theorem C05_interleaving_independent (id proxy admin : String) (ops1 ops2 : List Op)
    (h : ∀ u : Up, ops1.filter (touches u) = ops2.filter (touches u)) (e : String) :
    advertised (reach id proxy admin ops1) e = advertised (reach id proxy admin ops2) e ∧
    (reach id proxy admin ops1).cluster.localNode.endpoints.find e =
      (reach id proxy admin ops2).cluster.localNode.endpoints.find e := by
  obtain ⟨_, c1, a1⟩ := C05_counts id proxy admin ops1 e
  obtain ⟨_, c2, a2⟩ := C05_counts id proxy admin ops2 e
  have hl := refRun_length_interleaving ops1 ops2 h e
  rw [a1, a2, c1, c2, hl]
  exact ⟨rfl, rfl⟩

/-- the local routing-table row and the local gossip node are never lost (the Go code
would panic on `LocalNode()` / index a nil map entry otherwise) -/
theorem C05_no_panic_state (id proxy admin : String) (ops : List Op) (e : String) :
    ∀ lb, (reach id proxy admin ops).lbs.find e = some lb → lb.ups ≠ [] ∧ lb.Inv :=
  fun lb h => (inv_reach id proxy admin ops).lbs e lb h

/-- The atomicity the model assumes, as a regenerated fact: `AddConn`/`RemoveConn` update the
cluster-local count and (through the subscriber) the gossip entry **while holding the manager
mutex** - the lock-order extractor sees `manager.mu → cluster.mu` and `manager.mu → gossip.mu`.
If a change moves those calls outside the critical section this stops building. -/
theorem C05_facts_atomic :
    ∃ es, Facts.lockEdges = some es ∧ ("manager.mu", "cluster.mu") ∈ es ∧ ("manager.mu", "gossip.mu") ∈ es := by
  decide

/-- non-vacuity: the D1 history on a concrete node; the second removal is absent and the
sibling stays advertised with count 1 -/
example :
    (reach "n" "p" "a" [.add ⟨1, "e"⟩, .add ⟨2, "e"⟩, .rm ⟨1, "e"⟩, .rm ⟨1, "e"⟩]).registry "e" = [2] ∧
    advertised (reach "n" "p" "a" [.add ⟨1, "e"⟩, .add ⟨2, "e"⟩, .rm ⟨1, "e"⟩, .rm ⟨1, "e"⟩]) "e" = some "1" := by
  decide

end Piko
