import Props.C05
import Props.C15
import Props.C17
import Props.C19
import Props.C12
import Props.C09
import Props.C10
import Props.C20
