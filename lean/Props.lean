import Props.C05
import Props.C15
