import Props.C05
import Props.C15
import Props.C17
