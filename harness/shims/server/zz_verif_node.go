//go:build verif

package server

import (
	"net"

	"github.com/andydunstall/piko/server/gossip"
	"github.com/andydunstall/piko/server/upstream"
)

// Export-only accessors for the `node` engine of the verification harness (C18), injected with
// -overlay; no logic.

// VListeners returns the node's proxy, upstream and admin TCP listeners.
func VListeners(s *Server) (proxy, upstream, admin net.Listener) {
	return s.proxyLn, s.upstreamLn, s.adminLn
}

// VGossiper returns the node's gossip layer (nil before Start).
func VGossiper(s *Server) *gossip.Gossip { return s.gossiper }

// VUpstreamServer returns the node's upstream server.
func VUpstreamServer(s *Server) *upstream.Server { return s.upstreamServer }
