//go:build verif

package gossip

import "time"

// Export-only wrappers for the verification harness (injected with -overlay; no logic).

type VState = clusterState
type VFailureDetector = failureDetector
type VDigestEntry = digestEntry
type VDigest = digest
type VDeltaEntry = deltaEntry
type VDelta = delta
type VDigestHeader = digestHeader
type VDeltaHeader = deltaHeader
type VAccrualFD = accrualFailureDetector
type VPacketListener = packetListener
type VStreamListener = streamListener

const (
	VLeftKey            = leftKey
	VCompactKey         = compactKey
	VNodeExpiry         = nodeExpiry
	VSuspicionThreshold = suspicionThreshold
	VCompactThreshold   = compactThreshold
)

func VNewClusterState(id, addr string, fd failureDetector, w Watcher) *clusterState {
	return newClusterState(id, addr, fd, newMetrics(), w)
}

func VEncodeDigest(h digestHeader, d digest, max int) ([]byte, error) { return encodeDigest(h, d, max) }
func VEncodeDelta(h deltaHeader, d delta, max int) ([]byte, error)    { return encodeDelta(h, d, max) }
func VDecodeDigest(b []byte) (digestHeader, digest, error)            { return decodeDigest(b) }
func VDecodeDelta(b []byte) (deltaHeader, delta, error)               { return decodeDelta(b) }

func VNewAccrualFD(bootstrap time.Duration, sampleSize int) *accrualFailureDetector {
	return newAccrualFailureDetector(bootstrap, sampleSize)
}

// VFDWindow exposes the integer state of one node's arrival window.
func VFDWindow(d *accrualFailureDetector, id string) (ok bool, intervals []int64, index int, isFull bool, sum int64, size int, last time.Time) {
	d.mu.Lock()
	defer d.mu.Unlock()
	w, ok := d.windows[id]
	if !ok {
		return false, nil, 0, false, 0, 0, time.Time{}
	}
	iv := append([]int64(nil), w.intervals.intervals...)
	return true, iv, w.intervals.index, w.intervals.isFull, w.intervals.sum, w.intervals.size(), w.lastTimestamp
}

func VApplyDeltaEntry(s *clusterState, e deltaEntry) {
	s.mu.Lock()
	defer s.mu.Unlock()
	s.applyDeltaEntry(e)
}
