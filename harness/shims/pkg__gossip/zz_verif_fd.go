//go:build verif

package gossip

// Export-only additions for engine fd (C12); no logic.

// VFDNodes returns the ids that currently have an arrival window.
func VFDNodes(d *accrualFailureDetector) []string {
	d.mu.Lock()
	defer d.mu.Unlock()
	ids := make([]string, 0, len(d.windows))
	for id := range d.windows {
		ids = append(ids, id)
	}
	return ids
}
