//go:build verif

package gossip

import (
	"net"

	"go.uber.org/atomic"

	"github.com/andydunstall/piko/pkg/log"
)

// Export-only additions for engine `gossiph` (handler level; C02 C03 C11): a *Gossip that
// is NOT scheduled (no timers, no listener goroutines) so that the harness can call the
// client halves gossip/join/leave/Leave one at a time.  Injected with -overlay; no logic.

// VNewGossipNoSchedule is the struct literal of New() without the listeners and without
// schedule().
func VNewGossipNoSchedule(state *clusterState, config *Config, packetConn net.PacketConn) *Gossip {
	return &Gossip{
		state:  state,
		config: config,
		dialer: &net.Dialer{
			Timeout: streamTimeout,
		},
		packetConn: packetConn,
		metrics:    newMetrics(),
		logger:     log.NewNopLogger(),
		closed:     atomic.NewBool(false),
		shutdownCh: make(chan struct{}),
	}
}

func VGossipNode(g *Gossip, node NodeMetadata) error { return g.gossip(node) }
func VGossipJoin(g *Gossip, addr string) (string, error) { return g.join(addr) }
func VGossipLeave(g *Gossip, addr string) error          { return g.leave(addr) }

// VGossipRound is one gossipRound (peer selection + digest requests).
func VGossipRound(g *Gossip) error { return g.gossipRound() }
