//go:build verif

package gossip

import (
	"net"
	"time"

	"github.com/andydunstall/piko/pkg/log"
)

// Export-only wrappers for engine `codec` (C13): the real packet and stream handlers on
// caller-supplied in-memory connections.  Injected with -overlay; no logic.

type VJoinHeader = joinHeader
type VLeaveHeader = leaveHeader

const (
	VMessageTypeDigest = uint8(messageTypeDigest)
	VMessageTypeDelta  = uint8(messageTypeDelta)
	VMessageTypeJoin   = uint8(messageTypeJoin)
	VMessageTypeLeave  = uint8(messageTypeLeave)
	VSupportedVersion  = supportedVersion
	VStreamTimeout     = streamTimeout
)

func VNewPacketListener(ln net.PacketConn, s *clusterState, fd failureDetector, maxPacketSize int) *packetListener {
	return newPacketListener(ln, s, fd, maxPacketSize, newMetrics(), log.NewNopLogger())
}

func VHandlePacket(l *packetListener, b []byte) error { return l.handlePacket(b) }

func VNewStreamListener(ln net.Listener, s *clusterState, timeout time.Duration) *streamListener {
	return newStreamListener(ln, s, timeout, newMetrics(), log.NewNopLogger())
}

func VHandleConn(l *streamListener, conn net.Conn) error { return l.handleConn(conn) }
