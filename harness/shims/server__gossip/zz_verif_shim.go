//go:build verif

package gossip

import (
	"github.com/andydunstall/piko/pkg/log"
	"github.com/andydunstall/piko/server/cluster"
)

// Export-only wrappers for the verification harness (injected with -overlay; no logic).

type VSyncer = syncer
type VGossiper = gossiper

func VNewSyncer(cs *cluster.State, logger log.Logger) *syncer { return newSyncer(cs, logger) }

func VPendingIDs(s *syncer) []string {
	s.mu.Lock()
	defer s.mu.Unlock()
	var ids []string
	for id := range s.pendingNodes {
		ids = append(ids, id)
	}
	return ids
}
