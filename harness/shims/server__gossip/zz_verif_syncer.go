//go:build verif

package gossip

import "github.com/andydunstall/piko/server/cluster"

// Export-only accessor for the verification harness (engine syncer, C04; no logic):
// copies of the syncer's pending nodes.
func VPendingNodes(s *syncer) []*cluster.Node {
	s.mu.Lock()
	defer s.mu.Unlock()
	var ns []*cluster.Node
	for _, n := range s.pendingNodes {
		ns = append(ns, n.Copy())
	}
	return ns
}
