//go:build verif

package client

import "github.com/andydunstall/yamux"

// Export-only accessor for the `node` engine of the verification harness (C18), injected with
// -overlay; no logic.

// VListenerSession returns the yamux session a listener is currently attached to.
func VListenerSession(l Listener) *yamux.Session {
	ll, ok := l.(*listener)
	if !ok {
		return nil
	}
	return ll.sess
}
