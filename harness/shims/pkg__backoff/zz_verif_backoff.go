//go:build verif

package backoff

import "time"

// Export-only additions for engine backoff (C18), injected with -overlay; no logic.

// VNewState returns a Backoff with every field set.
func VNewState(retries int, minBackoff, maxBackoff time.Duration, attempts int, lastBackoff time.Duration) *Backoff {
	return &Backoff{
		retries:     retries,
		minBackoff:  minBackoff,
		maxBackoff:  maxBackoff,
		attempts:    attempts,
		lastBackoff: lastBackoff,
	}
}

// VAttempts returns the number of granted calls so far.
func VAttempts(b *Backoff) int { return b.attempts }

// VLastBackoff returns the stored last wait.
func VLastBackoff(b *Backoff) time.Duration { return b.lastBackoff }

// VParams returns the constant parameters.
func VParams(b *Backoff) (int, time.Duration, time.Duration) {
	return b.retries, b.minBackoff, b.maxBackoff
}
