//go:build verif

package upstream

import (
	"io"
	"net"

	"github.com/andydunstall/yamux"
)

// Export-only wrappers for the `rebalance` engine of the verification harness (C19), injected
// with -overlay; nothing here decides anything.  The Server itself is built with the exported
// NewServer.

// VSession is the session type Server tracks.
type VSession = yamux.Session

// VNewPipeSession creates a yamux server session the way upstreamRoute does, over one end of an
// in-memory net.Pipe instead of a websocket.  Keep-alives are off (nothing reads the other end)
// and yamux logs are discarded.  The second result is the peer end of the pipe.
func VNewPipeSession() (*yamux.Session, net.Conn) {
	a, b := net.Pipe()
	muxConfig := yamux.DefaultConfig()
	muxConfig.EnableKeepAlive = false
	muxConfig.LogOutput = io.Discard
	sess, err := yamux.Server(a, muxConfig)
	if err != nil {
		panic("yamux server: " + err.Error())
	}
	return sess, b
}

// VAddSession is Server.addSession (what upstreamRoute does after creating the session).
func VAddSession(s *Server, sess *yamux.Session) { s.addSession(sess) }

// VRemoveSession is Server.removeSession (what upstreamRoute's defer does once the session is closed).
func VRemoveSession(s *Server, sess *yamux.Session) { s.removeSession(sess) }

// VOpenSessions is Server.openSessions.
func VOpenSessions(s *Server) int { return s.openSessions() }

// VClientOn starts the listener side of the session (what a connected upstream client runs) on
// the peer end of the pipe, so that the server side can open streams (a proxied request in flight).
func VClientOn(conn net.Conn) *yamux.Session {
	muxConfig := yamux.DefaultConfig()
	muxConfig.EnableKeepAlive = false
	muxConfig.LogOutput = io.Discard
	sess, err := yamux.Client(conn, muxConfig)
	if err != nil {
		panic("yamux client: " + err.Error())
	}
	return sess
}
