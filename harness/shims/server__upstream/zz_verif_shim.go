//go:build verif

package upstream

import "github.com/andydunstall/piko/server/cluster"

// Export-only wrappers for the verification harness (injected with -overlay; no logic).

type VLoadBalancer = loadBalancer

func VNewLB() *loadBalancer { return &loadBalancer{} }

func VLBState(lb *loadBalancer) ([]Upstream, int) {
	return append([]Upstream(nil), lb.upstreams...), lb.nextIndex
}

func VNodeOf(u Upstream) (*cluster.Node, bool) {
	n, ok := u.(*NodeUpstream)
	if !ok {
		return nil, false
	}
	return n.node, true
}
