//go:build verif

package upstream

// Export-only wrapper for the `session` engine of the verification harness (C16), injected
// with -overlay; no logic.

// VSessionShed is Server.shedSessions (the shed path of Rebalance).
func VSessionShed(s *Server, n int) { s.shedSessions(n) }
