//go:build verif

package upstream

// Export-only wrapper for the `session` engine of the verification harness (C16), injected
// with -overlay; no logic.

// VSessionShed is Server.shedSessions (the shed path of Rebalance).
func VSessionShed(s *Server, n int) { s.shedSessions(n) }

// VSessionCancelled reports whether Server.Shutdown has cancelled the context shared by the
// upstream handlers (Server.ctx).
func VSessionCancelled(s *Server) bool { return s.ctx.Err() != nil }
