//go:build verif

package upstream

import "net/http"

// Export-only wrapper for the verification harness (injected with -overlay; no logic).

// VHandler returns the gin engine the upstream server serves.
func VHandler(s *Server) http.Handler { return s.httpServer.Handler }
