module verifharness

go 1.25.5

require (
	github.com/andydunstall/piko v0.0.0
	github.com/gin-gonic/gin v1.11.0
	github.com/golang-jwt/jwt/v5 v5.3.1
	github.com/gorilla/websocket v1.5.3
	github.com/prometheus/client_golang v1.23.2
	go.uber.org/zap v1.27.1
)

require (
	github.com/MicahParks/jwkset v0.11.0 // indirect
	github.com/MicahParks/keyfunc/v3 v3.8.0 // indirect
	github.com/andydunstall/yamux v0.1.6 // indirect
	github.com/beorn7/perks v1.0.1 // indirect
	github.com/cespare/xxhash/v2 v2.3.0 // indirect
	github.com/gabriel-vasile/mimetype v1.4.8 // indirect
	github.com/gin-contrib/sse v1.1.0 // indirect
	github.com/go-playground/locales v0.14.1 // indirect
	github.com/go-playground/universal-translator v0.18.1 // indirect
	github.com/go-playground/validator/v10 v10.27.0 // indirect
	github.com/goccy/go-yaml v1.19.2 // indirect
	github.com/hashicorp/go-sockaddr v1.0.7 // indirect
	github.com/leodido/go-urn v1.4.0 // indirect
	github.com/mattn/go-isatty v0.0.20 // indirect
	github.com/munnerz/goautoneg v0.0.0-20191010083416-a7dc8b61c822 // indirect
	github.com/pelletier/go-toml/v2 v2.2.4 // indirect
	github.com/prometheus/client_model v0.6.2 // indirect
	github.com/prometheus/common v0.66.1 // indirect
	github.com/prometheus/procfs v0.16.1 // indirect
	github.com/quic-go/qpack v0.5.1 // indirect
	github.com/quic-go/quic-go v0.54.0 // indirect
	github.com/spf13/pflag v1.0.10 // indirect
	github.com/ugorji/go/codec v1.3.1 // indirect
	go.uber.org/atomic v1.11.0 // indirect
	go.uber.org/multierr v1.11.0 // indirect
	go.yaml.in/yaml/v2 v2.4.2 // indirect
	golang.org/x/crypto v0.41.0 // indirect
	golang.org/x/net v0.43.0 // indirect
	golang.org/x/sync v0.19.0 // indirect
	golang.org/x/sys v0.35.0 // indirect
	golang.org/x/text v0.28.0 // indirect
	golang.org/x/time v0.9.0 // indirect
	google.golang.org/protobuf v1.36.9 // indirect
)

replace github.com/andydunstall/piko => /repo
