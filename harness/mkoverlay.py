#!/usr/bin/env python3
"""Writes overlay.json: every file under shims/<pkg path with / as __>/ is injected into <repo>/<pkg path>/."""
import json, os, sys
H = os.path.dirname(os.path.abspath(__file__))
repo = sys.argv[1] if len(sys.argv) > 1 else "/repo"
rep = {}
for d in sorted(os.listdir(os.path.join(H, "shims"))):
    for f in sorted(os.listdir(os.path.join(H, "shims", d))):
        if f.endswith(".go"):
            rep[os.path.join(repo, d.replace("__", "/"), f)] = os.path.join(H, "shims", d, f)
json.dump({"Replace": rep}, open(os.path.join(H, "overlay.json"), "w"), indent=1)
