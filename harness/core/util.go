package core

import (
	"encoding/hex"
	"math/rand"
	"sort"
	"strconv"
	"strings"
)

// hx encodes a string as one token: hex of its bytes, "-" for the empty string.
func Hx(s string) string {
	if s == "" {
		return "-"
	}
	return hex.EncodeToString([]byte(s))
}

// unhx decodes a token written by hx.
func Unhx(t string) string {
	if t == "-" {
		return ""
	}
	b, err := hex.DecodeString(t)
	if err != nil {
		panic("bad hex token " + t)
	}
	return string(b)
}

func B01(b bool) string {
	if b {
		return "1"
	}
	return "0"
}

func Atoi(s string) int {
	n, err := strconv.Atoi(s)
	if err != nil {
		panic("bad int " + s)
	}
	return n
}

func SortedJoin(xs []string, sep string) string {
	sort.Strings(xs)
	return strings.Join(xs, sep)
}

func ShowCounts(m map[string]int) string {
	var xs []string
	for k, v := range m {
		xs = append(xs, Hx(k)+":"+strconv.Itoa(v))
	}
	return "[" + SortedJoin(xs, ",") + "]"
}

func Pick[T any](r *rand.Rand, xs []T) T { return xs[r.Intn(len(xs))] }

// someStrings is a small alphabet of ids with awkward members (unicode, spaces, long).
var EpAlphabet = []string{"e", "ep", "ep2", "my-endpoint", "é✓", "a b", "E"}
