// Package core is the implementation-side harness runtime: an engine drives the real piko code with
// operation lines and prints one canonical line per operation (plus ORACLE FAIL lines
// computed directly on the implementation and a final STATS line).
package core

import (
	"bufio"
	"encoding/json"
	"flag"
	"fmt"
	"math/rand"
	"net"
	"os"
	"runtime/debug"
	"strings"
	"time"
)

// Engine is one correspondence engine.
type Engine interface {
	// Gen writes n cases of ops (each starting with a `case` line).
	Gen(r *rand.Rand, n int, tier string, w *bufio.Writer)
	// Reset starts a new case.
	Reset()
	// Step executes one op and returns the canonical output line.
	Step(ws []string, o *Out) string
}

// Out collects oracle failures and statistics.
type Out struct {
	w        *bufio.Writer
	Stats    map[string]int
	caseName string
	fails    int
}

// NewOut returns an Out writing oracle lines to w (used by state-aware generators that
// drive a private engine instance and discard its output).
func NewOut(w *bufio.Writer) *Out { return &Out{w: w, Stats: map[string]int{}} }

func (o *Out) Fail(prop, clause, detail string) {
	o.fails++
	fmt.Fprintf(o.w, "ORACLE FAIL %s %s case=%s %s\n", prop, clause, o.caseName, detail)
}

func (o *Out) Count(k string)      { o.Stats[k]++ }
func (o *Out) Add(k string, n int) { o.Stats[k] += n }

// Main is the entry point of a per-engine binary `h-<engine>`:
//
//	h-<engine> gen -seed S -n N -tier quick|thorough   ops to stdout
//	h-<engine> run  < ops                              outputs to stdout
func Main(e Engine) {
	if len(os.Args) < 2 {
		fmt.Fprintln(os.Stderr, "usage: h-<engine> gen|run [flags]")
		os.Exit(2)
	}
	w := bufio.NewWriterSize(os.Stdout, 1<<20)
	defer w.Flush()
	switch os.Args[1] {
	case "gen":
		fs := flag.NewFlagSet("gen", flag.ExitOnError)
		seed := fs.Int64("seed", 1, "seed")
		n := fs.Int("n", 100, "cases")
		tier := fs.String("tier", "quick", "tier")
		_ = fs.Parse(os.Args[2:])
		e.Gen(rand.New(rand.NewSource(*seed)), *n, *tier, w)
	case "run":
		run(e, w)
	default:
		fmt.Fprintln(os.Stderr, "usage: h-<engine> gen|run [flags]")
		os.Exit(2)
	}
}

func run(e Engine, w *bufio.Writer) {
	o := &Out{w: w, Stats: map[string]int{}}
	sc := bufio.NewScanner(os.Stdin)
	sc.Buffer(make([]byte, 1<<20), 1<<28)
	e.Reset()
	for sc.Scan() {
		l := strings.TrimRight(sc.Text(), "\r\n")
		if l == "" || strings.HasPrefix(l, "#") {
			continue
		}
		ws := strings.Fields(l)
		if ws[0] == "case" {
			e.Reset()
			o.caseName = strings.Join(ws[1:], "_")
			o.Count("cases")
			fmt.Fprintln(w, l)
			continue
		}
		o.Count("ops")
		o.Count("op:" + ws[0])
		line := safeStep(e, ws, o)
		fmt.Fprintln(w, line)
	}
	b, _ := json.Marshal(o.Stats)
	fmt.Fprintf(w, "STATS %s\n", b)
}

func safeStep(e Engine, ws []string, o *Out) (line string) {
	defer func() {
		if r := recover(); r != nil {
			line = "panic"
			o.Count("panics")
			o.Fail("ANY", "panic", fmt.Sprintf("%v %s", r, firstFrames(string(debug.Stack()))))
		}
	}()
	return e.Step(ws, o)
}

func firstFrames(s string) string {
	ls := strings.Split(s, "\n")
	var keep []string
	for _, l := range ls {
		if strings.Contains(l, "/repo/") {
			keep = append(keep, strings.TrimSpace(l))
			if len(keep) >= 3 {
				break
			}
		}
	}
	return strings.Join(keep, " <- ")
}

// ListenRetry is net.Listen that waits out a transient failure (ephemeral ports exhausted by
// connections in TIME_WAIT when many engines share a loaded machine) instead of failing at once.
func ListenRetry(network, addr string) (net.Listener, error) {
	var ln net.Listener
	var err error
	for i := 0; i < 150; i++ {
		if ln, err = net.Listen(network, addr); err == nil {
			return ln, nil
		}
		time.Sleep(time.Duration(20+10*i) * time.Millisecond)
	}
	return nil, err
}
