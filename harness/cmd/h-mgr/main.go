package main

import (
	"verifharness/core"
	"verifharness/eng/mgr"
)

func main() { core.Main(mgr.New()) }
