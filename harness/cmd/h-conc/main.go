// Command h-conc is the implementation side of engine `conc` (C20).
//
//	h-conc gen|run …   the supervisor (core.Main)
//	h-conc worker      one case on a real node, spoken to by the supervisor over pipes
package main

import (
	"os"

	"verifharness/core"
	"verifharness/eng/conc"
)

func main() {
	if len(os.Args) > 1 && os.Args[1] == "worker" {
		conc.WorkerMain()
		return
	}
	core.Main(conc.New())
}
