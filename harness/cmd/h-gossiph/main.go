package main

import (
	"verifharness/core"
	"verifharness/eng/gossiph"
)

func main() { core.Main(gossiph.New()) }
