package main

import (
	"encoding/hex"
	"math/rand"
	"sort"
	"strconv"
	"strings"
)

// hx encodes a string as one token: hex of its bytes, "-" for the empty string.
func hx(s string) string {
	if s == "" {
		return "-"
	}
	return hex.EncodeToString([]byte(s))
}

// unhx decodes a token written by hx.
func unhx(t string) string {
	if t == "-" {
		return ""
	}
	b, err := hex.DecodeString(t)
	if err != nil {
		panic("bad hex token " + t)
	}
	return string(b)
}

func b01(b bool) string {
	if b {
		return "1"
	}
	return "0"
}

func atoi(s string) int {
	n, err := strconv.Atoi(s)
	if err != nil {
		panic("bad int " + s)
	}
	return n
}

func sortedJoin(xs []string, sep string) string {
	sort.Strings(xs)
	return strings.Join(xs, sep)
}

func showCounts(m map[string]int) string {
	var xs []string
	for k, v := range m {
		xs = append(xs, hx(k)+":"+strconv.Itoa(v))
	}
	return "[" + sortedJoin(xs, ",") + "]"
}

func pick[T any](r *rand.Rand, xs []T) T { return xs[r.Intn(len(xs))] }

// someStrings is a small alphabet of ids with awkward members (unicode, spaces, long).
var epAlphabet = []string{"e", "ep", "ep2", "my-endpoint", "é✓", "a b", "E"}
