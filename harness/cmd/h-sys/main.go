package main

import (
	"verifharness/core"
	"verifharness/eng/sys"
)

func main() { core.Main(sys.New()) }
