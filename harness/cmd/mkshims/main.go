// mkshims writes, for one engine, the overlay that injects the export-only shims that engine needs
// into /repo's packages - and nothing else:
//
//   - the shim files under shims/<pkg path with / as __>/ are split into top-level declarations;
//     only the declarations whose V-names the engine's source uses (qualified by the import of that
//     piko package), and the declarations those depend on, are kept.  A package none of whose shims
//     is used gets no file, so an engine is not affected by changes to code it does not touch;
//   - unexported identifiers the kept declarations refer to (functions, methods, types, constants of
//     the piko package) may have been RENAMED in the current tree.  shims/baseline.json records their
//     signatures in the pinned tree; when a recorded name is missing and exactly one declaration that
//     is new in the current tree has the same signature, an alias under the old name is generated
//     (`type old = new`, `const old = new`, a forwarding function or method).  Anything else is left
//     to the compiler: the harness then does not build and the check reports that.
//
// usage: mkshims -repo /repo -engine <name> -out overlay-<name>.json      (run in harness/)
//
//	mkshims -repo /repo -record                                         (rewrites shims/baseline.json)
package main

import (
	"bytes"
	"encoding/json"
	"flag"
	"fmt"
	"go/ast"
	"go/format"
	"go/parser"
	"go/printer"
	"go/token"
	"os"
	"path/filepath"
	"regexp"
	"sort"
	"strings"
)

const modulePath = "github.com/andydunstall/piko/"

type sigEntry struct {
	Kind string `json:"kind"` // func | method | type | const | var
	Recv string `json:"recv,omitempty"`
	Sig  string `json:"sig"`
	// Ord: declaration order within the package (files by name, then offset): used only to pair several
	// renamed declarations that share one signature (addSession/removeSession -> trackSession/untrackSession)
	Ord int `json:"ord,omitempty"`
}

// pkgDecls: name -> signature of every package-level declaration (methods as "Recv.name").
func pkgDecls(dir string) (map[string]sigEntry, error) {
	fset := token.NewFileSet()
	pkgs, err := parser.ParseDir(fset, dir, func(fi os.FileInfo) bool {
		return !strings.HasSuffix(fi.Name(), "_test.go") && !strings.HasPrefix(fi.Name(), "zz_verif_")
	}, 0)
	if err != nil {
		return nil, err
	}
	out := map[string]sigEntry{}
	show := func(n any) string {
		var b bytes.Buffer
		_ = printer.Fprint(&b, fset, n)
		// one line, still parseable: newlines inside braces become `;`
		t := b.String()
		t = regexp.MustCompile(`\{\s*\n`).ReplaceAllString(t, "{ ")
		t = regexp.MustCompile(`\n\s*\}`).ReplaceAllString(t, " }")
		t = strings.ReplaceAll(t, "\n", "; ")
		t = strings.Join(strings.Fields(t), " ")
		for strings.Contains(t, "; ;") {
			t = strings.ReplaceAll(t, "; ;", ";")
		}
		return t
	}
	ord := 0
	for _, p := range pkgs {
		var fnames []string
		for fn := range p.Files {
			fnames = append(fnames, fn)
		}
		sort.Strings(fnames)
		for _, fn := range fnames {
			f := p.Files[fn]
			for _, d := range f.Decls {
				ord++
				switch d := d.(type) {
				case *ast.FuncDecl:
					ft := stripNames(d.Type)
					if d.Recv != nil && len(d.Recv.List) == 1 {
						recv := show(d.Recv.List[0].Type)
						out[strings.TrimPrefix(recv, "*")+"."+d.Name.Name] = sigEntry{Kind: "method", Recv: recv, Sig: show(ft), Ord: ord}
					} else {
						out[d.Name.Name] = sigEntry{Kind: "func", Sig: show(ft), Ord: ord}
					}
				case *ast.GenDecl:
					// a const block that uses iota: every constant is identified by its position in the
					// block together with the block's first (type, expression)
					iotaHead := ""
					for si, s := range d.Specs {
						switch s := s.(type) {
						case *ast.TypeSpec:
							out[s.Name.Name] = sigEntry{Kind: "type", Sig: show(s.Type)}
						case *ast.ValueSpec:
							kind := "var"
							if d.Tok == token.CONST {
								kind = "const"
							}
							if kind == "const" && len(s.Values) > 0 && strings.Contains(show(s.Values[0]), "iota") {
								iotaHead = "= " + show(s.Values[0])
								if s.Type != nil {
									iotaHead = show(s.Type) + " " + iotaHead
								}
							} else if len(s.Values) > 0 {
								iotaHead = ""
							}
							for i, n := range s.Names {
								sig := ""
								if s.Type != nil {
									sig = show(s.Type) + " "
								}
								if i < len(s.Values) {
									sig += "= " + show(s.Values[i])
								}
								if kind == "const" && iotaHead != "" {
									sig = fmt.Sprintf("%s @iota[%d]", iotaHead, si)
								}
								out[n.Name] = sigEntry{Kind: kind, Sig: sig}
							}
						}
					}
				}
			}
		}
	}
	return out, nil
}

// stripNames returns the function type with parameter and result names removed.
func stripNames(ft *ast.FuncType) *ast.FuncType {
	cp := func(fl *ast.FieldList) *ast.FieldList {
		if fl == nil {
			return nil
		}
		out := &ast.FieldList{}
		for _, f := range fl.List {
			n := len(f.Names)
			if n == 0 {
				n = 1
			}
			for i := 0; i < n; i++ {
				out.List = append(out.List, &ast.Field{Type: f.Type})
			}
		}
		return out
	}
	return &ast.FuncType{Params: cp(ft.Params), Results: cp(ft.Results)}
}

type shimDecl struct {
	names []string // names it declares
	src   string   // source text
	refs  map[string]bool
	sels  map[string]bool // selector names x.sel
}

type shimPkg struct {
	dir     string // package path relative to the repo
	pkgName string
	imports map[string]string // local name -> import spec text
	decls   []*shimDecl
}

func loadShimPkg(shimDir, rel string) (*shimPkg, error) {
	fset := token.NewFileSet()
	sp := &shimPkg{dir: rel, imports: map[string]string{}}
	files, _ := filepath.Glob(filepath.Join(shimDir, "*.go"))
	sort.Strings(files)
	for _, fn := range files {
		src, err := os.ReadFile(fn)
		if err != nil {
			return nil, err
		}
		f, err := parser.ParseFile(fset, fn, src, parser.ParseComments)
		if err != nil {
			return nil, err
		}
		sp.pkgName = f.Name.Name
		for _, im := range f.Imports {
			path := strings.Trim(im.Path.Value, `"`)
			name := path[strings.LastIndex(path, "/")+1:]
			spec := im.Path.Value
			if im.Name != nil {
				name = im.Name.Name
				spec = im.Name.Name + " " + im.Path.Value
			}
			sp.imports[name] = spec
		}
		text := func(n ast.Node) string {
			return string(src[fset.Position(n.Pos()).Offset:fset.Position(n.End()).Offset])
		}
		collect := func(n ast.Node, d *shimDecl) {
			ast.Inspect(n, func(x ast.Node) bool {
				switch x := x.(type) {
				case *ast.SelectorExpr:
					d.sels[x.Sel.Name] = true
				case *ast.Ident:
					d.refs[x.Name] = true
				}
				return true
			})
		}
		for _, d := range f.Decls {
			switch d := d.(type) {
			case *ast.FuncDecl:
				sd := &shimDecl{names: []string{d.Name.Name}, refs: map[string]bool{}, sels: map[string]bool{}}
				doc := ""
				if d.Doc != nil {
					doc = text(d.Doc) + "\n"
				}
				sd.src = doc + text(d)
				collect(d, sd)
				sp.decls = append(sp.decls, sd)
			case *ast.GenDecl:
				if d.Tok == token.IMPORT {
					continue
				}
				for _, s := range d.Specs {
					sd := &shimDecl{refs: map[string]bool{}, sels: map[string]bool{}}
					switch s := s.(type) {
					case *ast.TypeSpec:
						sd.names = []string{s.Name.Name}
						sd.src = "type " + text(s)
					case *ast.ValueSpec:
						for _, n := range s.Names {
							sd.names = append(sd.names, n.Name)
						}
						sd.src = d.Tok.String() + " " + text(s)
					}
					collect(s, sd)
					sp.decls = append(sp.decls, sd)
				}
			}
		}
	}
	return sp, nil
}

// usedVNames: V-identifiers the engine's source uses, per piko package path.
func usedVNames(engDirs []string) map[string]map[string]bool {
	out := map[string]map[string]bool{}
	fset := token.NewFileSet()
	for _, dir := range engDirs {
		files, _ := filepath.Glob(filepath.Join(dir, "*.go"))
		for _, fn := range files {
			f, err := parser.ParseFile(fset, fn, nil, 0)
			if err != nil {
				continue
			}
			alias := map[string]string{}
			dot := []string{}
			for _, im := range f.Imports {
				path := strings.Trim(im.Path.Value, `"`)
				if !strings.HasPrefix(path, modulePath) {
					continue
				}
				rel := strings.TrimPrefix(path, modulePath)
				name := path[strings.LastIndex(path, "/")+1:]
				if im.Name != nil {
					name = im.Name.Name
				}
				if name == "." {
					dot = append(dot, rel)
				}
				alias[name] = rel
			}
			ast.Inspect(f, func(x ast.Node) bool {
				if se, ok := x.(*ast.SelectorExpr); ok {
					if id, ok := se.X.(*ast.Ident); ok {
						if rel, ok := alias[id.Name]; ok && isVName(se.Sel.Name) {
							if out[rel] == nil {
								out[rel] = map[string]bool{}
							}
							out[rel][se.Sel.Name] = true
						}
					}
				}
				return true
			})
			_ = dot
		}
	}
	return out
}

// packageImports: local name -> import spec of every import of the package's non-test files.
func packageImports(dir string) map[string]string {
	out := map[string]string{}
	fset := token.NewFileSet()
	files, _ := filepath.Glob(filepath.Join(dir, "*.go"))
	for _, fn := range files {
		if strings.HasSuffix(fn, "_test.go") || strings.HasPrefix(filepath.Base(fn), "zz_verif_") {
			continue
		}
		f, err := parser.ParseFile(fset, fn, nil, parser.ImportsOnly)
		if err != nil {
			continue
		}
		for _, im := range f.Imports {
			path := strings.Trim(im.Path.Value, `"`)
			name := path[strings.LastIndex(path, "/")+1:]
			spec := im.Path.Value
			if im.Name != nil {
				name = im.Name.Name
				spec = im.Name.Name + " " + im.Path.Value
			}
			if name != "_" && name != "." {
				out[name] = spec
			}
		}
	}
	return out
}

// harnessDirs: the directories of this module reachable from the given main package through imports.
func harnessDirs(start string) []string {
	seen := map[string]bool{}
	var out []string
	var walk func(dir string)
	walk = func(dir string) {
		if seen[dir] {
			return
		}
		seen[dir] = true
		out = append(out, dir)
		fset := token.NewFileSet()
		files, _ := filepath.Glob(filepath.Join(dir, "*.go"))
		for _, fn := range files {
			f, err := parser.ParseFile(fset, fn, nil, parser.ImportsOnly)
			if err != nil {
				continue
			}
			for _, im := range f.Imports {
				path := strings.Trim(im.Path.Value, `"`)
				if strings.HasPrefix(path, "verifharness/") {
					walk(strings.TrimPrefix(path, "verifharness/"))
				}
			}
		}
	}
	walk(start)
	return out
}

var vRx = regexp.MustCompile(`^V[A-Z]`)

func isVName(s string) bool { return vRx.MatchString(s) }

func main() {
	repo := flag.String("repo", "/repo", "repository root")
	engine := flag.String("engine", "", "engine name (harness/eng/<name>, harness/cmd/h-<name>)")
	out := flag.String("out", "", "overlay file to write")
	record := flag.Bool("record", false, "rewrite shims/baseline.json from the repository")
	flag.Parse()
	shimRoot := "shims"
	ents, err := os.ReadDir(shimRoot)
	if err != nil {
		fatal(err)
	}
	var rels []string
	for _, e := range ents {
		if e.IsDir() {
			rels = append(rels, strings.ReplaceAll(e.Name(), "__", "/"))
		}
	}
	if *record {
		base := map[string]map[string]sigEntry{}
		for _, rel := range rels {
			d, err := pkgDecls(filepath.Join(*repo, rel))
			if err != nil {
				fatal(err)
			}
			base[rel] = d
		}
		b, _ := json.MarshalIndent(base, "", " ")
		if err := os.WriteFile(filepath.Join(shimRoot, "baseline.json"), append(b, '\n'), 0o644); err != nil {
			fatal(err)
		}
		return
	}
	baseline := map[string]map[string]sigEntry{}
	if b, err := os.ReadFile(filepath.Join(shimRoot, "baseline.json")); err == nil {
		_ = json.Unmarshal(b, &baseline)
	}
	used := usedVNames(harnessDirs(filepath.Join("cmd", "h-"+*engine)))
	genDir := filepath.Join(".shimgen", *engine)
	_ = os.RemoveAll(genDir)
	replace := map[string]string{}
	var notes []string
	for _, rel := range rels {
		want := used[rel]
		if len(want) == 0 {
			continue
		}
		sp, err := loadShimPkg(filepath.Join(shimRoot, strings.ReplaceAll(rel, "/", "__")), rel)
		if err != nil {
			fatal(err)
		}
		byName := map[string]*shimDecl{}
		for _, d := range sp.decls {
			for _, n := range d.names {
				byName[n] = d
			}
		}
		keep := map[*shimDecl]bool{}
		var visit func(d *shimDecl)
		visit = func(d *shimDecl) {
			if keep[d] {
				return
			}
			keep[d] = true
			for r := range d.refs {
				if o, ok := byName[r]; ok {
					visit(o)
				}
			}
		}
		var missing []string
		for n := range want {
			if d, ok := byName[n]; ok {
				visit(d)
			} else {
				missing = append(missing, n)
			}
		}
		if len(missing) > 0 {
			sort.Strings(missing)
			fatal(fmt.Errorf("engine %s uses %v of %s but no shim declares them", *engine, missing, rel))
		}
		cur, err := pkgDecls(filepath.Join(*repo, rel))
		if err != nil {
			fatal(err)
		}
		aliases, an := renameAliases(sp, keep, baseline[rel], cur)
		notes = append(notes, an...)
		fieldRen, fieldRenByType, fn := fieldRenames(rel, baseline[rel], cur)
		notes = append(notes, fn...)
		// assemble the file
		var body strings.Builder
		usedImports := map[string]bool{}
		for _, d := range sp.decls {
			if !keep[d] {
				continue
			}
			src := typedFieldRewrite(d.src, fieldRenByType)
			for o, n := range fieldRen {
				if d.sels[o] {
					src = regexp.MustCompile(`\.`+regexp.QuoteMeta(o)+`\b`).ReplaceAllString(src, "."+n)
				}
				if d.refs[o] {
					// a key of a composite literal: `old: value`
					src = regexp.MustCompile(`(?m)^(\s*)`+regexp.QuoteMeta(o)+`:`).ReplaceAllString(src, "${1}"+n+":")
				}
			}
			body.WriteString(src + "\n\n")
			for r := range d.refs {
				if _, ok := sp.imports[r]; ok {
					usedImports[r] = true
				}
			}
		}
		// imports the generated forwarders need (`io.Reader` in a signature): taken from the package's own files
		pkgImports := packageImports(filepath.Join(*repo, rel))
		for _, a := range aliases {
			body.WriteString(a + "\n\n")
			for name, spec := range pkgImports {
				if regexp.MustCompile(`\b` + regexp.QuoteMeta(name) + `\.[A-Za-z]`).MatchString(a) {
					if _, have := sp.imports[name]; !have {
						sp.imports[name] = spec
					}
					usedImports[name] = true
				}
			}
		}
		var hdr strings.Builder
		hdr.WriteString("//go:build verif\n\n// Code generated by harness/cmd/mkshims from harness/shims for engine " + *engine + "; DO NOT EDIT.\n\npackage " + sp.pkgName + "\n\n")
		var ims []string
		for n := range usedImports {
			ims = append(ims, sp.imports[n])
		}
		sort.Strings(ims)
		if len(ims) > 0 {
			hdr.WriteString("import (\n")
			for _, s := range ims {
				hdr.WriteString("\t" + s + "\n")
			}
			hdr.WriteString(")\n\n")
		}
		src := []byte(hdr.String() + body.String())
		if f, err := format.Source(src); err == nil {
			src = f
		}
		dst := filepath.Join(genDir, strings.ReplaceAll(rel, "/", "__"), "zz_verif_gen.go")
		_ = os.MkdirAll(filepath.Dir(dst), 0o755)
		if err := os.WriteFile(dst, src, 0o644); err != nil {
			fatal(err)
		}
		abs, _ := filepath.Abs(dst)
		replace[filepath.Join(*repo, rel, "zz_verif_gen.go")] = abs
	}
	b, _ := json.MarshalIndent(map[string]any{"Replace": replace}, "", " ")
	if err := os.WriteFile(*out, append(b, '\n'), 0o644); err != nil {
		fatal(err)
	}
	for _, n := range notes {
		fmt.Println("mkshims:", n)
	}
}

// renameAliases: declarations that make identifiers of the pinned tree available again under their
// old names when the current tree has them under a new name with the same signature.
func renameAliases(sp *shimPkg, keep map[*shimDecl]bool, base, cur map[string]sigEntry) (out []string, notes []string) {
	if len(base) == 0 {
		return nil, nil
	}
	refs, sels := map[string]bool{}, map[string]bool{}
	for _, d := range sp.decls {
		if keep[d] {
			for r := range d.refs {
				refs[r] = true
			}
			for s := range d.sels {
				sels[s] = true
			}
		}
	}
	// names that are new in the current tree, by (kind, signature)
	isNew := func(n string) bool { _, ok := base[n]; return !ok }
	// 1. types first (their renames change the text of other signatures)
	typeRen := typeRenames(base, cur)
	subst := func(sig string) string { return substTypes(sig, typeRen) }
	var names []string
	for n := range refs {
		names = append(names, n)
	}
	sort.Strings(names)
	find := func(kind, sig, recv string) []string {
		var c []string
		for n, e := range cur {
			if e.Kind == kind && e.Sig == sig && isNew(n) && (kind != "method" || e.Recv == recv) {
				c = append(c, n)
			}
		}
		sort.Strings(c)
		return c
	}
	for _, n := range names {
		if nn, ok := typeRen[n]; ok {
			out = append(out, fmt.Sprintf("// %s was renamed to %s\ntype %s = %s", n, nn, n, nn))
			notes = append(notes, fmt.Sprintf("%s: type %s is now %s", sp.dir, n, nn))
		}
	}
	for _, n := range names {
		b, ok := base[n]
		if !ok || b.Kind == "type" || b.Kind == "method" {
			continue
		}
		if _, present := cur[n]; present {
			continue
		}
		c := find(b.Kind, subst(b.Sig), "")
		if len(c) != 1 {
			continue
		}
		switch b.Kind {
		case "const":
			out = append(out, fmt.Sprintf("// %s was renamed to %s\nconst %s = %s", n, c[0], n, c[0]))
		case "var":
			continue // a variable cannot be aliased
		case "func":
			out = append(out, forwarder("", "", n, c[0], subst(b.Sig)))
		}
		notes = append(notes, fmt.Sprintf("%s: %s %s is now %s", sp.dir, b.Kind, n, c[0]))
	}
	// 2. methods called through selectors
	var ss []string
	for s := range sels {
		ss = append(ss, s)
	}
	sort.Strings(ss)
	for _, s := range ss {
		for key, b := range base {
			if b.Kind != "method" || !strings.HasSuffix(key, "."+s) {
				continue
			}
			recvT := strings.TrimSuffix(key, "."+s)
			if nt, ok := typeRen[recvT]; ok {
				recvT = nt
			}
			if _, present := cur[recvT+"."+s]; present {
				continue
			}
			recv := subst(b.Recv)
			var c []string
			for n, e := range cur {
				if e.Kind == "method" && e.Recv == recv && e.Sig == subst(b.Sig) && isNew(n) {
					c = append(c, n[strings.LastIndex(n, ".")+1:])
				}
			}
			if len(c) > 1 {
				// several new methods share the signature: pair them, in declaration order, with the
				// vanished methods of the pinned tree that share it (same count required)
				var olds, news []string
				for k2, b2 := range base {
					if b2.Kind == "method" && subst(b2.Recv) == recv && subst(b2.Sig) == subst(b.Sig) {
						t2 := strings.TrimSuffix(k2, k2[strings.LastIndex(k2, "."):])
						if nt, ok := typeRen[t2]; ok {
							t2 = nt
						}
						if _, present := cur[t2+k2[strings.LastIndex(k2, "."):]]; !present {
							olds = append(olds, k2)
						}
					}
				}
				for n, e := range cur {
					if e.Kind == "method" && e.Recv == recv && e.Sig == subst(b.Sig) && isNew(n) {
						news = append(news, n)
					}
				}
				sort.Slice(olds, func(i, j int) bool { return base[olds[i]].Ord < base[olds[j]].Ord })
				sort.Slice(news, func(i, j int) bool { return cur[news[i]].Ord < cur[news[j]].Ord })
				c = nil
				if len(olds) == len(news) {
					for i, o := range olds {
						if o == key {
							c = []string{news[i][strings.LastIndex(news[i], ".")+1:]}
						}
					}
				}
			}
			if len(c) == 1 {
				out = append(out, forwarder(recv, "", s, c[0], subst(b.Sig)))
				notes = append(notes, fmt.Sprintf("%s: method %s.%s is now %s", sp.dir, recvT, s, c[0]))
			}
		}
	}
	return out, notes
}

// fieldRenames: struct fields of the package's types that kept their position and type but changed
// their name (old name -> new name).  A name that would map to two different new names, or that is
// still a field of some struct of the package, is left alone.
func fieldRenames(rel string, base, cur map[string]sigEntry) (map[string]string, map[string]map[string]string, []string) {
	typeRen := typeRenames(base, cur)
	stillUsed := map[string]bool{}
	for _, e := range cur {
		if e.Kind == "type" {
			for _, f := range structFields(e.Sig) {
				stillUsed[f[0]] = true
			}
		}
	}
	ren := map[string]string{}
	perType := map[string]map[string]string{} // pinned struct type -> old field -> new field
	bad := map[string]bool{}
	var notes []string
	var names []string
	for n := range base {
		names = append(names, n)
	}
	sort.Strings(names)
	for _, n := range names {
		b := base[n]
		cn := n
		if r, ok := typeRen[n]; ok {
			cn = r
		}
		c, ok := cur[cn]
		if !ok || b.Kind != "type" || c.Kind != "type" {
			continue
		}
		bf, cf := structFields(substTypes(b.Sig, typeRen)), structFields(c.Sig)
		if bf == nil || len(bf) != len(cf) {
			continue
		}
		same := true
		for i := range bf {
			if bf[i][1] != cf[i][1] {
				same = false
			}
		}
		if !same {
			continue
		}
		for i := range bf {
			o, nn := bf[i][0], cf[i][0]
			if o == nn || o == "" || nn == "" {
				continue
			}
			if perType[n] == nil {
				perType[n] = map[string]string{}
			}
			perType[n][o] = nn
			if stillUsed[o] {
				continue // only rewritten where the receiver's type is known (typed rewrite below)
			}
			if prev, ok := ren[o]; ok && prev != nn {
				bad[o] = true
				continue
			}
			if _, ok := ren[o]; !ok {
				notes = append(notes, fmt.Sprintf("%s: field %s.%s is now %s", rel, n, o, nn))
			}
			ren[o] = nn
		}
	}
	for o := range bad {
		delete(ren, o)
	}
	return ren, perType, notes
}

// typedFieldRewrite: in a shim function, `v.old` -> `v.new` for every parameter `v` whose declared type is
// (a pointer to) a struct type with a renamed field - also when another struct still has a field `old`.
func typedFieldRewrite(src string, perType map[string]map[string]string) string {
	if len(perType) == 0 {
		return src
	}
	f, err := parser.ParseFile(token.NewFileSet(), "", "package p\n"+src, 0)
	if err != nil {
		return src
	}
	for _, d := range f.Decls {
		fd, ok := d.(*ast.FuncDecl)
		if !ok || fd.Type.Params == nil {
			continue
		}
		fields := fd.Type.Params.List
		if fd.Recv != nil {
			fields = append(append([]*ast.Field{}, fd.Recv.List...), fields...)
		}
		for _, p := range fields {
			t := p.Type
			if st, ok := t.(*ast.StarExpr); ok {
				t = st.X
			}
			id, ok := t.(*ast.Ident)
			if !ok || perType[id.Name] == nil {
				continue
			}
			for _, v := range p.Names {
				for o, n := range perType[id.Name] {
					src = regexp.MustCompile(`\b`+regexp.QuoteMeta(v.Name)+`\.`+regexp.QuoteMeta(o)+`\b`).ReplaceAllString(src, v.Name+"."+n)
				}
			}
		}
	}
	return src
}

// structFields: (name, type) of every field of a struct type printed on one line; nil if not a struct.
func structFields(sig string) [][2]string {
	expr, err := parser.ParseExpr(sig)
	if err != nil {
		return nil
	}
	st, ok := expr.(*ast.StructType)
	if !ok || st.Fields == nil {
		return nil
	}
	fset := token.NewFileSet()
	var out [][2]string
	for _, f := range st.Fields.List {
		var b bytes.Buffer
		_ = printer.Fprint(&b, fset, f.Type)
		if len(f.Names) == 0 {
			out = append(out, [2]string{"", b.String()})
		}
		for _, n := range f.Names {
			out = append(out, [2]string{n.Name, b.String()})
		}
	}
	return out
}

func substTypes(sig string, ren map[string]string) string {
	for o, n := range ren {
		sig = regexp.MustCompile(`\b`+regexp.QuoteMeta(o)+`\b`).ReplaceAllString(sig, n)
	}
	return sig
}

// typeRenames: types of the pinned tree that exist in the current tree under a new name - same
// definition, or (structs) the same field types in the same order with possibly renamed fields.
func typeRenames(base, cur map[string]sigEntry) map[string]string {
	ren := map[string]string{}
	taken := map[string]bool{}
	isNew := func(n string) bool { _, ok := base[n]; return !ok }
	var names []string
	for n, e := range base {
		if e.Kind == "type" {
			names = append(names, n)
		}
	}
	sort.Strings(names)
	for changed := true; changed; {
		changed = false
		for _, n := range names {
			if _, present := cur[n]; present {
				continue
			}
			if _, done := ren[n]; done {
				continue
			}
			want := substTypes(base[n].Sig, ren)
			wf := structFields(want)
			var c []string
			for m, e := range cur {
				if e.Kind != "type" || !isNew(m) || taken[m] {
					continue
				}
				if e.Sig == want {
					c = append(c, m)
					continue
				}
				if cf := structFields(e.Sig); wf != nil && len(cf) == len(wf) && len(wf) > 0 {
					same := true
					for i := range wf {
						if wf[i][1] != cf[i][1] {
							same = false
						}
					}
					if same {
						c = append(c, m)
					}
				}
			}
			if len(c) == 1 {
				ren[n], taken[c[0]], changed = c[0], true, true
			}
		}
	}
	return ren
}

// forwarder: `func [(r recv)] old(p0 T0, …) results { [return] [r.]new(p0, …) }` from the printed type `func(T0, …) results`.
func forwarder(recv, _ string, old, neu, sig string) string {
	expr, err := parser.ParseExpr(sig)
	if err != nil {
		return "// could not alias " + old
	}
	ft, ok := expr.(*ast.FuncType)
	if !ok {
		return "// could not alias " + old
	}
	fset := token.NewFileSet()
	show := func(n any) string {
		var b bytes.Buffer
		_ = printer.Fprint(&b, fset, n)
		return b.String()
	}
	var params, args []string
	if ft.Params != nil {
		for i, f := range ft.Params.List {
			p := fmt.Sprintf("p%d", i)
			params = append(params, p+" "+show(f.Type))
			if _, variadic := f.Type.(*ast.Ellipsis); variadic {
				p += "..."
			}
			args = append(args, p)
		}
	}
	res := ""
	ret := ""
	if ft.Results != nil && len(ft.Results.List) > 0 {
		var rs []string
		for _, f := range ft.Results.List {
			rs = append(rs, show(f.Type))
		}
		res = " (" + strings.Join(rs, ", ") + ")"
		ret = "return "
	}
	head, call := "func "+old, neu
	if recv != "" {
		head, call = "func (r "+recv+") "+old, "r."+neu
	}
	return fmt.Sprintf("// %s was renamed to %s (same signature)\n%s(%s)%s { %s%s(%s) }", old, neu, head, strings.Join(params, ", "), res, ret, call, strings.Join(args, ", "))
}

func fatal(err error) {
	fmt.Fprintln(os.Stderr, "mkshims:", err)
	os.Exit(1)
}
