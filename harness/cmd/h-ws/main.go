package main

import (
	"verifharness/core"
	"verifharness/eng/ws"
)

func main() { core.Main(ws.New()) }
