package main

import (
	"verifharness/core"
	"verifharness/eng/rebalance"
)

func main() { core.Main(rebalance.New()) }
