package main

import (
	"verifharness/core"
	"verifharness/eng/node"
)

func main() { core.Main(node.New()) }
