package main

import (
	"verifharness/core"
	"verifharness/eng/gossip"
)

func main() { core.Main(gossip.New()) }
