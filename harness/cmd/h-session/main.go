package main

import (
	"verifharness/core"
	"verifharness/eng/session"
)

func main() { core.Main(session.New()) }
