package main

import (
	"verifharness/core"
	"verifharness/eng/auth"
)

func main() { core.Main(auth.New()) }
