package main

import (
	"verifharness/core"
	"verifharness/eng/fd"
)

func main() { core.Main(fd.New()) }
