// Command facts regenerates lean/PikoModel/Generated/Facts.lean from the Go source of
// /repo (go/parser + go/ast only).  Facts are few and syntactic: constants, wire-schema
// tags, the order of gin Use/route/NoRoute registrations, and lock-order edges.
// A fact that cannot be found is emitted as `none`, so that the proof obligations that
// need it stop building.
package main

import (
	"fmt"
	"go/ast"
	"go/parser"
	"go/token"
	"os"
	"path/filepath"
	"reflect"
	"sort"
	"strconv"
	"strings"
)

var repo = "/repo"

func parseFile(rel string) (*token.FileSet, *ast.File) {
	fset := token.NewFileSet()
	f, err := parser.ParseFile(fset, filepath.Join(repo, rel), nil, parser.ParseComments)
	if err != nil {
		return fset, nil
	}
	return fset, f
}

func leanStr(s string) string { return strconv.Quote(s) }

// constExpr evaluates the few constant expression shapes the facts need.
func constExpr(e ast.Expr, env map[string]string) (string, bool) {
	switch x := e.(type) {
	case *ast.BasicLit:
		return x.Value, true
	case *ast.SelectorExpr:
		if id, ok := x.X.(*ast.Ident); ok && id.Name == "time" {
			switch x.Sel.Name {
			case "Nanosecond":
				return "1", true
			case "Microsecond":
				return "1000", true
			case "Millisecond":
				return "1000000", true
			case "Second":
				return "1000000000", true
			case "Minute":
				return "60000000000", true
			case "Hour":
				return "3600000000000", true
			}
		}
	case *ast.Ident:
		if v, ok := env[x.Name]; ok {
			return v, true
		}
	case *ast.BinaryExpr:
		a, ok1 := constExpr(x.X, env)
		b, ok2 := constExpr(x.Y, env)
		if ok1 && ok2 {
			ai, e1 := strconv.ParseInt(a, 10, 64)
			bi, e2 := strconv.ParseInt(b, 10, 64)
			if e1 == nil && e2 == nil {
				switch x.Op {
				case token.MUL:
					return strconv.FormatInt(ai*bi, 10), true
				case token.ADD:
					return strconv.FormatInt(ai+bi, 10), true
				}
			}
		}
	case *ast.ParenExpr:
		return constExpr(x.X, env)
	}
	return "", false
}

// consts collects `const` declarations of a file: name -> literal text (strings keep quotes).
// iota blocks: `x T = iota + k` followed by bare names.
func consts(f *ast.File) map[string]string {
	out := map[string]string{}
	if f == nil {
		return out
	}
	for _, d := range f.Decls {
		gd, ok := d.(*ast.GenDecl)
		if !ok || gd.Tok != token.CONST {
			continue
		}
		iotaBase, iotaOn := int64(0), false
		for i, sp := range gd.Specs {
			vs := sp.(*ast.ValueSpec)
			if len(vs.Values) == 1 {
				if be, ok := vs.Values[0].(*ast.BinaryExpr); ok {
					if id, ok := be.X.(*ast.Ident); ok && id.Name == "iota" && be.Op == token.ADD {
						if lit, ok := be.Y.(*ast.BasicLit); ok {
							k, _ := strconv.ParseInt(lit.Value, 10, 64)
							iotaBase, iotaOn = k, true
							out[vs.Names[0].Name] = strconv.FormatInt(int64(i)+iotaBase, 10)
							continue
						}
					}
				}
				iotaOn = false
				if v, ok := constExpr(vs.Values[0], out); ok {
					out[vs.Names[0].Name] = v
				}
			} else if len(vs.Values) == 0 && iotaOn {
				out[vs.Names[0].Name] = strconv.FormatInt(int64(i)+iotaBase, 10)
			}
		}
	}
	return out
}

// structTags returns, per struct type, the wire key of each field in declaration order:
// the `codec` tag, else the `json` tag, else the field name.
func structTags(f *ast.File) map[string][]string {
	out := map[string][]string{}
	if f == nil {
		return out
	}
	ast.Inspect(f, func(n ast.Node) bool {
		ts, ok := n.(*ast.TypeSpec)
		if !ok {
			return true
		}
		st, ok := ts.Type.(*ast.StructType)
		if !ok {
			return true
		}
		var keys []string
		for _, fld := range st.Fields.List {
			for _, nm := range fld.Names {
				key := nm.Name
				if fld.Tag != nil {
					tag, _ := strconv.Unquote(fld.Tag.Value)
					st := reflect.StructTag(tag)
					if v, ok := st.Lookup("codec"); ok {
						key = strings.Split(v, ",")[0]
					} else if v, ok := st.Lookup("json"); ok {
						key = strings.Split(v, ",")[0]
					}
				}
				keys = append(keys, key)
			}
		}
		out[ts.Name.Name] = keys
		return true
	})
	return out
}

func optNat(m map[string]string, k string) string {
	v, ok := m[k]
	if !ok {
		return "none"
	}
	if _, err := strconv.ParseUint(v, 10, 64); err != nil {
		return "none"
	}
	return "some " + v
}

func optStr(m map[string]string, k string) string {
	v, ok := m[k]
	if !ok {
		return "none"
	}
	s, err := strconv.Unquote(v)
	if err != nil {
		return "none"
	}
	return "some " + leanStr(s)
}

func optStrList(m map[string][]string, k string) string {
	v, ok := m[k]
	if !ok {
		return "none"
	}
	var q []string
	for _, s := range v {
		q = append(q, leanStr(s))
	}
	return "some [" + strings.Join(q, ", ") + "]"
}

// fdArgs finds the literal arguments of newAccrualFailureDetector(config.Interval*K, N) in gossip.go.
func fdArgs(f *ast.File) (string, string) {
	mul, n := "none", "none"
	if f == nil {
		return mul, n
	}
	ast.Inspect(f, func(x ast.Node) bool {
		ce, ok := x.(*ast.CallExpr)
		if !ok {
			return true
		}
		id, ok := ce.Fun.(*ast.Ident)
		if !ok || id.Name != resolveName("pkg/gossip", "newAccrualFailureDetector") || len(ce.Args) != 2 {
			return true
		}
		if be, ok := ce.Args[0].(*ast.BinaryExpr); ok && be.Op == token.MUL {
			if lit, ok := be.Y.(*ast.BasicLit); ok {
				mul = "some " + lit.Value
			}
		}
		if lit, ok := ce.Args[1].(*ast.BasicLit); ok {
			n = "some " + lit.Value
		}
		return true
	})
	return mul, n
}

func main() {
	out := "/verif/lean/PikoModel/Generated/Facts.lean"
	if len(os.Args) > 1 {
		repo = os.Args[1]
	}
	if len(os.Args) > 2 {
		out = os.Args[2]
	}
	var b strings.Builder
	b.WriteString("/-! GENERATED by /verif/harness/cmd/facts from the Go source of /repo on every run. Do not edit. -/\n")
	b.WriteString("namespace Piko.Facts\n\n")

	// package-wide (a declaration may live in any file) and by current name (resolveName bridges renames)
	gossipFiles := pkgFiles("pkg/gossip")
	cs := map[string]string{}
	for _, f := range gossipFiles {
		for k, v := range consts(f) {
			cs[k] = v
		}
	}
	for _, n := range []string{"leftKey", "compactKey", "nodeExpiry", "suspicionThreshold", "compactThreshold", "messageTypeDigest",
		"messageTypeDelta", "messageTypeJoin", "messageTypeLeave", "supportedVersion"} {
		if r := resolveName("pkg/gossip", n); r != n {
			if v, ok := cs[r]; ok {
				cs[n] = v
			}
		}
	}
	b.WriteString("-- G1 constants\n")
	fmt.Fprintf(&b, "def leftKey : Option String := %s\n", optStr(cs, "leftKey"))
	fmt.Fprintf(&b, "def compactKey : Option String := %s\n", optStr(cs, "compactKey"))
	fmt.Fprintf(&b, "def nodeExpiryNs : Option Nat := %s\n", optNat(cs, "nodeExpiry"))
	fmt.Fprintf(&b, "def suspicionThreshold : Option Nat := %s\n", optNat(cs, "suspicionThreshold"))
	fmt.Fprintf(&b, "def compactThreshold : Option Nat := %s\n", optNat(cs, "compactThreshold"))
	fmt.Fprintf(&b, "def messageTypeDigest : Option Nat := %s\n", optNat(cs, "messageTypeDigest"))
	fmt.Fprintf(&b, "def messageTypeDelta : Option Nat := %s\n", optNat(cs, "messageTypeDelta"))
	fmt.Fprintf(&b, "def messageTypeJoin : Option Nat := %s\n", optNat(cs, "messageTypeJoin"))
	fmt.Fprintf(&b, "def messageTypeLeave : Option Nat := %s\n", optNat(cs, "messageTypeLeave"))
	fmt.Fprintf(&b, "def supportedVersion : Option Nat := %s\n", optNat(cs, "supportedVersion"))
	mul, n := "none", "none"
	for _, f := range gossipFiles {
		if m2, n2 := fdArgs(f); m2 != "none" || n2 != "none" {
			mul, n = m2, n2
		}
	}
	fmt.Fprintf(&b, "def fdBootstrapMultiplier : Option Nat := %s\n", mul)
	fmt.Fprintf(&b, "def fdSampleSize : Option Nat := %s\n", n)

	b.WriteString("\n-- G2 wire schema (msgpack map keys in declaration order)\n")
	tags := map[string][]string{}
	for _, f := range gossipFiles {
		for k, v := range structTags(f) {
			tags[k] = v
		}
	}
	for _, t := range []string{"Entry", "digestEntry", "digestHeader", "deltaHeader", "joinHeader", "leaveHeader"} {
		if r := resolveName("pkg/gossip", t); r != t {
			if v, ok := tags[r]; ok {
				tags[t] = v
			}
		}
	}
	for _, t := range []string{"Entry", "digestEntry", "digestHeader", "deltaHeader", "joinHeader", "leaveHeader"} {
		fmt.Fprintf(&b, "def tags_%s : Option (List String) := %s\n", t, optStrList(tags, t))
	}

	for _, ex := range extraFacts {
		b.WriteString("\n")
		b.WriteString(ex())
	}

	b.WriteString("\nend Piko.Facts\n")
	s := b.String()
	old, err := os.ReadFile(out)
	if err == nil && string(old) == s {
		return
	}
	_ = os.MkdirAll(filepath.Dir(out), 0o755)
	if err := os.WriteFile(out, []byte(s), 0o644); err != nil {
		fmt.Fprintln(os.Stderr, err)
		os.Exit(1)
	}
}

// extraFacts lets other files of this command add fact groups (G4 routes, G5 lock edges).
var extraFacts []func() string

func sortedKeys(m map[string]bool) []string {
	var ks []string
	for k := range m {
		ks = append(ks, k)
	}
	sort.Strings(ks)
	return ks
}
