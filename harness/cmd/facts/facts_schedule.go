package main

// G8 (C11, C12, C17): the periodic tasks of `pkg/gossip` (`Gossip.schedule`): every call
// `scheduleFunc(<interval>, func() { … })` of the package, with the tracked state operations its
// function literal invokes.  The liveness evaluation, the gossip round, the compaction and the expiry
// sweep each run on a ticker of their own - "a peer that falls silent always eventually crosses the
// threshold" needs UpdateLiveness to be evaluated whatever happens to the gossip round (seed C12d:
// UpdateLiveness moved to the end of gossipRound, which returns early when a send fails).

import (
	"go/ast"
	"sort"
	"strings"
)

func init() { extraFacts = append(extraFacts, scheduleFacts) }

// pinned names of the tracked operations (resolved to their current names through the baseline)
var trackedPinned = map[string]string{"Gossip.gossipRound": "gossipRound", "clusterState.UpdateLiveness": "UpdateLiveness",
	"clusterState.CompactLocal": "CompactLocal", "clusterState.RemoveExpired": "RemoveExpired", "clusterState.RemoveExpiredAt": "RemoveExpiredAt"}

func scheduleFacts() string {
	var alone []string
	found := false
	trackedTasks := map[string]string{} // current method name -> pinned name
	for q, pinned := range trackedPinned {
		trackedTasks[resolveName("pkg/gossip", q)] = pinned
	}
	schedName := resolveName("pkg/gossip", "Gossip.scheduleFunc")
	for _, f := range pkgFiles("pkg/gossip") {
		ast.Inspect(f, func(n ast.Node) bool {
			ce, ok := n.(*ast.CallExpr)
			if !ok || len(ce.Args) != 2 {
				return true
			}
			name := ""
			switch fun := ce.Fun.(type) {
			case *ast.SelectorExpr:
				name = fun.Sel.Name
			case *ast.Ident:
				name = fun.Name
			}
			if name != schedName {
				return true
			}
			fl, ok := ce.Args[1].(*ast.FuncLit)
			if !ok {
				return true
			}
			found = true
			var tasks []string
			ast.Inspect(fl.Body, func(m ast.Node) bool {
				if c, ok := m.(*ast.CallExpr); ok {
					if se, ok := c.Fun.(*ast.SelectorExpr); ok {
						if pinned, ok := trackedTasks[se.Sel.Name]; ok {
							tasks = append(tasks, pinned)
						}
					}
				}
				return true
			})
			if len(tasks) == 1 {
				alone = append(alone, tasks[0])
			}
			return true
		})
	}
	sort.Strings(alone)
	var b strings.Builder
	b.WriteString("/-! ### G8: periodic tasks of pkg/gossip (C11, C12, C17) -/\n")
	b.WriteString("/-- tracked state operations (gossipRound, UpdateLiveness, CompactLocal, RemoveExpired) that are the only\ntracked operation of their own `scheduleFunc` ticker, sorted -/\n")
	if !found {
		b.WriteString("def scheduledAlone : Option (List String) := none\n")
		return b.String()
	}
	var qs []string
	for _, a := range alone {
		qs = append(qs, leanStr(a))
	}
	b.WriteString("def scheduledAlone : Option (List String) := some [" + strings.Join(qs, ", ") + "]\n")
	return b.String()
}
