// G4 facts: per HTTP server constructor, the ORDERED list of gin `Use`, `Group`, route
// registration and `NoRoute` calls on the engine and its groups, with the enclosing
// `if …` guards recorded (C09_chain).  go/ast only; anything that cannot be analysed
// (router call in a loop/closure, unknown router method, unresolvable callee) makes the
// whole table `none`, so the obligations over it stop building.
package main

import (
	"bytes"
	"fmt"
	"go/ast"
	"go/parser"
	"go/printer"
	"go/token"
	"os"
	"path/filepath"
	"strconv"
	"strings"
)

func init() { extraFacts = append(extraFacts, routeFacts) }

type routeEvent struct{ kind, recv, a, b, guard string }

// pkgInfo is the parsed non-test Go source of one package directory.
type pkgInfo struct {
	fset    *token.FileSet
	files   []*ast.File
	funcs   map[string]*ast.FuncDecl // by name (methods and functions; last wins)
	engFlds map[string]bool          // struct fields of type *gin.Engine
}

func loadPkg(rel string) *pkgInfo {
	p := &pkgInfo{fset: token.NewFileSet(), funcs: map[string]*ast.FuncDecl{}, engFlds: map[string]bool{}}
	ents, err := os.ReadDir(filepath.Join(repo, rel))
	if err != nil {
		return nil
	}
	for _, e := range ents {
		n := e.Name()
		if e.IsDir() || !strings.HasSuffix(n, ".go") || strings.HasSuffix(n, "_test.go") {
			continue
		}
		f, err := parser.ParseFile(p.fset, filepath.Join(repo, rel, n), nil, 0)
		if err != nil {
			return nil
		}
		p.files = append(p.files, f)
		for _, d := range f.Decls {
			if fd, ok := d.(*ast.FuncDecl); ok && fd.Body != nil {
				key := fd.Name.Name
				if fd.Recv != nil {
					key = recvTypeName(fd) + "." + key
				}
				p.funcs[key] = fd
			}
		}
		ast.Inspect(f, func(n ast.Node) bool {
			st, ok := n.(*ast.StructType)
			if !ok {
				return true
			}
			for _, fl := range st.Fields.List {
				if isGinType(fl.Type, "Engine") {
					for _, nm := range fl.Names {
						p.engFlds[nm.Name] = true
					}
				}
			}
			return true
		})
	}
	return p
}

func recvTypeName(fd *ast.FuncDecl) string {
	if fd.Recv == nil || len(fd.Recv.List) == 0 {
		return ""
	}
	t := fd.Recv.List[0].Type
	if s, ok := t.(*ast.StarExpr); ok {
		t = s.X
	}
	if id, ok := t.(*ast.Ident); ok {
		return id.Name
	}
	return ""
}

func isGinType(e ast.Expr, name string) bool {
	if s, ok := e.(*ast.StarExpr); ok {
		e = s.X
	}
	se, ok := e.(*ast.SelectorExpr)
	if !ok {
		return false
	}
	id, ok := se.X.(*ast.Ident)
	return ok && id.Name == "gin" && se.Sel.Name == name
}

type routeAnalyser struct {
	pkg      *pkgInfo
	recvType string
	events   []routeEvent
	env      map[string]string // identifier -> router id ("engine", "g1", …)
	assigned map[string]string // identifier -> text of the call it was assigned from
	ngroups  int
	ok       bool
	depth    int
}

func (a *routeAnalyser) text(e ast.Expr) string {
	var b bytes.Buffer
	_ = printer.Fprint(&b, a.pkg.fset, e)
	return strings.Join(strings.Fields(b.String()), " ")
}

// handlerText prints a handler expression, replacing a leading local identifier by the
// constructor call it was assigned from (authMiddleware.Verify -> middleware.NewAuth().Verify).
func (a *routeAnalyser) handlerText(e ast.Expr) string {
	switch x := e.(type) {
	case *ast.SelectorExpr:
		if id, ok := x.X.(*ast.Ident); ok {
			if c, ok := a.assigned[id.Name]; ok {
				return c + "()." + x.Sel.Name
			}
		}
	case *ast.CallExpr:
		if se, ok := x.Fun.(*ast.SelectorExpr); ok {
			if id, ok := se.X.(*ast.Ident); ok {
				if c, ok := a.assigned[id.Name]; ok {
					return c + "()." + se.Sel.Name + "()"
				}
			}
		}
		return a.text(x.Fun) + "()"
	}
	return a.text(e)
}

func (a *routeAnalyser) guardText(gs []string) string { return strings.Join(gs, " && ") }

func (a *routeAnalyser) emit(kind, recv, x, y string, gs []string) {
	a.events = append(a.events, routeEvent{kind, recv, x, y, a.guardText(gs)})
}

// routerOf returns the router id denoted by e ("" if e is not a router expression).  A chained
// `X.Group(path)` creates an anonymous group (and emits its event).
func (a *routeAnalyser) routerOf(e ast.Expr, gs []string) string {
	switch x := e.(type) {
	case *ast.Ident:
		return a.env[x.Name]
	case *ast.SelectorExpr:
		if a.pkg.engFlds[x.Sel.Name] {
			return "engine"
		}
	case *ast.ParenExpr:
		return a.routerOf(x.X, gs)
	case *ast.CallExpr:
		if se, ok := x.Fun.(*ast.SelectorExpr); ok && se.Sel.Name == "Group" {
			if parent := a.routerOf(se.X, gs); parent != "" {
				return a.newGroup(parent, x, gs)
			}
		}
		if se, ok := x.Fun.(*ast.SelectorExpr); ok {
			if id, ok := se.X.(*ast.Ident); ok && id.Name == "gin" && (se.Sel.Name == "New" || se.Sel.Name == "Default") {
				if se.Sel.Name == "Default" {
					a.emit("use", "engine", "gin.Logger()", "", gs)
					a.emit("use", "engine", "gin.Recovery()", "", gs)
				}
				return "engine"
			}
		}
	}
	return ""
}

func (a *routeAnalyser) pathText(e ast.Expr) string {
	if l, ok := e.(*ast.BasicLit); ok && l.Kind == token.STRING {
		if s, err := strconv.Unquote(l.Value); err == nil {
			return s
		}
	}
	return "$" + a.text(e)
}

func (a *routeAnalyser) newGroup(parent string, call *ast.CallExpr, gs []string) string {
	a.ngroups++
	id := "g" + strconv.Itoa(a.ngroups)
	p := "$?"
	if len(call.Args) > 0 {
		p = a.pathText(call.Args[0])
	}
	a.emit("group", parent, id, p, gs)
	for _, h := range call.Args[min(1, len(call.Args)):] {
		a.emit("use", id, a.handlerText(h), "", gs)
	}
	return id
}

var httpVerbs = map[string]bool{"GET": true, "POST": true, "PUT": true, "PATCH": true, "DELETE": true, "HEAD": true, "OPTIONS": true}

func (a *routeAnalyser) containsRouterUse(n ast.Node) bool {
	found := false
	ast.Inspect(n, func(x ast.Node) bool {
		switch y := x.(type) {
		case *ast.Ident:
			if a.env[y.Name] != "" {
				found = true
			}
		case *ast.SelectorExpr:
			if a.pkg.engFlds[y.Sel.Name] {
				found = true
			}
		}
		return !found
	})
	return found
}

func (a *routeAnalyser) walkCall(c *ast.CallExpr, gs []string) {
	if se, ok := c.Fun.(*ast.SelectorExpr); ok {
		if r := a.routerOf(se.X, gs); r != "" {
			m := se.Sel.Name
			switch {
			case m == "Use":
				for _, h := range c.Args {
					a.emit("use", r, a.handlerText(h), "", gs)
				}
			case httpVerbs[m] || m == "Any":
				if len(c.Args) < 2 {
					a.ok = false
					return
				}
				meth := m
				if m == "Any" {
					meth = "ANY"
				}
				for _, h := range c.Args[1 : len(c.Args)-1] {
					a.emit("routeuse", r, a.handlerText(h), "", gs)
				}
				a.emit("route", r, meth, a.pathText(c.Args[0]), gs)
			case m == "Handle":
				if len(c.Args) < 3 {
					a.ok = false
					return
				}
				a.emit("route", r, a.pathText(c.Args[0]), a.pathText(c.Args[1]), gs)
			case m == "NoRoute":
				if r != "engine" {
					a.ok = false
					return
				}
				var hs []string
				for _, h := range c.Args {
					hs = append(hs, a.handlerText(h))
				}
				a.emit("noroute", r, strings.Join(hs, ";"), "", gs)
			case m == "Group":
				a.newGroup(r, c, gs)
			case m == "Routes" || m == "BasePath" || m == "Handler" || m == "ServeHTTP":
				// no registration
			default:
				// NoMethod, Static*, Match, … : not understood
				a.ok = false
			}
			return
		}
	}
	// a call that passes a router to another function/method: inline when resolvable
	var routerArgs []int
	for i, arg := range c.Args {
		if _, isCall := arg.(*ast.CallExpr); isCall {
			continue
		}
		if a.routerOf(arg, gs) != "" {
			routerArgs = append(routerArgs, i)
		}
	}
	recvIsRouterHolder := false
	var callee *ast.FuncDecl
	name := ""
	switch f := c.Fun.(type) {
	case *ast.Ident:
		name = f.Name
		callee = a.pkg.funcs[f.Name]
	case *ast.SelectorExpr:
		name = a.text(f)
		if fd, ok := a.pkg.funcs[a.recvType+"."+f.Sel.Name]; ok {
			if id, ok := f.X.(*ast.Ident); ok && a.assigned[id.Name] == "&"+a.recvType || isRecvIdent(f.X, a) {
				callee = fd
				recvIsRouterHolder = true
			}
		}
	}
	_ = recvIsRouterHolder
	if len(routerArgs) == 0 {
		// methods of the server type may touch s.router without receiving it
		if callee != nil && callee.Recv != nil && a.containsRouterUseIn(callee) {
			a.inline(callee, c, gs)
		}
		return
	}
	if callee == nil {
		for _, i := range routerArgs {
			a.emit("dyncall", a.routerOf(c.Args[i], gs), name, "", gs)
		}
		return
	}
	a.inline(callee, c, gs)
}

func isRecvIdent(e ast.Expr, a *routeAnalyser) bool {
	id, ok := e.(*ast.Ident)
	if !ok {
		return false
	}
	return a.assigned[id.Name] == "&"+a.recvType || a.env["recv:"+id.Name] != ""
}

func (a *routeAnalyser) containsRouterUseIn(fd *ast.FuncDecl) bool {
	found := false
	ast.Inspect(fd.Body, func(x ast.Node) bool {
		if se, ok := x.(*ast.SelectorExpr); ok && a.pkg.engFlds[se.Sel.Name] {
			found = true
		}
		return !found
	})
	return found
}

func (a *routeAnalyser) inline(fd *ast.FuncDecl, c *ast.CallExpr, gs []string) {
	if a.depth > 6 {
		a.ok = false
		return
	}
	saveEnv, saveAssigned := a.env, a.assigned
	env := map[string]string{}
	idx := 0
	for _, fl := range fd.Type.Params.List {
		for _, nm := range fl.Names {
			if idx < len(c.Args) {
				if r := a.routerOf(c.Args[idx], gs); r != "" {
					env[nm.Name] = r
				}
			}
			idx++
		}
	}
	if fd.Recv != nil && len(fd.Recv.List) > 0 && len(fd.Recv.List[0].Names) > 0 {
		env["recv:"+fd.Recv.List[0].Names[0].Name] = "self"
	}
	a.env, a.assigned = env, map[string]string{}
	a.depth++
	a.walkStmt(fd.Body, gs)
	a.depth--
	a.env, a.assigned = saveEnv, saveAssigned
}

func (a *routeAnalyser) walkStmt(s ast.Stmt, gs []string) {
	if s == nil || !a.ok {
		return
	}
	switch x := s.(type) {
	case *ast.BlockStmt:
		for _, t := range x.List {
			a.walkStmt(t, gs)
		}
	case *ast.IfStmt:
		a.walkStmt(x.Init, gs)
		c := a.text(x.Cond)
		a.walkStmt(x.Body, append(append([]string{}, gs...), c))
		if x.Else != nil {
			a.walkStmt(x.Else, append(append([]string{}, gs...), "!("+c+")"))
		}
	case *ast.ExprStmt:
		if c, ok := x.X.(*ast.CallExpr); ok {
			a.walkCall(c, gs)
		} else if a.containsRouterUse(x) {
			a.ok = false
		}
	case *ast.AssignStmt:
		if len(x.Lhs) == 1 && len(x.Rhs) == 1 {
			lhs, isId := x.Lhs[0].(*ast.Ident)
			switch r := x.Rhs[0].(type) {
			case *ast.CallExpr:
				if isId {
					if id := a.routerOf(r, gs); id != "" {
						a.env[lhs.Name] = id
						return
					}
					a.assigned[lhs.Name] = a.text(r.Fun)
				}
				a.walkCall(r, gs)
				return
			case *ast.UnaryExpr:
				if cl, ok := r.X.(*ast.CompositeLit); ok && isId && r.Op == token.AND {
					a.assigned[lhs.Name] = "&" + a.text(cl.Type)
					return
				}
			}
		}
		if a.containsRouterUse(x) {
			// aliasing of a router we do not follow
			for _, r := range x.Rhs {
				if a.routerOf(r, gs) != "" {
					a.ok = false
				}
			}
		}
	case *ast.ReturnStmt, *ast.DeclStmt, *ast.IncDecStmt, *ast.EmptyStmt:
		// no registrations possible except through a call expression
		ast.Inspect(s, func(n ast.Node) bool {
			if c, ok := n.(*ast.CallExpr); ok {
				if se, ok := c.Fun.(*ast.SelectorExpr); ok && a.routerOf(se.X, gs) != "" {
					a.ok = false
				}
			}
			return true
		})
	default:
		// loops, switches, go/defer, closures: registrations there are not ordered facts
		if a.containsRouterUse(s) {
			a.ok = false
		}
	}
}

// analyse returns the event list of function `fn` (plain name or Type.Method) of package dir rel.
func analyse(p *pkgInfo, fn string, recvType string) ([]routeEvent, bool) {
	if p == nil {
		return nil, false
	}
	fd, ok := p.funcs[fn]
	if !ok {
		return nil, false
	}
	a := &routeAnalyser{pkg: p, recvType: recvType, env: map[string]string{}, assigned: map[string]string{}, ok: true}
	for _, fl := range fd.Type.Params.List {
		for _, nm := range fl.Names {
			if isGinType(fl.Type, "Engine") {
				a.env[nm.Name] = "engine"
			} else if isGinType(fl.Type, "RouterGroup") {
				a.env[nm.Name] = "group"
			}
		}
	}
	if fd.Recv != nil && len(fd.Recv.List) > 0 && len(fd.Recv.List[0].Names) > 0 {
		a.env["recv:"+fd.Recv.List[0].Names[0].Name] = "self"
	}
	a.walkStmt(fd.Body, nil)
	if !a.ok {
		return nil, false
	}
	return a.events, true
}

func leanEvents(evs []routeEvent) string {
	var xs []string
	for _, e := range evs {
		xs = append(xs, fmt.Sprintf("⟨%s, %s, %s, %s, %s⟩", leanStr(e.kind), leanStr(e.recv), leanStr(e.a), leanStr(e.b), leanStr(e.guard)))
	}
	return "[" + strings.Join(xs, ",\n    ") + "]"
}

func optEvents(evs []routeEvent, ok bool) string {
	if !ok {
		return "none"
	}
	return "some " + leanEvents(evs)
}

// statusCalls finds `X.AddStatus("<route>", pkg.NewStatus(...))` calls of server/server.go in
// source order and resolves each to the events of the `Register(group *gin.RouterGroup)`
// method of the package `pkg`.
func statusCalls() (string, bool) {
	fset := token.NewFileSet()
	f, err := parser.ParseFile(fset, filepath.Join(repo, "server/server.go"), nil, 0)
	if err != nil {
		return "", false
	}
	imports := map[string]string{}
	for _, im := range f.Imports {
		p, _ := strconv.Unquote(im.Path.Value)
		name := filepath.Base(p)
		if im.Name != nil {
			name = im.Name.Name
		}
		imports[name] = p
	}
	type call struct {
		route, pkg string
		pos        token.Pos
	}
	var calls []call
	ok := true
	ast.Inspect(f, func(n ast.Node) bool {
		c, isCall := n.(*ast.CallExpr)
		if !isCall {
			return true
		}
		se, isSel := c.Fun.(*ast.SelectorExpr)
		if !isSel || se.Sel.Name != "AddStatus" {
			return true
		}
		if len(c.Args) != 2 {
			ok = false
			return true
		}
		lit, isLit := c.Args[0].(*ast.BasicLit)
		inner, isInner := c.Args[1].(*ast.CallExpr)
		if !isLit || !isInner {
			ok = false
			return true
		}
		route, _ := strconv.Unquote(lit.Value)
		ise, isSel2 := inner.Fun.(*ast.SelectorExpr)
		if !isSel2 {
			ok = false
			return true
		}
		pid, isId := ise.X.(*ast.Ident)
		if !isId {
			ok = false
			return true
		}
		calls = append(calls, call{route, pid.Name, c.Pos()})
		return true
	})
	if !ok {
		return "", false
	}
	var xs []string
	for _, c := range calls {
		ip, found := imports[c.pkg]
		const mod = "github.com/andydunstall/piko/"
		if !found || !strings.HasPrefix(ip, mod) {
			return "", false
		}
		p := loadPkg(strings.TrimPrefix(ip, mod))
		evs, aok := analyse(p, "Status.Register", "Status")
		if !aok {
			return "", false
		}
		xs = append(xs, fmt.Sprintf("(%s, %s)", leanStr(c.route), leanEvents(evs)))
	}
	return "[" + strings.Join(xs, ",\n   ") + "]", true
}

func routeFacts() string {
	var b strings.Builder
	b.WriteString("-- G4 gin registrations per HTTP server constructor, in source order.\n")
	b.WriteString("-- kind: use | group | route | routeuse | noroute | dyncall;  recv: engine | g<n> | group (parameter)\n")
	b.WriteString("-- use: a = handler;  group: a = new group id, b = path;  route: a = method, b = path;\n")
	b.WriteString("-- noroute: a = handlers;  dyncall: a = callee;  guard = enclosing if-conditions joined by \" && \"\n")
	b.WriteString("structure RouteEvent where\n  kind : String\n  recv : String\n  a : String\n  b : String\n  guard : String\nderiving DecidableEq, Repr\n\n")
	for _, t := range []struct{ name, dir, fn, recv string }{
		{"routes_proxy", "server/proxy", "NewServer", "Server"},
		{"routes_upstream", "server/upstream", "NewServer", "Server"},
		{"routes_admin", "server/admin", "NewServer", "Server"},
		{"routes_admin_AddStatus", "server/admin", "Server.AddStatus", "Server"},
	} {
		evs, ok := analyse(loadPkg(t.dir), t.fn, t.recv)
		fmt.Fprintf(&b, "def %s : Option (List RouteEvent) :=\n  %s\n", t.name, optEvents(evs, ok))
	}
	sc, ok := statusCalls()
	if ok {
		fmt.Fprintf(&b, "def routes_admin_status : Option (List (String × List RouteEvent)) :=\n  some %s\n", sc)
	} else {
		b.WriteString("def routes_admin_status : Option (List (String × List RouteEvent)) :=\n  none\n")
	}
	return b.String()
}
