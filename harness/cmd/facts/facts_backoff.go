package main

// G7 (C18): the parameters of the reconnect / join backoff and the set of retryable dial
// status codes, extracted syntactically:
//   - server/gossip/gossip.go  JoinOnStartup:     backoff.New(5, time.Second, time.Minute)
//   - client/upstream.go       Upstream.connect:  backoff.New(0, min, max), and the defaults
//     assigned to minReconnectBackoff / maxReconnectBackoff when the fields are zero
//   - pkg/websocket/conn.go    retryableStatusCodes (keys of the map literal, sorted)
// Props/C18 proves that the model's constants are exactly these, so changing one of them
// stops Props.C18 from building.

import (
	"go/ast"
	"go/token"
	"os"
	"path/filepath"
	"sort"
	"strconv"
	"strings"
)

func init() { extraFacts = append(extraFacts, backoffFacts) }

var httpStatusByName = map[string]int{
	"StatusContinue": 100, "StatusSwitchingProtocols": 101, "StatusProcessing": 102, "StatusEarlyHints": 103,
	"StatusOK": 200, "StatusCreated": 201, "StatusAccepted": 202, "StatusNonAuthoritativeInfo": 203,
	"StatusNoContent": 204, "StatusResetContent": 205, "StatusPartialContent": 206, "StatusMultiStatus": 207,
	"StatusAlreadyReported": 208, "StatusIMUsed": 226,
	"StatusMultipleChoices": 300, "StatusMovedPermanently": 301, "StatusFound": 302, "StatusSeeOther": 303,
	"StatusNotModified": 304, "StatusUseProxy": 305, "StatusTemporaryRedirect": 307, "StatusPermanentRedirect": 308,
	"StatusBadRequest": 400, "StatusUnauthorized": 401, "StatusPaymentRequired": 402, "StatusForbidden": 403,
	"StatusNotFound": 404, "StatusMethodNotAllowed": 405, "StatusNotAcceptable": 406, "StatusProxyAuthRequired": 407,
	"StatusRequestTimeout": 408, "StatusConflict": 409, "StatusGone": 410, "StatusLengthRequired": 411,
	"StatusPreconditionFailed": 412, "StatusRequestEntityTooLarge": 413, "StatusRequestURITooLong": 414,
	"StatusUnsupportedMediaType": 415, "StatusRequestedRangeNotSatisfiable": 416, "StatusExpectationFailed": 417,
	"StatusTeapot": 418, "StatusMisdirectedRequest": 421, "StatusUnprocessableEntity": 422, "StatusLocked": 423,
	"StatusFailedDependency": 424, "StatusTooEarly": 425, "StatusUpgradeRequired": 426, "StatusPreconditionRequired": 428,
	"StatusTooManyRequests": 429, "StatusRequestHeaderFieldsTooLarge": 431, "StatusUnavailableForLegalReasons": 451,
	"StatusInternalServerError": 500, "StatusNotImplemented": 501, "StatusBadGateway": 502, "StatusServiceUnavailable": 503,
	"StatusGatewayTimeout": 504, "StatusHTTPVersionNotSupported": 505, "StatusVariantAlsoNegotiates": 506,
	"StatusInsufficientStorage": 507, "StatusLoopDetected": 508, "StatusNotExtended": 510,
	"StatusNetworkAuthenticationRequired": 511,
}

// funcBody returns the body of the function or method `name` of the file.
func funcBody(f *ast.File, name string) *ast.BlockStmt {
	if f == nil {
		return nil
	}
	for _, d := range f.Decls {
		if fd, ok := d.(*ast.FuncDecl); ok && fd.Name.Name == name && fd.Body != nil {
			return fd.Body
		}
	}
	return nil
}

// backoffNewCalls returns the argument lists of every `backoff.New(...)` call in the body.
func backoffNewCalls(body *ast.BlockStmt) [][]ast.Expr {
	var out [][]ast.Expr
	if body == nil {
		return nil
	}
	ast.Inspect(body, func(n ast.Node) bool {
		ce, ok := n.(*ast.CallExpr)
		if !ok {
			return true
		}
		se, ok := ce.Fun.(*ast.SelectorExpr)
		if !ok || se.Sel.Name != "New" {
			return true
		}
		if id, ok := se.X.(*ast.Ident); ok && id.Name == "backoff" {
			out = append(out, ce.Args)
		}
		return true
	})
	return out
}

// pkgFiles parses every non-test Go file of a package directory.
func pkgFiles(dir string) []*ast.File {
	ents, err := os.ReadDir(filepath.Join(repo, dir))
	if err != nil {
		return nil
	}
	var out []*ast.File
	for _, e := range ents {
		n := e.Name()
		if e.IsDir() || !strings.HasSuffix(n, ".go") || strings.HasSuffix(n, "_test.go") {
			continue
		}
		if _, f := parseFile(filepath.Join(dir, n)); f != nil {
			out = append(out, f)
		}
	}
	return out
}

// pkgBackoffNewCalls: the argument lists of every `backoff.New(...)` call of the package.
func pkgBackoffNewCalls(dir string) [][]ast.Expr {
	var out [][]ast.Expr
	for _, f := range pkgFiles(dir) {
		for _, d := range f.Decls {
			if fd, ok := d.(*ast.FuncDecl); ok && fd.Body != nil {
				out = append(out, backoffNewCalls(fd.Body)...)
			}
		}
	}
	return out
}

// zeroDefaults: every `if <x> == 0 { <y> = <const> }` of the package whose condition or target mentions
// `word` (case-insensitive); returns the constants.
func zeroDefaults(dir, word string) []string {
	var vals []string
	text := func(e ast.Expr) string {
		switch x := e.(type) {
		case *ast.Ident:
			return x.Name
		case *ast.SelectorExpr:
			return x.Sel.Name
		}
		return ""
	}
	for _, f := range pkgFiles(dir) {
		ast.Inspect(f, func(n ast.Node) bool {
			is, ok := n.(*ast.IfStmt)
			if !ok || is.Else != nil || len(is.Body.List) != 1 {
				return true
			}
			be, ok := is.Cond.(*ast.BinaryExpr)
			if !ok || be.Op != token.EQL {
				return true
			}
			if lit, ok := be.Y.(*ast.BasicLit); !ok || lit.Value != "0" {
				return true
			}
			as, ok := is.Body.List[0].(*ast.AssignStmt)
			if !ok || as.Tok != token.ASSIGN || len(as.Lhs) != 1 || len(as.Rhs) != 1 {
				return true
			}
			name := strings.ToLower(text(be.X) + " " + text(as.Lhs[0]))
			if !strings.Contains(name, word) || !strings.Contains(name, "backoff") {
				return true
			}
			if v, ok := constExpr(as.Rhs[0], nil); ok {
				vals = append(vals, v)
			}
			return true
		})
	}
	return vals
}

func leanOptNatList(xs []string, ok bool) string {
	if !ok {
		return "none"
	}
	return "some [" + strings.Join(xs, ", ") + "]"
}

// assignedConst finds the single plain assignment `name = <const expr>` in the body.
func assignedConst(body *ast.BlockStmt, name string) (string, bool) {
	var vals []string
	bad := false
	if body == nil {
		return "", false
	}
	ast.Inspect(body, func(n ast.Node) bool {
		as, ok := n.(*ast.AssignStmt)
		if !ok || as.Tok != token.ASSIGN || len(as.Lhs) != 1 || len(as.Rhs) != 1 {
			return true
		}
		if id, ok := as.Lhs[0].(*ast.Ident); ok && id.Name == name {
			if v, ok := constExpr(as.Rhs[0], nil); ok {
				vals = append(vals, v)
			} else {
				bad = true
			}
		}
		return true
	})
	if bad || len(vals) != 1 {
		return "", false
	}
	return vals[0], true
}

func backoffFacts() string {
	var b strings.Builder
	b.WriteString("/-! ### G7: backoff parameters and retryable dial status codes (C18) -/\n")

	// JoinOnStartup
	// (the only call of the package, in whichever function it lives)
	calls := pkgBackoffNewCalls("server/gossip")
	var args []string
	ok := len(calls) == 1 && len(calls[0]) == 3
	if ok {
		for _, a := range calls[0] {
			v, good := constExpr(a, nil)
			if !good {
				ok = false
				break
			}
			args = append(args, v)
		}
	}
	b.WriteString("/-- arguments of the only `backoff.New` call in `Gossip.JoinOnStartup`: retries, min ns, max ns -/\n")
	b.WriteString("def joinBackoffArgs : Option (List Nat) := " + leanOptNatList(args, ok) + "\n")

	// Upstream.connect
	// the only `backoff.New` call of package client; the defaults are the constants assigned when a
	// reconnect-backoff value is zero, wherever that happens (connect itself or a helper)
	calls = pkgBackoffNewCalls("client")
	retries, ok := "", len(calls) == 1 && len(calls[0]) == 3
	if ok {
		retries, ok = constExpr(calls[0][0], nil)
	}
	b.WriteString("/-- first argument (retries) of the only `backoff.New` call in `Upstream.connect` -/\n")
	if ok {
		b.WriteString("def connectBackoffRetries : Option Nat := some " + retries + "\n")
	} else {
		b.WriteString("def connectBackoffRetries : Option Nat := none\n")
	}
	mins, maxs := zeroDefaults("client", "min"), zeroDefaults("client", "max")
	dmin, ok1 := "", len(mins) == 1
	dmax, ok2 := "", len(maxs) == 1
	if ok1 {
		dmin = mins[0]
	}
	if ok2 {
		dmax = maxs[0]
	}
	b.WriteString("/-- defaults assigned in `Upstream.connect` when Min/MaxReconnectBackoff are zero: min ns, max ns -/\n")
	b.WriteString("def connectDefaultBackoffs : Option (List Nat) := " + leanOptNatList([]string{dmin, dmax}, ok1 && ok2) + "\n")

	// retryableStatusCodes
	_, f := parseFile("pkg/websocket/conn.go")
	var codes []int
	ok = false
	if f != nil {
		for _, d := range f.Decls {
			gd, isGen := d.(*ast.GenDecl)
			if !isGen || gd.Tok != token.VAR {
				continue
			}
			for _, sp := range gd.Specs {
				vs, isVal := sp.(*ast.ValueSpec)
				if !isVal || len(vs.Names) != 1 || vs.Names[0].Name != "retryableStatusCodes" || len(vs.Values) != 1 {
					continue
				}
				cl, isLit := vs.Values[0].(*ast.CompositeLit)
				if !isLit {
					continue
				}
				ok = true
				for _, el := range cl.Elts {
					kv, isKV := el.(*ast.KeyValueExpr)
					if !isKV {
						ok = false
						break
					}
					switch k := kv.Key.(type) {
					case *ast.SelectorExpr:
						id, isID := k.X.(*ast.Ident)
						code, known := httpStatusByName[k.Sel.Name]
						if !isID || id.Name != "http" || !known {
							ok = false
						}
						codes = append(codes, code)
					case *ast.BasicLit:
						n, err := strconv.Atoi(k.Value)
						if err != nil {
							ok = false
						}
						codes = append(codes, n)
					default:
						ok = false
					}
				}
			}
		}
	}
	sort.Ints(codes)
	var cs []string
	for _, c := range codes {
		cs = append(cs, strconv.Itoa(c))
	}
	b.WriteString("/-- keys of `retryableStatusCodes` in `pkg/websocket/conn.go`, sorted -/\n")
	b.WriteString("def retryableStatusCodes : Option (List Nat) := " + leanOptNatList(cs, ok) + "\n")
	return b.String()
}
